import Capnp.Spec.Packing
import Capnp.Spec.Encoding
import Capnp.Model.Packed
import Capnp.Model.Read
import Capnp.Props.C01
import Capnp.Props.C02
import Capnp.Props.C03
import Capnp.Props.C13
