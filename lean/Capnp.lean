import Capnp.Spec.Packing
import Capnp.Model.Packed
