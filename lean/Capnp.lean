import Capnp.Spec.Packing
import Capnp.Model.Packed
import Capnp.Spec.Encoding
