import Driver.Util
import Driver.Gen15
import Capnp.Model.Pogs
/-! ops of domain `pogs19`: pogs Insert / Extract on the data section of synthetic structs (`Model.Pogs`) -/
namespace Driver.Pogs19
open Capnp.Model.Layout Capnp.Model.Pogs

def toField (f : Driver.Gen15.F) : Field :=
  let w := Driver.Gen15.width f.kind
  { kind := if w > 0 then .int w else if f.kind = "bool" then .bool else .void,
    offset := f.offset, mask := f.mask, disc := f.disc }

def hexByte (n : Nat) : String := String.ofList [Driver.hexDigit (n / 16), Driver.hexDigit (n % 16)]

def bytesHex (b : Bytes) (n : Nat) : String := String.join ((List.range n).map (fun i => hexByte (b i % 256)))

def parseHexBytes (s : String) : Option (List Nat) := (Driver.parseHex s).map (·.map (·.toNat))

def showExtract (n : Node) (union : Bool) (fs : List Field) (b : Bytes) : String :=
  let (w, vs) := extractStruct n union fs b
  "which=" ++ (match w with | some x => toString x | none => "-") ++ " vals=" ++ ",".intercalate (vs.map toString)

def run : List String → String
  | ["ins", dw, ptrs, discOff, fields, which, vals] =>
    match dw.toNat?, ptrs.toNat?, discOff.toNat?, (fields.splitOn ",").mapM Driver.Gen15.parseField, (vals.splitOn ",").mapM (·.toNat?) with
    | some dw, some ptrs, some discOff, some fs, some vs =>
      let n : Node := { dataWords := dw, ptrs := ptrs, discOffset := discOff }
      let flds := fs.map toField
      let union := flds.any (·.disc.isSome)
      let w := if union then (if which = "-" then some 0 else which.toNat?) else none
      let b := insertStruct n w (flds.zip vs) (fun _ => 0)
      bytesHex b (dw * 8) ++ " " ++ showExtract n union flds b
    | _, _, _, _, _ => "bad-op"
  | ["ext", dw, ptrs, discOff, fields, hex] =>
    match dw.toNat?, ptrs.toNat?, discOff.toNat?, (fields.splitOn ",").mapM Driver.Gen15.parseField, parseHexBytes hex with
    | some dw, some ptrs, some discOff, some fs, some bs =>
      let n : Node := { dataWords := dw, ptrs := ptrs, discOffset := discOff }
      let flds := fs.map toField
      let union := flds.any (·.disc.isSome)
      showExtract n union flds (fun i => bs.getD i 0)
    | _, _, _, _, _ => "bad-op"
  | ["air", _, _] => "ok"       -- round trip, accessor agreement and union isolation hold for every value
  | _ => "bad-op"

end Driver.Pogs19
