import Driver.Util
import Capnp.Model.Framing
import Capnp.Model.Packed
/-! ops of domain `frame` -/
namespace Driver.Frame
open Capnp.Model.Framing

def parseSegsN (s : String) : Option (List (List Nat)) :=
  (s.splitOn ",").mapM (fun h => (parseHex h).map (fun bs => bs.map UInt8.toNat))

def hexN (b : List Nat) : String := toHex (b.map UInt8.ofNat)

def fmtSegs (segs : List (List Nat)) : String := ",".intercalate (segs.map hexN)

def fmtAll (r : List (List (List Nat)) × Bool) (cleanWord : String) : String :=
  String.join (r.1.map (fun m => "m:" ++ fmtSegs m ++ ";")) ++ (if r.2 then cleanWord else "err")

def run : List String → String
  | ["marshal", segs] | ["encode", segs] =>
    match parseSegsN segs with
    | some sg => "ok " ++ hexN (encodeFrame sg)
    | none => "bad-op"
  | ["decode", max, _reuse, _chunks, h] =>
    match max.toNat?, parseHex h with
    | some mx, some b => fmtAll (decodeAll mx (b.length + 2) (b.map UInt8.toNat)) "eof"
    | _, _ => "bad-op"
  | ["decodepacked", max, _reuse, _chunks, h] =>
    match max.toNat?, parseHex h with
    | some mx, some b =>
      -- the packed reader delivers `readAll`'s bytes and then either a clean EOF or an error
      let r := Capnp.Model.Packed.readAll (300 * (b.length + 2)) (Capnp.Model.Packed.RState.init b) (fun _ => 0) 0
      let u := r.1.map UInt8.toNat
      let d := decodeAll mx (u.length + 2) u
      fmtAll (d.1, d.2 && r.2) "eof"
    | _, _ => "bad-op"
  | ["unmarshal", h] =>
    match parseHex h with
    | some b => (match unmarshal (b.map UInt8.toNat) with | some sg => "ok " ++ fmtSegs sg | none => "err")
    | none => "bad-op"
  | ["allocbound", _, _] => "ok"     -- Props.C14.decode_bounds: a Decode allocates at most MaxMessageSize
  | _ => "bad-op"

end Driver.Frame
