import Driver.Util
import Capnp.Model.Rpc
import Capnp.Model.Transport
/-! ops of domain `rpc`: scripts of peer messages / application returns over `Model.Rpc` (inbound side) -/
namespace Driver.Rpc
open Capnp.Model.Rpc

structure DS where
  s : RS
  heldOrder : List Nat := []     -- answer ids of method-1 calls, in delivery order
  cmdSent : List Nat := []       -- indices of held calls whose command buffer is occupied (nobody will read it)
  closeCalled : Bool := false

def showOut : Out → String
  | .ret a none caps => ">Ret(" ++ toString a ++ ",res,iface," ++ "+".intercalate caps ++ ")"
  | .ret a (some t) caps => ">Ret(" ++ toString a ++ ",res,t" ++ toString t ++ "," ++ "+".intercalate caps ++ ")"
  | .retExc a => ">Ret(" ++ toString a ++ ",exc)"
  | .fin q rel => ">Fin(" ++ toString q ++ "," ++ toString rel ++ ")"
  | .rel id n => ">Rel(" ++ toString id ++ "," ++ toString n ++ ")"
  | .boot q => ">Boot(" ++ toString q ++ ")"
  | .call q tgt m tag caps => ">Call(" ++ toString q ++ "," ++ tgt ++ ",m" ++ toString m ++ ",t" ++ toString tag ++ "," ++ "+".intercalate caps ++ ")"
  | .abort => ">Abort"
  | .deliver k m tag => "@k" ++ toString k ++ ".m" ++ toString m ++ ".t" ++ toString tag
  | .cancelled tag => "cancelled t" ++ toString tag
  | .sd k => "sd k" ++ toString k
  | .done => "#done"

def sortStrs (l : List String) : List String := l.mergeSort (fun a b => a ≤ b)

def showTables (s : RS) : String :=
  let ex := (exportIds s).filterMap (fun id => (s.exports id).map (fun e => "e" ++ toString id ++ "=" ++ toString e.wireRefs))
  let ims := (s.imports.map (·.1)).mergeSort (· ≤ ·)
  let im := ims.filterMap (fun id => (lookup s.imports id).map (fun e => "i" ++ toString id ++ "=" ++ toString e.wireRefs))
  let an := ((s.answers.map (·.1)).mergeSort (· ≤ ·)).map (fun id => "a" ++ toString id)
  "T[" ++ ",".intercalate ex ++ "|" ++ ",".intercalate im ++ "|" ++ ",".intercalate an ++ "|L0]"

def showEvents (os : List Out) : String :=
  let strs := os.map showOut
  -- a Return for a call cancelled by the connection's own shutdown races the abort: it may or may not get out
  let aborting := strs.contains ">Abort"
  let wire := sortStrs ((strs.filter (·.startsWith ">")).filter (fun w => !(aborting && w.startsWith ">Ret(" && w.endsWith ",exc)")))
  let deliv := strs.filter (·.startsWith "@")
  let rest := sortStrs (strs.filter (fun s => !(s.startsWith ">") && !(s.startsWith "@")))
  " ".intercalate (wire ++ deliv ++ rest)

def parseDesc (d : String) : Option Desc :=
  let n := (d.drop 1).toString.toNat?
  match (d.take 1).toString, n with
  | "s", some n => some (.senderHosted n)
  | "m", some n => some (.senderPromise n)
  | "r", some n => some (.receiverHosted n)
  | "n", _ => some .none
  | "x", _ => some .unknown
  | _, _ => none

def parseCaps (s : String) : Option (List Desc) := (s.splitOn "+").mapM parseDesc

def parseTgt (t : String) : Option Tgt :=
  match (t.take 1).toString with
  | "e" => (t.drop 1).toString.toNat?.map Tgt.exp
  | "a" =>
    match (t.drop 1).toString.splitOn "." with
    | q :: path => do
      let q ← q.toNat?
      let path ← (path.filter (· ≠ "n")).mapM (·.toNat?)     -- `n`: a noop op, the transform is the same without it
      pure (.ans q path)
    | [] => none
  | _ => none

def track (d : DS) (s : RS) (os : List Out) : DS :=
  let newHeld := os.filterMap (fun o => match o with | .deliver _ 1 tag => some tag | _ => none)
  { d with s := s, heldOrder := d.heldOrder ++ newHeld }

def apiOp (d : DS) (op : String) : DS × String × List Out :=
  let body := (op.drop 2).toString
  let f := body.splitOn ":"
  let ev (e : Ev) : DS × String × List Out :=
    let (s, os) := stepTop true d.s e
    (track d s os, "-", os)
  match (op.take 2).toString, f with
  | "pB", [q] => match q.toNat? with | some q => ev (.bootstrap q) | none => (d, "bad-op", [])
  | "pC", [q, t, m] =>
    match q.toNat?, parseTgt t, m.toNat? with
    | some q, some t, some m => ev (.call q t m [])
    | _, _, _ => (d, "bad-op", [])
  | "pC", [q, t, m, caps] =>
    match q.toNat?, parseTgt t, m.toNat?, parseCaps caps with
    | some q, some t, some m, some caps => ev (.call q t m caps)
    | _, _, _, _ => (d, "bad-op", [])
  | "pF", [q, r] => match q.toNat? with | some q => ev (.finish q (r == "1")) | none => (d, "bad-op", [])
  | "pL", [id, n] => match id.toNat?, n.toNat? with | some id, some n => ev (.release id n) | _, _ => (d, "bad-op", [])
  | "aR", [k, kind] =>
    match k.toNat? with
    | none => (d, "bad-op", [])
    | some k =>
      match d.heldOrder[k]? with
      | none => (d, "skip", [])
      | some q =>
        if k ∈ d.cmdSent then (d, "skip", []) else
        let waiting := match lookup d.s.answers q with | some a => a.held | none => false
        if !waiting then ({ d with cmdSent := k :: d.cmdSent }, "-", []) else
        let kind := match kind with | "ok" => 0 | "exc" => 1 | "cap" => 2 | "same" => 3 | "big" => 4 | _ => 5
        let (s, os) := stepTop true d.s (.appRet q kind)
        (track d s os, "-", os)
  | "lZ", _ =>
    if d.closeCalled then (d, "err", []) else
    let (s, os) := stepTop true d.s .close
    (track { d with closeCalled := true } s os, "-", os)
  | _, _ => (d, "bad-op", [])

def run : List String → String
  | ["script", boot, script] =>
    -- a leading "q<n>" sets the AnswerQueueSize of the harness's capabilities; the model's queues are unbounded
    let ops := (script.splitOn ",").filter (fun o => !(o.startsWith "q"))
    let init : RS := if boot == "1" then {} else { hasBoot := false, refs := [], nCaps := 0 }
    let (_, out) := ops.foldl (fun (acc : DS × List String) op =>
      let (d, out) := acc
      let (d', res, os) := apiOp d op
      let evs := showEvents os
      (d', out ++ [op ++ ":" ++ res ++ ":" ++ (if evs = "" then "" else evs ++ " ") ++ showTables d'.s])) ({ s := init }, [])
    ";".intercalate (out ++ ["end::"])
  | [kind, _, n, plan] =>
    if kind ≠ "stream" ∧ kind ≠ "streampre" then "bad-op" else
    -- "streampre": every message was created while the stream was healthy; a broken stream then refuses the send itself
    let refused := if kind = "stream" then "n" else "e"
    match n.toNat? with
    | none => "bad-op"
    | some n =>
      -- every frame is written with two Writes: the header, then the single segment
      let outs : List Capnp.Model.Transport.W := (if plan = "-" then [] else plan.toList).map (fun c =>
        -- ('c': the peer took a few bytes, then the send was cancelled and the write deadline fired: a short write)
        if c = 'p' ∨ c = 'c' then .part else if c = 'z' then .zero else .full)
      let rec go (fuel : Nat) (s : Capnp.Model.Transport.TS) (outs : List Capnp.Model.Transport.W) (res : String) : Capnp.Model.Transport.TS × String :=
        match fuel with
        | 0 => (s, res)
        | fuel + 1 =>
          if s.broken then go fuel s outs (res ++ refused) else
          -- the Writes this frame consumes: up to the first failing one, at most two
          let o1 := outs.headD .full
          let (ws, rest) := if o1 ≠ .full then ([o1], outs.drop 1) else ([o1, (outs.drop 1).headD .full], outs.drop 2)
          let (s', ok) := Capnp.Model.Transport.send true s ws
          go fuel s' rest (res ++ (if ok then "o" else "e"))
      let (s, res) := go n {} outs ""
      let shape := String.join (s.log.map (fun x => match x with | .whole => "w" | .torn => "t"))
      res ++ " " ++ shape
  | ["check", _, _] => "ok"        -- the oracles of C06-C09 hold on every history
  | _ => "bad-op"

end Driver.Rpc
