import Driver.Util
import Driver.Rpc
import Capnp.Model.RpcQ
/-! ops of domain `rpcq`: scripts of local API calls and peer Returns over `Model.RpcQ` (outbound side) -/
namespace Driver.RpcQ
open Capnp.Model.RpcQ
open Capnp.Model.Rpc (Desc lookup)

structure DS where
  s : QS := {}
  wireQs : List Nat := []       -- question ids of every Bootstrap / Call sent, in wire order
  returned : List Nat := []     -- question ids the script has sent a Return for
  closeCalled : Bool := false

def showEv : Ev → String
  | .boot q => ">Boot(" ++ toString q ++ ")"
  | .call q tgt m tag => ">Call(" ++ toString q ++ "," ++ tgt ++ ",m" ++ toString m ++ ",t" ++ toString tag ++ ",)"
  | .fin q rel => ">Fin(" ++ toString q ++ "," ++ toString rel ++ ")"
  | .rel id n => ">Rel(" ++ toString id ++ "," ++ toString n ++ ")"
  | .abort => ">Abort"
  | .done => "#done"
  | .resolved c r => "=c" ++ toString c ++ "~" ++ r

def showEvents (os : List Ev) : String :=
  let strs := os.map showEv
  let wire := Driver.Rpc.sortStrs (strs.filter (·.startsWith ">"))
  let rest := Driver.Rpc.sortStrs (strs.filter (fun s => !(s.startsWith ">")))
  " ".intercalate (wire ++ rest)

def showTables (s : QS) : String :=
  let ims := (s.imports.map (·.1)).mergeSort (· ≤ ·)
  let im := ims.filterMap (fun id => (lookup s.imports id).map (fun e => "i" ++ toString id ++ "=" ++ toString e.wireRefs))
  "T[|" ++ ",".intercalate im ++ "||L0]"

/-- `Q<k>`: the k-th outstanding question (oldest first), as `harness/rpc.go` resolves it; 77 when there is none -/
def outstanding (d : DS) : List Nat :=
  d.returned.foldl (fun l r => l.erase r) d.wireQs

def resolveQ (d : DS) (t : String) : Option Nat :=
  if t.startsWith "Q" then
    match (t.drop 1).toString.toNat? with
    | none => none
    | some k =>
      let o := outstanding d
      some (if o.isEmpty then 77 else o[k % o.length]!)
  else t.toNat?

def track (d : DS) (s : QS) (os : List Ev) : DS :=
  { d with s := s, wireQs := d.wireQs ++ os.filterMap (fun o => match o with | .boot q => some q | .call q _ _ _ => some q | _ => none) }

/-- one op: the new state, the op as printed (symbolic ids resolved), its result, the events -/
def apiOp (d : DS) (op : String) : DS × String × String × List Ev :=
  let body := (op.drop 2).toString
  let f := body.splitOn ":"
  let ev (o : Op) : DS × String × String × List Ev :=
    let (s, os, r) := step d.s o
    (track d s os, op, r, os)
  let bad : DS × String × String × List Ev := (d, op, "bad-op", [])
  match (op.take 2).toString, f with
  | "lB", _ => ev .bootstrap
  | "lC", [h, m] => match h.toNat?, m.toNat? with | some h, some m => ev (.call h m) | _, _ => bad
  | "lP", [c, fl, m] => match c.toNat?, fl.toNat?, m.toNat? with | some c, some fl, some m => ev (.pipe c fl m) | _, _, _ => bad
  | "lH", [c, fl] => match c.toNat?, fl.toNat? with | some c, some fl => ev (.take c fl) | _, _ => bad
  | "lR", [h] => match h.toNat? with | some h => ev (.release h) | none => bad
  | "lX", [c] => match c.toNat? with | some c => ev (.cancel c) | none => bad
  | "lY", [c] => match c.toNat? with | some c => ev (.releaseResults c) | none => bad
  | "lZ", _ =>
    if d.closeCalled then (d, op, "err", []) else
    let (s, os, r) := step d.s .close
    (track { d with closeCalled := true } s os, op, r, os)
  | "pR", q :: kind :: rest =>
    match resolveQ d q with
    | none => bad
    | some q =>
      let caps : Option (List Desc) := match rest with | [] => some [] | [c] => Driver.Rpc.parseCaps c | _ => none
      let k : Option Nat := match kind with | "ok" => some 0 | "boot" => some 1 | "exc" => some 2 | _ => none
      match caps, k with
      | some caps, some k =>
        let shown := "pR" ++ toString q ++ ":" ++ ":".intercalate (kind :: rest)
        let (s, os, r) := step d.s (.ret q k caps)
        (track { d with returned := d.returned ++ [q] } s os, shown, r, os)
      | _, _ => bad
  | _, _ => bad

def run : List String → String
  | ["script", script] =>
    let ops := script.splitOn ","
    let (_, out) := ops.foldl (fun (acc : DS × List String) op =>
      let (d, out) := acc
      let (d', shown, res, os) := apiOp d op
      let evs := showEvents os
      (d', out ++ [shown ++ ":" ++ res ++ ":" ++ (if evs = "" then "" else evs ++ " ") ++ showTables d'.s])) ({}, [])
    ";".intercalate (out ++ ["end::"])
  | _ => "bad-op"

end Driver.RpcQ
