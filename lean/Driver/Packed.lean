import Driver.Util
import Capnp.Model.Packed
/-! ops of domain `packed` -/
namespace Driver.Packed
open Capnp.Model.Packed Capnp.Spec.Packing

def oracleOf (l : List Nat) : Nat → Nat := fun k => if l.isEmpty then 0 else l.getD (k % l.length) 0

def run : List String → String
  | ["pack", h] =>
    match parseHex h with
    | some s => if s.length % 8 ≠ 0 then "panic" else "ok " ++ toHex (pack (toWords (s.length / 8) s))
    | none => "bad-op"
  | ["unpack", h] =>            -- model of the Go one-shot decoder
    match parseHex h with
    | some s => let r := goUnpack s; if r.2 then "ok " ++ toHex r.1 else "err"
    | none => "bad-op"
  | ["strict", h] =>            -- the spec decoder (oracle)
    match parseHex h with
    | some s => match unpackStrict s with | some y => "ok " ++ toHex y | none => "err"
    | none => "bad-op"
  | ["stream", h, o] =>         -- model of the streaming reader under a `Buffered()` oracle
    match parseHex h, parseNats o with
    | some s, some l =>
      let r := readAll (300 * (s.length + 2)) (RState.init s) (oracleOf l) 0
      if r.2 then "ok " ++ toHex r.1 else "err"
    | _, _ => "bad-op"
  | ["strictstream", h, _] | ["streamread", h, _] =>   -- streaming must agree with the spec decoder
    match parseHex h with
    | some s => match unpackStrict s with | some y => "ok " ++ toHex y | none => "err"
    | none => "bad-op"
  | ["rt", h] | ["msgrt", h, _] =>   -- the spec decoder recovers x from the model's packed form
    match parseHex h with
    | some s =>
      if s.length % 8 ≠ 0 then "panic"
      else if unpackStrict (pack (toWords (s.length / 8) s)) = some s then "ok" else "mismatch"
    | none => "bad-op"
  | _ => "bad-op"

end Driver.Packed
