import Driver.Util
import Capnp.Model.ImportGen
/-! ops of domain `rpcgen`: schedules over `Model.ImportGen`; output: the table entry and the Releases of each step -/
namespace Driver.ImportGen
open Capnp.Model.ImportGen

structure DS where
  s : GS := {}
  handles : List Nat := []        -- handle → client
  stalled : Option Nat := none    -- the client that has a call parked in PlaceArgs

def tableStr (s : GS) : String :=
  match s.entry with
  | some e => "i1=" ++ toString e.wireRefs
  | none => ""

def stepOr (s : GS) (a : Act) : GS := (step true s a).getD s

def run : List String → String
  | ["sched", sched] =>
    let (_, out) := (sched.splitOn ",").foldl (fun (acc : DS × List String) st =>
      let (d, out) := acc
      let before := d.s.released
      let d' : Option DS :=
        if st = "r" then
          let s1 := stepOr d.s .recv
          match s1.entry with
          | some e => some { d with s := s1, handles := d.handles ++ [e.cur] }
          | none => none
        else if st = "g" then
          match d.stalled with
          | some k => some { d with s := (if (d.s.cl k).pending then stepOr d.s (.shutdown k) else d.s), stalled := none }
          | none => some d
        else
          match (st.drop 1).toString.toNat? with
          | none => none
          | some h =>
            match d.handles[h]? with
            | none => none
            | some k =>
              let s1 := stepOr d.s (.drop k)
              if st.startsWith "s" then some { d with s := s1, stalled := some k }
              else if st.startsWith "d" then
                -- the client's Shutdown runs at once unless one of its calls is parked
                if (s1.cl k).pending ∧ d.stalled ≠ some k then some { d with s := stepOr s1 (.shutdown k) }
                else some { d with s := s1 }
              else none
      match d' with
      | none => (d, out ++ [st ++ ":bad-op"])
      | some d' =>
        let rel := if d'.s.released > before then "Rel" ++ toString (d'.s.released - before) else ""
        (d', out ++ [st ++ ":" ++ tableStr d'.s ++ ":" ++ rel])) (({} : DS), [])
    ";".intercalate out
  | _ => "bad-op"

end Driver.ImportGen
