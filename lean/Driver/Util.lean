/-! Line-protocol helpers for the model driver: hex, tokens, small parsers. -/
namespace Driver

def hexVal (c : Char) : Option Nat :=
  if '0' ≤ c ∧ c ≤ '9' then some (c.toNat - '0'.toNat)
  else if 'a' ≤ c ∧ c ≤ 'f' then some (c.toNat - 'a'.toNat + 10) else none

def parseHexChars : List Char → Option (List UInt8)
  | [] => some []
  | [_] => none
  | a :: b :: r => do
    let x ← hexVal a; let y ← hexVal b; let t ← parseHexChars r
    pure (UInt8.ofNat (x*16+y) :: t)

/-- `-` denotes the empty byte string -/
def parseHex (s : String) : Option (List UInt8) :=
  if s = "-" then some [] else parseHexChars s.toList

def hexDigit (n : Nat) : Char := if n < 10 then Char.ofNat (48+n) else Char.ofNat (87+n)

def toHex (bs : List UInt8) : String :=
  if bs.isEmpty then "-" else
  String.ofList (bs.flatMap (fun b => [hexDigit (b.toNat/16), hexDigit (b.toNat%16)]))

def tokens (line : String) : List String :=
  (line.trimAscii.toString.splitOn " ").filter (· ≠ "")

/-- comma separated naturals; `-` = empty -/
def parseNats (s : String) : Option (List Nat) :=
  if s = "-" then some [] else (s.splitOn ",").mapM (·.toNat?)

def parseInt (s : String) : Option Int := s.toInt?

def parseInts (s : String) : Option (List Int) :=
  if s = "-" then some [] else (s.splitOn ",").mapM (·.toInt?)

end Driver
