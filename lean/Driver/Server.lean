import Driver.Util
import Capnp.Model.Server
/-! ops of domain `server`: sequential scripts over `Model.Server` (one `AQ` per launched call) -/
namespace Driver.Server
open Capnp.Model.Server

structure DC where
  rej : String := ""          -- why start() rejected the call: JS (shutdown) / JC (cancelled)
  res : String := ""          -- D (result) / F (implementation error)
  aq : AQ := qinit
  pipes : List (Nat × String) := []   -- pipelined calls made on this call's answer: id, fixed outcome ("" = ask the queue)
  held : Bool := false        -- the capability in the result blocks deliveries (after logging them) until opened
  pendingRet : Bool := false  -- the implementation returned, but `fulfill` is stuck in its first delivery
deriving Inhabited

structure DS where
  m : Nat
  cap : Nat
  s : SS
  dc : List DC := []
  nextPipe : Nat := 0

def app (m : Nat) (s : SS) (a : Act) : SS × Bool :=
  match step m s a with | some s' => (s', true) | none => (s, false)

def setDC (l : List DC) (k : Nat) (f : DC → DC) : List DC :=
  l.mapIdx (fun i d => if i = k then f d else d)

/-- run the sections of `start()` and `Shutdown` that are enabled, until none is -/
def settle (d : DS) : Nat → DS
  | 0 => d
  | fuel + 1 =>
    let ids := List.range d.s.n
    let (d', changed) := ids.foldl (fun (acc : DS × Bool) k =>
      let (d, ch) := acc
      let drained := d.s.drain ≠ 0
      let (s1, c1) := app d.m d.s (.enter k)
      let d := if c1 ∧ drained then { d with dc := setDC d.dc k (fun x => { x with rej := "JS" }) } else d
      let (s1, c0) := app d.m s1 (.wakeGate k)
      let (s2, c2) := app d.m s1 (.abortWait k)
      let d := if c2 then { d with dc := setDC d.dc k (fun x => { x with rej := "JC" }) } else d
      let drained2 := s2.drain ≠ 0
      let (s3, c3) := app d.m s2 (.slotWake k)
      let d := if c3 ∧ drained2 then { d with dc := setDC d.dc k (fun x => { x with rej := "JS" }) } else d
      let (s4, c4) := app d.m s3 (.release k)
      ({ d with s := s4 }, ch || c0 || c1 || c2 || c3 || c4)) (d, false)
    let (s5, c5) := app d'.m d'.s .shutdown2
    let d' := { d' with s := s5 }
    if changed || c5 then settle d' fuel else d'

def qapp (cap : Nat) (q : AQ) (a : QAct) : AQ :=
  match qstep cap q a with | some q' => q' | none => q

/-- the rest of a drain: remaining deliveries, `close(ready)`, blocked callers -/
def finishAQ (cap : Nat) (q : AQ) : AQ :=
  let q := (List.range q.taken.length).foldl (fun q _ => qapp cap q .deliverNext) q
  let q := qapp cap q .finish
  q.blocked.reverse.foldl (fun q k => qapp cap q (.wake k)) q

/-- fulfill/reject: take the queue, drain it, then let the blocked callers through (oldest first) -/
def drainAQ (cap : Nat) (q : AQ) (ok : Bool) : AQ :=
  let q := qapp cap q (.begin ok)
  let q := (List.range q.taken.length).foldl (fun q _ => qapp cap q .deliverNext) q
  let q := qapp cap q .finish
  q.blocked.reverse.foldl (fun q k => qapp cap q (.wake k)) q

def joinDots (l : List Nat) : String := ".".intercalate (l.map toString)

def showCall (d : DS) (k : Nat) : String :=
  let c := d.s.calls k
  let x := d.dc.getD k {}
  let st :=
    match c.ph, c.impl with
    | .gateWait, _ | .parked, _ | .slotWait, _ => "w"
    | .holding, .running => "u"
    | .holding, _ => "h"
    | .out, .running => "a"
    | .out, _ => x.res
    | .rejected, _ => x.rej
    | .absent, _ => "?"
  let st := if c.impl = .running ∧ c.cancelled then st ++ "c" else st
  let log := if x.aq.ok then x.aq.out else []
  if x.pipes.isEmpty ∧ log.isEmpty then st else
  let ps := x.pipes.map (fun (id, fixed) =>
    if fixed ≠ "" then fixed
    else if id ∈ x.aq.out then (if x.pendingRet then "q" else if x.aq.ok then "V" else "F")
    else if id ∈ x.aq.blocked then "b" else "q")
  st ++ "[" ++ String.join ps ++ "|" ++ joinDots log ++ "]"

def snapshot (d : DS) : String :=
  let cs := (List.range d.s.n).map (fun k => showCall d k ++ " ")
  let sh := if d.s.drain = 0 then "S-" else if d.s.shutPending then "Sp" ++ toString d.s.userShutdowns
            else "Sd" ++ toString d.s.userShutdowns
  -- order in which implementations started
  let started := (List.range d.s.n).filter (fun k => (d.s.calls k).tStart ≠ 0)
  let order := started.mergeSort (fun a b => (d.s.calls a).tStart ≤ (d.s.calls b).tStart)
  String.join cs ++ sh ++ " o" ++ joinDots order

def isRunning (d : DS) (k : Nat) : Bool :=
  k < d.s.n && (d.s.calls k).impl = .running && !(d.dc.getD k {}).pendingRet

def apiOp (d : DS) (op : String) : DS × String :=
  let fuel := 4 * d.s.n + 8
  let kind := op.take 1 |>.toString
  let arg := (op.drop 1).toString.toNat?
  match kind, arg with
  | "c", none =>
    if (List.range d.s.n).any (fun k => (d.s.calls k).ph = .gateWait ∨ (d.s.calls k).ph = .parked ∨ (d.s.calls k).ph = .slotWait) then (d, "skip") else
    let (s1, _) := app d.m d.s .arrive
    (settle { d with s := s1, dc := d.dc ++ [{}] } (fuel + 4), "-")
  | "a", some k =>
    if !isRunning d k then (d, "skip") else
    (settle { d with s := (app d.m d.s (.implAck k)).1 } fuel, "-")
  | "r", some k | "f", some k =>
    if !isRunning d k then (d, "skip") else
    let ok := kind == "r"
    let x := d.dc.getD k {}
    if ok ∧ x.held ∧ !x.aq.q.isEmpty then
      -- fulfill takes the queue and blocks inside the first delivery
      let aq := qapp d.cap (qapp d.cap x.aq (.begin true)) .deliverNext
      ({ d with dc := setDC d.dc k (fun x => { x with aq := aq, pendingRet := true }) }, "-")
    else
    let d := { d with s := (app d.m d.s (.implRet k)).1,
                      dc := setDC d.dc k (fun x => { x with res := if ok then "D" else "F", aq := drainAQ d.cap x.aq ok }) }
    (settle d fuel, "-")
  | "x", some k =>
    if k ≥ d.s.n then (d, "skip") else
    (settle { d with s := (app d.m d.s (.cancel k)).1 } fuel, "-")
  | "p", some k =>
    if k ≥ d.s.n then (d, "skip") else
    let c := d.s.calls k
    if c.ph ≠ .out ∧ c.ph ≠ .rejected then (d, "skip") else
    let x := d.dc.getD k {}
    if c.impl = .returned ∧ x.held then (d, "skip") else
    if !x.aq.blocked.isEmpty then (d, "skip") else
    let id := d.nextPipe
    if c.ph = .rejected then
      ({ d with nextPipe := id + 1, dc := setDC d.dc k (fun x => { x with pipes := x.pipes ++ [(id, x.rej)] }) }, "-")
    else
      -- the queue's own ids are consecutive per answer; map the global id onto them
      let lid := x.aq.next
      let aq := if c.impl = .returned ∧ x.aq.st = .queueing then drainAQ d.cap x.aq (x.res == "D") else x.aq
      let aq := qapp d.cap aq .pcall
      ({ d with nextPipe := id + 1, dc := setDC d.dc k (fun x => { x with aq := aq, pipes := x.pipes ++ [(lid, "")] }) }, "-")
  | "h", some k =>
    if !isRunning d k ∨ (d.dc.getD k {}).held then (d, "skip") else
    ({ d with dc := setDC d.dc k (fun x => { x with held := true }) }, "-")
  | "t", some k =>
    let x := d.dc.getD k {}
    if k ≥ d.s.n ∨ !x.held then (d, "skip") else
    if !x.pendingRet then ({ d with dc := setDC d.dc k (fun x => { x with held := false }) }, "-") else
    let d := { d with s := (app d.m d.s (.implRet k)).1,
                      dc := setDC d.dc k (fun x => { x with held := false, pendingRet := false, res := "D", aq := finishAQ d.cap x.aq }) }
    (settle d fuel, "-")
  | "s", none =>
    if d.s.drain ≠ 0 then (d, "skip") else
    (settle { d with s := (app d.m d.s .shutdown1).1 } fuel, "-")
  | _, _ => (d, "bad-op")

def run : List String → String
  | ["script", m, q, script] =>
    match m.toNat?, q.toNat? with
    | some m, some q =>
      let ops := script.splitOn ","
      let (_, out) := ops.foldl (fun (acc : DS × List String) op =>
        let (d, out) := acc
        let (d', res) := apiOp d op
        (d', out ++ [op ++ ":" ++ res ++ ":" ++ snapshot d'])) ({ m := m, cap := q, s := init }, [])
      ";".intercalate out
    | _, _ => "bad-op"
  | ["shutwait", _, _] => "ok"            -- Props.C12 `shutdown` / `progress`: callers waiting for a slot when Shutdown begins complete once, refused
  | ["failwindow", _] => "ok"             -- calls pipelined on a failed call complete once, with its error, also while its Return is in progress
  | ["stress", _, _, _, _, _] => "ok"     -- C12's invariants hold on every schedule
  | _ => "bad-op"

end Driver.Server
