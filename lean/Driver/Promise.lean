import Driver.Util
import Capnp.Model.Promise
import Driver.JoinRefs
/-! ops of domain `promise`: sequential API scripts over `Model.Promise` -/
namespace Driver.Promise
open Capnp.Model.Promise

def app (s : PS) (acts : List Act) : PS :=
  acts.foldl (fun s a => match step false s a with | some s' => s' | none => s) s

structure DS where
  s : PS
  hasProxyA : Bool      -- the script obtained path A's pipelined client while unresolved
  hasProxyB : Bool := false
  callsViaProxyAfter : Nat

/-- one API call in a sequential script: new state and the call's result -/
def apiOp (d : DS) (op : String) : DS × String :=
  let s := d.s
  match op with
  | "clientA" => ({ d with s := app s [.client true], hasProxyA := d.hasProxyA || decide (s.phase = .unresolved) }, "-")
  | "clientB" => ({ d with s := app s [.client false], hasProxyB := d.hasProxyB || decide (s.phase = .unresolved) }, "-")
  | "call" =>
    if s.phase = .unresolved then ({ d with s := app s [.callStart, .callEnd] }, "-")
    else ({ d with s := app s [.callStart] }, "-")
  | "callproxyA" =>
    if !d.hasProxyA then (d, "skip")
    else if s.released then (d, "-")                   -- the borrowed client was released by ReleaseClients: error answer
    else if s.phase = .unresolved then ({ d with s := app s [.callStart, .callEnd] }, "-")
    else ({ d with s := app s [.callStart] }, "-")     -- the proxy now refers to the capability in the result
  | "callproxyB" =>
    if !d.hasProxyB then (d, "skip")
    else if s.released then (d, "-")
    else if s.phase = .unresolved then ({ d with s := app s [.callStart, .callEnd] }, "-")
    else ({ d with s := app s [.callStart] }, "-")
  | "fulfill" | "reject" =>
    if s.phase ≠ .unresolved then (d, "skip")
    else ({ d with s := app s [.resolve1, .fulfillProxy true, .fulfillProxy false, .resolve2] }, "-")
  | "release" => if s.phase ≠ .resolved then (d, "skip") else ({ d with s := app s [.release] }, "-")
  | _ => (d, "bad-op")

def run : List String → String
  | ["script", script] =>
    let ops := script.splitOn ","
    -- a rejected promise delivers later calls to error clients, not to the result capability
    let (_, out, _) := ops.foldl (fun (acc : DS × List String × Bool) op =>
      let (d, out, rejected) := acc
      let (d', res) := apiOp d op
      let rejected := rejected || (op == "reject" && res == "-")
      let toRes := if rejected then 0 else d'.s.toResult
      (d', out ++ [op ++ ":" ++ res ++ ":c" ++ toString d'.s.toCaller ++ "r" ++ toString toRes], rejected))
      ({ s := init, hasProxyA := false, callsViaProxyAfter := 0 }, [], false)
    ";".intercalate out
  | ["joinpending"] => "ok"      -- a promise joined while its parent was resolving behaves as resolved afterwards
  | ["joinchain"] => "ok"        -- pipelined clients live until the last ReleaseClients of the chain
  | ["joinseq", script] => Driver.JoinRefs.run script
  | ["joinnested"] => "ok"       -- a call made on a promise that is pending join behind another pending join is delivered once
  | ["recvpending", _] => "ok"   -- an incoming pipelined call during pending resolution is returned once, its arguments released once
  | ["fulfillinflight"] => "ok"  -- resolution waits for the calls still inside the caller (Model.Promise: `ongoing = 0` is `resolve`'s guard)
  | ["joininflight"] => "ok"     -- a call made while Join waits for an in-flight call is delivered once, to the parent's caller
  | ["joinrel", _, _] => "ok"    -- clients of a joined chain live until every promise released; the result capability is shut down once
  | ["joinrel", _] => "ok"
  | ["proxyrace"] => "ok"        -- C11: none of these operations can block forever
  | ["join", _, _] => "ok"
  | ["stress", _, _, _] => "ok"
  | _ => "bad-op"

end Driver.Promise
