import Driver.Util
import Capnp.Model.JoinRefs
/-! ops of `promise joinseq`: sequences over `Model.JoinRefs`; output: each op's result and which clients are live -/
namespace Driver.JoinRefs
open Capnp.Model.JoinRefs

def parseOp (o : String) : Option Op :=
  let body := (o.drop 1).toString
  match (o.take 1).toString with
  | "n" => some .new
  | "c" => body.toNat?.map .client
  | "f" => body.toNat?.map .fulfill
  | "r" => body.toNat?.map .release
  | "j" =>
    match body.splitOn ":" with
    | [c, p] => match c.toNat?, p.toNat? with | some c, some p => some (.join c p) | _, _ => none
    | _ => none
  | _ => none

def liveStr (s : JS) : String :=
  String.join ((List.range s.nextClient).map (fun c => if s.live c then "1" else "0"))

def run (script : String) : String :=
  let ops := script.splitOn ","
  let (_, out) := ops.foldl (fun (acc : Option JS × List String) o =>
    match acc.1 with
    | none => acc
    | some s =>
      match parseOp o with
      | none => (none, acc.2 ++ [o ++ ":bad-op"])
      | some op =>
        match step false s op with
        | none => (none, acc.2 ++ [o ++ ":invalid"])
        | some s' =>
          let res := match op with
            | .client i =>
              let l := s.root i
              if s.resolved l then "res"
              else match s.row l with
                | c :: _ => "k" ++ toString c
                | [] => "k" ++ toString s.nextClient
            | _ => "-"
          (some s', acc.2 ++ [o ++ ":" ++ res ++ ":" ++ liveStr s'])) (some {}, [])
  ";".intercalate out

end Driver.JoinRefs
