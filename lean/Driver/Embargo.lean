import Driver.Util
import Capnp.Model.Embargo
/-! ops of domain `embargo`: schedules over `Model.Embargo`; output: what was delivered at each step -/
namespace Driver.Embargo
open Capnp.Model.Embargo

def parseAct : Char → Option Act
  | 'P' => some .pipe | 'R' => some .ret | 'A' => some .direct | 'F' => some .reflect | 'D' => some .echo | _ => none

def run : List String → String
  | ["sched", acts] =>
    let rec go (s : ES) (cs : List Char) (out : List String) : List String :=
      match cs with
      | [] => out
      | c :: rest =>
        match parseAct c with
        | none => out ++ ["bad-op"]
        | some a =>
          match step true s a with
          | none => out ++ [String.singleton c ++ ":invalid"]
          | some s' =>
            let newly := s'.delivered.drop s.delivered.length
            -- calls parked on one embargo are released together: their relative order is not defined
            let newly := if a = .echo then newly.mergeSort (· ≤ ·) else newly
            go s' rest (out ++ [String.singleton c ++ ":" ++ "+".intercalate (newly.map toString)])
    ";".intercalate (go {} acts.toList [])
  | _ => "bad-op"

end Driver.Embargo
