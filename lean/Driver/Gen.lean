import Driver.Util
import Capnp.Gen.Core
import Capnp.Gen.Strquote
/-! ops of domain `gen`: translator validation — evaluate a generated definition -/
namespace Driver.Gen
open Capnp.Prelude

def fmtInts (l : List Int) : String := ",".intercalate (l.map toString)

def run : List String → String
  | [name, args] =>
    match parseInts args with
    | none => "bad-op"
    | some a =>
      match (Capnp.Gen.dispatchCore name a).orElse (fun _ => Capnp.Gen.Strquote.dispatchStrquote name a) with
      | none => "unknown"
      | some (.error (.panic _)) => "panic"
      | some (.error (.err _)) => "err"
      | some (.ok r) => "ok " ++ fmtInts r
  | _ => "bad-op"

end Driver.Gen
