import Driver.Util
import Capnp.Model.Layout
/-! ops of domain `gen15`: what the schema demands of every generated accessor of a struct (`Model.Layout`) -/
namespace Driver.Gen15
open Capnp.Model.Layout

structure F where
  kind : String
  offset : Nat
  mask : Nat
  disc : Option Nat

def width (k : String) : Nat :=
  match k with
  | "u8" | "i8" => 1 | "u16" | "i16" | "enum" => 2 | "u32" | "i32" | "f32" => 4 | "u64" | "i64" | "f64" => 8 | _ => 0

def parseField (s : String) : Option F :=
  match s.splitOn ":" with
  | [k, o, m, d] => do
    let o ← o.toNat?
    let m ← m.toNat?
    let d ← if d = "-" then pure none else (d.toNat?).map some
    pure { kind := k, offset := o, mask := m, disc := d }
  | _ => none

def facts (n : Node) (i : Nat) (f : F) : List String :=
  let name := "F" ++ toString i
  let tag := match f.disc with | some d => ["tag" ++ toString (tagOff n) ++ "=" ++ toString d] | none => []
  let settag := match f.disc with | some d => ["settag" ++ toString (tagOff n) ++ "=" ++ toString d] | none => []
  let line (pre : String) (fs : List String) := pre ++ name ++ ":" ++ "+".intercalate fs
  let w := width f.kind
  if w > 0 then
    let fld : Field := { kind := .int w, offset := f.offset, mask := f.mask, disc := f.disc }
    let bits := toString (8 * w)
    let x := if f.mask = 0 then "" else "^" ++ toString f.mask
    [line "" (tag ++ ["G" ++ bits ++ "@" ++ toString fld.byteOff ++ x]),
     line "Set" (settag ++ ["S" ++ bits ++ "@" ++ toString fld.byteOff ++ x])]
  else
  let neg := if f.mask = 1 then "!" else ""
  let slot := toString f.offset
  match f.kind with
  | "bool" => [line "" (tag ++ ["GB@" ++ slot ++ neg]), line "Set" (settag ++ ["SB@" ++ slot ++ neg])]
  | "void" => if f.disc.isSome then [line "Set" settag] else []
  -- a Text/Data field with a schema default reads a null slot as that default, so its setter must never store null:
  -- SetNewText (always allocates) instead of SetText (null for ""), and a nil []byte is replaced by an empty one
  | "text" =>
    if f.mask = 0 then
      [line "" (tag ++ ["Ptr@" ++ slot]), line "Set" (settag ++ ["SetText@" ++ slot]), line "Has" (tag ++ ["HasPtr@" ++ slot])]
    else
      [line "" (tag ++ ["Ptr@" ++ slot, "TextDefault=d" ++ toString f.mask]), line "Set" (settag ++ ["SetNewText@" ++ slot]),
       line "Has" (tag ++ ["HasPtr@" ++ slot])]
  | "data" =>
    if f.mask = 0 then
      [line "" (tag ++ ["Ptr@" ++ slot]), line "Set" (settag ++ ["SetData@" ++ slot]), line "Has" (tag ++ ["HasPtr@" ++ slot])]
    else
      [line "" (tag ++ ["Ptr@" ++ slot, "DataDefault=d" ++ toString f.mask]), line "Set" (settag ++ ["nilempty", "SetData@" ++ slot]),
       line "Has" (tag ++ ["HasPtr@" ++ slot])]
  -- an interface field: the discriminant is stored before anything else, also when the client is null (early return)
  | "iface" =>
    [line "" (tag ++ ["Ptr@" ++ slot]), line "Set" (settag ++ ["SetPtr@" ++ slot, "SetPtr@" ++ slot]), line "Has" (tag ++ ["HasPtr@" ++ slot])]
  | "any" => [line "" (tag ++ ["Ptr@" ++ slot]), line "Set" (settag ++ ["SetPtr@" ++ slot]), line "Has" (tag ++ ["HasPtr@" ++ slot])]
  | "struct" | "list" =>
    [line "" (tag ++ ["Ptr@" ++ slot]), line "Set" (settag ++ ["SetPtr@" ++ slot]), line "Has" (tag ++ ["HasPtr@" ++ slot]),
     line "New" (settag ++ ["SetPtr@" ++ slot])]
  | _ => ["?"]

def hexNats (s : String) : Option (List Nat) :=
  if s = "-" then some [] else (Driver.parseHex s).map (fun l => l.map UInt8.toNat)

def run : List String → String
  | ["textslot", v, d, new] =>     -- `Struct.SetText` / `SetNewText` followed by `HasPtr` and `Ptr.TextDefault` (`Model.Layout`)
    match hexNats v, hexNats d with
    | some v, some d =>
      let slot := if new = "1" then structSetNewText v else structSetText v
      "has=" ++ toString slot.isSome ++ " get=" ++ Driver.toHex ((textDefault slot d).map UInt8.ofNat)
    | _, _ => "bad-op"
  | [dw, ptrs, discOff, fields] =>
    match dw.toNat?, ptrs.toNat?, discOff.toNat?, (fields.splitOn ",").mapM parseField with
    | some dw, some ptrs, some discOff, some fs =>
      let n : Node := { dataWords := dw, ptrs := ptrs, discOffset := discOff }
      let (d, p) := objectSize n
      let head := ["size=" ++ toString d ++ "/" ++ toString p, "id=a1a1a1a1a1a1a101"]
      let rec go (i : Nat) (l : List F) : List String :=
        match l with
        | [] => []
        | f :: rest => facts n i f ++ go (i + 1) rest
      ";".intercalate (head ++ go 0 fs)
    | _, _, _, _ => "bad-op"
  | _ => "bad-op"

end Driver.Gen15
