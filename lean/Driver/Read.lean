import Driver.Util
import Capnp.Model.Read
import Capnp.Spec.Encoding
import Capnp.Spec.Value
import Capnp.Spec.Canon
import Capnp.Model.CopyStruct
import Capnp.Model.Alloc
import Capnp.Model.EqualCap
/-! ops of domain `read`: canonical traversal of a message through the model's accessors -/
namespace Driver.Read
open Capnp.Prelude Capnp.Gen Capnp.Model.Read

structure WS where
  rl : Int
  nodes : Nat
  panicked : Bool := false

def b01 (b : Bool) : String := if b then "1" else "0"

def hex2 (n : Nat) : String := String.ofList [hexDigit (n / 16 % 16), hexDigit (n % 16)]

/-- run an accessor; a panic is recorded and rendered as `!` -/
def acc {α} (ws : WS) (r : Except Err α) (f : α → String) : String × WS :=
  match r with
  | .ok v => (f v, ws)
  | .error (.err _) => ("E", ws)
  | .error (.panic _) => ("!", { ws with panicked := true })

def idxs (n : Int) : List Int :=
  let k := if n < 4 then n else 4
  (List.range k.toNat).map Int.ofNat ++ (if n > 4 then [n - 1] else [])

mutual
def walkPtr : Nat → Msg → Ptr → WS → String × WS
  | 0, _, _, ws => ("F", ws)
  | fuel + 1, m, p, ws =>
    if ws.nodes = 0 then ("F", ws) else
    let ws := { ws with nodes := ws.nodes - 1 }
    match p with
    | .null => ("N", ws)
    | .cap _ idx => ("C" ++ toString idx, ws)
    | .struct s => walkStruct fuel m s ws
    | .list l => walkList fuel m l ws

def walkStruct : Nat → Msg → StructP → WS → String × WS
  | 0, _, _, ws => ("F", ws)
  | fuel + 1, m, s, ws =>
    let ds := s.size.DataSize
    let pc := s.size.PointerCount
    let out := "S" ++ toString ds ++ "," ++ toString pc ++ "{"
    let nb := if ds < 24 then ds else 24
    let (out, ws) := (List.range nb.toNat).foldl (fun (o, ws) k =>
      let (x, ws) := acc ws (s.uint m k 1) (fun v => hex2 v.toNat); (o ++ x, ws)) (out, ws)
    let (a, ws) := acc ws (s.uint m 0 8) toString
    let (b, ws) := acc ws (s.uint m 4 4) toString
    let (c, ws) := acc ws (s.uint m (if ds ≥ 2 then ds - 2 else 0) 2) toString
    let (d, ws) := acc ws (s.uint m ds 8) toString
    let out := out ++ "|" ++ a ++ "," ++ b ++ "," ++ c ++ "," ++ d ++ "|"
    let (a, ws) := acc ws (s.bit m 0) b01
    let (b, ws) := acc ws (s.bit m (if ds > 0 then ds * 8 - 1 else 0)) b01
    let (c, ws) := acc ws (s.bit m (ds * 8)) b01
    let out := out ++ a ++ b ++ c ++ "|"
    let (a, ws) := acc ws (s.hasPtr m (if pc > 0 then pc - 1 else 0)) b01
    let (b, ws) := acc ws (s.hasPtr m pc) b01
    let out := out ++ a ++ b
    let np := if pc < 6 then pc else 6
    let (out, ws) := (List.range np.toNat).foldl (fun (o, ws) i =>
      match s.ptr m i ws.rl with
      | (.error (.err _), rl) => (o ++ "E", { ws with rl := rl })
      | (.error (.panic _), _) => (o ++ "!", { ws with panicked := true })
      | (.ok p, rl) =>
        let (x, ws) := walkPtr fuel m p { ws with rl := rl }
        (o ++ x, ws)) (out, ws)
    (out ++ "}", ws)

def walkList : Nat → Msg → ListP → WS → String × WS
  | 0, _, _, ws => ("F", ws)
  | fuel + 1, m, l, ws =>
    let ds := l.size.DataSize
    let pc := l.size.PointerCount
    let out := "L" ++ toString l.flags ++ "," ++ toString l.length ++ "," ++ toString ds ++ "," ++ toString pc ++ "["
    let is := idxs l.length
    let (out, ws) :=
      if l.flags = isBitList then
        is.foldl (fun (o, ws) i => let (x, ws) := acc ws (l.bitAt m i) b01; (o ++ x, ws)) (out, ws)
      else if l.flags = isCompositeList ∨ pc > 0 then
        is.foldl (fun (o, ws) i =>
          let (o, ws) :=
            if pc ≥ 1 then
              match l.ptrAt m i ws.rl with
              | (.error (.err _), rl) => (o ++ "E", { ws with rl := rl })
              | (.error (.panic _), _) => (o ++ "!", { ws with panicked := true })
              | (.ok p, rl) => let (x, ws) := walkPtr fuel m p { ws with rl := rl }; (o ++ x, ws)
            else (o, ws)
          let (o, ws) :=
            if l.flags = isCompositeList then
              let (x, ws) := acc ws (l.uintAt m i 8) toString
              (o ++ "u" ++ x, ws)
            else (o, ws)
          match l.structAt i with
          | none => (o ++ "Z", ws)
          | some st =>
            if ws.nodes = 0 then (o ++ "F", ws) else
            let (x, ws) := walkStruct fuel m st { ws with nodes := ws.nodes - 1 }
            (o ++ x, ws)) (out, ws)
      else
        let w : Nat := ds.toNat
        let (out, ws) := is.foldl (fun (o, ws) i =>
          if w = 0 then (o ++ "v", ws) else
          let (x, ws) := acc ws (l.uintAt m i w) toString
          (o ++ x ++ ";", ws)) (out, ws)
        match is.head? with
        | none => (out, ws)
        | some i =>
          match l.structAt i with
          | none => (out ++ "Z", ws)
          | some st =>
            if ws.nodes = 0 then (out ++ "F", ws) else
            walkStruct fuel m st { ws with nodes := ws.nodes - 1 } |> fun (x, ws) => (out ++ x, ws)
    let (t, ws) := acc ws (l.text m) (fun r => match r with
      | none => "t-"
      | some bs => "t" ++ String.join ((bs.take 16).map hex2) ++ ":" ++ toString bs.length)
    let (d, ws) := acc ws (l.data m) (fun r => match r with
      | none => "d-"
      | some bs => "d" ++ toString bs.length)
    (out ++ "]" ++ t ++ d, ws)
end

/-- a segment is a `+`-joined list of parts: hex bytes or `z<N>` (N zero bytes) -/
def parsePart (p : String) : Option (Array UInt8) :=
  if p.startsWith "z" then (p.drop 1).toNat?.map (fun n => Array.replicate n 0)
  else (parseHex p).map List.toArray

def parseSeg (h : String) : Option ByteArray :=
  ((h.splitOn "+").mapM parsePart).map (fun parts => ByteArray.mk (parts.foldl (· ++ ·) #[]))

def parseSegs (s : String) : Option (Array ByteArray) :=
  ((s.splitOn ",").mapM parseSeg).map List.toArray

/-- ops of domain `build`: what the builder API wrote, judged by the spec alone -/
def runBuild : List String → String
  | "make" :: _ => "ok"          -- C04: every read-back path yields the written tree
  | ["bigstruct", _, _, _, _, d] =>   -- a struct pointer encodes at most 0xffff data words (Props.C05.isValid_spec)
    (match d.toNat? with | some n => if n ≤ 524280 then "ok" else "refused" | none => "bad-op")
  | "copy" :: _ => "ok"          -- C16: the copy equals the source and is independent of it
  | ["alloc", _, sizes] =>       -- C05: a run of allocations in a fresh single-segment message (Model.Alloc; the root pointer's word comes first)
    match (sizes.splitOn "+").mapM (·.toNat?) with
    | some szs =>
      let s := Capnp.Model.Alloc.allocFill { data := List.replicate 8 0, spare := [] } szs 1
      toHex (s.data.map UInt8.ofNat)
    | none => "bad-op"
  | ["copydata", src, dw, n, idx, old] =>   -- C16: `copyStruct`'s data path on the bytes of a list and of the object behind it (Model.CopyStruct)
    let hexNats (s : String) : Option (List Nat) := if s = "-" then some [] else (parseHex s).map (fun l => l.map UInt8.toNat)
    match hexNats src, dw.toNat?, n.toNat?, idx.toNat?, hexNats old with
    | some s, some dw, some n, some idx, some o =>
      let padded := (n * dw + 7) / 8 * 8
      let mem := o ++ List.replicate (padded - n * dw) 0 ++ List.replicate 8 0xcc
      let r := Capnp.Model.CopyStruct.copyInto mem (idx * dw) dw s
      toHex ((r.take (n * dw) ++ r.drop padded).map UInt8.ofNat)
    | _, _, _, _, _ => "bad-op"
  | ["copygrow", src, dw, n, idx, old, _] =>   -- C16 (the copy of a pointer moves the arena meanwhile; the data path is the same): `copyStruct`'s data path on the bytes of a list and of the object behind it (Model.CopyStruct)
    let hexNats (s : String) : Option (List Nat) := if s = "-" then some [] else (parseHex s).map (fun l => l.map UInt8.toNat)
    match hexNats src, dw.toNat?, n.toNat?, idx.toNat?, hexNats old with
    | some s, some dw, some n, some idx, some o =>
      let padded := (n * dw + 7) / 8 * 8
      let mem := o ++ List.replicate (padded - n * dw) 0 ++ List.replicate 8 0xcc
      let r := Capnp.Model.CopyStruct.copyInto mem (idx * dw) dw s
      toHex ((r.take (n * dw) ++ r.drop padded).map UInt8.ofNat) ++ "|ok"
    | _, _, _, _, _ => "bad-op"
  | ["spec", shadow, segs] =>    -- C05: the independent decoder reconstructs exactly the written tree
    match parseSegs segs with
    | some sg => let t := Capnp.Spec.Encoding.decodeTree sg; if t = shadow then "ok" else "diff " ++ t
    | none => "bad-op"
  | ["valid", segs] =>           -- C05: pointers resolve, objects are disjoint, segments are whole words
    match parseSegs segs with
    | some sg => if Capnp.Spec.Encoding.validMessage sg then "ok" else "invalid"
    | none => "bad-op"
  | _ => "bad-op"

/-- `read walk <T> <D> <seg0>,<seg1>,…` and the other `read` ops -/
def run : List String → String
  | ["walk", t, d, segs] =>
    match t.toInt?, d.toInt?, parseSegs segs with
    | some t, some d, some sg =>
      let m : Msg := ⟨sg⟩
      match root m d t with
      | (.error (.err _), rl) => "E rl=" ++ toString rl
      | (.error (.panic _), _) => "panic"
      | (.ok p, rl) =>
        let (s, ws) := walkPtr 100000 m p { rl := rl, nodes := 300 }
        if ws.panicked then "panic" else s ++ " rl=" ++ toString ws.rl
    | _, _, _ => "bad-op"
  | ["shadow", expected, _] => expected     -- what the harness encoded is what must be read
  | ["reuse", _, _, segs] =>     -- a reused Message / Decoder: the second message means what its own bytes mean
    match parseSegs segs with
    | some sg => Capnp.Spec.Encoding.decodeTree sg
    | none => "bad-op"
  | ["tree", segs] =>            -- the spec's meaning of the bytes (independent decoder)
    match parseSegs segs with
    | some sg => Capnp.Spec.Encoding.decodeTree sg
    | none => "bad-op"
  | ["equal", a, b, sh] =>       -- the documented equality of the two decoded value trees (spec);
                                 -- table index j of the second message holds client (j + sh) mod 8
    match parseSegs a, parseSegs b, sh.toNat? with
    | some sa, some sb, some shift =>
      match Capnp.Spec.Value.decodeRoot sa, Capnp.Spec.Value.decodeRoot sb with
      | some va, some vb =>
        if Capnp.Spec.Value.eq 200 va (Capnp.Spec.Value.mapCap (fun j => (j + shift) % 8) vb) then "true" else "false"
      | _, _ => "invalid"
    | _, _, _ => "bad-op"
  | ["defaults", segs] =>        -- which pointer fields of the root mean "the schema default": those not of the asked kind (null in particular), never a present empty struct or list
    match parseSegs segs with
    | some sg =>
      match Capnp.Spec.Value.decodeRoot sg with
      | some (.struct _ ps) =>
        ",".intercalate ((ps.take 8).map (fun p => match p with
          | .null => "N:d:d" | .struct _ _ => "S:o:d" | .list _ _ _ _ => "L:d:o" | .cap _ => "C:d:d"))
      | _ => "invalid"
    | none => "bad-op"
  | ["equalin", segs] =>         -- the same equality on two pointers of one message (pointer fields 0 and 1 of the root)
    match parseSegs segs with
    | some sg =>
      match Capnp.Spec.Value.decodeRoot sg with
      | some (.struct _ (p0 :: p1 :: _)) => if Capnp.Spec.Value.eq 200 p0 p1 then "true" else "false"
      | _ => "invalid"
    | none => "bad-op"
  | ["equalcap", segs, ntab, mask, m] =>   -- `Equal` on two capability pointers of one message (Model.EqualCap.eqSameMsg)
    match parseSegs segs, ntab.toNat?, mask.toNat?, m.toNat? with
    | some sg, some ntab, some mask, some m =>
      match Capnp.Spec.Value.decodeRoot sg with
      | some (.struct _ (.struct _ (.cap i :: _) :: .struct _ (.cap j :: _) :: _)) =>
        let tab : Nat → Option Nat := fun k => if mask / 2 ^ k % 2 = 1 then none else some (k % m)
        if Capnp.Model.EqualCap.eqSameMsg ntab tab i j then "true" else "false"
      | _ => "invalid"
    | _, _, _, _ => "bad-op"
  | ["equalcopy", segs, _] =>    -- Props.C17: a value equals its deep copy and its zero-extension (eq_refl, the relayout theorems)
    match parseSegs segs with
    | some sg => match Capnp.Spec.Value.decodeRoot sg with | some _ => "true" | none => "invalid"
    | none => "bad-op"
  | ["equalsym", _, _, _] => "ok"   -- Props.C17.eq_symm / eq_refl: whatever the capability table holds
  | ["canon", segs] =>           -- the spec's canonical bytes of the decoded root struct
    match parseSegs segs with
    | some sg =>
      match Capnp.Spec.Value.decodeRoot sg with
      | none => "invalid"
      | some v =>
        let v := match v with | .struct _ _ => v | _ => .null     -- Canonicalize takes a Struct
        match Capnp.Spec.Canon.canon v with
        | none => "err"
        | some bytes =>
          -- the canonical form must itself decode to an equal value
          let back := Capnp.Spec.Value.decodeRoot #[ByteArray.mk (bytes.map UInt8.ofNat).toArray]
          match back with
          | some w => if Capnp.Spec.Value.eq 200 v w then "ok " ++ toHex (bytes.map UInt8.ofNat) else "spec-bug-neq"
          | none => "spec-bug-undecodable"
    | none => "bad-op"
  | ["conc", _, _, _, _] => "ok"
  | ["concx", _, _, _] => "ok"
  | "nopanic" :: _ => "done"          -- C01: the consumer returns a value or an error
  | ["copycycle", _, _] => "ok"        -- C02.path_bounds: at most D dereferences along any path     -- Props.C02.budget_conc: granted + remaining ≤ T on every interleaving
  | _ => "bad-op"

end Driver.Read
