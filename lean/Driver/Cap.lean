import Driver.Util
import Capnp.Model.Cap
/-! ops of domain `cap`: sequential API scripts over the `Model.Cap` transition system -/
namespace Driver.Cap
open Capnp.Model.Cap

/-- complete the operation the way a single goroutine does: whoever waits for `done` proceeds to Shutdown -/
def drain (s : St) : St :=
  let s := match step false s (.passDone false) with | some s' => s' | none => s
  match step false s (.passDone true) with | some s' => s' | none => s

def app (s : St) (acts : List Act) : St :=
  drain (acts.foldl (fun s a => match step false s a with | some s' => s' | none => s) s)

/-- one API call: the new state and the call's own result -/
def apiOp (s : St) (op : String) : St × String :=
  match op with
  | "addT" => if s.onT = 0 then (s, "skip") else (app s [.addRef false], "-")
  | "addP" =>
    if s.onP = 0 then (s, "skip")
    else (app s [.addRef true], if s.pResolved ∧ s.toNil then "nil" else "-")
  | "relT" => if s.onT = 0 then (s, "skip") else (app s [.release false], "-")
  | "relP" => if s.onP = 0 then (s, "skip") else (app s [.release true], "-")
  | "callT" => if s.onT = 0 then (s, "skip") else (app s [.startCall false, .finishCall false], "hook")
  | "callP" =>
    if s.onP = 0 then (s, "skip")
    else if !s.pResolved then (app s [.startCall true, .finishCall true], "hook")
    else if s.toNil then (app s [.startCall true], "null")
    else (app s [.startCall true, .finishCall false], "hook")
  | "weakT" => if s.onT = 0 then (s, "skip") else (app s [.weakAdd false], "-")
  | "fulfill" => if s.pResolved ∨ s.onT = 0 then (s, "skip") else (app s [.fulfill false], "-")
  | "fulfillNil" => if s.pResolved then (s, "skip") else (app s [.fulfill true], "-")
  | _ => (s, "bad-op")

def run : List String → String
  | ["script", script] =>
    let ops := script.splitOn ","
    let (s, out) := ops.foldl (fun (acc : St × List String) op =>
      let (s, res) := apiOp acc.1 op
      (s, acc.2 ++ [op ++ ":" ++ res ++ ":t" ++ toString s.t.shut ++ "p" ++ toString s.p.shut])) (init, [])
    let out := if s.useAfter ∨ s.bad then out ++ ["use-after-shutdown"] else out
    ";".intercalate out
  | ["window"] => "ok"            -- Props.C10.shutdown_exactly_once: no Shutdown while a handle remains, on every interleaving
  | ["stress", _, _, _] => "ok"
  | _ => "bad-op"

end Driver.Cap
