import Driver.Util
import Capnp.Model.Cap
/-! ops of domain `cap`: sequential API scripts over the `Model.Cap` transition system -/
namespace Driver.Cap
open Capnp.Model.Cap

/-- complete the operation the way a single goroutine does: whoever waits for `done` proceeds to Shutdown -/
structure DS where
  s : St
  inflight : List Bool := []      -- hooks of the calls in flight, oldest first (true = the promise hook)
  weak : Bool := false            -- a weak reference to t was saved
  stale : Bool := false           -- a handle on t was released (the script kept the dead handle)
  staleP : Bool := false          -- … a handle of the promised client
  errHandles : Option Nat := none -- after a self-fulfilment: live handles of the promised client (they refer to the error client)

def drain (s : St) : St :=
  let s := match step false s (.passDone false) with | some s' => s' | none => s
  match step false s (.passDone true) with | some s' => s' | none => s

def app (s : St) (acts : List Act) : St :=
  drain (acts.foldl (fun s a => match step false s a with | some s' => s' | none => s) s)

/-- an operation that waits for `done` returns only if the wait can be passed -/
def parkedAfter (before after : St) : String :=
  if after.t.waiting > before.t.waiting ∨ after.p.waiting > before.p.waiting then "parked" else "-"

/-- one API call: the new state and the call's own result -/
def apiOp0 (s : St) (op : String) : St × String :=
  match op with
  | "addT" => if s.onT = 0 then (s, "skip") else (app s [.addRef false], "-")
  | "addP" =>
    if s.onP = 0 then (s, "skip")
    else (app s [.addRef true], if s.pResolved ∧ s.toNil then "nil" else "-")
  | "relT" => if s.onT = 0 then (s, "skip") else let s' := app s [.release false]; (s', parkedAfter s s')
  | "relP" => if s.onP = 0 then (s, "skip") else let s' := app s [.release true]; (s', parkedAfter s s')
  | "callT" => if s.onT = 0 then (s, "skip") else (app s [.startCall false, .finishCall false], "hook")
  | "callP" =>
    if s.onP = 0 then (s, "skip")
    else if !s.pResolved then (app s [.startCall true, .finishCall true], "hook")
    else if s.toNil then (app s [.startCall true], "null")
    else (app s [.startCall true, .finishCall false], "hook")
  | "weakT" => if s.onT = 0 then (s, "skip") else (app s [.weakAdd false], "-")
  | "fulfill" => if s.pResolved ∨ s.onT = 0 then (s, "skip") else let s' := app s [.fulfill false]; (s', parkedAfter s s')
  | "fulfillNil" => if s.pResolved then (s, "skip") else let s' := app s [.fulfill true]; (s', parkedAfter s s')
  | _ => (s, "bad-op")

def apiOp (d : DS) (op : String) : DS × String :=
  -- handles of a promise that was fulfilled with itself refer to an error client: a capability outside the model
  match d.errHandles, op with
  | some n, "addP" => if n = 0 then (d, "skip") else ({ d with errHandles := some (n + 1) }, "-")
  | some n, "relP" => if n = 0 then (d, "skip") else ({ d with errHandles := some (n - 1), staleP := true }, "-")
  | some n, "callP" => if n = 0 then (d, "skip") else (d, "err")
  | _, _ =>
  match op with
  | "fulfillSelf" =>
    if d.s.pResolved ∨ d.s.onP = 0 then (d, "skip")
    else let s' := app d.s [.fulfillSelf]; ({ d with s := s', errHandles := some d.s.onP }, parkedAfter d.s s')
  | "beginT" => if d.s.onT = 0 then (d, "skip") else ({ d with s := app d.s [.startCall false], inflight := d.inflight ++ [false] }, "-")
  | "beginP" =>
    if d.s.onP = 0 ∨ d.s.pResolved then (d, "skip")
    else ({ d with s := app d.s [.startCall true], inflight := d.inflight ++ [true] }, "-")
  | "end" =>
    match d.inflight with
    | [] => (d, "skip")
    | h :: rest => ({ d with s := app d.s [.finishCall h], inflight := rest }, "-")
  | "mkweakT" => if d.s.onT = 0 then (d, "skip") else ({ d with weak := true }, "-")
  | "upT" =>
    if !d.weak then (d, "skip")
    else if d.s.t.refs = 0 then (d, "gone") else ({ d with s := app d.s [.weakAdd false] }, "-")
  | "staleT" => if !d.stale then (d, "skip") else (d, "released")   -- a released handle is dead: invalid, calls refused
  | "staleP" => if !d.staleP then (d, "skip") else (d, "dead")     -- … whatever the promise resolved to
  | "relP" =>
    let (s', r) := apiOp0 d.s op
    ({ d with s := s', staleP := d.staleP || decide (r ≠ "skip") }, r)
  | "relT" =>
    let (s', r) := apiOp0 d.s op
    ({ d with s := s', stale := d.stale || decide (r ≠ "skip") }, r)
  | _ => let (s', r) := apiOp0 d.s op; ({ d with s := s' }, r)

def run : List String → String
  | ["script", script] =>
    let ops := script.splitOn ","
    let (d, out) := ops.foldl (fun (acc : DS × List String) op =>
      let (d, res) := apiOp acc.1 op
      (d, acc.2 ++ [op ++ ":" ++ res ++ ":t" ++ toString d.s.t.shut ++ "p" ++ toString d.s.p.shut])) ({ s := init }, [])
    let out := if d.s.useAfter ∨ d.s.bad then out ++ ["use-after-shutdown"] else out
    ";".intercalate out
  | ["chain"] => "ok"             -- a promise's references transfer to the capability it (transitively) resolves to
  | ["window"] => "ok"            -- Props.C10.shutdown_exactly_once: no Shutdown while a handle remains, on every interleaving
  | ["stress", _, _, _] => "ok"
  | _ => "bad-op"

end Driver.Cap
