import Driver.Util
import Driver.Packed
import Driver.Gen
import Driver.Read
import Driver.Frame
import Driver.Text
import Driver.Cap
import Driver.Promise
import Driver.Server
import Driver.Rpc
import Driver.RpcQ
import Driver.Embargo
import Driver.ImportGen
import Driver.Gen15
import Driver.Pogs19
/-! `modeld`: one operation per line on stdin, one canonical result per line on stdout. -/
open Driver

def dispatch (line : String) : String :=
  match tokens line with
  | "packed" :: rest => Driver.Packed.run rest
  | "gen" :: rest => Driver.Gen.run rest
  | "read" :: rest => Driver.Read.run rest
  | "frame" :: rest => Driver.Frame.run rest
  | "text" :: rest => Driver.Text.run rest
  | "cap" :: rest => Driver.Cap.run rest
  | "promise" :: rest => Driver.Promise.run rest
  | "server" :: rest => Driver.Server.run rest
  | "rpc" :: rest => Driver.Rpc.run rest
  | "rpcq" :: rest => Driver.RpcQ.run rest
  | "embargo" :: rest => Driver.Embargo.run rest
  | "rpcgen" :: rest => Driver.ImportGen.run rest
  | "gen15" :: rest => Driver.Gen15.run rest
  | "pogs19" :: rest => Driver.Pogs19.run rest
  | "build" :: rest => Driver.Read.runBuild rest
  | ["case", _] => "case"
  | _ => "bad-op"

partial def loop (h : IO.FS.Stream) (out : IO.FS.Stream) : IO Unit := do
  let line ← h.getLine
  if line.isEmpty then return ()
  out.putStrLn (dispatch line)
  loop h out

def main : IO Unit := do
  let out ← IO.getStdout
  loop (← IO.getStdin) out
  out.flush
