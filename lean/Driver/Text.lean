import Driver.Util
import Capnp.Model.Quote
/-! ops of domain `text` -/
namespace Driver.Text

def run : List String → String
  | ["quote", h] =>
    match parseHex h with
    | some b => "ok " ++ toHex ((Capnp.Model.Quote.quote (b.map UInt8.toNat)).map UInt8.ofNat)
    | none => "bad-op"
  | ["expect", expected, _, _, _] => "ok " ++ expected     -- the harness's independent renderer of the text format
  | ["history", _, _, _, _] => "same"                       -- output depends only on the struct and the schema
  | _ => "bad-op"

end Driver.Text
