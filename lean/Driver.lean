import Driver.Main
