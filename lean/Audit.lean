import Lean
/-!
`lake env lean --run Audit.lean <Module> …` lists, for every theorem declared in the given
modules, its name and the axioms it depends on (one JSON object per line).  Used by `check` to
count obligations / discharged and to enforce the axiom allow-list.
-/
open Lean

def allowed : List Name := [``propext, ``Classical.choice, ``Quot.sound]

unsafe def main (args : List String) : IO UInt32 := do
  enableInitializersExecution
  initSearchPath (← findSysroot)
  let mods := args.map (fun s => s.toName)
  let env ← importModules (mods.map (fun m => { module := m })).toArray {} (loadExts := true)
  let mut bad := 0
  for m in mods do
    let some idx := env.getModuleIdx? m | continue
    let consts := env.constants.fold (init := #[]) fun acc n ci =>
      if env.getModuleIdxFor? n == some idx then
        match ci with
        | .thmInfo _ => acc.push n
        | _ => acc
      else acc
    for n in consts.qsort (fun a b => a.toString < b.toString) do
      if n.isInternalDetail then continue
      if !((`Capnp.Props).isPrefixOf n || (`Capnp.Lemmas).isPrefixOf n || (`Capnp.Gen).isPrefixOf n) then continue
      let ctx : Core.Context := { fileName := "<audit>", fileMap := default }
      let (axArr, _) ← (collectAxioms n : CoreM _).toIO ctx { env }
      let axs := axArr.toList.map toString
      let okAx := axArr.all (fun a => allowed.contains a)
      if !okAx then bad := bad + 1
      IO.println (Json.compress (Json.mkObj [("module", toString m), ("theorem", toString n),
        ("axioms", Json.arr (axs.map Json.str).toArray), ("ok", okAx)]))
  return (if bad == 0 then 0 else 1)
