import Capnp.Model.Transport
/-!
# C09 — after a torn write no further bytes are written to the stream
-/
namespace Capnp.Props.C09
open Capnp.Model.Transport

/-- **the pinned code**: the header of a frame is written, the segment `Write` fails with 0 bytes (for example the
    context was cancelled between the two writes), and the next message is appended to the torn frame: the peer
    decodes garbage (D17).  The same happens after a short write, because the `partialWriteError` never survives
    `Encoder.Encode`'s wrapping. -/
theorem pinned_appends_to_torn_frame :
    ¬ WellFormed (run false {} [[.full, .zero], [.full, .full]]).log ∧
    ¬ WellFormed (run false {} [[.full, .part], [.full, .full]]).log := by
  constructor <;> decide

def Inv (s : TS) : Prop :=
  WellFormed s.log ∧ (s.broken = false → ∀ x ∈ s.log, x = Sent.whole)

theorem wf_append_whole (l : List Sent) (h : WellFormed l) (hall : ∀ x ∈ l, x = Sent.whole) : WellFormed (l ++ [.whole]) := by
  induction l with
  | nil => simp [WellFormed, wellFormed]
  | cons a t ih =>
    have ha : a = .whole := hall a (by simp)
    subst ha
    simp only [List.cons_append, WellFormed, wellFormed]
    apply ih
    · simpa [WellFormed, wellFormed] using h
    · intro x hx; exact hall x (by simp [hx])

theorem wf_append_torn (l : List Sent) (hall : ∀ x ∈ l, x = Sent.whole) : WellFormed (l ++ [.torn]) := by
  induction l with
  | nil => simp [WellFormed, wellFormed]
  | cons a t ih =>
    have ha : a = .whole := hall a (by simp)
    subst ha
    simp only [List.cons_append, WellFormed, wellFormed]
    exact ih (fun x hx => hall x (by simp [hx]))

theorem send_inv (s : TS) (o : List W) (h : Inv s) : Inv (send true s o).1 := by
  unfold send
  split
  · exact h
  · rename_i hb
    simp only [Bool.not_eq_true] at hb
    generalize writeFrame o false = r
    obtain ⟨wrote, failed⟩ := r
    simp only
    split
    · refine ⟨wf_append_whole _ h.1 (h.2 hb), fun _ x hx => ?_⟩
      simp only [List.mem_append, List.mem_singleton] at hx
      rcases hx with hx | hx
      · exact h.2 hb x hx
      · exact hx
    · split
      · exact ⟨wf_append_torn _ (h.2 hb), fun hf => by simp at hf⟩
      · exact h

/-- **after a torn write no further bytes are written**: for every sequence of messages and every outcome of
    every `Write` (complete, short, or failing before the first byte), the bytes on the stream are whole frames
    followed by at most one torn frame, and nothing follows a torn frame -/
theorem no_torn_tail (frames : List (List W)) : WellFormed (run true {} frames).log := by
  suffices h : ∀ s, Inv s → Inv (run true s frames) from (h {} ⟨by simp [WellFormed, wellFormed], fun _ x hx => by simp at hx⟩).1
  induction frames with
  | nil => intro s h; exact h
  | cons f fs ih => intro s h; exact ih _ (send_inv s f h)

/-- once the stream is broken every later `send` fails and leaves the stream untouched -/
theorem broken_sends_fail (s : TS) (h : s.broken = true) (o : List W) : send true s o = (s, false) := by
  unfold send; simp [h]

/-- a frame that failed before its first byte leaves the stream healthy (nothing torn): later frames are whole -/
example : (run true {} [[.zero], [.full, .full]]).log = [.whole] ∧ (run true {} [[.zero], [.full, .full]]).broken = false := by decide

-- non-vacuity: a short write in the second buffer of the second frame
example : (run true {} [[.full, .full], [.full, .part], [.full, .full]]) = { broken := true, log := [.whole, .torn] } := by decide

end Capnp.Props.C09
