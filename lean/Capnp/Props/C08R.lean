import Capnp.Model.ReturnAbort
/-!
# C08 — a Return that cannot be completed ends the connection, it does not wedge it (D33)

`Model.ReturnAbort`: with the pinned code (the handler's goroutine runs `Conn.shutdown` itself) the one reachable state
after the abort has no enabled step and is not the end — the Conn is wedged for ever; with the repaired code every
reachable state that is not the end has an enabled step, and every maximal run ends with the call finished and the
shutdown complete after at most three steps.  Tie: the directed script `pB0,pF0:0,pC1:e0:8,fW,pF1:1,pL1:1,fG,…` of
the hostile stream (harness/rpc.go), whose wind-down oracle observes exactly this (`!wind-down-blocked`).
-/
namespace Capnp.Props.C08R
open Capnp.Model.ReturnAbort

/-- **pinned: wedged.** After the abort nothing can move, and the shutdown has not completed -/
theorem pinned_wedges :
    ∃ s, step true init .abort = some s ∧ (∀ a, step true s a = none) ∧ s.shut ≠ .done := by
  refine ⟨{ handler := .waitShutdown, shut := .waitingForCalls }, by decide, ?_, by decide⟩
  intro a; cases a <;> decide

/-- reachable states of the repaired code -/
def Reach (s : St) : Prop := ∃ as, run false init as = some s

/-- the four states the repaired code can be in -/
theorem repaired_states (s : St) (h : Reach s) :
    s = init ∨ s = { handler := .afterReturn, shut := .waitingForCalls } ∨
    s = { handler := .finished, shut := .waitingForCalls } ∨ s = { handler := .finished, shut := .done } := by
  obtain ⟨as, h⟩ := h
  have key : ∀ (as : List Act) (s0 s : St),
      (s0 = init ∨ s0 = { handler := .afterReturn, shut := .waitingForCalls } ∨
       s0 = { handler := .finished, shut := .waitingForCalls } ∨ s0 = { handler := .finished, shut := .done }) →
      run false s0 as = some s →
      (s = init ∨ s = { handler := .afterReturn, shut := .waitingForCalls } ∨
       s = { handler := .finished, shut := .waitingForCalls } ∨ s = { handler := .finished, shut := .done }) := by
    intro as
    induction as with
    | nil => intro s0 s h0 hr; simp [run] at hr; subst hr; exact h0
    | cons a as ih =>
      intro s0 s h0 hr
      simp only [run] at hr
      cases hst : step false s0 a with
      | none => rw [hst] at hr; simp at hr
      | some s1 =>
        rw [hst] at hr
        refine ih s1 s ?_ hr
        rcases h0 with h0 | h0 | h0 | h0 <;> subst h0 <;> cases a <;> simp [step, init] at hst <;> subst hst <;> simp [init]
  exact key as init s (Or.inl rfl) h

/-- **repaired: never wedged.** Every reachable state is the end or has an enabled step -/
theorem repaired_progress (s : St) (h : Reach s) : finished s ∨ ∃ a s', step false s a = some s' := by
  rcases repaired_states s h with h | h | h | h <;> subst h
  · exact Or.inr ⟨.abort, { handler := .afterReturn, shut := .waitingForCalls }, by decide⟩
  · exact Or.inr ⟨.handlerFinishes, { handler := .finished, shut := .waitingForCalls }, by decide⟩
  · exact Or.inr ⟨.shutdownPasses, { handler := .finished, shut := .done }, by decide⟩
  · exact Or.inl ⟨rfl, rfl⟩

/-- … and the only maximal run is abort, the handler finishes, the shutdown passes -/
theorem repaired_run : run false init [.abort, .handlerFinishes, .shutdownPasses] = some { handler := .finished, shut := .done } := by
  decide

/-- the call of the handler is never finished twice, and the shutdown completes only after it -/
theorem shutdown_after_handler (s : St) (h : Reach s) : s.shut = .done → s.handler = .finished := by
  rcases repaired_states s h with h | h | h | h <;> subst h <;> simp [init]

end Capnp.Props.C08R
