import Capnp.Lemmas.RpcQ
/-!
# C06, outbound half — local calls resolve once, with their own Return; question ids are not reused early

The theorems quantify over every list of operations of `Capnp.Model.RpcQ` from the initial state: every sequence
of `Conn.Bootstrap`, calls on handles (resolved or not), pipelined calls on earlier calls (returned or not),
handles taken from results, releases of handles and results, cancellations, `Close`, interleaved with every
sequence of `Return`s from the peer — for existing questions or not, of the right kind or not, carrying any
capability descriptors.
-/
namespace Capnp.Props.C06Q
open Capnp.Model.RpcQ Capnp.Lemmas.RpcQ

theorem run_Inv (s : QS) (ops : List Op) (h : Inv s) : Inv (run s ops) := by
  induction ops generalizing s with
  | nil => exact h
  | cons o os ih => exact ih _ (step_Inv s o h)

theorem run_counts (s : QS) (ops : List Op) : Counts s (run s ops) (history s ops) := by
  induction ops generalizing s with
  | nil => exact counts_of_gcore s s [] rfl onlyRel_nil
  | cons o os ih => exact counts_trans _ _ _ _ _ (step_counts s o) (ih _)

/-- the ghost counters of a history are the numbers of Boot/Call, Finish and resolution events in it -/
theorem counters_are_event_counts (ops : List Op) (x : Nat) :
    (run {} ops).asked x = askedIn (history {} ops) x ∧ (run {} ops).finished x = finishedIn (history {} ops) x ∧
    (run {} ops).resolutions x = resolvedIn (history {} ops) x := by
  have := run_counts {} ops x
  simpa using this

/-- **a question id is not reused before its Finish is sent** (1): in every history, for every id, the Finishes sent
    never outnumber the Bootstraps/Calls sent with that id, and at most one of those is still without its Finish -/
theorem question_id_not_reused (ops : List Op) (q : Nat) :
    finishedIn (history {} ops) q ≤ askedIn (history {} ops) q ∧
    askedIn (history {} ops) q ≤ finishedIn (history {} ops) q + 1 := by
  obtain ⟨ha, hf, _⟩ := counters_are_event_counts ops q
  have hi := (run_Inv {} ops init_Inv).q
  rw [← ha, ← hf]
  exact ⟨hi.2.2.2.2 q, hi.2.1 q⟩

/-- **a question id is not reused before its Finish is sent** (2): a step sends a Bootstrap or Call with id q only
    when every earlier Bootstrap/Call with that id has had its Finish sent -/
theorem ask_only_when_finished (ops : List Op) (op : Op) (q : Nat)
    (h : 0 < askedIn (step (run {} ops) op).2.1 q) :
    askedIn (history {} ops) q = finishedIn (history {} ops) q := by
  obtain ⟨ha, hf, _⟩ := counters_are_event_counts ops q
  have hi := (run_Inv {} ops init_Inv).q
  have hi' := (step_Inv _ op (run_Inv {} ops init_Inv)).q
  obtain ⟨ca, cf, _⟩ := step_counts (run {} ops) op q
  have hnf := step_axf (run {} ops) op q h
  have h1 := hi'.2.1 q
  have h2 := hi.2.2.2.2 q
  rw [← ha, ← hf]
  omega

/-- **each call issued locally resolves at most once**, whatever the peer sends and whatever the application does
    with handles, results and contexts — and a call that is no longer pending has been resolved exactly once -/
theorem local_call_resolves_once (ops : List Op) (c : Nat) :
    resolvedIn (history {} ops) c ≤ 1 ∧
    (∀ v, (run {} ops).calls[c]? = some v → (∀ q, v ≠ .pending q) → resolvedIn (history {} ops) c = 1) := by
  obtain ⟨_, _, hr⟩ := counters_are_event_counts ops c
  have hi := (run_Inv {} ops init_Inv).r c
  rw [← hr, hi]
  constructor
  · cases (run {} ops).calls[c]? with
    | none => simp [resOf]
    | some v => cases v <;> simp [resOf]
  · intro v hv hnp
    rw [hv]
    exact resOf_np _ (by simp) (by intro q hq; exact hnp q (Option.some.inj hq))

/-- **… with the peer's result for its own question**: in every reachable state of an open connection, the
    un-cancelled question with id q belongs to exactly the local call that is waiting for q, and a `Return` for q
    resolves that call — with the results (and capabilities) of this Return, or its exception — and no other -/
theorem return_resolves_the_asker (ops : List Op) (q c kind : Nat) (descs : List Capnp.Model.Rpc.Desc)
    (hopen : (run {} ops).closed = false) (hq : (run {} ops).questions q = some ⟨.call c, false⟩) :
    (run {} ops).calls[c]? = some (.pending q) ∧
    (step (run {} ops) (.ret q kind descs)).1.calls[c]? =
      some (if kind = 2 then .failed .exc else .ok q (kind = 0) (recvCaps (run {} ops) descs).2) ∧
    (∀ c', c' ≠ c → (step (run {} ops) (.ret q kind descs)).1.calls[c']? = (run {} ops).calls[c']?) := by
  have hi := run_Inv {} ops init_Inv
  have hc := hi.l.qc q c hq
  have hlt : c < (run {} ops).calls.length := (List.getElem?_eq_some_iff.mp hc).1
  refine ⟨hc, ?_, ?_⟩
  · simp only [step, hopen, Bool.false_eq_true, ↓reduceIte, hq]
    split
    · simp [resolveCall, sendFinish, freeQ, getElem?_setAt, hlt]
    · have : (recvCaps (run {} ops) descs).1.calls = (run {} ops).calls := by
        have := recvCaps_icore (run {} ops) descs; simp only [icore, Prod.mk.injEq] at this; exact this.2.2.2.2.2.2.1
      simp [resolveCall, sendFinish, freeQ, getElem?_setAt, this, hlt]
  · intro c' hne
    simp only [step, hopen, Bool.false_eq_true, ↓reduceIte, hq]
    have hne' : ¬ c = c' := fun e => hne e.symm
    split
    · simp [resolveCall, sendFinish, freeQ, getElem?_setAt, hne']
    · have : (recvCaps (run {} ops) descs).1.calls = (run {} ops).calls := by
        have := recvCaps_icore (run {} ops) descs; simp only [icore, Prod.mk.injEq] at this; exact this.2.2.2.2.2.2.1
      simp [resolveCall, sendFinish, freeQ, getElem?_setAt, this, hne']

-- non-vacuity (kernel-evaluated): a bootstrap, a call pipelined on it, both Returns, a second call on the import that
-- reuses question id 0 after its Finish; a cancelled call whose late Return resolves nothing
example : (run {} [.bootstrap, .call 0 0, .ret 0 1 [.senderHosted 1], .ret 1 0 [], .call 0 0]).calls =
    [.ok 1 true [], .pending 0] := by decide
example : askedIn (history {} [.bootstrap, .call 0 0, .ret 0 1 [.senderHosted 1], .ret 1 0 [], .call 0 0]) 0 = 2 ∧
    finishedIn (history {} [.bootstrap, .call 0 0, .ret 0 1 [.senderHosted 1], .ret 1 0 [], .call 0 0]) 0 = 1 := by decide
example : resolvedIn (history {} [.bootstrap, .ret 0 1 [.senderHosted 1], .call 0 0, .cancel 0, .ret 0 0 []]) 0 = 1 := by decide

end Capnp.Props.C06Q
