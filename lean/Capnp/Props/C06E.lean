import Capnp.Model.Embargo
/-!
# C06 — calls reach a capability in the order they were made, also across promise resolution (embargo)

All schedules of `Capnp.Model.Embargo`: any number of pipelined calls before the Return, the Return, any number of
direct calls after it, interleaved in every way with the arrival of the forwarded pipelined calls and of the echoed
Disembargo.
-/
namespace Capnp.Props.C06E
open Capnp.Model.Embargo

/-- the loop holds the pipelined calls not yet reflected, in the order made, then the Disembargo if one is out -/
def loopOf (r n : Nat) (emb : Bool) : List Msg :=
  (List.range' r (n - r)).map Msg.call ++ (if emb then [Msg.dis] else [])

structure EInv (s : ES) (r : Nat) (ds : List Nat) : Prop where
  rle : r ≤ s.nPipe
  loop : s.loop = loopOf r s.nPipe s.embargoed
  nle : s.nPipe ≤ s.next
  deliv : s.delivered = List.range r ++ ds
  dsge : ∀ d ∈ ds, s.nPipe ≤ d
  parkge : ∀ p ∈ s.parked, s.nPipe ≤ p
  pre : s.returned = false → s.next = s.nPipe ∧ r = 0 ∧ ds = [] ∧ s.parked = [] ∧ s.embargoed = false
  emb : s.embargoed = true → ds = [] ∧ 0 < s.nPipe
  open_ : s.returned = true → s.embargoed = false → r = s.nPipe ∧ s.parked = []

theorem loopOf_push (r n : Nat) (h : r ≤ n) : loopOf r n false ++ [Msg.call n] = loopOf r (n + 1) false := by
  unfold loopOf
  simp only [Bool.false_eq_true, ↓reduceIte, List.append_nil]
  have : n + 1 - r = (n - r) + 1 := by omega
  rw [this, List.range'_concat, List.map_append]
  simp
  omega

theorem loopOf_head_call (r n : Nat) (emb : Bool) (t : Nat) (rest : List Msg) (h : loopOf r n emb = .call t :: rest) (hr : r ≤ n) :
    t = r ∧ r < n ∧ rest = loopOf (r + 1) n emb := by
  unfold loopOf at *
  by_cases hlt : r < n
  · have : n - r = (n - (r + 1)) + 1 := by omega
    rw [this, List.range'_succ] at h
    simp only [List.map_cons, List.cons_append, List.cons.injEq, Msg.call.injEq] at h
    exact ⟨h.1.symm, hlt, h.2.symm⟩
  · have : n - r = 0 := by omega
    rw [this] at h
    simp only [List.range'_zero, List.map_nil, List.nil_append] at h
    split at h <;> simp at h

theorem loopOf_head_dis (r n : Nat) (emb : Bool) (rest : List Msg) (h : loopOf r n emb = .dis :: rest) (hr : r ≤ n) :
    r = n ∧ emb = true ∧ rest = [] := by
  unfold loopOf at *
  by_cases hlt : r < n
  · have : n - r = (n - (r + 1)) + 1 := by omega
    rw [this, List.range'_succ] at h
    simp at h
  · have : n - r = 0 := by omega
    rw [this] at h
    simp only [List.range'_zero, List.map_nil, List.nil_append] at h
    cases emb with
    | true => simp at h; exact ⟨by omega, rfl, h⟩
    | false => simp at h

theorem step_EInv (s s' : ES) (a : Act) (r : Nat) (ds : List Nat) (h : EInv s r ds) (hs : step true s a = some s') :
    ∃ r' ds', EInv s' r' ds' := by
  obtain ⟨rle, hloop, nle, deliv, dsge, parkge, pre, emb, open_⟩ := h
  cases a with
  | pipe =>
    simp only [step] at hs
    split at hs
    · cases hs
    · rename_i hr
      have hr' : s.returned = false := by simpa using hr
      obtain ⟨p1, p2, p3, p4, p5⟩ := pre hr'
      simp only [Option.some.injEq] at hs; subst hs
      refine ⟨r, ds, ⟨by simp only; omega, ?_, by simp only; omega, deliv, ?_, ?_, ?_, ?_, ?_⟩⟩
      · simp only [hloop, p5, p1]; exact loopOf_push r s.nPipe rle
      · intro d hd; rw [p3] at hd; cases hd
      · intro p hp; simp only [p4] at hp; cases hp
      · intro _; simp only; exact ⟨by omega, p2, p3, p4, p5⟩
      · intro he; simp only [p5] at he; cases he
      · intro hret; simp only [hr'] at hret; cases hret
  | ret =>
    simp only [step] at hs
    split at hs
    · cases hs
    · rename_i hr
      have hr' : s.returned = false := by simpa using hr
      obtain ⟨p1, p2, p3, p4, p5⟩ := pre hr'
      split at hs
      · rename_i h0
        have h0' : s.nPipe = 0 := by simpa using h0
        simp only [Option.some.injEq] at hs; subst hs
        refine ⟨r, ds, ⟨rle, hloop, nle, deliv, dsge, parkge, ?_, emb, ?_⟩⟩
        · intro hh; simp at hh
        · intro _ _; exact ⟨by simp only; omega, p4⟩
      · rename_i h0
        have h0' : s.nPipe ≠ 0 := by simpa using h0
        simp only [Option.some.injEq] at hs; subst hs
        refine ⟨r, ds, ⟨rle, ?_, nle, deliv, dsge, parkge, ?_, ?_, ?_⟩⟩
        · simp only [hloop, p5, loopOf]; simp
        · intro hh; simp at hh
        · intro _; exact ⟨p3, by simp only; omega⟩
        · intro _ hh; simp at hh
  | direct =>
    simp only [step] at hs
    split at hs
    · cases hs
    · rename_i hr
      have hr' : s.returned = true := by simpa using hr
      split at hs
      · rename_i he
        simp only [Option.some.injEq] at hs; subst hs
        refine ⟨r, ds, ⟨rle, hloop, by simp only; omega, deliv, dsge, ?_, ?_, emb, ?_⟩⟩
        · intro p hp
          simp only [List.mem_append, List.mem_singleton] at hp
          rcases hp with hp | hp
          · exact parkge p hp
          · rw [hp]; simp only; omega
        · intro hh; simp only [hr'] at hh; cases hh
        · intro _ hh; simp only [he] at hh; cases hh
      · rename_i he
        have he' : s.embargoed = false := by simpa using he
        obtain ⟨o1, o2⟩ := open_ hr' he'
        simp only [Option.some.injEq] at hs; subst hs
        refine ⟨r, ds ++ [s.next], ⟨rle, hloop, by simp only; omega, ?_, ?_, parkge, ?_, ?_, ?_⟩⟩
        · simp only [deliv, List.append_assoc]
        · intro d hd
          simp only [List.mem_append, List.mem_singleton] at hd
          rcases hd with hd | hd
          · exact dsge d hd
          · rw [hd]; simp only; omega
        · intro hh; simp only [hr'] at hh; cases hh
        · intro hh; simp only [he'] at hh; cases hh
        · intro _ _; exact ⟨o1, o2⟩
  | reflect =>
    simp only [step] at hs
    split at hs
    · cases hs
    · rename_i hr
      have hr' : s.returned = true := by simpa using hr
      split at hs
      · rename_i t rest hl
        rw [hloop] at hl
        obtain ⟨ht, hlt, hrest⟩ := loopOf_head_call r s.nPipe s.embargoed t rest hl rle
        simp only [Option.some.injEq] at hs; subst hs
        subst ht
        -- a call is still in the loop: the embargo is in place (or nothing was ever delivered directly)
        have hds : ds = [] := by
          cases he : s.embargoed with
          | true => exact (emb he).1
          | false => have := (open_ hr' he).1; omega
        refine ⟨t + 1, [], ⟨hlt, hrest, nle, ?_, ?_, parkge, ?_, ?_, ?_⟩⟩
        · simp only [deliv, hds, List.append_nil, List.range_succ]
        · intro d hd; cases hd
        · intro hh; simp only [hr'] at hh; cases hh
        · intro he; exact ⟨rfl, (emb he).2⟩
        · intro _ he; have := (open_ hr' he).1; omega
      · cases hs
  | echo =>
    simp only [step] at hs
    split at hs
    · rename_i rest hl
      rw [hloop] at hl
      obtain ⟨hrn, he, hrest⟩ := loopOf_head_dis r s.nPipe s.embargoed rest hl rle
      simp only [Option.some.injEq] at hs; subst hs
      have hds := (emb he).1
      have hret : s.returned = true := by
        cases hr : s.returned with
        | true => rfl
        | false => have := (pre hr).2.2.2.2; rw [he] at this; cases this
      refine ⟨r, s.parked, ⟨rle, ?_, nle, ?_, parkge, ?_, ?_, ?_, ?_⟩⟩
      · simp only [hrest, loopOf, hrn]; simp
      · simp only [deliv, hds, List.append_nil]
      · intro p hp; cases hp
      · intro hh; simp only [hret] at hh; cases hh
      · intro hh; simp at hh
      · intro _ _; exact ⟨hrn, rfl⟩
    · cases hs

theorem init_EInv : EInv {} 0 [] := by
  refine ⟨Nat.le_refl _, ?_, Nat.le_refl _, rfl, ?_, ?_, ?_, ?_, ?_⟩
  · simp [loopOf]
  · intro d hd; cases hd
  · intro p hp; cases hp
  · intro _; exact ⟨rfl, rfl, rfl, rfl, rfl⟩
  · intro h; cases h
  · intro h; cases h

theorem run_EInv (s s' : ES) (as : List Act) (r : Nat) (ds : List Nat) (h : EInv s r ds) (hr : run true s as = some s') :
    ∃ r' ds', EInv s' r' ds' := by
  induction as generalizing s r ds with
  | nil => simp only [run, Option.some.injEq] at hr; subst hr; exact ⟨r, ds, h⟩
  | cons a as ih =>
    simp only [run] at hr
    cases hst : step true s a with
    | none => simp [hst] at hr
    | some s1 =>
      simp only [hst, Option.bind_some] at hr
      obtain ⟨r1, ds1, h1⟩ := step_EInv s s1 a r ds h hst
      exact ih s1 r1 ds1 h1 hr

/-- **calls are delivered in the order they were made, across resolution**: after every schedule, what the local
    capability has received is — the first `r` pipelined calls, exactly in the order the application made them
    (tags `0 … r-1`), followed by direct calls only (tags `≥ nPipe`); and a direct call has been delivered only if
    every pipelined call was delivered before it.  (Direct calls parked on one embargo come from different
    goroutines: their relative order is not defined by the property.) -/
theorem e_order (as : List Act) (s : ES) (h : run true {} as = some s) :
    ∃ r ds, s.delivered = List.range r ++ ds ∧ r ≤ s.nPipe ∧ (∀ d ∈ ds, s.nPipe ≤ d) ∧ (ds ≠ [] → r = s.nPipe) := by
  obtain ⟨r, ds, hi⟩ := run_EInv {} s as 0 [] init_EInv h
  refine ⟨r, ds, hi.deliv, hi.rle, hi.dsge, ?_⟩
  intro hne
  cases he : s.embargoed with
  | true => exact absurd (hi.emb he).1 hne
  | false =>
    cases hr : s.returned with
    | true => exact (hi.open_ hr he).1
    | false => exact absurd (hi.pre hr).2.2.1 hne

/-- nothing is delivered, and no direct call is let through, before its turn: while pipelined calls are still on
    their way round, the embargo is in place and direct calls wait -/
theorem parked_until_echo (as : List Act) (s : ES) (h : run true {} as = some s) (t : Nat) (ht : Msg.call t ∈ s.loop)
    (hret : s.returned = true) : s.embargoed = true := by
  obtain ⟨r, ds, hi⟩ := run_EInv {} s as 0 [] init_EInv h
  cases he : s.embargoed with
  | true => rfl
  | false =>
    have := (hi.open_ hret he).1
    rw [hi.loop, he, this] at ht
    simp [loopOf] at ht

/-- **the embargo is what gives the order**: a Conn that resolved the promise without embargoing would deliver a
    direct call before the pipelined call made earlier -/
theorem without_embargo_out_of_order :
    (run false {} [.pipe, .ret, .direct, .reflect]).map (·.delivered) = some [1, 0] := by decide

-- non-vacuity: two pipelined calls, the Return, two direct calls parked, the loop drains, a third direct call
example : (run true {} [.pipe, .pipe, .ret, .direct, .reflect, .direct, .reflect, .echo, .direct]).map (·.delivered) =
    some [0, 1, 2, 3, 4] := by decide

end Capnp.Props.C06E
