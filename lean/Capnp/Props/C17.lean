import Capnp.Spec.Value
/-!
# C17 — Equal is exactly the documented structural equality

`Spec.Value.eq` transcribes the doc comment of `capnp.Equal` over decoded value trees.  Here: it is
symmetric, reflexive on every tree that fits its fuel, and insensitive to trailing zero data / null
pointers (schema-version padding).  That the implementation computes `eq` is the S-stream of the C17
check (`Equal` on two encodings vs `eq` of the two spec-decoded trees).
-/
namespace Capnp.Props.C17
open Capnp.Spec.Value

theorem dataEq_symm (a b : List Nat) : dataEq a b = dataEq b a := by
  induction a generalizing b with
  | nil => cases b <;> simp [dataEq]
  | cons x xs ih =>
    cases b with
    | nil => simp [dataEq]
    | cons y ys =>
      simp only [dataEq]
      rw [ih ys]
      have : (x == y) = (y == x) := by
        cases h : x == y <;> cases h2 : y == x <;> simp_all
      rw [this]

theorem dataEq_refl (a : List Nat) : dataEq a a = true := by
  induction a with
  | nil => simp [dataEq]
  | cons x xs ih => simp [dataEq, ih]

/-- trailing zero bytes (a newer schema's extra fields, all default) do not change the value -/
theorem dataEq_pad (a : List Nat) (n : Nat) : dataEq (a ++ List.replicate n 0) a = true := by
  induction a with
  | nil => cases n <;> simp [dataEq, List.replicate]
  | cons x xs ih => simp [dataEq, ih]

def isNull : Val → Bool
  | .null => true
  | _ => false

theorem eqPtrs_symm (f : Nat) (h : ∀ a b, eq f a b = eq f b a) (xs ys : List Val) :
    eqPtrs f xs ys = eqPtrs f ys xs := by
  induction xs generalizing ys with
  | nil => cases ys <;> simp [eqPtrs]
  | cons x xs ih =>
    cases ys with
    | nil => simp [eqPtrs]
    | cons y ys => simp only [eqPtrs]; rw [h x y, ih ys]

theorem eqAll_symm (f : Nat) (h : ∀ a b, eq f a b = eq f b a) (xs ys : List Val) :
    eqAll f xs ys = eqAll f ys xs := by
  induction xs generalizing ys with
  | nil => cases ys <;> simp [eqAll]
  | cons x xs ih =>
    cases ys with
    | nil => simp [eqAll]
    | cons y ys => simp only [eqAll]; rw [h x y, ih ys]

theorem eqElems_symm (f : Nat) (h : ∀ a b, eq f a b = eq f b a) (n : Nat) (a b : Nat → Val) :
    eqElems f n a b = eqElems f n b a := by
  induction n with
  | zero => simp [eqElems]
  | succ n ih => simp only [eqElems]; rw [ih, h]

theorem listEq_comm {α} [BEq α] [LawfulBEq α] (a b : α) : (a == b) = (b == a) := by
  cases h : a == b <;> cases h2 : b == a <;> simp_all

/-- **`Equal` is symmetric** (as a property of the documented rules, for all value trees) -/
theorem eq_symm (f : Nat) (a b : Val) : eq f a b = eq f b a := by
  induction f generalizing a b with
  | zero => simp [eq]
  | succ f ih =>
    cases a <;> cases b <;> simp only [eq]
    · exact listEq_comm _ _
    · rename_i d1 p1 d2 p2
      rw [dataEq_symm d1 d2, eqPtrs_symm f ih p1 p2]
    · rename_i k1 n1 pr1 e1 k2 n2 pr2 e2
      by_cases hn : n1 = n2
      · subst hn
        simp only [ne_eq, not_true_eq_false, ↓reduceIte]
        by_cases hb : k1 = 1 ∨ k2 = 1
        · have hb' : k2 = 1 ∨ k1 = 1 := hb.symm
          simp only [hb, hb', ↓reduceIte]
          rw [listEq_comm pr1 pr2]
          cases h1 : decide (k1 = 1) <;> cases h2 : decide (k2 = 1) <;> simp
        · have hb' : ¬ (k2 = 1 ∨ k1 = 1) := fun h => hb h.symm
          simp only [hb, hb', ↓reduceIte]
          by_cases h7 : k1 ≠ 7 ∧ k2 ≠ 7
          · have h7' : k2 ≠ 7 ∧ k1 ≠ 7 := ⟨h7.2, h7.1⟩
            simp only [h7, h7', and_self, ↓reduceIte]
            by_cases hk : k1 = k2
            · subst hk
              simp only [beq_self_eq_true, Bool.true_and]
              by_cases h6 : k1 = 6
              · simp only [h6, ↓reduceIte]; exact eqAll_symm f ih e1 e2
              · simp only [h6, ↓reduceIte]; exact listEq_comm _ _
            · have hk' : ¬ k2 = k1 := fun h => hk h.symm
              have e1' : (k1 == k2) = false := by simp [hk]
              have e2' : (k2 == k1) = false := by simp [hk']
              rw [e1', e2']; simp
          · have h7' : ¬ (k2 ≠ 7 ∧ k1 ≠ 7) := fun h => h7 ⟨h.2, h.1⟩
            simp only [h7, h7', ↓reduceIte]
            exact eqElems_symm f ih n1 _ _
      · have hn' : ¬ n2 = n1 := fun h => hn h.symm
        simp [hn, hn']

/-! ## reflexivity -/

mutual
/-- the tree is shallow enough for `eq`'s fuel, and struct lists carry as many elements as their length
    says (what `decodeVal` produces) -/
def fits : Nat → Val → Bool
  | 0, _ => false
  | _ + 1, .null => true
  | _ + 1, .cap _ => true
  | f + 1, .struct _ ps => fitsAll f ps
  | f + 1, .list k n _ es => (k != 7 || es.length == n) && fitsAll f es
def fitsAll : Nat → List Val → Bool
  | _, [] => true
  | f, x :: xs => fits f x && fitsAll f xs
end

theorem eqPtrs_refl (f : Nat) (xs : List Val) (h : ∀ x ∈ xs, eq f x x = true) : eqPtrs f xs xs = true := by
  induction xs with
  | nil => simp [eqPtrs]
  | cons x xs ih =>
    simp only [eqPtrs, Bool.and_eq_true]
    exact ⟨h x (by simp), ih (fun y hy => h y (by simp [hy]))⟩

theorem eqAll_refl (f : Nat) (xs : List Val) (h : ∀ x ∈ xs, eq f x x = true) : eqAll f xs xs = true := by
  induction xs with
  | nil => simp [eqAll]
  | cons x xs ih =>
    simp only [eqAll, Bool.and_eq_true]
    exact ⟨h x (by simp), ih (fun y hy => h y (by simp [hy]))⟩

theorem eqElems_refl (f n : Nat) (a : Nat → Val) (h : ∀ i, i < n → eq f (a i) (a i) = true) : eqElems f n a a = true := by
  induction n with
  | zero => simp [eqElems]
  | succ n ih =>
    simp only [eqElems, Bool.and_eq_true]
    exact ⟨ih (fun i hi => h i (by omega)), h n (by omega)⟩

theorem fitsAll_mem (f : Nat) (xs : List Val) (h : fitsAll f xs = true) : ∀ x ∈ xs, fits f x = true := by
  induction xs with
  | nil => simp
  | cons x xs ih =>
    simp only [fitsAll, Bool.and_eq_true] at h
    intro y hy
    simp only [List.mem_cons] at hy
    rcases hy with rfl | hy
    · exact h.1
    · exact ih h.2 y hy

/-- **`Equal` is reflexive** on every value tree within the fuel -/
theorem eq_refl (f : Nat) (v : Val) (hf : fits f v = true) : eq f v v = true := by
  induction f generalizing v with
  | zero => simp [fits] at hf
  | succ f ih =>
    cases v with
    | null => simp [eq]
    | cap i => simp [eq]
    | struct d ps =>
      simp only [fits] at hf
      simp only [eq, Bool.and_eq_true]
      exact ⟨dataEq_refl d, eqPtrs_refl f ps (fun x hx => ih x (fitsAll_mem f ps hf x hx))⟩
    | list k n pr es =>
      simp only [fits, Bool.and_eq_true, Bool.or_eq_true, bne_iff_ne, ne_eq, beq_iff_eq] at hf
      obtain ⟨hshape, hall⟩ := hf
      have hmem := fitsAll_mem f es hall
      simp only [eq, ne_eq, not_true_eq_false, ↓reduceIte]
      by_cases hb : k = 1
      · simp [hb]
      · simp only [hb, or_self, ↓reduceIte]
        by_cases h7 : k = 7
        · have hlen : es.length = n := by
            rcases hshape with h | h
            · exact absurd h7 h
            · exact h
          simp only [h7, ne_eq, not_true_eq_false, and_self, ↓reduceIte]
          apply eqElems_refl
          intro i hi
          simp only [elemAsStruct]
          have : (7:Nat) ≠ 6 := by decide
          simp only [this, ↓reduceIte]
          have hi' : i < es.length := by omega
          rw [List.getD_eq_getElem?_getD, List.getElem?_eq_getElem hi']
          exact ih _ (hmem _ (List.getElem_mem hi'))
        · simp only [h7, ne_eq, not_false_eq_true, and_self, ↓reduceIte, beq_self_eq_true, Bool.true_and]
          by_cases h6 : k = 6
          · simp only [h6, ↓reduceIte]
            exact eqAll_refl f es (fun x hx => ih x (hmem x hx))
          · simp [h6]

/-- schema-version padding does not change the value: extra trailing zero data and extra null pointers -/
theorem eq_struct_pad (f : Nat) (d : List Nat) (ps : List Val) (n k : Nat) (hf : fitsAll f ps = true) :
    eq (f + 1) (.struct (d ++ List.replicate n 0) (ps ++ List.replicate k .null)) (.struct d ps) = true := by
  simp only [eq, Bool.and_eq_true]
  refine ⟨dataEq_pad d n, ?_⟩
  have hmem := fitsAll_mem f ps hf
  induction ps with
  | nil => cases k <;> simp [eqPtrs, List.replicate]
  | cons x xs ih =>
    simp only [List.cons_append, eqPtrs, Bool.and_eq_true]
    simp only [fitsAll, Bool.and_eq_true] at hf
    exact ⟨eq_refl f x hf.1, ih hf.2 (fitsAll_mem f xs hf.2)⟩

-- non-vacuity: a tree with every node kind fits fuel 4 and equals itself; a flipped bit breaks equality
example : fits 4 (.struct [1, 0] [.list 7 1 [] [.struct [5] [.null]], .list 1 3 [1, 0, 1] [], .cap 2]) = true := by decide
example : eq 4 (.list 1 3 [1, 0, 1] []) (.list 1 3 [1, 0, 0] []) = false := by simp [eq]
example : eq 4 (.list 1 3 [1, 0, 1] []) (.list 0 3 [] []) = false := by simp [eq]

/-! ## what is never equal: kinds, lengths, bit lists, element widths -/

/-- node kinds: 0 null, 1 capability, 2 struct, 3 list -/
def kind : Val → Nat
  | .null => 0 | .cap _ => 1 | .struct _ _ => 2 | .list _ _ _ _ => 3

/-- **values of different kinds are never equal** (null only to null, a capability only to a capability, …) -/
theorem eq_kind (f : Nat) (a b : Val) (h : eq f a b = true) : kind a = kind b := by
  cases f with
  | zero => simp [eq] at h
  | succ f => cases a <;> cases b <;> simp_all [eq, kind]

theorem eq_null_only (f : Nat) (v : Val) (h : eq f .null v = true) : v = .null := by
  have := eq_kind f _ _ h
  cases v <;> simp_all [kind]

/-- capabilities are equal only by identity -/
theorem eq_cap_iff (f i j : Nat) : eq (f + 1) (.cap i) (.cap j) = true ↔ i = j := by simp [eq]

/-- lists of different lengths are never equal -/
theorem eq_list_len (f k1 n1 k2 n2 : Nat) (p1 p2 : List Nat) (e1 e2 : List Val)
    (h : eq f (.list k1 n1 p1 e1) (.list k2 n2 p2 e2) = true) : n1 = n2 := by
  cases f with
  | zero => simp [eq] at h
  | succ f =>
    simp only [eq] at h
    by_cases hn : n1 = n2
    · exact hn
    · simp [hn] at h

/-- a bit list is equal only to a bit list with the same bits (never to a void / byte / struct list) -/
theorem eq_bitlist_only (f n1 k2 n2 : Nat) (p1 p2 : List Nat) (e1 e2 : List Val)
    (h : eq f (.list 1 n1 p1 e1) (.list k2 n2 p2 e2) = true) : k2 = 1 ∧ p1 = p2 := by
  cases f with
  | zero => simp [eq] at h
  | succ f =>
    have hn := eq_list_len _ _ _ _ _ _ _ _ _ h
    subst hn
    simp only [eq, ne_eq, not_true_eq_false, ↓reduceIte, true_or, decide_true, Bool.true_and, Bool.and_eq_true,
      decide_eq_true_eq, beq_iff_eq] at h
    exact h

/-- primitive lists of different element widths are never equal (documented: no implicit widening) -/
theorem eq_prim_width (f k1 k2 n1 n2 : Nat) (p1 p2 : List Nat) (e1 e2 : List Val)
    (h1 : k1 ≠ 7) (h2 : k2 ≠ 7) (h : eq f (.list k1 n1 p1 e1) (.list k2 n2 p2 e2) = true) : k1 = k2 := by
  cases f with
  | zero => simp [eq] at h
  | succ f =>
    have hn := eq_list_len _ _ _ _ _ _ _ _ _ h
    subst hn
    simp only [eq, ne_eq, not_true_eq_false, ↓reduceIte] at h
    by_cases hb : k1 = 1 ∨ k2 = 1
    · simp only [hb, ↓reduceIte, Bool.and_eq_true, decide_eq_true_eq] at h; omega
    · simp only [hb, ↓reduceIte, h1, h2, not_false_eq_true, and_self, Bool.and_eq_true, beq_iff_eq] at h
      exact h.1

example : eq 3 (.list 2 1 [5] []) (.list 3 1 [5, 0] []) = false := by simp [eq]

end Capnp.Props.C17
