import Capnp.Model.Layout
/-!
# C15 — generated accessors implement exactly the layout the schema declares

The theorems are about `Capnp.Model.Layout`: the semantics of what the templates emit, for every field offset,
width, default and discriminant, over every content of the struct.  That the emitted text *is* what the model
says is the correspondence part (the generator is run on generated schemas and every accessor's literals are
compared with the model's), see `harness/gen15.go`.
-/
namespace Capnp.Props.C15
open Capnp.Model.Layout

theorem getU_congr (b b' : Bytes) (off w : Nat) (h : ∀ a, off ≤ a → a < off + w → b a = b' a) :
    getU b off w = getU b' off w := by
  induction w generalizing off with
  | zero => rfl
  | succ w ih =>
    simp only [getU]
    rw [h off (Nat.le_refl _) (by omega), ih (off + 1) (fun a h1 h2 => h a (by omega) (by omega))]

theorem setU_outside (b : Bytes) (off w v a : Nat) (h : a < off ∨ off + w ≤ a) : setU b off w v a = b a := by
  induction w generalizing off v with
  | zero => rfl
  | succ w ih =>
    simp only [setU]
    rw [if_neg (by omega)]
    exact ih (off + 1) (v / 256) (by omega)

theorem getU_lt (b : Bytes) (off w : Nat) : getU b off w < 256 ^ w := by
  induction w generalizing off with
  | zero => simp [getU]
  | succ w ih =>
    simp only [getU, Nat.pow_succ]
    have := ih (off + 1)
    have h2 : b off % 256 < 256 := Nat.mod_lt _ (by decide)
    omega

/-- **a field read after a write gives back the value**: little-endian write then read of the same range -/
theorem getU_setU (b : Bytes) (off w v : Nat) (hv : v < 256 ^ w) : getU (setU b off w v) off w = v := by
  induction w generalizing off v b with
  | zero => simp [getU] at *; omega
  | succ w ih =>
    simp only [getU]
    have h1 : setU b off (w + 1) v off = v % 256 := by simp [setU]
    have h2 : getU (setU b off (w + 1) v) (off + 1) w = getU (setU b (off + 1) w (v / 256)) (off + 1) w := by
      apply getU_congr
      intro a ha _
      simp only [setU]
      rw [if_neg (by omega)]
    rw [h1, h2, ih b (off + 1) (v / 256) (by rw [Nat.pow_succ] at hv; omega)]
    have : v % 256 % 256 = v % 256 := Nat.mod_mod _ _
    omega

/-- a write to one range leaves a disjoint range's value alone -/
theorem getU_setU_disjoint (b : Bytes) (o1 w1 v o2 w2 : Nat) (h : o2 + w2 ≤ o1 ∨ o1 + w1 ≤ o2) :
    getU (setU b o1 w1 v) o2 w2 = getU b o2 w2 := by
  apply getU_congr
  intro a h1 h2
  exact setU_outside b o1 w1 v a (by omega)

theorem xor_lt (a m w : Nat) (ha : a < 256 ^ w) (hm : m < 256 ^ w) : a ^^^ m < 256 ^ w := by
  have e : (256 : Nat) ^ w = 2 ^ (8 * w) := by
    rw [show (256 : Nat) = 2 ^ 8 by decide, ← Nat.pow_mul]
  rw [e] at ha hm ⊢
  exact Nat.xor_lt_two_pow ha hm

/-- **getter ∘ setter = id, with the default applied as an XOR mask and the discriminant set and checked**, for
    every integer-shaped field (ints, enums, floats' bit patterns): any offset, width, default, discriminant, and
    any previous content of the struct — provided the schema keeps the field and the discriminant apart -/
theorem get_set (n : Node) (f : Field) (w : Nat) (b : Bytes) (v : Nat) (hv : v < 256 ^ w) (hm : f.mask < 256 ^ w)
    (hsep : tagOff n + 2 ≤ f.offset * w ∨ f.offset * w + w ≤ tagOff n) (hd : ∀ d, f.disc = some d → d < 65536) :
    getInt n f w (setInt n f w b v) = some v := by
  unfold getInt setInt
  have hx := xor_lt v f.mask w hv hm
  have htag : tagOk n f (setU (setTag n f b) (f.offset * w) w (v ^^^ f.mask)) = true := by
    unfold tagOk
    cases hdisc : f.disc with
    | none => rfl
    | some d =>
      simp only [decide_eq_true_eq]
      rw [getU_setU_disjoint _ _ _ _ _ _ (by omega)]
      unfold setTag; rw [hdisc]
      exact getU_setU b (tagOff n) 2 d (by have := hd d hdisc; omega)
  rw [if_pos htag, getU_setU _ _ _ _ hx, Nat.xor_assoc, Nat.xor_self, Nat.xor_zero]

/-- **the setter touches nothing else**: outside the field's own bytes and the two discriminant bytes (which only
    a union member's setter writes) every byte of the struct is unchanged -/
theorem set_frame (n : Node) (f : Field) (w : Nat) (b : Bytes) (v a : Nat)
    (hf : a < f.offset * w ∨ f.offset * w + w ≤ a) (ht : f.disc = none ∨ a < tagOff n ∨ tagOff n + 2 ≤ a) :
    setInt n f w b v a = b a := by
  unfold setInt
  rw [setU_outside _ _ _ _ _ hf]
  unfold setTag
  cases hdisc : f.disc with
  | none => rfl
  | some d =>
    simp only
    rcases ht with h | h
    · rw [hdisc] at h; cases h
    · exact setU_outside b (tagOff n) 2 d a h

/-- **a field never written reads as its default** (zeroed struct, no union) -/
theorem default_read (n : Node) (f : Field) (w : Nat) (b : Bytes) (hz : ∀ a, b a = 0) (hd : f.disc = none) :
    getInt n f w b = some f.mask := by
  unfold getInt tagOk
  rw [hd]
  simp only [↓reduceIte]
  have : getU b (f.offset * w) w = 0 := by
    generalize f.offset * w = off
    induction w generalizing off with
    | zero => rfl
    | succ w ih => simp [getU, hz, ih]
  rw [this, Nat.zero_xor]

/-- **the getter of a union member refuses when another member is active**, and `Has` answers false -/
theorem inactive_member (n : Node) (f : Field) (w : Nat) (b : Bytes) (slots : Nat → Bool) (d : Nat)
    (hd : f.disc = some d) (hother : getU b (tagOff n) 2 ≠ d) :
    getInt n f w b = none ∧ getBool n f b = none ∧ hasPtr n f b slots = false := by
  have : tagOk n f b = false := by unfold tagOk; rw [hd]; simpa using hother
  simp [getInt, getBool, hasPtr, this]

/-- **setting one member makes it the active one**: afterwards exactly the members with this discriminant value
    pass their tag check -/
theorem set_activates (n : Node) (f g : Field) (w : Nat) (b : Bytes) (v d e : Nat) (hd : f.disc = some d) (he : g.disc = some e)
    (hd16 : d < 65536) (hsep : tagOff n + 2 ≤ f.offset * w ∨ f.offset * w + w ≤ tagOff n) :
    tagOk n g (setInt n f w b v) = decide (e = d) := by
  unfold tagOk setInt
  rw [he]
  simp only
  rw [getU_setU_disjoint _ _ _ _ _ _ (by omega)]
  unfold setTag; rw [hd]
  simp only
  rw [getU_setU b (tagOff n) 2 d (by omega)]
  by_cases h : e = d
  · simp [h]
  · have : ¬ d = e := fun h2 => h h2.symm
    simp [h, this]

/-- **fields in disjoint slots do not disturb each other** (no union involved): one's setter leaves the other's
    getter unchanged -/
theorem no_overlap (n : Node) (f g : Field) (wf wg : Nat) (b : Bytes) (v : Nat) (hf : f.disc = none) (hg : g.disc = none)
    (hdis : g.offset * wg + wg ≤ f.offset * wf ∨ f.offset * wf + wf ≤ g.offset * wg) :
    getInt n g wg (setInt n f wf b v) = getInt n g wg b := by
  unfold getInt setInt tagOk setTag
  rw [hf, hg]
  simp only [↓reduceIte]
  rw [getU_setU_disjoint _ _ _ _ _ _ hdis]

/-! ## bool fields -/

theorem getBit_setBit (b : Bytes) (bit : Nat) (v : Bool) : getBit (setBit b bit v) bit = v := by
  unfold setBit getBit
  simp only [↓reduceIte]
  have hk : bit % 8 < 8 := Nat.mod_lt _ (by decide)
  generalize bit % 8 = k at hk
  have hold : b (bit / 8) % 256 < 256 := Nat.mod_lt _ (by decide)
  generalize b (bit / 8) % 256 = old at hold
  have hcases : k = 0 ∨ k = 1 ∨ k = 2 ∨ k = 3 ∨ k = 4 ∨ k = 5 ∨ k = 6 ∨ k = 7 := by omega
  rcases hcases with rfl | rfl | rfl | rfl | rfl | rfl | rfl | rfl <;> cases v <;>
    simp only [Nat.reducePow, decide_eq_true_eq, decide_eq_false_iff_not, Bool.false_eq_true, ↓reduceIte, Nat.add_zero] <;>
    split <;> omega

/-- bool getter ∘ setter = id, default `true` stored inverted (no union) -/
theorem bool_get_set (n : Node) (f : Field) (b : Bytes) (v : Bool) (hd : f.disc = none) :
    getBool n f (setBool n f b v) = some v := by
  unfold getBool setBool tagOk setTag
  rw [hd]
  simp only [↓reduceIte]
  rw [getBit_setBit]
  by_cases hm : f.mask = 1 <;> simp [hm]

/-- a bool setter changes one byte only -/
theorem bool_set_frame (b : Bytes) (bit : Nat) (v : Bool) (a : Nat) (h : a ≠ bit / 8) : setBit b bit v a = b a := by
  unfold setBit; rw [if_neg h]

/-- **a Text field round-trips every value, the empty string included, whatever its schema default**: the setter of a
    defaulted field never stores the null pointer that its getter would read as the default -/
theorem text_get_set (d v : List Nat) : genGetText d (genSetText d v) = v := by
  unfold genGetText genSetText structSetText structSetNewText textDefault
  by_cases hd : d = []
  · by_cases hv : v = [] <;> simp [hd, hv]
  · simp [hd]

/-- … and `SetText` for a defaulted field would not do: the empty string written reads back as the default -/
theorem text_settext_loses_empty (d : List Nat) (hd : d ≠ []) : genGetText d (structSetText []) ≠ [] := by
  simpa [genGetText, structSetText, textDefault] using hd

/-- **setting an interface-typed union member makes it the active one, also when the client is null** -/
theorem iface_set_activates (n : Node) (f : Field) (b : Bytes) (c : Option Nat) (d : Nat) (hd : f.disc = some d) (hd16 : d < 65536) :
    tagOk n f (setIface n f b c).1 = true := by
  unfold setIface tagOk setTag
  rw [hd]
  simp only
  rw [getU_setU b (tagOff n) 2 d (by omega)]
  simp

/-- the variant that stores the discriminant after the null-client return leaves another member active -/
theorem iface_late_tag_stale :
    ∃ (n : Node) (f : Field) (b : Bytes), f.disc = some 1 ∧ tagOk n f (setIfaceLate n f b none).1 = false :=
  ⟨{ dataWords := 1, ptrs := 1, discOffset := 0 }, { kind := .ptr, offset := 0, mask := 0, disc := some 1 }, fun _ => 0, rfl, by decide⟩

/-- **generated struct sizes match the schema** -/
theorem sizes (n : Node) : objectSize n = (n.dataWords * 8, n.ptrs) := rfl

-- non-vacuity: a UInt16 union member at offset 3 (bytes 6,7), default 0x1234, discriminant 2 stored at 16-bit unit 1
example : getInt ⟨1, 0, 1⟩ ⟨.int 2, 3, 0x1234, some 2⟩ 2 (setInt ⟨1, 0, 1⟩ ⟨.int 2, 3, 0x1234, some 2⟩ 2 (fun _ => 0xff) 0xbeef) = some 0xbeef := by
  decide

end Capnp.Props.C15
