import Capnp.Model.EqualCap
/-!
# C17 — capabilities by identity: the decision `Equal` takes for two capability pointers (`Model.EqualCap`)

Tie: `read equalcap` M ops — two boxed capability pointers of one multi-segment message, tables of 0..8 entries with
null entries and clients named twice; `Equal`'s verdict against `eqSameMsg`.
-/
namespace Capnp.Props.C17C
open Capnp.Model.EqualCap

theorem cap_refl (ntab : Nat) (tab : Nat → Option Nat) (i : Nat) : eqSameMsg ntab tab i i = true := by simp [eqSameMsg]

theorem cap_symm (ntab : Nat) (tab : Nat → Option Nat) (i j : Nat) : eqSameMsg ntab tab i j = eqSameMsg ntab tab j i := by
  unfold eqSameMsg
  by_cases h : i = j
  · subst h; rfl
  · have h' : ¬ j = i := fun e => h e.symm
    simp only [h, h', if_false]
    by_cases hb : ntab ≤ i ∨ ntab ≤ j
    · have hb' : ntab ≤ j ∨ ntab ≤ i := hb.symm
      simp [hb, hb']
    · have hb' : ¬ (ntab ≤ j ∨ ntab ≤ i) := fun e => hb e.symm
      simp only [hb, hb', if_false]
      exact Bool.beq_comm

theorem across_symm (n1 : Nat) (t1 : Nat → Option Nat) (n2 : Nat) (t2 : Nat → Option Nat) (i j : Nat) :
    eqAcross n1 t1 n2 t2 i j = eqAcross n2 t2 n1 t1 j i := by unfold eqAcross; exact Bool.beq_comm

/-- **capabilities by identity**: over a table whose entries are pairwise different (distinct clients, at most one null
    entry), two capability pointers of one message are equal exactly when they are the same index — wherever the indices
    lie, inside the table or not -/
theorem cap_identity (ntab : Nat) (tab : Nat → Option Nat) (i j : Nat)
    (hinj : ∀ a b, a < ntab → b < ntab → tab a = tab b → a = b) :
    eqSameMsg ntab tab i j = decide (i = j) := by
  unfold eqSameMsg
  by_cases h : i = j
  · simp [h]
  · simp only [h, if_false, decide_false]
    by_cases hb : ntab ≤ i ∨ ntab ≤ j
    · simp [hb]
    · simp only [hb, if_false]
      have hi : i < ntab := by omega
      have hj : j < ntab := by omega
      simp only [clientAt, hi, hj, if_true]
      have : tab i ≠ tab j := fun e => h (hinj i j hi hj e)
      simpa using this

/-- an index outside the table denotes no capability of this message: it equals only itself -/
theorem outside_only_itself (ntab : Nat) (tab : Nat → Option Nat) (i j : Nat) (hi : ntab ≤ i) (hne : i ≠ j) :
    eqSameMsg ntab tab i j = false := by
  simp [eqSameMsg, hne, hi]

/-- two indices holding the same client are equal (the table may name a client twice) -/
theorem same_client_equal (ntab : Nat) (tab : Nat → Option Nat) (i j : Nat) (hi : i < ntab) (hj : j < ntab) (h : tab i = tab j) :
    eqSameMsg ntab tab i j = true := by
  unfold eqSameMsg
  by_cases e : i = j
  · simp [e]
  · have : ¬ (ntab ≤ i ∨ ntab ≤ j) := by omega
    simp [e, this, clientAt, hi, hj, h]

/-- the verdict does not depend on where in the message the two pointers sit; the by-segment variant's does -/
theorem by_segment_variant_differs :
    ∃ ntab tab i j, eqSameMsgBySegment false ntab tab i j ≠ eqSameMsgBySegment true ntab tab i j :=
  ⟨0, fun _ => none, 0, 1, by decide⟩

example : eqSameMsg 8 (fun k => some k) 3 9 = false ∧ eqSameMsg 8 (fun k => some k) 3 3 = true ∧ eqSameMsg 8 (fun k => some (k % 4)) 1 5 = true := by decide

end Capnp.Props.C17C
