import Capnp.Lemmas.Packed
/-!
# C13 — packed encoding is a lossless, spec-conformant, truncation-safe codec

Property theorems only (helper lemmas live in `Capnp.Lemmas.Packed`).  `Spec.Packing.unpackStrict`
is the packing grammar of the encoding spec as a strict decoder; `Model.Packed.*` is the model of
`internal/packed/packed.go`.
-/
namespace Capnp.Props.C13
open Capnp.Spec.Packing Capnp.Model.Packed Capnp.Lemmas.Packed

/-- the byte-wise slow path of `Unpack`/`ReadWord` is the spec's word decoder -/
theorem slowWord_eq_spec (bs : List Bool) (s : List UInt8) : slowWord bs s = unpackWord bs s := by
  induction bs generalizing s with
  | nil => simp [slowWord, unpackWord]
  | cons b bs ih =>
    cases b
    · simp [slowWord, unpackWord, ih]
    · cases s <;> simp [slowWord, unpackWord, ih]

/-- the unrolled fast path (`p[k] = src[i] & -nz; i += nz`) is the spec's word decoder whenever
    enough input is available (the code requires `len(src) ≥ 8`) -/
theorem fastWord_eq_spec (bs : List Bool) (src : List UInt8) (i : Nat) (h : i + bs.length ≤ src.length) :
    unpackWord bs (src.drop i) = some ((fastWord bs src i).1, src.drop (fastWord bs src i).2) := by
  induction bs generalizing i with
  | nil => simp [unpackWord, fastWord]
  | cons b bs ih =>
    simp only [List.length_cons] at h
    cases b with
    | false =>
      simp only [unpackWord, fastWord, Bool.false_eq_true, ↓reduceIte]
      rw [ih i (by omega)]; rfl
    | true =>
      have hi : i < src.length := by omega
      rw [List.drop_eq_getElem_cons hi]
      simp only [unpackWord, fastWord, ↓reduceIte]
      rw [ih (i+1) (by omega)]
      simp [List.getD_eq_getElem?_getD, List.getElem?_eq_getElem hi]

theorem bitsOfTag_length (t : UInt8) : (bitsOfTag t).length = 8 := by simp [bitsOfTag]

/-- **Unpack = strict spec decoder**, on every input: same acceptability, same output.
    (Fails on the pinned tree before fix 646d64a: truncated literal runs were zero-filled.) -/
theorem goUnpackFuel_eq_spec (f : Nat) (s : List UInt8) :
    Capnp.Spec.Packing.unpackFuel f s = if (goUnpackFuel f s).2 then some (goUnpackFuel f s).1 else none := by
  induction f generalizing s with
  | zero => cases s <;> simp [unpackFuel, goUnpackFuel]
  | succ f ih =>
    cases s with
    | nil => simp [unpackFuel, goUnpackFuel]
    | cons tag src =>
      simp only [unpackFuel, goUnpackFuel]
      have hw : (if src.length ≥ 8 then
            some ((fastWord (bitsOfTag tag) src 0).1, src.drop (fastWord (bitsOfTag tag) src 0).2)
          else slowWord (bitsOfTag tag) src) = unpackWord (bitsOfTag tag) src := by
        split
        · rename_i h8
          have := fastWord_eq_spec (bitsOfTag tag) src 0 (by rw [bitsOfTag_length]; omega)
          simpa using this.symm
        · exact slowWord_eq_spec _ _
      rw [hw]
      cases unpackWord (bitsOfTag tag) src with
      | none => simp
      | some p =>
        obtain ⟨w, s'⟩ := p
        simp only
        split
        · cases s' with
          | nil => simp
          | cons n s'' =>
            simp only [ih s'']
            split <;> simp
        · split
          · cases s' with
            | nil => simp
            | cons n s'' =>
              simp only
              by_cases hlt : s''.length < 8 * n.toNat
              · have : min (8 * n.toNat) s''.length < 8 * n.toNat := by omega
                simp [hlt, this]
              · have hmin : min (8 * n.toNat) s''.length = 8 * n.toNat := by omega
                simp only [hlt, hmin, ↓reduceIte, Nat.lt_irrefl, Nat.sub_self, ih]
                split <;> simp [zeros]
          · simp only [ih s']
            split <;> simp

/-- one-shot `Unpack` agrees with the strict spec decoder on all inputs -/
theorem unpack_eq_strict (s : List UInt8) :
    unpackStrict s = if (goUnpack s).2 then some (goUnpack s).1 else none :=
  goUnpackFuel_eq_spec s.length s

/-- truncated input is an error, never completed with invented bytes:
    whatever `Unpack` accepts, the strict decoder derives from the input alone -/
theorem unpack_accepts_only_spec (s y : List UInt8) (h : goUnpack s = (y, true)) : unpackStrict s = some y := by
  rw [unpack_eq_strict, h]; rfl

/-- **Round trip and spec conformance of `Pack`**: for any list of 8-byte words, the strict decoder
    written from the packing spec (an "independent implementation") recovers exactly the payload
    from the model's `Pack` output — all zero/non-zero patterns, all run lengths (the 255-word limits
    of zero runs and literal runs are the `min … 255` / `literalRun 255` case splits). -/
theorem strict_packFuel (f : Nat) (ws : List Word) (hw : ∀ w ∈ ws, w.length = 8) (hf : ws.length ≤ f) :
    unpackStrict (packFuel f ws) = some ws.flatten := by
  induction f generalizing ws with
  | zero =>
    cases ws with
    | nil => simp [packFuel, unpackStrict_nil]
    | cons w ws => simp at hf
  | succ f ih =>
    cases ws with
    | nil => simp [packFuel, unpackStrict_nil]
    | cons w ws =>
      have hw8 : w.length = 8 := hw w (by simp)
      have hws : ∀ w' ∈ ws, w'.length = 8 := fun w' h' => hw w' (by simp [h'])
      simp only [List.length_cons, Nat.add_le_add_iff_right] at hf
      simp only [packFuel]
      split
      · -- zero tag: a run of up to 255 further zero words
        rename_i h0
        obtain ⟨hz, hnz⟩ := zero_of_tag_zero w hw8 h0
        have hzle := numZeroWords_le ws
        rw [show tagOf w :: w.filter (· != 0) ++ [UInt8.ofNat (min (numZeroWords ws) 255)] ++
              packFuel f (ws.drop (min (numZeroWords ws) 255)) =
            tagOf w :: (w.filter (· != 0) ++ (UInt8.ofNat (min (numZeroWords ws) 255) ::
              packFuel f (ws.drop (min (numZeroWords ws) 255)))) by simp [List.append_assoc]]
        rw [unpackStrict_cons, unpackWord_tagOf w _ hw8]
        simp only [h0, ↓reduceIte]
        have hdrop : ∀ w' ∈ ws.drop (min (numZeroWords ws) 255), w'.length = 8 :=
          fun w' h' => hws w' (List.mem_of_mem_drop h')
        rw [ih _ hdrop (by simp; omega)]
        have hn : (UInt8.ofNat (min (numZeroWords ws) 255)).toNat = min (numZeroWords ws) 255 := by
          simp; omega
        simp only [Option.map_some, hn, List.flatten_cons, Option.some.injEq]
        rw [← take_zero_words ws _ hws (by omega)]
        simp [List.append_assoc, ← List.flatten_append]
      · split
        · -- 0xff tag: a literal run of up to 255 further words
          rename_i h0 hff
          have hfull := full_of_tag_ff w hw8 hff
          obtain ⟨hl1, hl2⟩ := literalRun_le 255 ws
          rw [show tagOf w :: w.filter (· != 0) ++ [UInt8.ofNat (literalRun 255 ws)] ++ (ws.take (literalRun 255 ws)).flatten ++
                packFuel f (ws.drop (literalRun 255 ws)) =
              tagOf w :: (w.filter (· != 0) ++ (UInt8.ofNat (literalRun 255 ws) :: ((ws.take (literalRun 255 ws)).flatten ++
                packFuel f (ws.drop (literalRun 255 ws))))) by simp [List.append_assoc]]
          rw [unpackStrict_cons, unpackWord_tagOf w _ hw8]
          simp only [hff, ↓reduceIte]
          have h255 : ¬ ((255 : UInt8) = 0) := by decide
          simp only [h255, ↓reduceIte]
          have hn : (UInt8.ofNat (literalRun 255 ws)).toNat = literalRun 255 ws := by
            simp; omega
          have htl : (ws.take (literalRun 255 ws)).flatten.length = 8 * literalRun 255 ws := by
            rw [flatten_length8 _ (fun w' h' => hws w' (List.mem_of_mem_take h'))]
            simp; omega
          have hdrop : ∀ w' ∈ ws.drop (literalRun 255 ws), w'.length = 8 :=
            fun w' h' => hws w' (List.mem_of_mem_drop h')
          rw [hn]
          have hnlt : ¬ (((ws.take (literalRun 255 ws)).flatten ++ packFuel f (ws.drop (literalRun 255 ws))).length
              < 8 * literalRun 255 ws) := by simp [htl]
          simp only [hnlt, ↓reduceIte]
          rw [List.drop_left' htl, List.take_left' htl, ih _ hdrop (by simp; omega)]
          simp only [Option.map_some, List.flatten_cons, Option.some.injEq]
          simp [List.append_assoc, ← List.flatten_append]
        · -- ordinary tag
          rename_i h0 hff
          rw [List.cons_append, unpackStrict_cons, unpackWord_tagOf w _ hw8]
          simp only [h0, hff, ↓reduceIte]
          rw [ih ws hws hf]
          simp

/-- packed form is decodable by an independent implementation of the spec, and decodes to `x` -/
theorem strict_pack (ws : List Word) (hw : ∀ w ∈ ws, w.length = 8) : unpackStrict (pack ws) = some ws.flatten :=
  strict_packFuel ws.length ws hw (Nat.le_refl _)

/-- **`Unpack (Pack x) = x`** for every word-aligned payload -/
theorem unpack_pack (ws : List Word) (hw : ∀ w ∈ ws, w.length = 8) : goUnpack (pack ws) = (ws.flatten, true) := by
  have h := unpack_eq_strict (pack ws)
  rw [strict_pack ws hw] at h
  split at h
  · rename_i h2
    simp only [Option.some.injEq] at h
    exact Prod.ext h.symm h2
  · simp at h

/-! ## Streaming reader: every step refines the strict decoder, for every `Buffered()` oracle -/

/-- what the rest of the stream denotes, given the reader's state -/
def denote (st : RState) : Option (List UInt8) :=
  match st.err with
  | some .eof => some []
  | some .unexpected => none
  | none =>
    let tail :=
      if st.literal > 0 then
        if st.rest.length < 8 * st.literal then none
        else (unpackStrict (st.rest.drop (8 * st.literal))).map (fun r => st.rest.take (8 * st.literal) ++ r)
      else unpackStrict st.rest
    tail.map (fun r => zeros (8 * st.zeroes) ++ r)

theorem denote_init (s : List UInt8) : denote (RState.init s) = unpackStrict s := by
  simp [denote, RState.init, zeros]

theorem denote_afterTag (tag : UInt8) (w s' : List UInt8) :
    (denote (afterTag tag s')).map (fun r => w ++ r) =
      if tag = 0 then
        match s' with
        | [] => none
        | n :: s'' => (unpackStrict s'').map (fun r => w ++ zeros (8 * n.toNat) ++ r)
      else if tag = 255 then
        match s' with
        | [] => none
        | n :: s'' =>
          if s''.length < 8 * n.toNat then none
          else (unpackStrict (s''.drop (8 * n.toNat))).map (fun r => w ++ s''.take (8 * n.toNat) ++ r)
      else (unpackStrict s').map (fun r => w ++ r) := by
  unfold afterTag
  split
  · cases s' with
    | nil => simp [denote]
    | cons n s'' => simp [denote, Option.map_map, Function.comp_def, List.append_assoc]
  · split
    · cases s' with
      | nil => simp [denote]
      | cons l s'' =>
        by_cases hl : l.toNat = 0
        · simp [denote, hl, zeros]
        · have : l.toNat > 0 := by omega
          simp only [denote, this, ↓reduceIte, zeros, Nat.mul_zero, List.replicate_zero, List.nil_append]
          split <;> simp [Option.map_map, Function.comp_def, List.append_assoc]
    · simp [denote, zeros]

/-- **One `ReadWord` step refines the strict decoder**, whatever `Buffered()` returns:
    a delivered word is the next 8 bytes of the spec's output; `io.EOF` is reported only where the
    spec's output ends; an error is reported only where the spec rejects the input. -/
theorem readWord_refines (st : RState) (buffered : Nat) :
    match readWord st buffered with
    | (st', .ok w) => denote st = (denote st').map (fun r => w ++ r)
    | (_, .error .eof) => denote st = some []
    | (_, .error .unexpected) => denote st = none := by
  obtain ⟨rest, err, zeroes, literal⟩ := st
  unfold readWord
  cases err with
  | some e => cases e <;> simp [denote]
  | none =>
    simp only
    by_cases hz : zeroes > 0
    · -- inside a zero run
      simp only [hz, ↓reduceIte, denote]
      have : 8 * zeroes = 8 + 8 * (zeroes - 1) := by omega
      rw [this, zeros_add]
      simp [Function.comp_def, List.append_assoc]
    · have hz0 : zeroes = 0 := by omega
      subst hz0
      simp only [Nat.lt_irrefl, ↓reduceIte, gt_iff_lt]
      by_cases hl : 0 < literal
      · -- inside a literal run
        simp only [hl, ↓reduceIte]
        by_cases h8 : rest.length ≥ 8
        · simp only [h8, ↓reduceIte, denote, hl, zeros, Nat.mul_zero, List.replicate_zero, List.nil_append,
            Option.map_id', List.length_drop]
          by_cases hl1 : 0 < literal - 1
          · simp only [hl1, ↓reduceIte, List.drop_drop]
            have e1 : 8 * (literal - 1) + 8 = 8 * literal := by omega
            have e2 : 8 + 8 * (literal - 1) = 8 * literal := by omega
            by_cases hlt : rest.length < 8 * literal
            · have : rest.length - 8 < 8 * (literal - 1) := by omega
              simp [hlt, this]
            · have : ¬ (rest.length - 8 < 8 * (literal - 1)) := by omega
              have ht : List.take (8 * literal) rest = rest.take 8 ++ (rest.drop 8).take (8 * (literal - 1)) := by
                rw [← e2, List.take_add]
              simp only [hlt, this, ↓reduceIte, e2, ht, Option.map_map, Function.comp_def, List.append_assoc]
          · have h1 : literal = 1 := by omega
            subst h1
            have : ¬ (rest.length < 8) := by omega
            simp [this]
        · have : rest.length < 8 * literal := by omega
          simp [h8, denote, hl, this]
      · -- a new tagged word
        have hl0 : literal = 0 := by omega
        subst hl0
        simp only [Nat.lt_irrefl, ↓reduceIte]
        cases rest with
        | nil => simp [denote, zeros, unpackStrict_nil]
        | cons tag src =>
          simp only
          have hden : denote ⟨tag :: src, none, 0, 0⟩ = unpackStrict (tag :: src) := by simp [denote, zeros]
          rw [hden, unpackStrict_cons]
          by_cases hfast : buffered ≥ 9 ∧ src.length ≥ 8
          · simp only [hfast, and_self, ↓reduceIte]
            have := fastWord_eq_spec (bitsOfTag tag) src 0 (by rw [bitsOfTag_length]; omega)
            simp only [List.drop_zero] at this
            rw [this]
            simp only
            rw [denote_afterTag]
            rfl
          · simp only [hfast, ↓reduceIte]
            rw [slowWord_eq_spec]
            cases unpackWord (bitsOfTag tag) src with
            | none => simp
            | some p =>
              obtain ⟨w, s'⟩ := p
              simp only
              rw [denote_afterTag]
              rfl

/-- **Streaming = strict decoder (soundness, any chunking)**: whenever reading word by word ends
    with a clean `io.EOF`, the strict decoder accepts the input and yields exactly the words read.
    Hence streaming never accepts a truncated input (fails before fix b2023f5). -/
theorem readAll_sound (fuel : Nat) (st : RState) (oracle : Nat → Nat) (k : Nat)
    (h : (readAll fuel st oracle k).2 = true) : denote st = some (readAll fuel st oracle k).1 := by
  induction fuel generalizing st k with
  | zero => simp [readAll] at h
  | succ fuel ih =>
    have hr := readWord_refines st (oracle k)
    simp only [readAll] at h ⊢
    rcases hrw : readWord st (oracle k) with ⟨st', res⟩
    · rw [hrw] at hr h
      cases res with
      | error e =>
        cases e with
        | eof => simpa using hr
        | unexpected => simp at h
      | ok w =>
        simp only at hr h ⊢
        rw [hr, ih st' (k+1) h]
        simp

theorem stream_sound (s : List UInt8) (fuel : Nat) (oracle : Nat → Nat) (y : List UInt8)
    (h : readAll fuel (RState.init s) oracle 0 = (y, true)) : unpackStrict s = some y := by
  have := readAll_sound fuel (RState.init s) oracle 0 (by rw [h])
  rw [denote_init, h] at this
  exact this

/-- **Bounded growth**: accepted output is at most 1024 bytes per input byte (the spec's maximum:
    a `00 ff` pair denotes 256 zero words). -/
theorem growth_fuel (f : Nat) (s y : List UInt8) (h : Capnp.Spec.Packing.unpackFuel f s = some y) :
    y.length ≤ 1024 * s.length := by
  induction f generalizing s y with
  | zero => cases s <;> simp [unpackFuel] at h; subst h; simp
  | succ f ih =>
    cases s with
    | nil => simp [unpackFuel] at h; subst h; simp
    | cons tag s =>
      simp only [unpackFuel] at h
      cases hw : unpackWord (bitsOfTag tag) s with
      | none => simp [hw] at h
      | some p =>
        obtain ⟨w, s'⟩ := p
        obtain ⟨hl, hwl⟩ := unpackWord_length _ _ _ _ hw
        rw [bitsOfTag_length] at hwl
        simp only [hw] at h
        split at h
        · cases s' with
          | nil => simp at h
          | cons n s'' =>
            simp only [Option.map_eq_some_iff] at h
            obtain ⟨r, hr, rfl⟩ := h
            have := ih s'' r hr
            have hn : n.toNat < 256 := n.toNat_lt
            simp only [List.length_cons, List.length_append, zeros, List.length_replicate] at *
            omega
        · split at h
          · cases s' with
            | nil => simp at h
            | cons n s'' =>
              simp only at h
              split at h
              · simp at h
              · rename_i hlen
                simp only [Option.map_eq_some_iff] at h
                obtain ⟨r, hr, rfl⟩ := h
                have := ih _ r hr
                simp only [List.length_cons, List.length_append, List.length_drop, List.length_take] at *
                omega
          · simp only [Option.map_eq_some_iff] at h
            obtain ⟨r, hr, rfl⟩ := h
            have := ih s' r hr
            simp only [List.length_cons, List.length_append] at *
            omega

theorem growth (s y : List UInt8) (h : unpackStrict s = some y) : y.length ≤ 1024 * s.length :=
  growth_fuel s.length s y h

/-- growth bound for the Go decoder, via `unpack_eq_strict` -/
theorem unpack_growth (s y : List UInt8) (h : goUnpack s = (y, true)) : y.length ≤ 1024 * s.length :=
  growth s y (unpack_accepts_only_spec s y h)

-- non-vacuity: a payload that exercises a zero run, a literal run and an ordinary word
example : (∀ w ∈ ([[0,0,0,0,0,0,0,0],[0,0,0,0,0,0,0,0],[1,2,3,4,5,6,7,8],[1,2,3,4,5,6,7,9],[0,0,5,0,0,0,0,0]] : List Word),
    w.length = 8) := by decide

/-- **worst-case expansion of `Pack`**: at most 10 bytes per input word (tag, 8 literal bytes, one run-length byte),
    for every input -/
theorem packFuel_length (f : Nat) (ws : List Word) (hw : ∀ w ∈ ws, w.length = 8) :
    (packFuel f ws).length ≤ 10 * ws.length := by
  induction f generalizing ws with
  | zero => cases ws <;> simp [packFuel]
  | succ f ih =>
    cases ws with
    | nil => simp [packFuel]
    | cons w ws =>
      have hw8 : w.length = 8 := hw w (by simp)
      have hws : ∀ x ∈ ws, x.length = 8 := fun x hx => hw x (by simp [hx])
      have hnz : (w.filter (· != 0)).length ≤ 8 := by
        have := List.length_filter_le (· != 0) w; omega
      simp only [packFuel]
      split
      · have hr := ih (ws.drop (min (numZeroWords ws) 255)) (fun x hx => hws x (List.mem_of_mem_drop hx))
        simp only [List.length_cons, List.length_append, List.length_nil, List.length_drop] at hr ⊢
        omega
      · split
        · have hr := ih (ws.drop (literalRun 255 ws)) (fun x hx => hws x (List.mem_of_mem_drop hx))
          have ht := flatten_length8 (ws.take (literalRun 255 ws)) (fun x hx => hws x (List.mem_of_mem_take hx))
          simp only [List.length_cons, List.length_append, List.length_nil, List.length_drop, List.length_take] at hr ht ⊢
          omega
        · have hr := ih ws hws
          simp only [List.length_cons, List.length_append] at hr ⊢
          omega

theorem pack_length (ws : List Word) (hw : ∀ w ∈ ws, w.length = 8) : (pack ws).length ≤ 10 * ws.length :=
  packFuel_length _ ws hw

-- non-vacuity: the bound is met by a single dense word
example : (pack [[1,2,3,4,5,6,7,8]]).length = 10 := by decide

end Capnp.Props.C13
