import Capnp.Model.Packed
namespace Capnp.Props.C13
open Capnp.Spec.Packing Capnp.Model.Packed

theorem unpackWord_eq_slowWord (bs : List Bool) (s : List UInt8) : slowWord bs s = unpackWord bs s := by
  induction bs generalizing s with
  | nil => simp [slowWord, unpackWord]
  | cons b bs ih =>
    cases b
    · simp [slowWord, unpackWord, ih]
    · cases s <;> simp [slowWord, unpackWord, ih]

end Capnp.Props.C13
