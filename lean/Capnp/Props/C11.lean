import Capnp.Model.Promise
/-!
# C11 — promise pipelining delivers each call exactly once and never deadlocks
-/
namespace Capnp.Props.C11
open Capnp.Model.Promise

/-! ## the pinned code: asking twice for the same pipelined client leaks `p.mu` -/

/-- no section of the promise can run once `p.mu` is leaked -/
theorem stuck_when_locked (leaky : Bool) (s : PS) (h : s.mu = true) (a : Act)
    (ha : ∀ x, a ≠ .fulfillProxy x) : step leaky s a = none := by
  cases a <;> simp [step, h]
  exact absurd rfl (ha _)

/-- **the full statement fails on the code as pinned**: after `Client()` twice on one path, `p.mu` is still
    held; the promise can then never be fulfilled, no pipelined call can start or finish — a deadlock -/
theorem client_twice_deadlocks :
    ∃ s, run true init [.client true, .client true] = some s ∧ s.mu = true ∧
      step true s .resolve1 = none ∧ step true s .callStart = none ∧ step true s (.client false) = none := by
  refine ⟨_, rfl, ?_, ?_, ?_, ?_⟩ <;> decide

/-! ## the repaired code -/

def Inv (s : PS) : Prop :=
  s.mu = false ∧ s.panicked = false ∧
  -- every pipelined call is in exactly one place
  s.started = s.ongoing + s.waiting + s.toCaller + s.toResult ∧
  s.signals ≤ 1 ∧ (s.signals = 1 ↔ s.phase = .resolved) ∧
  (s.phase = .unresolved → s.callsStopped = none ∧ s.resolverBusy = false ∧ s.waiting = 0 ∧ s.toResult = 0 ∧
      s.fulfilledA = 0 ∧ s.fulfilledB = 0) ∧
  (s.phase = .pending → s.resolverBusy = true ∧ (s.callsStopped = none → s.ongoing = 0) ∧
      (s.callsStopped = some true → s.ongoing = 0) ∧ (s.callsStopped = some false → s.ongoing > 0)) ∧
  (s.phase = .resolved → s.resolverBusy = false ∧ s.ongoing = 0 ∧ s.callsStopped = none ∧
      (s.proxyA = true → s.fulfilledA = 1) ∧ (s.proxyB = true → s.fulfilledB = 1)) ∧
  s.fulfilledA ≤ 1 ∧ s.fulfilledB ≤ 1 ∧ (s.fulfilledA = 1 → s.proxyA = true) ∧ (s.fulfilledB = 1 → s.proxyB = true) ∧
  s.releasedA ≤ 1 ∧ s.releasedB ≤ 1 ∧ (s.released = false → s.releasedA = 0 ∧ s.releasedB = 0) ∧
  (s.released = true → s.phase = .resolved ∧ (s.proxyA = true → s.releasedA = 1) ∧ (s.proxyB = true → s.releasedB = 1))

theorem inv_init : Inv init := by
  simp [Inv, init]

set_option maxRecDepth 4000 in
theorem inv_step (s s' : PS) (a : Act) (h : Inv s) (hs : step false s a = some s') : Inv s' := by
  obtain ⟨mu, phase, ongoing, cs, pA, pB, fA, fB, sig, st, w, tc, tr, rb, rel, rA, rB, pan⟩ := s
  unfold Inv at h
  simp only at h
  obtain ⟨hmu, hpan, hcount, hs1, hs2, hun, hpe, hre, hfa, hfb, hfa2, hfb2, hra, hrb, hrel0, hrel1⟩ := h
  subst hmu hpan
  cases a with
  | client pa =>
    simp only [step, Bool.false_eq_true, ↓reduceIte] at hs
    cases phase with
    | unresolved =>
      simp only at hs
      obtain ⟨u1, u2, u3, u4, u5, u6⟩ := hun rfl
      cases pa <;> cases pA <;> cases pB <;> simp at hs <;> subst hs <;> unfold Inv <;> simp_all
    | pending => simp at hs
    | resolved =>
      simp only [Option.some.injEq] at hs; subst hs
      unfold Inv; simp_all
  | callStart =>
    simp only [step, Bool.false_eq_true, ↓reduceIte] at hs
    cases phase <;> simp only [Option.some.injEq] at hs <;> subst hs <;> unfold Inv <;> simp_all <;> omega
  | callEnd =>
    simp only [step, Bool.false_eq_true, false_or] at hs
    split at hs
    · cases hs
    · rename_i hon
      cases phase with
      | unresolved =>
        obtain ⟨u1, u2, u3, u4, u5, u6⟩ := hun rfl
        subst u1
        simp only [Option.some.injEq] at hs; subst hs
        unfold Inv; simp_all; omega
      | pending =>
        obtain ⟨p1, p2, p3, p4⟩ := hpe rfl
        cases cs with
        | none => exact absurd (p2 rfl) hon
        | some b =>
          cases b with
          | true => exact absurd (p3 rfl) hon
          | false =>
            simp only at hs
            split at hs <;> simp only [Option.some.injEq] at hs <;> subst hs <;> unfold Inv <;> simp_all <;> omega
      | resolved =>
        exact absurd (hre rfl).2.1 hon
  | callWake =>
    simp only [step, Bool.false_eq_true, false_or] at hs
    split at hs
    · cases hs
    · rename_i hc
      simp only [not_or, Classical.not_not] at hc
      obtain ⟨hw, hph⟩ := hc
      subst hph
      simp only [Option.some.injEq] at hs; subst hs
      unfold Inv; simp_all; omega
  | resolve1 =>
    simp only [step, Bool.false_eq_true, ↓reduceIte] at hs
    cases phase with
    | unresolved =>
      obtain ⟨u1, u2, u3, u4, u5, u6⟩ := hun rfl
      simp only [ne_eq, not_true_eq_false, ↓reduceIte] at hs
      split at hs
      · simp only [Option.some.injEq] at hs; subst hs
        unfold Inv; simp_all
        by_cases ho : 0 < ongoing <;> simp_all <;> omega
      · rename_i hc
        simp only [not_or, Bool.not_eq_true, Nat.not_lt, Nat.le_zero_eq] at hc
        simp only [Option.some.injEq] at hs; subst hs
        unfold Inv; simp_all
        omega
    | pending => simp at hs
    | resolved => simp at hs
  | fulfillProxy pa =>
    simp only [step] at hs
    cases rb with
    | false => simp at hs
    | true =>
      have hph : phase = .pending := by
        cases phase with
        | unresolved => exact absurd (hun rfl).2.1 (by simp)
        | pending => rfl
        | resolved => exact absurd (hre rfl).1 (by simp)
      subst hph
      simp only [Bool.not_true, Bool.false_eq_true, ↓reduceIte] at hs
      cases pa <;> simp only [Bool.false_eq_true, ↓reduceIte] at hs <;> split at hs <;>
        first | (simp only [Option.some.injEq] at hs; subst hs; unfold Inv; simp_all; done) | (cases hs; done)
  | resolve2 =>
    simp only [step, Bool.false_eq_true, false_or] at hs
    cases rb with
    | false => simp at hs
    | true =>
      have hph : phase = .pending := by
        cases phase with
        | unresolved => exact absurd (hun rfl).2.1 (by simp)
        | pending => rfl
        | resolved => exact absurd (hre rfl).1 (by simp)
      subst hph
      simp only [Bool.not_true, Bool.false_eq_true, ↓reduceIte] at hs
      split at hs
      · cases hs
      · rename_i hfp
        split at hs
        · cases hs
        · rename_i hcs
          simp only [Option.some.injEq] at hs; subst hs
          obtain ⟨p1, p2, p3, p4⟩ := hpe rfl
          have hon : ongoing = 0 := by
            cases cs with
            | none => exact p2 rfl
            | some b => cases b with
              | true => exact p3 rfl
              | false => exact absurd rfl hcs
          subst hon
          have hsig : sig = 0 := by
            have : ¬ sig = 1 := fun h => by have := hs2.mp h; cases this
            omega
          subst hsig
          simp only [not_or, not_and] at hfp
          unfold Inv
          dsimp only
          refine ⟨rfl, rfl, by omega, by omega, by simp, by simp, by simp, ?_,
            hfa, hfb, hfa2, hfb2, hra, hrb, hrel0, ?_⟩
          · intro _
            refine ⟨rfl, rfl, rfl, ?_, ?_⟩
            · intro ha; have := hfp.1 ha; omega
            · intro hb; have := hfp.2 hb; omega
          · intro hr; have := (hrel1 hr).1; cases this
  | release =>
    simp only [step, Bool.false_eq_true, false_or] at hs
    split at hs
    · cases hs
    · rename_i hph
      simp only [ne_eq, Classical.not_not] at hph
      subst hph
      split at hs
      · simp only [Option.some.injEq] at hs; subst hs
        unfold Inv; simp_all
      · simp only [Option.some.injEq] at hs; subst hs
        unfold Inv; simp_all
        cases pA <;> cases pB <;> simp_all

theorem inv_run (s s' : PS) (as : List Act) (h : Inv s) (hr : run false s as = some s') : Inv s' := by
  induction as generalizing s with
  | nil => simp [run] at hr; subst hr; exact h
  | cons a as ih =>
    simp only [run] at hr
    cases hst : step false s a with
    | none => simp [hst] at hr
    | some s1 => simp [hst] at hr; exact ih s1 (inv_step s s1 a h hst) hr

/-- **C11** (repaired code), for every interleaving of pipelined calls, `Client()` requests (also repeated on
    one path), Fulfill/Reject and ReleaseClients:
    * every pipelined call is in exactly one place: with the pipeline caller (made before resolution began),
      blocked until resolution, or delivered — to the caller or to the capability in the result;
      none is delivered to the result before the promise resolved;
    * the promise resolves at most once;
    * every pipelined client handed out is fulfilled exactly once before the promise counts as resolved, and
      released exactly once by ReleaseClients;
    * `p.mu` is never left held (asking for the same pipelined client repeatedly is harmless);
    * nothing panics. -/
theorem promise_safety (as : List Act) (s : PS) (hr : run false init as = some s) :
    s.started = s.ongoing + s.waiting + s.toCaller + s.toResult ∧
    (s.phase = .unresolved → s.toResult = 0 ∧ s.waiting = 0) ∧
    s.signals ≤ 1 ∧
    (s.phase = .resolved → (s.proxyA = true → s.fulfilledA = 1) ∧ (s.proxyB = true → s.fulfilledB = 1) ∧ s.ongoing = 0) ∧
    s.fulfilledA ≤ 1 ∧ s.fulfilledB ≤ 1 ∧ s.releasedA ≤ 1 ∧ s.releasedB ≤ 1 ∧
    (s.released = true → (s.proxyA = true → s.releasedA = 1) ∧ (s.proxyB = true → s.releasedB = 1)) ∧
    s.mu = false ∧ s.panicked = false := by
  obtain ⟨hmu, hpan, hcount, hs1, hs2, hun, hpe, hre, hfa, hfb, hfa2, hfb2, hra, hrb, hrel0, hrel1⟩ :=
    inv_run init s as inv_init hr
  refine ⟨hcount, ?_, hs1, ?_, hfa, hfb, hra, hrb, ?_, hmu, hpan⟩
  · intro h; have := hun h; exact ⟨this.2.2.2.1, this.2.2.1⟩
  · intro h; have := hre h; exact ⟨this.2.2.2.1, this.2.2.2.2, this.2.1⟩
  · intro h; exact (hrel1 h).2

/-- **none of these operations can block forever**: in every reachable state the promise can still be
    resolved (while unresolved), the resolver can always make its next step or is waiting only for calls that
    can finish (while pending), and every blocked pipelined call can proceed (once resolved) -/
theorem promise_progress (as : List Act) (s : PS) (hr : run false init as = some s) :
    (s.phase = .unresolved → (step false s .resolve1).isSome = true ∧ (step false s .callStart).isSome = true ∧
        (step false s (.client true)).isSome = true) ∧
    (s.phase = .pending → (step false s (.fulfillProxy true)).isSome = true ∨ (step false s (.fulfillProxy false)).isSome = true ∨
        (step false s .callEnd).isSome = true ∨ (step false s .resolve2).isSome = true) ∧
    (s.phase = .resolved → (s.waiting > 0 → (step false s .callWake).isSome = true) ∧ (step false s .release).isSome = true) := by
  obtain ⟨hmu, hpan, hcount, hs1, hs2, hun, hpe, hre, hfa, hfb, hfa2, hfb2, hra, hrb, hrel0, hrel1⟩ :=
    inv_run init s as inv_init hr
  obtain ⟨mu, phase, ongoing, cs, pA, pB, fA, fB, sig, st, w, tc, tr, rb, rel, rA, rB, pan⟩ := s
  simp only at *
  subst hmu
  refine ⟨?_, ?_, ?_⟩
  · intro h; subst h
    refine ⟨?_, by simp [step], ?_⟩
    · simp only [step, Bool.false_eq_true, ↓reduceIte, ne_eq, not_true_eq_false]; split <;> rfl
    · simp only [step, Bool.false_eq_true, ↓reduceIte]; cases pA <;> simp
  · intro h; subst h
    obtain ⟨p1, p2, p3, p4⟩ := hpe rfl
    subst p1
    by_cases hA : pA = true ∧ fA = 0
    · left; simp [step, hA]
    · by_cases hB : pB = true ∧ fB = 0
      · right; left; simp [step, hB]
      · by_cases ho : ongoing = 0
        · right; right; right
          have hcs : cs ≠ some false := by
            intro hc; have := p4 hc; omega
          simp only [step, Bool.false_eq_true, Bool.not_true, false_or, ↓reduceIte]
          rw [if_neg (by intro hh; rcases hh with hh | hh; exact hA hh; exact hB hh), if_neg hcs]
          rfl
        · right; right; left
          simp only [step, Bool.false_eq_true, false_or, ho, ↓reduceIte]
          cases cs with
          | none => rfl
          | some b => cases b <;> simp <;> split <;> rfl
  · intro h; subst h
    refine ⟨?_, ?_⟩
    · intro hw; simp [step]; omega
    · simp only [step, Bool.false_eq_true, ne_eq, not_true_eq_false, or_self, ↓reduceIte]; split <;> rfl

-- non-vacuity: two requests for the same pipelined client, a call in flight across Fulfill, a call blocked while
-- pending, resolution, release
example : (run false init [.client true, .client true, .callStart, .resolve1, .callStart, .fulfillProxy true, .callEnd,
    .resolve2, .callWake, .release]).map (fun s => (s.toCaller, s.toResult, s.signals, s.fulfilledA, s.releasedA, s.mu)) =
    some (1, 1, 1, 1, 1, false) := by decide

end Capnp.Props.C11
