import Capnp.Lemmas.JoinRefs
/-!
# C11, joined chains — pipelined clients are released by ReleaseClients, exactly once, after the last promise of the chain

Every sequence of `NewPromise`, `Future.Client()`, `Join` (onto unresolved, joined or resolved promises, building
chains of any length and shape), `Fulfill` and `ReleaseClients` (in any order, repeated or not) that does not misuse
the API (`Join`/`Fulfill` on a promise that already left the unresolved state, a chain joined onto itself) and does
not block (`ReleaseClients` before resolution).
-/
namespace Capnp.Props.C11J
open Capnp.Model.JoinRefs Capnp.Lemmas.JoinRefs

theorem run_JInv (s s' : JS) (ops : List Op) (h : JInv s) (hr : run false s ops = some s') : JInv s' := by
  induction ops generalizing s with
  | nil => simp only [run, Option.some.injEq] at hr; subst hr; exact h
  | cons o os ih =>
    simp only [run] at hr
    cases hst : step false s o with
    | none => simp [hst] at hr
    | some s1 => simp only [hst, Option.bind_some] at hr; exact ih s1 (step_JInv s s1 o h hst) hr

/-- **a pipelined client is released at most once**, whatever the order and repetition of `ReleaseClients` calls over
    the chain -/
theorem client_released_at_most_once (ops : List Op) (s : JS) (h : run false {} ops = some s) (c : Nat) : s.drops c ≤ 1 :=
  (run_JInv {} s ops init_JInv h).drops1 c

/-- **`clientsRefs` is the number of promises of the chain that have not called `ReleaseClients` yet** -/
theorem refs_count (ops : List Op) (s : JS) (h : run false {} ops = some s) (l : Nat) (hl : l < s.n) (hj : s.joined l = false) :
    s.refs l = owing s l :=
  (run_JInv {} s ops init_JInv h).refs l hl hj

/-- **pipelined clients stay usable until every promise of their chain has released, and no longer**: a client handed
    out earlier is live exactly while it sits in the table of a chain end, and a chain end's table is non-empty only
    while some promise of the chain still owes its `ReleaseClients` — so when the last one releases, the clients go -/
theorem live_iff_owed (ops : List Op) (s : JS) (h : run false {} ops = some s) (c : Nat) :
    s.live c = true ↔ ∃ l, c ∈ s.row l ∧ 0 < owing s l := by
  have hi := run_JInv {} s ops init_JInv h
  constructor
  · intro hl
    obtain ⟨l, hm⟩ := hi.liverow c hl
    exact ⟨l, hm, hi.rowowed l (fun e => by rw [e] at hm; cases hm)⟩
  · intro ⟨l, hm, _⟩
    exact (hi.rowlive l c hm).1

theorem all_released_table_empty (ops : List Op) (s : JS) (h : run false {} ops = some s) (l : Nat) (h0 : owing s l = 0) :
    s.row l = [] := by
  have hi := run_JInv {} s ops init_JInv h
  cases hr : s.row l with
  | nil => rfl
  | cons a t => have := hi.rowowed l (by rw [hr]; simp); omega

/-- a client still in a table has never been released, and was handed out -/
theorem tabled_clients_intact (ops : List Op) (s : JS) (h : run false {} ops = some s) (l c : Nat) (hm : c ∈ s.row l) :
    s.live c = true ∧ s.drops c = 0 :=
  let hi := run_JInv {} s ops init_JInv h
  ⟨(hi.rowlive l c hm).1, (hi.rowlive l c hm).2.1⟩

/-- **marking the chain end instead of the receiver breaks both directions** (the variant `leafFlag = true`):
    B joined onto A, clients handed out from both, A fulfilled.  `B.ReleaseClients(); A.ReleaseClients()` leaves both
    clients live for ever; `B.ReleaseClients()` twice releases them while A has not released. -/
theorem leaf_flag_leaks :
    (run true {} [.new, .new, .client 0, .client 1, .join 1 0, .fulfill 0, .release 1, .release 0]).map
      (fun s => (s.live 0, s.live 1)) = some (true, true) := by decide

theorem leaf_flag_releases_early :
    (run true {} [.new, .new, .client 0, .client 1, .join 1 0, .fulfill 0, .release 1, .release 1]).map
      (fun s => (s.live 0, s.live 1)) = some (false, false) := by decide

-- non-vacuity: the same histories on the model of the code
example : (run false {} [.new, .new, .client 0, .client 1, .join 1 0, .fulfill 0, .release 1, .release 0]).map
    (fun s => (s.live 0, s.live 1, s.drops 0, s.drops 1)) = some (false, false, 1, 1) := by decide
example : (run false {} [.new, .new, .client 0, .client 1, .join 1 0, .fulfill 0, .release 1, .release 1]).map
    (fun s => (s.live 0, s.live 1)) = some (true, true) := by decide

end Capnp.Props.C11J
