import Capnp.Props.C06
import Capnp.Lemmas.RpcIds
/-!
# C07 — RPC capability references are counted exactly (export side)
-/
namespace Capnp.Props.C07
open Capnp.Model.Rpc Capnp.Lemmas.Rpc Capnp.Lemmas.RpcIds Capnp.Props.C06

theorem run_EInv (s : RS) (es : List Ev) (h : EInv s) : EInv (run s es) := by
  induction es generalizing s with
  | nil => exact h
  | cons e es ih => exact ih _ (stepTop_EInv s e h)

theorem init_EInv : EInv {} := by
  refine ⟨?_, rfl⟩
  intro id e he; cases he

/-- **the references the peer holds on an export are exactly those sent minus those given back**: after any
    history, for every entry of the export table, `wireRefs` = descriptors sent naming the id (in Returns, since the
    entry was created) − references dropped by Release messages and by Finishes that release result capabilities;
    an entry exists only while that number is positive -/
theorem export_refs (es : List Ev) (id : Nat) (e : Exp) (h : (run {} es).exports id = some e) :
    e.wireRefs + (run {} es).released id = (run {} es).sent id ∧ 0 < e.wireRefs :=
  (run_EInv {} es init_EInv).1 id e h

/-- **an export is dropped exactly when the count reaches zero**, a Release for more references than are held is
    refused (it ends the connection), and a partial Release only lowers the count -/
theorem export_drop (s : RS) (id n : Nat) (e : Exp) (he : s.exports id = some e) :
    (n > e.wireRefs → releaseExport s id n = none) ∧
    (n = e.wireRefs → ∃ r, releaseExport s id n = some r ∧ r.1.exports id = none) ∧
    (n < e.wireRefs → ∃ r, releaseExport s id n = some r ∧ r.1.exports id = some { e with wireRefs := e.wireRefs - n }) :=
  releaseExport_spec s id n e he

theorem run_XInv (s : RS) (es : List Ev) (h : XInv s) : XInv (run s es) := by
  induction es generalizing s with
  | nil => exact h
  | cons e es ih => exact ih _ (stepTop_XInv s e h)

/-- **a new export never takes the id of a live one**: after any history, the id the generator would hand out next
    has no entry in the export table (ids come back to the generator only when their entry is dropped, and are not
    handed out twice in between) -/
theorem export_id_fresh (es : List Ev) : (run {} es).exports ((run {} es).exportID.next).1 = none :=
  next_fresh _ (run_XInv {} es init_XInv)

/-- a Release naming an id that is not in the table, or more references than the peer holds, ends the connection -/
theorem bad_release_aborts (s : RS) (id n : Nat) (hopen : s.closed = false) (h : releaseExport s id n = none) :
    (step true s (.release id n)).1.closed = true := by
  simp only [step, hopen, Bool.false_eq_true, ↓reduceIte, h, abortWith]
  exact Capnp.Lemmas.RpcAns.shutdown_closed true s true

/-- after Close (or an abort) the export table is empty: every export's client was handed back -/
theorem close_clears (fixed : Bool) (s : RS) (hopen : s.closed = false) (b : Bool) :
    ∀ id, (shutdown fixed s b).1.exports id = none := by
  intro id
  unfold shutdown
  simp only [hopen, Bool.false_eq_true, ↓reduceIte]

-- non-vacuity: two Bootstraps export the same capability twice (wireRefs 2); a Finish with releaseResultCaps gives one back
example : ((run {} [.bootstrap 0, .bootstrap 1, .finish 0 true]).exports 0).map (·.wireRefs) = some 1 ∧
    (run {} [.bootstrap 0, .bootstrap 1, .finish 0 true]).sent 0 = 2 ∧
    (run {} [.bootstrap 0, .bootstrap 1, .finish 0 true]).released 0 = 1 := by decide

end Capnp.Props.C07
