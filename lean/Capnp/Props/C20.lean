import Capnp.Model.Quote
import Capnp.Spec.TextLit
/-!
# C20 — text rendering: every string and data literal is well formed and recoverable

For **every** byte string, the literal produced by (the model of) `strquote.Append` is accepted by
the reference parser of the text format and denotes exactly the original bytes.  The per-byte
escaping decision is the generated `needsEscape`.
-/
namespace Capnp.Props.C20
open Capnp.Model.Quote Capnp.Spec.TextLit Capnp.Gen.Strquote

theorem hexVal_hexDigit (n : Nat) (h : n < 16) : hexVal (hexDigit n) = some n := by
  have : ∀ k : Fin 16, hexVal (hexDigit k.val) = some k.val := by decide
  exact this ⟨n, h⟩

/-- one byte: the item parser reads back exactly what was emitted for it -/
theorem item_quoteByte (b : Nat) (hb : b < 256) (rest : List Nat) :
    item (quoteByte b ++ rest) = some (b, rest) := by
  unfold quoteByte needsEscape
  by_cases hplain : (32 ≤ b ∧ b < 127 ∧ b ≠ 34 ∧ b ≠ 92 ∧ b ≠ 39)
  · obtain ⟨h1, h2, h3, h4, h5⟩ := hplain
    have hc : (!(decide ((b : Int) < 32) || decide ((b : Int) ≥ 127) || decide ((b : Int) = 34) || decide ((b : Int) = 92) || decide ((b : Int) = 39))) = true := by
      simp; omega
    rw [if_pos hc]
    have hp : plain b = true := by unfold plain; simp; omega
    simp [item, h3, h4, hp]
  · have hc : (!(decide ((b : Int) < 32) || decide ((b : Int) ≥ 127) || decide ((b : Int) = 34) || decide ((b : Int) = 92) || decide ((b : Int) = 39))) = false := by
      simp only [not_and, Nat.not_lt] at hplain
      simp
      by_cases h1 : 32 ≤ b
      · by_cases h2 : b < 127
        · by_cases h3 : b = 34
          · omega
          · by_cases h4 : b = 92
            · omega
            · have := hplain h1 h2 h3 h4
              simp at this; omega
        · omega
      · omega
    rw [hc]
    simp only [Bool.false_eq_true, ↓reduceIte]
    by_cases e1 : b = 7; · subst e1; simp [item, esc]
    by_cases e2 : b = 8; · subst e2; simp [item, esc]
    by_cases e3 : b = 12; · subst e3; simp [item, esc]
    by_cases e4 : b = 10; · subst e4; simp [item, esc]
    by_cases e5 : b = 13; · subst e5; simp [item, esc]
    by_cases e6 : b = 9; · subst e6; simp [item, esc]
    by_cases e7 : b = 11; · subst e7; simp [item, esc]
    by_cases e8 : b = 39; · subst e8; simp [item, esc]
    by_cases e9 : b = 34; · subst e9; simp [item, esc]
    by_cases e10 : b = 92; · subst e10; simp [item, esc]
    simp only [e1, e2, e3, e4, e5, e6, e7, e8, e9, e10, ↓reduceIte, List.cons_append, List.nil_append, item]
    rw [hexVal_hexDigit (b / 16) (by omega), hexVal_hexDigit (b % 16) (by omega)]
    simp only
    have : 16 * (b / 16) + b % 16 = b := by omega
    rw [this]

theorem quoteByte_ne_close (b : Nat) (hb : b < 256) (rest : List Nat) : quoteByte b ++ rest ≠ [34] ∨ False := by
  left
  intro h
  have := item_quoteByte b hb rest
  rw [h] at this
  simp [item] at this

/-- with enough fuel the parser reads a quoted body back -/
theorem unquoteFuel_body (s : List Nat) (hs : ∀ b ∈ s, b < 256) (f : Nat) :
    unquoteFuel (f + s.length + 1) (s.flatMap quoteByte ++ [34]) = some s := by
  induction s with
  | nil => simp [unquoteFuel]
  | cons b bs ih =>
    have hb := hs b (by simp)
    have e : f + (b :: bs).length + 1 = (f + bs.length + 1) + 1 := by simp; omega
    rw [e]
    have hne : quoteByte b ++ (bs.flatMap quoteByte ++ [34]) ≠ [34] := by
      rcases quoteByte_ne_close b hb (bs.flatMap quoteByte ++ [34]) with h | h
      · exact h
      · exact absurd h id
    rw [List.flatMap_cons, List.append_assoc, unquoteFuel, if_neg hne, item_quoteByte b hb]
    simp only
    rw [ih (fun x hx => hs x (by simp [hx]))]
    rfl

theorem quoteByte_length (b : Nat) : 1 ≤ (quoteByte b).length := by
  unfold quoteByte
  repeat' split
  all_goals simp

theorem flatMap_quote_length (s : List Nat) : s.length ≤ (s.flatMap quoteByte).length := by
  induction s with
  | nil => simp
  | cons b bs ih =>
    simp only [List.flatMap_cons, List.length_append, List.length_cons]
    have := quoteByte_length b
    omega

/-- **every literal is recoverable**: the reference parser accepts `quote s` and returns `s`, for every byte string -/
theorem unquote_quote (s : List Nat) (hs : ∀ b ∈ s, b < 256) : unquote (quote s) = some s := by
  unfold quote unquote unquoteBody
  simp only
  have hl := flatMap_quote_length s
  have e : (s.flatMap quoteByte ++ [34]).length + 1 = ((s.flatMap quoteByte).length + 1 - s.length) + s.length + 1 := by
    simp only [List.length_append, List.length_cons, List.length_nil]; omega
  rw [e]
  exact unquoteFuel_body s hs _

/-- **every literal is well formed**: in particular it contains no raw quote, backslash, control or non-ASCII
    byte between its delimiters (anything else is rejected by the reference parser) -/
theorem quote_wf (s : List Nat) (hs : ∀ b ∈ s, b < 256) : (unquote (quote s)).isSome = true := by
  rw [unquote_quote s hs]; rfl

/-- **faithful**: two different byte strings never render to the same literal -/
theorem quote_injective (s t : List Nat) (hs : ∀ b ∈ s, b < 256) (ht : ∀ b ∈ t, b < 256)
    (h : quote s = quote t) : s = t := by
  have h1 := unquote_quote s hs
  rw [h, unquote_quote t ht] at h1
  exact (Option.some.inj h1).symm

theorem quoteByte_printable (b : Nat) (hb : b < 256) : ∀ c ∈ quoteByte b, 32 ≤ c ∧ c ≤ 126 := by
  have : ∀ k : Fin 256, ∀ c ∈ quoteByte k.val, 32 ≤ c ∧ c ≤ 126 := by decide +kernel
  exact this ⟨b, hb⟩

/-- **pure printable ASCII**: every byte of every literal (delimiters included) is in 0x20 … 0x7e, whatever
    the input bytes — control characters, DEL and non-ASCII bytes only ever appear escaped -/
theorem quote_printable (s : List Nat) (hs : ∀ b ∈ s, b < 256) : ∀ c ∈ quote s, 32 ≤ c ∧ c ≤ 126 := by
  intro c hc
  simp only [quote, List.mem_cons, List.mem_append, List.mem_flatMap, List.not_mem_nil, or_false] at hc
  rcases hc with rfl | ⟨b, hb, hcb⟩ | rfl
  · omega
  · exact quoteByte_printable b (hs b hb) c hcb
  · omega

/-- the only unescaped `"` of a literal are its two delimiters: inside the body a quote is always preceded by
    a backslash that is itself an escape introducer (stated on the per-byte emission) -/
theorem quoteByte_no_raw_quote (b : Nat) (hb : b < 256) :
    quoteByte b = [b] ∧ b ≠ 34 ∧ b ≠ 92 ∨ (quoteByte b).head? = some 92 ∧ 2 ≤ (quoteByte b).length := by
  have : ∀ k : Fin 256, quoteByte k.val = [k.val] ∧ k.val ≠ 34 ∧ k.val ≠ 92 ∨
      (quoteByte k.val).head? = some 92 ∧ 2 ≤ (quoteByte k.val).length := by decide +kernel
  exact this ⟨b, hb⟩

example : quote [0, 200, 127] = [34, 92,120,48,48, 92,120,99,56, 92,120,55,102, 34] := by decide

theorem quoteByte_length_le (b : Nat) : (quoteByte b).length ≤ 4 := by
  unfold quoteByte
  repeat' split
  all_goals simp

/-- **bounded output**: a literal is at most four bytes per input byte plus the two delimiters -/
theorem quote_length_le (s : List Nat) : (quote s).length ≤ 4 * s.length + 2 := by
  have h : (s.flatMap quoteByte).length ≤ 4 * s.length := by
    induction s with
    | nil => simp
    | cons x xs ih =>
      simp only [List.flatMap_cons, List.length_append, List.length_cons]
      have := quoteByte_length_le x; omega
  simp only [quote, List.length_cons, List.length_append, List.length_nil]; omega

-- non-vacuity / the motivating input: quotes and backslashes
example : quote [97, 34, 98, 92, 99] = [34, 97, 92, 34, 98, 92, 92, 99, 34] := by decide

end Capnp.Props.C20
