import Capnp.Model.Framing
import Capnp.Lemmas.Arith
/-!
# C14 — stream framing is exact and decoding is bounded by the configured limits
-/
namespace Capnp.Props.C14
open Capnp.Prelude Capnp.Gen Capnp.Model.Framing Capnp.Lemmas.Arith

/-- the header size of the generated code is the spec's: 4·(n+2) bytes (count word + n+1 sizes) rounded up to a
    whole word — in 64-bit arithmetic, for every 32-bit segment count (no wrap-around) -/
theorem streamHeaderSize_spec (n : Int) (hn : 0 ≤ n ∧ n < 4294967296) :
    streamHeaderSize n = 8 * ((n + 3) / 2) := by
  unfold streamHeaderSize wrapU64; omega

theorem streamHeaderSize_ge (n : Int) (hn : 0 ≤ n ∧ n < 4294967296) :
    4 * (n + 2) ≤ streamHeaderSize n ∧ streamHeaderSize n ≤ 4 * (n + 2) + 4 := by
  rw [streamHeaderSize_spec n hn]; omega

theorem segSizes_length (tbl : List Nat) (i n : Nat) (sizes : List Nat) (h : segSizes tbl i n = some sizes) :
    sizes.length = n := by
  induction n generalizing i sizes with
  | zero => simp [segSizes] at h; subst h; rfl
  | succ n ih =>
    simp only [segSizes] at h
    split at h
    · simp at h
    · simp only [Option.map_eq_some_iff] at h
      obtain ⟨rest, hr, rfl⟩ := h
      simp [ih (i + 1) rest hr]

theorem demux_length (sizes : List Nat) (data : List Nat) : (demux sizes data).length = sizes.length := by
  induction sizes generalizing data with
  | nil => rfl
  | cons s ss ih => simp [demux, ih]

theorem demux_flatten_length (sizes : List Nat) (data : List Nat) (h : sizes.foldl (· + ·) 0 ≤ data.length) :
    (demux sizes data).flatten.length = sizes.foldl (· + ·) 0 := by
  have foldl_shift : ∀ (l : List Nat) (a : Nat), l.foldl (· + ·) a = a + l.foldl (· + ·) 0 := by
    intro l
    induction l with
    | nil => intro a; simp
    | cons x xs ih => intro a; simp only [List.foldl_cons]; rw [ih (a + x), ih (0 + x)]; omega
  induction sizes generalizing data with
  | nil => simp [demux]
  | cons s ss ih =>
    simp only [List.foldl_cons] at h ⊢
    rw [foldl_shift] at h ⊢
    simp only [demux, List.flatten_cons, List.length_append, List.length_take]
    rw [ih (data.drop s) (by simp; omega)]
    omega

/-- **decoding is bounded by the configured limits, for every input** (any header words): a message
    that `Decode` accepts has at most 513 segments, and header + segments never exceed
    `MaxMessageSize` (64 MiB when unset) — the buffer `Decode` allocates is exactly the segments' total -/
theorem decode_bounds (max : Nat) (inp : List Nat) (segs : List (List Nat)) (rest : List Nat)
    (h : decodeFrame max inp = .ok segs rest) :
    segs.length ≤ 513 ∧ segs.flatten.length + 8 ≤ (if max = 0 then defaultDecodeLimit else max) := by
  unfold decodeFrame at h
  by_cases h1 : max ≠ 0 ∧ max < 8
  · rw [if_pos h1] at h; cases h
  rw [if_neg h1] at h
  simp only at h
  generalize (if max = 0 then defaultDecodeLimit else max) = maxSize at h ⊢
  by_cases h2 : inp.length = 0
  · rw [if_pos h2] at h; cases h
  rw [if_neg h2] at h
  by_cases h3 : inp.length < 8
  · rw [if_pos h3] at h; cases h
  rw [if_neg h3] at h
  by_cases h4 : le32 inp > 512
  · rw [if_pos h4] at h; cases h
  rw [if_neg h4] at h
  have hh : 8 ≤ (if le32 inp = 0 then 8 else (streamHeaderSize ↑(le32 inp)).toNat) := by
    split
    · omega
    · have := streamHeaderSize_ge (le32 inp) ⟨by omega, by omega⟩
      omega
  generalize (if le32 inp = 0 then 8 else (streamHeaderSize ↑(le32 inp)).toNat) = hdrSize at h hh
  by_cases h5 : hdrSize > maxSize
  · rw [if_pos h5] at h; cases h
  rw [if_neg h5] at h
  by_cases h6 : inp.length < hdrSize
  · rw [if_pos h6] at h; cases h
  rw [if_neg h6] at h
  cases hs : segSizes inp 0 (le32 inp + 1) with
  | none => rw [hs] at h; cases h
  | some sizes =>
    rw [hs] at h
    simp only at h
    by_cases h7 : sizes.foldl (· + ·) 0 > maxSize - hdrSize
    · rw [if_pos h7] at h; cases h
    rw [if_neg h7] at h
    by_cases h8 : (inp.drop hdrSize).length < sizes.foldl (· + ·) 0
    · rw [if_pos h8] at h; cases h
    rw [if_neg h8] at h
    simp only [DRes.ok.injEq] at h
    obtain ⟨rfl, _⟩ := h
    have hl := segSizes_length inp 0 _ sizes hs
    rw [demux_length, hl]
    refine ⟨by omega, ?_⟩
    rw [demux_flatten_length sizes _ (by omega)]
    omega

/-! ## round trip -/

theorem le32_put32 (n : Nat) (hn : n < 4294967296) (rest : List Nat) : le32 (put32 n ++ rest) = n := by
  simp only [put32, le32, List.cons_append, List.nil_append, List.getD_cons_zero, List.getD_cons_succ]
  omega

theorem put32_length (n : Nat) : (put32 n).length = 4 := rfl

theorem flatMap_put32_length (ws : List Nat) : (ws.flatMap put32).length = 4 * ws.length := by
  induction ws with
  | nil => rfl
  | cons w ws ih => simp only [List.flatMap_cons, List.length_append, put32_length, ih, List.length_cons]; omega

/-- reading the size table written by the encoder gives back the sizes (in bytes) -/
theorem segSizes_table (pre : List Nat) (ws : List Nat) (rest : List Nat) (i : Nat)
    (hpre : pre.length = 4 + 4 * i) (hw : ∀ w ∈ ws, w < 536870912) :
    segSizes (pre ++ ws.flatMap put32 ++ rest) i ws.length = some (ws.map (8 * ·)) := by
  induction ws generalizing pre i with
  | nil => simp [segSizes]
  | cons w ws ih =>
    have hwlt : w < 536870912 := hw w (by simp)
    simp only [List.length_cons, segSizes]
    have hdrop : (pre ++ (w :: ws).flatMap put32 ++ rest).drop (4 + 4 * i) = put32 w ++ (ws.flatMap put32 ++ rest) := by
      rw [List.append_assoc, ← hpre, List.drop_left]
      simp [List.flatMap_cons, List.append_assoc]
    rw [hdrop, le32_put32 w (by omega)]
    rw [wrapI32_id (w : Int) (by omega), times_spec 8 w (by omega) (by omega)]
    have : ¬ ((8 : Int) * w > 4294967288 ∨ (8 : Int) * w < 0) := by omega
    simp only [this, ↓reduceIte, Bool.not_true, Bool.false_eq_true]
    have e : pre ++ (w :: ws).flatMap put32 ++ rest = (pre ++ put32 w) ++ ws.flatMap put32 ++ rest := by
      simp [List.flatMap_cons, List.append_assoc]
    rw [e, ih (pre ++ put32 w) (i + 1) (by simp [hpre, put32_length]; omega) (fun x hx => hw x (by simp [hx]))]
    simp only [Option.map_some, List.map_cons, Option.some.injEq, List.cons.injEq, and_true]
    omega

theorem demux_flatten (segs : List (List Nat)) (rest : List Nat) :
    demux (segs.map List.length) (segs.flatten ++ rest) = segs := by
  induction segs with
  | nil => rfl
  | cons s ss ih =>
    simp only [List.map_cons, demux, List.flatten_cons, List.append_assoc]
    rw [List.take_left, List.drop_left, ih]

theorem sum_lengths (segs : List (List Nat)) : (segs.map List.length).foldl (· + ·) 0 = segs.flatten.length := by
  have foldl_shift : ∀ (l : List Nat) (a : Nat), l.foldl (· + ·) a = a + l.foldl (· + ·) 0 := by
    intro l
    induction l with
    | nil => intro a; simp
    | cons x xs ih => intro a; simp only [List.foldl_cons]; rw [ih (a + x), ih (0 + x)]; omega
  induction segs with
  | nil => rfl
  | cons s ss ih =>
    simp only [List.map_cons, List.foldl_cons, List.flatten_cons, List.length_append]
    rw [foldl_shift, ih]; omega

/-- a message the encoder can frame: at least one and at most 513 segments, whole words, each < 4 GiB -/
def Framable (segs : List (List Nat)) : Prop :=
  1 ≤ segs.length ∧ segs.length ≤ 513 ∧ ∀ s ∈ segs, s.length % 8 = 0 ∧ s.length / 8 < 536870912

/-- the encoder's header: its length is the generated `streamHeaderSize`, its first word the count -/
def header (segs : List (List Nat)) : List Nat :=
  let hdr := put32 (segs.length - 1) ++ segs.flatMap (fun s => put32 (s.length / 8))
  if hdr.length % 8 = 0 then hdr else hdr ++ [0, 0, 0, 0]

theorem encodeFrame_eq (segs : List (List Nat)) : encodeFrame segs = header segs ++ segs.flatten := rfl

theorem flatMap_sizes (segs : List (List Nat)) :
    segs.flatMap (fun s => put32 (s.length / 8)) = (segs.map (fun s => s.length / 8)).flatMap put32 := by
  induction segs with
  | nil => rfl
  | cons s ss ih => simp [List.flatMap_cons, ih]

theorem header_length (segs : List (List Nat)) (h : 1 ≤ segs.length ∧ segs.length ≤ 513) :
    ((header segs).length : Int) = streamHeaderSize ((segs.length - 1 : Nat) : Int) := by
  rw [streamHeaderSize_spec _ (by omega)]
  unfold header
  simp only [List.length_append, put32_length, flatMap_sizes, flatMap_put32_length, List.length_map]
  split
  · rename_i h8; simp only [List.length_append, put32_length, flatMap_put32_length, List.length_map]; omega
  · rename_i h8; simp only [List.length_append, put32_length, flatMap_put32_length, List.length_map, List.length_cons, List.length_nil]; omega

theorem header_shape (segs : List (List Nat)) :
    ∃ pad, header segs = put32 (segs.length - 1) ++ (segs.map (fun s => s.length / 8)).flatMap put32 ++ pad := by
  unfold header
  simp only [flatMap_sizes]
  split
  · exact ⟨[], by simp⟩
  · exact ⟨[0, 0, 0, 0], by simp⟩

/-- the decoder reads the encoder's size table back -/
theorem segSizes_frame (segs : List (List Nat)) (rest : List Nat) (hn1 : 1 ≤ segs.length)
    (hseg : ∀ s ∈ segs, s.length % 8 = 0 ∧ s.length / 8 < 536870912) :
    segSizes (encodeFrame segs ++ rest) 0 (segs.length - 1 + 1) = some (segs.map List.length) := by
  obtain ⟨pad, hpad⟩ := header_shape segs
  have e1 : segs.length - 1 + 1 = (segs.map (fun s => s.length / 8)).length := by simp; omega
  rw [e1, encodeFrame_eq, hpad]
  have e2 : put32 (segs.length - 1) ++ (segs.map (fun s => s.length / 8)).flatMap put32 ++ pad ++ segs.flatten ++ rest =
      put32 (segs.length - 1) ++ (segs.map (fun s => s.length / 8)).flatMap put32 ++ (pad ++ segs.flatten ++ rest) := by
    simp [List.append_assoc]
  rw [e2, segSizes_table (put32 (segs.length - 1)) _ _ 0 (by simp [put32_length])
    (by intro w hw; simp only [List.mem_map] at hw; obtain ⟨s, hs, rfl⟩ := hw; exact (hseg s hs).2)]
  congr 1
  rw [List.map_map]
  apply List.map_congr_left
  intro s hs
  have := (hseg s hs).1
  simp only [Function.comp]
  omega

/-- **framing round trip**: whatever follows on the stream, a decoder with a sufficient limit reads back
    exactly the segments the encoder framed and leaves the reader at the frame boundary -/
theorem decode_encode (max : Nat) (segs : List (List Nat)) (rest : List Nat) (hf : Framable segs)
    (hmax : (header segs).length + segs.flatten.length ≤ (if max = 0 then defaultDecodeLimit else max))
    (hmax8 : max = 0 ∨ 8 ≤ max) :
    decodeFrame max (encodeFrame segs ++ rest) = .ok segs rest := by
  obtain ⟨hn1, hn2, hseg⟩ := hf
  have hlen := header_length segs ⟨hn1, hn2⟩
  -- the header as count word ++ table ++ padding
  have hhdr : ∃ pad, header segs = put32 (segs.length - 1) ++ (segs.map (fun s => s.length / 8)).flatMap put32 ++ pad := by
    unfold header
    simp only [flatMap_sizes]
    split
    · exact ⟨[], by simp⟩
    · exact ⟨[0, 0, 0, 0], by simp⟩
  obtain ⟨pad, hpad⟩ := hhdr
  have hge := streamHeaderSize_ge ((segs.length - 1 : Nat) : Int) (by omega)
  have hle32 : le32 (encodeFrame segs ++ rest) = segs.length - 1 := by
    rw [encodeFrame_eq, hpad]
    simp only [List.append_assoc]
    exact le32_put32 _ (by omega) _
  have hinlen : (encodeFrame segs ++ rest).length = (header segs).length + segs.flatten.length + rest.length := by
    rw [encodeFrame_eq]; simp only [List.length_append]
  unfold decodeFrame
  rw [if_neg (by omega)]
  simp only
  generalize hms : (if max = 0 then defaultDecodeLimit else max) = maxSize at hmax ⊢
  rw [if_neg (by omega), if_neg (by omega), hle32, if_neg (by omega)]
  have hhs : (if segs.length - 1 = 0 then 8 else (streamHeaderSize ((segs.length - 1 : Nat) : Int)).toNat) = (header segs).length := by
    split
    · rename_i h0
      have : segs.length = 1 := by omega
      rw [h0] at hlen
      have e := streamHeaderSize_spec ((0 : Nat) : Int) (by omega)
      rw [e] at hlen
      omega
    · omega
  rw [hhs, if_neg (by omega), if_neg (by omega)]
  have hsz := segSizes_frame segs rest hn1 hseg
  rw [hsz]
  simp only
  rw [sum_lengths, if_neg (by omega)]
  have hdrop : (encodeFrame segs ++ rest).drop (header segs).length = segs.flatten ++ rest := by
    rw [encodeFrame_eq, List.append_assoc, List.drop_left]
  rw [hdrop, if_neg (by simp)]
  rw [demux_flatten, List.drop_left]

theorem decodeFrame_nil (max : Nat) (h : max = 0 ∨ 8 ≤ max) : decodeFrame max [] = .eof := by
  unfold decodeFrame
  rw [if_neg (by omega)]
  simp

/-- every message of the stream fits the decoder's limit -/
def Fits (max : Nat) (segs : List (List Nat)) : Prop :=
  Framable segs ∧ (header segs).length + segs.flatten.length ≤ (if max = 0 then defaultDecodeLimit else max)

/-- **stream round trip**: a decoder reading the concatenation of the frames of any sequence of messages
    returns the same messages in order and then reports end-of-stream — at the frame boundary -/
theorem stream_rt (max : Nat) (ms : List (List (List Nat))) (fuel : Nat) (hmax8 : max = 0 ∨ 8 ≤ max)
    (hfit : ∀ m ∈ ms, Fits max m) (hfuel : ms.length < fuel) :
    decodeAll max fuel ((ms.map encodeFrame).flatten) = (ms, true) := by
  induction ms generalizing fuel with
  | nil =>
    cases fuel with
    | zero => omega
    | succ f => simp [decodeAll, decodeFrame_nil max hmax8]
  | cons m ms ih =>
    cases fuel with
    | zero => omega
    | succ f =>
      simp only [List.map_cons, List.flatten_cons, decodeAll]
      have hm := hfit m (by simp)
      rw [decode_encode max m _ hm.1 hm.2 hmax8]
      simp only
      rw [ih f (fun x hx => hfit x (by simp [hx])) (by simp at hfuel; omega)]

/-! ## a cut stream is an error, never a clean end and never a message -/

theorem getD_take_drop (l : List Nat) (k o j : Nat) (h : o + j < k) :
    ((l.take k).drop o).getD j 0 = (l.drop o).getD j 0 := by
  simp only [List.getD_eq_getElem?_getD, List.getElem?_drop, List.getElem?_take]
  rw [if_pos h]

theorem le32_take (l : List Nat) (k o : Nat) (h : o + 4 ≤ k) : le32 ((l.take k).drop o) = le32 (l.drop o) := by
  unfold le32
  rw [getD_take_drop l k o 0 (by omega), getD_take_drop l k o 1 (by omega), getD_take_drop l k o 2 (by omega),
    getD_take_drop l k o 3 (by omega)]

theorem segSizes_take (l : List Nat) (k i n : Nat) (h : 4 + 4 * (i + n) ≤ k) :
    segSizes (l.take k) i n = segSizes l i n := by
  induction n generalizing i with
  | zero => simp [segSizes]
  | succ n ih =>
    simp only [segSizes]
    rw [le32_take l k (4 + 4 * i) (by omega), ih (i + 1) (by omega)]

theorem decodeFrame_eof (max : Nat) (inp : List Nat) (h : decodeFrame max inp = .eof) : inp.length = 0 := by
  unfold decodeFrame at h
  by_cases h1 : max ≠ 0 ∧ max < 8
  · rw [if_pos h1] at h; cases h
  rw [if_neg h1] at h
  simp only at h
  by_cases h2 : inp.length = 0
  · exact h2
  rw [if_neg h2] at h
  by_cases h3 : inp.length < 8
  · rw [if_pos h3] at h; cases h
  rw [if_neg h3] at h
  by_cases h4 : le32 inp > 512
  · rw [if_pos h4] at h; cases h
  rw [if_neg h4] at h
  generalize (if max = 0 then defaultDecodeLimit else max) = maxSize at h
  generalize (if le32 inp = 0 then 8 else (streamHeaderSize ↑(le32 inp)).toNat) = hdrSize at h
  by_cases h5 : hdrSize > maxSize
  · rw [if_pos h5] at h; cases h
  rw [if_neg h5] at h
  by_cases h6 : inp.length < hdrSize
  · rw [if_pos h6] at h; cases h
  rw [if_neg h6] at h
  cases hs : segSizes inp 0 (le32 inp + 1) with
  | none => rw [hs] at h; cases h
  | some sizes =>
    rw [hs] at h
    simp only at h
    by_cases h7 : sizes.foldl (· + ·) 0 > maxSize - hdrSize
    · rw [if_pos h7] at h; cases h
    rw [if_neg h7] at h
    by_cases h8 : (inp.drop hdrSize).length < sizes.foldl (· + ·) 0
    · rw [if_pos h8] at h; cases h
    rw [if_neg h8] at h
    cases h

/-- what an accepted frame implies about the input's length -/
theorem decodeFrame_ok_len (max : Nat) (inp : List Nat) (segs : List (List Nat)) (rest : List Nat)
    (h : decodeFrame max inp = .ok segs rest) :
    8 ≤ inp.length ∧ le32 inp ≤ 512 ∧
    ∃ sizes, segSizes inp 0 (le32 inp + 1) = some sizes ∧
      (if le32 inp = 0 then 8 else (streamHeaderSize ↑(le32 inp)).toNat) + sizes.foldl (· + ·) 0 ≤ inp.length := by
  unfold decodeFrame at h
  by_cases h1 : max ≠ 0 ∧ max < 8
  · rw [if_pos h1] at h; cases h
  rw [if_neg h1] at h
  simp only at h
  generalize (if max = 0 then defaultDecodeLimit else max) = maxSize at h
  by_cases h2 : inp.length = 0
  · rw [if_pos h2] at h; cases h
  rw [if_neg h2] at h
  by_cases h3 : inp.length < 8
  · rw [if_pos h3] at h; cases h
  rw [if_neg h3] at h
  by_cases h4 : le32 inp > 512
  · rw [if_pos h4] at h; cases h
  rw [if_neg h4] at h
  generalize (if le32 inp = 0 then 8 else (streamHeaderSize ↑(le32 inp)).toNat) = hdrSize at h ⊢
  by_cases h5 : hdrSize > maxSize
  · rw [if_pos h5] at h; cases h
  rw [if_neg h5] at h
  by_cases h6 : inp.length < hdrSize
  · rw [if_pos h6] at h; cases h
  rw [if_neg h6] at h
  cases hs : segSizes inp 0 (le32 inp + 1) with
  | none => rw [hs] at h; cases h
  | some sizes =>
    rw [hs] at h
    simp only at h
    by_cases h7 : sizes.foldl (· + ·) 0 > maxSize - hdrSize
    · rw [if_pos h7] at h; cases h
    rw [if_neg h7] at h
    by_cases h8 : (inp.drop hdrSize).length < sizes.foldl (· + ·) 0
    · rw [if_pos h8] at h; cases h
    refine ⟨by omega, by omega, sizes, rfl, ?_⟩
    simp only [List.length_drop] at h8
    omega

/-- **a stream cut anywhere inside a frame yields an error**: not end-of-stream, not a (shorter) message —
    for every frame the encoder can write, every cut point strictly inside it, every limit -/
theorem cut_is_error (max : Nat) (segs : List (List Nat)) (k : Nat) (hf : Framable segs)
    (hk : 0 < k ∧ k < (encodeFrame segs).length) :
    decodeFrame max ((encodeFrame segs).take k) = .err := by
  obtain ⟨hn1, hn2, hseg⟩ := hf
  have hlen := header_length segs ⟨hn1, hn2⟩
  have hge := streamHeaderSize_ge ((segs.length - 1 : Nat) : Int) (by omega)
  have hL : (encodeFrame segs).length = (header segs).length + segs.flatten.length := by
    rw [encodeFrame_eq]; simp
  have htl : ((encodeFrame segs).take k).length = k := by simp; omega
  cases hres : decodeFrame max ((encodeFrame segs).take k) with
  | err => rfl
  | eof => have := decodeFrame_eof _ _ hres; omega
  | ok segs' rest' =>
    exfalso
    obtain ⟨h8, h512, sizes, hsz, hlenle⟩ := decodeFrame_ok_len _ _ _ _ hres
    rw [htl] at h8 hlenle
    -- the cut input starts with the same count word
    have hpre : ∃ pad, header segs = put32 (segs.length - 1) ++ (segs.map (fun s => s.length / 8)).flatMap put32 ++ pad := by
      unfold header
      simp only [flatMap_sizes]
      split
      · exact ⟨[], by simp⟩
      · exact ⟨[0, 0, 0, 0], by simp⟩
    obtain ⟨pad, hpad⟩ := hpre
    have hcount : le32 ((encodeFrame segs).take k) = segs.length - 1 := by
      have := le32_take (encodeFrame segs) k 0 (by omega)
      simp only [List.drop_zero] at this
      rw [this, encodeFrame_eq, hpad]
      simp only [List.append_assoc]
      exact le32_put32 _ (by omega) _
    rw [hcount] at hsz hlenle
    have hhs : (if segs.length - 1 = 0 then 8 else (streamHeaderSize ((segs.length - 1 : Nat) : Int)).toNat) = (header segs).length := by
      split
      · rename_i h0
        rw [h0] at hlen
        have e := streamHeaderSize_spec ((0 : Nat) : Int) (by omega)
        rw [e] at hlen
        omega
      · omega
    rw [hhs] at hlenle
    -- the whole table lies before the cut, so the same sizes are read
    have hkH : (header segs).length ≤ k := by omega
    have htab : 4 + 4 * (0 + (segs.length - 1 + 1)) ≤ k := by omega
    rw [segSizes_take _ k 0 _ htab] at hsz
    have hfull : segSizes (encodeFrame segs) 0 (segs.length - 1 + 1) = some (segs.map List.length) := by
      have := segSizes_frame segs [] hn1 hseg
      rw [List.append_nil] at this
      exact this
    rw [hfull] at hsz
    simp only [Option.some.injEq] at hsz
    rw [← hsz, sum_lengths] at hlenle
    omega

-- non-vacuity: a two-segment message is framable, its frame is 32 bytes, and cutting it at byte 12 is an error
example : Framable [[1,0,0,0,0,0,0,0], [2,0,0,0,0,0,0,0]] := by
  refine ⟨by decide, by decide, ?_⟩
  intro s hs; simp at hs; rcases hs with rfl | rfl <;> decide

end Capnp.Props.C14
