import Capnp.Lemmas.Server
/-!
# C12 — a local server sees calls in order, within its concurrency cap, until shutdown

All theorems quantify over **every** list of actions of `Capnp.Model.Server` from the initial state: every
number of calls, every interleaving of their `start()` sections with acknowledgements, returns, caller
cancellations and `Shutdown`, and every `MaxConcurrentCalls = m` (resp. every `AnswerQueueSize = cap`).
-/
namespace Capnp.Props.C12
open Capnp.Model.Server Capnp.Lemmas.Server

/-- **at most `MaxConcurrentCalls` implementations run at once**: the running implementations are exactly the
    occupied slots, without repetition, and there are at most `m` of them; `ongoing[-1]` is never indexed -/
theorem cap (m : Nat) (as : List Act) (s : SS) (hr : run m init as = some s) :
    s.slots.length ≤ m ∧ s.slots.Nodup ∧ (∀ k, k ∈ s.slots ↔ (s.calls k).impl = .running) ∧ s.panicked = false := by
  obtain ⟨hg, hp⟩ := inv_run m init s as (inv_init m) hr
  exact ⟨hg.2.2.1, hg.2.1, fun k => (hp k).2.2.2.2.2.2.1, hg.2.2.2.1⟩

/-- **a call is not started until the previous one has returned or acknowledged delivery**: at any time at
    most one implementation is running without having acknowledged, and its `start()` holds the gate -/
theorem gate (m : Nat) (as : List Act) (s : SS) (hr : run m init as = some s) (i j : Nat)
    (hi : (s.calls i).impl = .running ∧ (s.calls i).acked = false)
    (hj : (s.calls j).impl = .running ∧ (s.calls j).acked = false) : i = j ∧ s.starting = some i := by
  obtain ⟨hg, hp⟩ := inv_run m init s as (inv_init m) hr
  have pi := hp i; have pj := hp j
  unfold PC at pi pj
  grind

/-- launching an implementation does not touch the call's acknowledgement flag -/
theorem launch_keeps_acked (m : Nat) (s s' : SS) (a : Act) (j : Nat) (hs : step m s a = some s')
    (h0 : (s.calls j).impl = .notStarted) (h1 : (s'.calls j).impl = .running) :
    (s'.calls j).acked = (s.calls j).acked := by
  cases a <;> simp only [step] at hs <;> (repeat' split at hs) <;> (try cases hs) <;>
    (try (simp only [Option.some.injEq] at hs; subst hs)) <;>
    simp only [upd, launch, reject] at h1 ⊢ <;> grind

/-- … stated on the step that launches an implementation: every other implementation still running at that
    moment has acknowledged -/
theorem launch_after_ack (m : Nat) (as : List Act) (s s' : SS) (a : Act) (hr : run m init as = some s)
    (hs : step m s a = some s') (j : Nat) (h0 : (s.calls j).impl = .notStarted) (h1 : (s'.calls j).impl = .running)
    (i : Nat) (hij : i ≠ j) (hi : (s'.calls i).impl = .running) : (s'.calls i).acked = true := by
  have hinv := inv_step m s s' a (inv_run m init s as (inv_init m) hr) hs
  have hr' : run m init (as ++ [a]) = some s' := by
    clear hinv h0 h1 hi
    generalize init = s0 at hr
    induction as generalizing s0 with
    | nil => simp [run] at hr; subst hr; simp [run, hs]
    | cons b bs ih =>
      simp only [run, List.cons_append] at hr ⊢
      cases hb : step m s0 b with
      | none => simp [hb] at hr
      | some s1 => simp [hb] at hr ⊢; exact ih s1 hr
  -- the freshly launched call cannot have acknowledged yet
  have hjack : (s'.calls j).acked = false := by
    have pj := (inv_run m init s as (inv_init m) hr).2 j
    unfold PC at pj
    have hacked : (s.calls j).acked = false := (pj.2.2.2.2.2.2.2.1 h0).2
    rw [launch_keeps_acked m s s' a j hs h0 h1]; exact hacked
  cases hacki : (s'.calls i).acked with
  | true => rfl
  | false => exact absurd (gate m (as ++ [a]) s' hr' i j ⟨hi, hacki⟩ ⟨h1, hjack⟩).1 hij

/-- **the implementation observes calls in the order they were made**: if call `i`'s `Send` had returned to
    its caller (without being rejected) before call `j` was made, and `j`'s implementation started, then `i`'s
    implementation started first.  (`tX` are logical timestamps of the events.) -/
theorem order (m : Nat) (as : List Act) (s : SS) (hr : run m init as = some s) (i j : Nat)
    (hi : (s.calls i).ph = .out) (hbefore : (s.calls i).tSendRet < (s.calls j).tArrive)
    (hj : (s.calls j).impl ≠ .notStarted) :
    0 < (s.calls i).tStart ∧ (s.calls i).tStart < (s.calls j).tStart := by
  obtain ⟨hg, hp⟩ := inv_run m init s as (inv_init m) hr
  have pi := hp i; have pj := hp j
  unfold PC at pi pj
  grind

/-- `Send` returns only once the implementation has started and acknowledged or returned — or the call was
    rejected without ever starting -/
theorem send_returns_after_delivery (m : Nat) (as : List Act) (s : SS) (hr : run m init as = some s) (k : Nat)
    (h : 0 < (s.calls k).tSendRet) :
    ((s.calls k).ph = .out ∧ (s.calls k).impl ≠ .notStarted ∧ ((s.calls k).acked = true ∨ (s.calls k).impl = .returned) ∧
        (s.calls k).tStart < (s.calls k).tSendRet) ∨
    ((s.calls k).ph = .rejected ∧ (s.calls k).impl = .notStarted) := by
  obtain ⟨hg, hp⟩ := inv_run m init s as (inv_init m) hr
  have pk := hp k
  unfold PC at pk
  cases hph : (s.calls k).ph <;> grind

/-- **each call completes exactly once**: `Return`/`Reject` has run once for a call whose implementation
    returned or which was rejected, and not at all otherwise — never twice -/
theorem complete_once (m : Nat) (as : List Act) (s : SS) (hr : run m init as = some s) (k : Nat) :
    (s.calls k).returns ≤ 1 ∧
    ((s.calls k).returns = 1 ↔ (s.calls k).impl = .returned ∨ (s.calls k).ph = .rejected) := by
  obtain ⟨hg, hp⟩ := inv_run m init s as (inv_init m) hr
  have pk := hp k
  unfold PC at pk
  grind

/-- **Shutdown** cancels the running calls, waits for them, runs the user's shutdown exactly once, and no
    implementation starts after `Shutdown` began -/
theorem shutdown (m : Nat) (as : List Act) (s : SS) (hr : run m init as = some s) :
    s.userShutdowns ≤ 1 ∧
    (s.userShutdowns = 1 → s.slots = [] ∧ ∀ k, (s.calls k).impl ≠ .running) ∧
    (s.drain ≠ 0 → ∀ k, ((s.calls k).impl = .running → (s.calls k).cancelled = true) ∧
                         ((s.calls k).impl ≠ .notStarted → (s.calls k).tStart < s.tDrain)) ∧
    (s.drain ≠ 0 ∧ s.shutPending = false → s.userShutdowns = 1) := by
  obtain ⟨hg, hp⟩ := inv_run m init s as (inv_init m) hr
  unfold GI at hg
  refine ⟨by grind, ?_, ?_, by grind⟩
  · intro h
    have hs : s.slots = [] := by grind
    refine ⟨hs, fun k hk => ?_⟩
    have pk := hp k
    unfold PC at pk
    have : k ∈ s.slots := pk.2.2.2.2.2.2.1.mpr hk
    rw [hs] at this; cases this
  · intro hd k
    have pk := hp k
    unfold PC at pk
    grind

/-- … and after `Shutdown` began, the gate section rejects every call still waiting for it -/
theorem no_start_after_shutdown (m : Nat) (s s' : SS) (k : Nat) (hd : s.drain ≠ 0)
    (hs : step m s (.enter k) = some s') : (s'.calls k).ph = .rejected ∧ s'.slots = s.slots := by
  simp only [step] at hs
  split at hs
  · cases hs
  · simp only [hd, ↓reduceIte, ne_eq, not_false_eq_true, Option.some.injEq] at hs; subst hs
    simp [reject, upd]

/-- **no deadlock**: while some call made has not completed, or `Shutdown` has not finished, something other
    than a new call, a cancellation or a new `Shutdown` can happen: a `start()` section, an implementation's
    return, or the end of `Shutdown`.  (`0 < m`: `New` raises `MaxConcurrentCalls` to at least 1.) -/
theorem progress (m : Nat) (hm : 0 < m) (as : List Act) (s : SS) (hr : run m init as = some s)
    (hpend : (∃ k, (s.calls k).ph ≠ .absent ∧ (s.calls k).returns = 0) ∨ s.shutPending = true) :
    (∃ k, (step m s (.wakeGate k)).isSome = true) ∨
    (∃ k, (step m s (.enter k)).isSome = true) ∨ (∃ k, (step m s (.slotWake k)).isSome = true) ∨
    (∃ k, (step m s (.release k)).isSome = true) ∨ (∃ k, (step m s (.implRet k)).isSome = true) ∨
    (step m s .shutdown2).isSome = true := by
  obtain ⟨hg, hp⟩ := inv_run m init s as (inv_init m) hr
  by_cases hpk : ∃ k, (s.calls k).ph = .parked ∧ s.starting ≠ some (s.calls k).waitOn
  · obtain ⟨k, h1, h2⟩ := hpk; left; exact ⟨k, by simp [step, h1, h2]⟩
  right
  -- a running implementation can return
  have running_ok : ∀ x, (s.calls x).impl = .running → (step m s (.implRet x)).isSome = true := by
    intro x hx; simp [step, hx]
  -- a non-empty slot list holds a running implementation
  have slots_ok : s.slots ≠ [] → ∃ x, (s.calls x).impl = .running := by
    intro hne
    cases hsl : s.slots with
    | nil => exact absurd hsl hne
    | cons x t =>
      have px := hp x
      unfold PC at px
      exact ⟨x, px.2.2.2.2.2.2.1.mp (by rw [hsl]; simp)⟩
  -- the holder of the gate can always move, or waits for a running implementation
  have holder_ok : ∀ h, s.starting = some h →
      (step m s (.slotWake h)).isSome = true ∨ (step m s (.release h)).isSome = true ∨ ∃ x, (s.calls x).impl = .running := by
    intro h hst
    have ph := hp h
    unfold PC at ph
    have hph : (s.calls h).ph = .slotWait ∨ (s.calls h).ph = .holding := ph.2.2.2.2.2.1.mpr hst
    rcases hph with hsw | hho
    · cases hfull : s.full with
      | false =>
        left
        simp only [step, hsw, hfull]
        by_cases hd : s.drain ≠ 0
        · simp [hd]
        · have : s.slots.length < m := (ph.2.2.2.2.2.2.2.2.2.2.2.2.2.2.2.2.2 hsw).1 hfull
          simp [hd, this]
      | true =>
        right; right
        have : s.slots.length = m := (ph.2.2.2.2.2.2.2.2.2.2.2.2.2.2.2.2.2 hsw).2 hfull
        apply slots_ok
        intro hnil; rw [hnil] at this; simp at this; omega
    · cases himpl : (s.calls h).impl with
      | notStarted => exact absurd himpl (ph.2.2.2.2.2.2.2.2.2.2.1 (Or.inl hho))
      | running => right; right; exact ⟨h, himpl⟩
      | returned => right; left; simp [step, hho, himpl]
  rcases hpend with ⟨k, hk, hret⟩ | hsp
  · have pk := hp k
    unfold PC at pk
    cases hph : (s.calls k).ph with
    | absent => exact absurd hph hk
    | gateWait =>
      by_cases hd : s.drain ≠ 0
      · left; exact ⟨k, by simp [step, hph, hd]⟩
      · cases hst : s.starting with
        | none =>
          left; refine ⟨k, ?_⟩
          simp only [step, hph, hst]
          simp only [ne_eq, Classical.not_not] at hd
          simp only [hd]
          simp only [ne_eq, not_true_eq_false, ↓reduceIte, Classical.not_not]
          split <;> simp
        | some h =>
          left; refine ⟨k, ?_⟩
          simp only [ne_eq, Classical.not_not] at hd
          simp [step, hph, hst, hd]
    | parked =>
      have hst : s.starting = some (s.calls k).waitOn := by
        apply Classical.byContradiction; intro hne; exact hpk ⟨k, hph, hne⟩
      rcases holder_ok _ hst with h1 | h1 | ⟨x, hx⟩
      · right; left; exact ⟨_, h1⟩
      · right; right; left; exact ⟨_, h1⟩
      · right; right; right; left; exact ⟨x, running_ok x hx⟩
    | slotWait =>
      have hst : s.starting = some k := pk.2.2.2.2.2.1.mp (Or.inl hph)
      rcases holder_ok k hst with h1 | h1 | ⟨x, hx⟩
      · right; left; exact ⟨k, h1⟩
      · right; right; left; exact ⟨k, h1⟩
      · right; right; right; left; exact ⟨x, running_ok x hx⟩
    | holding =>
      have hst : s.starting = some k := pk.2.2.2.2.2.1.mp (Or.inr hph)
      rcases holder_ok k hst with h1 | h1 | ⟨x, hx⟩
      · right; left; exact ⟨k, h1⟩
      · right; right; left; exact ⟨k, h1⟩
      · right; right; right; left; exact ⟨x, running_ok x hx⟩
    | out =>
      cases himpl : (s.calls k).impl with
      | notStarted => grind
      | running => right; right; right; left; exact ⟨k, running_ok k himpl⟩
      | returned => grind
    | rejected => grind
  · unfold GI at hg
    by_cases hd2 : s.drain = 2
    · right; right; right; right; simp [step, hd2, hsp]
    · have hd1 : s.drain = 1 := by grind
      have hne : s.slots ≠ [] := by grind
      obtain ⟨x, hx⟩ := slots_ok hne
      right; right; right; left; exact ⟨x, running_ok x hx⟩

-- non-vacuity: m = 1; call 0 runs unacknowledged while call 1 waits at the gate; 0 acknowledges, 1 takes the gate
-- and waits for the slot; Shutdown begins; 0 returns; 1 is rejected; the user's shutdown runs once
example : (run 1 init [.arrive, .enter 0, .arrive, .implAck 0, .release 0, .enter 1, .shutdown1, .implRet 0, .slotWake 1,
    .shutdown2]).map (fun s => ((s.calls 0).ph, (s.calls 0).returns, (s.calls 1).ph, (s.calls 1).returns, s.userShutdowns,
      s.slots, decide ((s.calls 0).tStart < (s.calls 0).tSendRet))) =
    some (Ph.out, 1, Ph.rejected, 1, 1, ([] : List Nat), true) := by rfl

/-! ## the answer queue: calls pipelined on a not-yet-returned answer -/

def QInv (cap : Nat) (s : AQ) : Prop :=
  (s.out ++ s.taken ++ s.q ++ s.blocked).Nodup ∧ (∀ x, x ∈ s.out ++ s.taken ++ s.q ++ s.blocked ↔ x < s.next) ∧
  s.q.length ≤ cap ∧
  (s.st = .queueing → s.out = [] ∧ s.taken = [] ∧ s.q = s.queuedLog) ∧
  (s.st ≠ .queueing → s.q = []) ∧ (s.st = .drained → s.taken = []) ∧
  (s.ok = true ∨ s.st = .queueing → ∃ post, s.out ++ s.taken ++ s.q = s.queuedLog ++ post ∧ (s.st ≠ .drained → post = []))

theorem qinv_init (cap : Nat) : QInv cap qinit := by
  simp [QInv, qinit]

theorem qinv_step (cap : Nat) (s s' : AQ) (a : QAct) (h : QInv cap s) (hs : qstep cap s a = some s') : QInv cap s' := by
  obtain ⟨st, ok, q, taken, blocked, out, ql, next⟩ := s
  unfold QInv at h
  simp only at h
  obtain ⟨hnd, hmem, hlen, hq, hnq, hdr, hord⟩ := h
  cases a with
  | pcall =>
    simp only [qstep] at hs
    have hfresh : next ∉ out ++ taken ++ q ++ blocked := by
      intro hin; have := (hmem next).mp hin; omega
    simp only [List.mem_append, not_or] at hfresh
    cases st with
    | queueing =>
      obtain ⟨h1, h2, h3⟩ := hq rfl
      subst h1 h2 h3
      simp only at hs
      split at hs
      · simp only [Option.some.injEq] at hs; subst hs
        unfold QInv
        refine ⟨?_, ?_, ?_, ?_, ?_, ?_, ?_⟩
        · simp only [List.nil_append, List.append_assoc] at hnd ⊢
          rw [List.nodup_append] at hnd ⊢
          simp only [List.nodup_append, List.mem_append, List.mem_singleton] at hnd ⊢
          grind
        · intro x; have := hmem x
          simp only [List.nil_append, List.mem_append, List.mem_singleton] at this ⊢
          grind
        · simp only [List.length_append, List.length_singleton]; omega
        · intro _; exact ⟨rfl, rfl, rfl⟩
        · intro hne; exact absurd rfl hne
        · intro hc; cases hc
        · intro _; exact ⟨[], by simp, fun _ => rfl⟩
      · simp only [Option.some.injEq] at hs; subst hs
        unfold QInv
        refine ⟨?_, ?_, hlen, ?_, ?_, ?_, ?_⟩
        · simp only [List.nil_append] at hnd ⊢
          rw [List.nodup_append] at hnd ⊢
          simp only [List.nodup_cons, List.mem_cons] at hnd ⊢
          grind
        · intro x; have := hmem x
          simp only [List.nil_append, List.mem_append, List.mem_cons] at this ⊢
          grind
        · intro _; exact ⟨rfl, rfl, rfl⟩
        · intro hne; exact absurd rfl hne
        · intro hc; cases hc
        · intro _; exact ⟨[], by simp, fun _ => rfl⟩
    | draining =>
      simp only [Option.some.injEq] at hs; subst hs
      have hq0 := hnq (by simp)
      subst hq0
      unfold QInv
      refine ⟨?_, ?_, hlen, ?_, ?_, ?_, ?_⟩
      · simp only [List.append_nil] at hnd ⊢
        rw [List.nodup_append] at hnd ⊢
        simp only [List.nodup_cons, List.mem_cons] at hnd ⊢
        grind
      · intro x; have := hmem x
        simp only [List.append_nil, List.mem_append, List.mem_cons] at this ⊢
        grind
      · intro hc; cases hc
      · intro _; rfl
      · intro hc; cases hc
      · simpa using hord
    | drained =>
      simp only [Option.some.injEq] at hs; subst hs
      have hq0 := hnq (by simp)
      have ht0 := hdr rfl
      subst hq0 ht0
      unfold QInv
      refine ⟨?_, ?_, hlen, ?_, ?_, ?_, ?_⟩
      · simp only [List.append_nil] at hnd ⊢
        rw [List.nodup_append] at hnd ⊢
        simp only [List.nodup_append, List.mem_append, List.mem_singleton] at hnd ⊢
        grind
      · intro x; have := hmem x
        simp only [List.append_nil, List.mem_append, List.mem_singleton] at this ⊢
        grind
      · intro hc; cases hc
      · intro _; rfl
      · intro _; rfl
      · intro hok
        simp only [reduceCtorEq, or_false] at hok
        obtain ⟨post, hp1, _⟩ := hord (Or.inl hok)
        refine ⟨post ++ [next], ?_, fun hne => absurd rfl hne⟩
        simp only [List.append_nil] at hp1 ⊢
        rw [hp1, List.append_assoc]
  | begin ok' =>
    simp only [qstep] at hs
    split at hs
    · cases hs
    · rename_i hst
      simp only [ne_eq, Classical.not_not] at hst
      subst hst
      obtain ⟨h1, h2, h3⟩ := hq rfl
      subst h1 h2 h3
      simp only [Option.some.injEq] at hs; subst hs
      unfold QInv
      refine ⟨by simpa using hnd, ?_, by simp, ?_, ?_, ?_, ?_⟩
      · intro x; have := hmem x; simpa using this
      · intro hc; cases hc
      · intro _; rfl
      · intro hc; cases hc
      · intro _; exact ⟨[], by simp, fun _ => rfl⟩
  | deliverNext =>
    simp only [qstep] at hs
    split at hs
    · cases hs
    · rename_i hst
      simp only [ne_eq, Classical.not_not] at hst
      subst hst
      have hq0 := hnq (by simp)
      subst hq0
      cases taken with
      | nil => simp at hs
      | cons h t =>
        simp only [Option.some.injEq] at hs; subst hs
        unfold QInv
        refine ⟨?_, ?_, hlen, ?_, ?_, ?_, ?_⟩
        · simpa using hnd
        · intro x; have := hmem x; simpa using this
        · intro hc; cases hc
        · intro _; rfl
        · intro hc; cases hc
        · intro hok
          obtain ⟨post, hp1, hp2⟩ := hord hok
          exact ⟨post, by simpa using hp1, hp2⟩
  | finish =>
    simp only [qstep] at hs
    split at hs
    · cases hs
    · rename_i hc
      simp only [ne_eq, not_or, Classical.not_not] at hc
      obtain ⟨hst, ht⟩ := hc
      subst hst ht
      simp only [Option.some.injEq] at hs; subst hs
      unfold QInv
      refine ⟨hnd, hmem, hlen, ?_, ?_, ?_, ?_⟩
      · intro hc; cases hc
      · intro _; exact hnq (by simp)
      · intro _; rfl
      · intro hok
        simp only [reduceCtorEq, or_false] at hok
        obtain ⟨post, hp1, _⟩ := hord (Or.inl hok)
        exact ⟨post, hp1, fun hne => absurd rfl hne⟩
  | wake k =>
    simp only [qstep] at hs
    split at hs
    · cases hs
    · rename_i hc
      simp only [not_or, Classical.not_not, not_and, Bool.not_eq_true] at hc
      obtain ⟨hkb, hst, hdok⟩ := hc
      simp only [Option.some.injEq] at hs; subst hs
      have hq0 := hnq hst
      subst hq0
      simp only [List.append_nil] at hnd hmem
      have hndb : blocked.Nodup := (List.nodup_append.mp hnd).2.1
      have hme : ∀ x, x ∈ blocked.erase k ↔ x ≠ k ∧ x ∈ blocked := fun x => List.Nodup.mem_erase_iff hndb
      have hnde := List.Nodup.erase k hndb
      unfold QInv
      refine ⟨?_, ?_, hlen, ?_, ?_, hdr, ?_⟩
      · simp only [List.append_nil]
        generalize blocked.erase k = e at *
        rw [List.nodup_append] at hnd ⊢
        simp only [List.nodup_append, List.mem_append, List.mem_singleton] at hnd ⊢
        grind
      · intro x; have := hmem x; have := hme x
        generalize blocked.erase k = e at *
        simp only [List.append_nil, List.mem_append, List.mem_singleton] at *
        grind
      · intro hc; exact absurd hc hst
      · intro _; rfl
      · intro hok
        cases hok with
        | inr hq' => exact absurd hq' hst
        | inl hok =>
          cases st with
          | queueing => exact absurd rfl hst
          | draining => have := hdok rfl; simp only at hok; rw [hok] at this; cases this
          | drained =>
            have ht0 := hdr rfl
            subst ht0
            obtain ⟨post, hp1, _⟩ := hord (Or.inl hok)
            refine ⟨post ++ [k], ?_, fun hne => absurd rfl hne⟩
            simp only [List.append_nil] at hp1 ⊢
            rw [hp1, List.append_assoc]

theorem qinv_run (cap : Nat) (s s' : AQ) (as : List QAct) (h : QInv cap s) (hr : qrun cap s as = some s') : QInv cap s' := by
  induction as generalizing s with
  | nil => simp [qrun] at hr; subst hr; exact h
  | cons a as ih =>
    simp only [qrun] at hr
    cases hst : qstep cap s a with
    | none => simp [hst] at hr
    | some s1 => simp [hst] at hr; exact ih s1 (qinv_step cap s s1 a h hst) hr

/-- **calls pipelined on a not-yet-returned answer are delivered in order once it returns**: for every
    interleaving of pipelined calls with `fulfill`'s sections, the calls that were queued are delivered in the order
    they were queued, ahead of every call that was not (those blocked because the queue was full or draining, and
    later ones); never more than `AnswerQueueSize` are queued -/
theorem pipelined_in_order (cap : Nat) (as : List QAct) (s : AQ) (hr : qrun cap qinit as = some s) (hok : s.ok = true) :
    s.q.length ≤ cap ∧ (∃ post, s.out ++ s.taken ++ s.q = s.queuedLog ++ post) ∧
    (s.st = .drained → ∃ post, s.out = s.queuedLog ++ post) := by
  obtain ⟨hnd, hmem, hlen, hq, hnq, hdr, hord⟩ := qinv_run cap qinit s as (qinv_init cap) hr
  obtain ⟨post, hp1, _⟩ := hord (Or.inl hok)
  refine ⟨hlen, ⟨post, hp1⟩, fun hd => ⟨post, ?_⟩⟩
  rw [hdr hd, hnq (by rw [hd]; simp)] at hp1
  simpa using hp1

/-- **each pipelined call is delivered — or failed with the answer's error — exactly once**: every call made is in
    exactly one of: the log of deliveries (failures, if the answer was rejected), the queue, the drain loop's hands,
    or blocked; once the queue is drained and nobody is blocked, every call made is in the log, once -/
theorem pipelined_once (cap : Nat) (as : List QAct) (s : AQ) (hr : qrun cap qinit as = some s) :
    (s.out ++ s.taken ++ s.q ++ s.blocked).Nodup ∧ (∀ x, x ∈ s.out ++ s.taken ++ s.q ++ s.blocked ↔ x < s.next) ∧
    (s.st = .drained ∧ s.blocked = [] → s.out.Nodup ∧ ∀ x, x ∈ s.out ↔ x < s.next) := by
  obtain ⟨hnd, hmem, hlen, hq, hnq, hdr, hord⟩ := qinv_run cap qinit s as (qinv_init cap) hr
  refine ⟨hnd, hmem, fun ⟨hd, hb⟩ => ?_⟩
  rw [hdr hd, hnq (by rw [hd]; simp), hb] at hnd hmem
  simp only [List.append_nil] at hnd hmem
  exact ⟨hnd, hmem⟩

/-- the drain always finishes and blocked callers always get through -/
theorem pipelined_progress (cap : Nat) (as : List QAct) (s : AQ) (_hr : qrun cap qinit as = some s) :
    (s.st = .draining → (qstep cap s .deliverNext).isSome = true ∨ (qstep cap s .finish).isSome = true) ∧
    (s.st = .drained → ∀ k ∈ s.blocked, (qstep cap s (.wake k)).isSome = true) := by
  refine ⟨fun hd => ?_, fun hd k hk => ?_⟩
  · cases ht : s.taken with
    | nil => right; simp [qstep, hd, ht]
    | cons h t => left; simp [qstep, hd, ht]
  · simp [qstep, hd, hk]

-- non-vacuity: queue size 2; three pipelined calls (the third blocks), fulfill, a fourth call while draining,
-- then the blocked ones wake in the other order: the queued calls 0,1 are still delivered first and in order
example : (qrun 2 qinit [.pcall, .pcall, .pcall, .begin true, .deliverNext, .pcall, .deliverNext, .finish, .wake 3, .wake 2]).map
    (fun s => (s.out, s.queuedLog, s.blocked)) = some ([0, 1, 3, 2], [0, 1], []) := by decide

end Capnp.Props.C12
