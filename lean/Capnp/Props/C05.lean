import Capnp.Lemmas.Arith
import Capnp.Spec.Encoding
/-!
# C04 / C05 / C16 — what the builder writes

Pointer words are produced by the constructors of `rawpointer.go`; their Lean definitions are
regenerated from the Go source on every run.  Proved here, for all field values in range: each
constructor's output, read back by the (generated) field extractors, yields exactly the fields that
were put in — so a pointer the library writes decodes, under the spec's bit layout (tied to the
extractors in `Props.C03`), to the offset, sizes, element kind and count it was asked to encode.
-/
namespace Capnp.Props.C05
open Capnp.Prelude Capnp.Gen Capnp.Lemmas.Arith

/-- disjoint bit fields: `x ||| y·2^k = x + y·2^k` when `x < 2^k` -/
theorem bor_disjoint (x y : Int) (K k : Nat) (hK : K = 2 ^ k) (hx : 0 ≤ x ∧ x < K) (hy : 0 ≤ y) :
    bor x (y * K) = x + y * K := by
  obtain ⟨xn, rfl⟩ := Int.eq_ofNat_of_zero_le hx.1
  obtain ⟨yn, rfl⟩ := Int.eq_ofNat_of_zero_le hy
  unfold bor
  have hxn : xn < 2 ^ k := by rw [← hK]; exact_mod_cast hx.2
  have e : ((yn : Int) * (K : Int)).toNat = 2 ^ k * yn := by
    rw [← Int.natCast_mul, Int.toNat_natCast, hK, Nat.mul_comm]
  rw [e, Int.toNat_natCast, Nat.or_comm, ← Nat.two_pow_add_eq_or_of_lt hxn, Int.ofNat_eq_natCast, hK]
  push_cast
  rw [Int.mul_comm]; omega

theorem bor_add (x A : Int) (K k : Nat) (hK : K = 2 ^ k) (hK0 : 0 < K) (hx : 0 ≤ x ∧ x < K) (hA : 0 ≤ A) (hm : A % K = 0) :
    bor x A = x + A := by
  have hKi : (0 : Int) < K := by exact_mod_cast hK0
  have hdiv : A = (A / K) * K := by
    have := Int.ediv_mul_add_emod A K
    omega
  have hq : 0 ≤ A / K := Int.ediv_nonneg hA (by omega)
  rw [hdiv, bor_disjoint x (A / K) K k hK hx hq, ← hdiv]

/-- **list pointers**: what `rawListPointer` writes is what the field extractors read (all in-range fields) -/
theorem rawListPointer_fields (off lt len : Int) (ho : -536870912 ≤ off ∧ off < 536870912)
    (hl : 0 ≤ lt ∧ lt < 8) (hn : 0 ≤ len ∧ len < 536870912) :
    InU64 (rawListPointer off lt len) ∧
    rawPointer_pointerType (rawListPointer off lt len) = 1 ∧
    rawPointer_offset (rawListPointer off lt len) = off ∧
    rawPointer_listType (rawListPointer off lt len) = lt ∧
    rawPointer_numListElements (rawListPointer off lt len) = len := by
  unfold rawListPointer
  generalize hA : wrapU64 (wrapU32 (wrapU32 off * 4)) = A
  generalize hB : wrapU64 (wrapU64 lt * 4294967296) = B
  generalize hC : wrapU64 (wrapU64 len * 34359738368) = C
  have hAv : A = (off % 1073741824) * 4 := by rw [← hA]; unfold wrapU64 wrapU32; omega
  have hBv : B = lt * 4294967296 := by rw [← hB]; unfold wrapU64; omega
  have hCv : C = len * 34359738368 := by rw [← hC]; unfold wrapU64; omega
  have h1 : bor 1 A = 1 + A := bor_add 1 A 4 2 (by decide) (by decide) (by omega) (by omega) (by omega)
  rw [h1]
  have h2 : bor (1 + A) B = 1 + A + B :=
    bor_add (1 + A) B 4294967296 32 (by decide) (by decide) (by omega) (by omega) (by omega)
  rw [h2]
  have h3 : bor (1 + A + B) C = 1 + A + B + C :=
    bor_add (1 + A + B) C 34359738368 35 (by decide) (by decide) (by omega) (by omega) (by omega)
  rw [h3]
  refine ⟨by unfold InU64; omega, ?_, ?_, ?_, ?_⟩
  · unfold rawPointer_pointerType wrapI64; simp only [decide_eq_true_eq]; split <;> omega
  · unfold rawPointer_offset wrapI32; omega
  · unfold rawPointer_listType wrapI64; omega
  · unfold rawPointer_numListElements wrapI32; omega

/-- **struct pointers**: sizes are whole words below 2^16, pointer counts below 2^16 -/
theorem rawStructPointer_fields (off dw pc : Int) (ho : -536870912 ≤ off ∧ off < 536870912)
    (hd : 0 ≤ dw ∧ dw < 65536) (hp : 0 ≤ pc ∧ pc < 65536) :
    ∃ p, rawStructPointer off ⟨8 * dw, pc⟩ = .ok p ∧ InU64 p ∧
      rawPointer_pointerType p = 0 ∧ rawPointer_offset p = off ∧
      (rawPointer_structSize p).DataSize = 8 * dw ∧ (rawPointer_structSize p).PointerCount = pc := by
  unfold rawStructPointer ObjectSize_dataWordCount
  have hmod : ¬ ((8 * dw) % 8 ≠ 0) := by omega
  simp only [hmod, decide_false, Bool.false_eq_true, ↓reduceIte, Err.bind]
  have hw : wrapI32 (8 * dw / 8) = dw := by unfold wrapI32; omega
  rw [hw]
  generalize hA : wrapU64 (wrapU32 (wrapU32 off * 4)) = A
  generalize hB : wrapU64 (wrapU64 dw * 4294967296) = B
  generalize hC : wrapU64 (wrapU64 pc * 281474976710656) = C
  have hAv : A = (off % 1073741824) * 4 := by rw [← hA]; unfold wrapU64 wrapU32; omega
  have hBv : B = dw * 4294967296 := by rw [← hB]; unfold wrapU64; omega
  have hCv : C = pc * 281474976710656 := by rw [← hC]; unfold wrapU64; omega
  have h1 : bor 0 A = 0 + A := bor_add 0 A 4 2 (by decide) (by decide) (by omega) (by omega) (by omega)
  rw [h1]
  have h2 : bor (0 + A) B = 0 + A + B :=
    bor_add (0 + A) B 4294967296 32 (by decide) (by decide) (by omega) (by omega) (by omega)
  rw [h2]
  have h3 : bor (0 + A + B) C = 0 + A + B + C :=
    bor_add (0 + A + B) C 281474976710656 48 (by decide) (by decide) (by omega) (by omega) (by omega)
  rw [h3]
  refine ⟨_, rfl, by unfold InU64; omega, ?_, ?_, ?_, ?_⟩
  · unfold rawPointer_pointerType wrapI64; simp only [decide_eq_true_eq]; split <;> omega
  · unfold rawPointer_offset wrapI32; omega
  · unfold rawPointer_structSize Size_timesUnchecked wrapU16 wrapU32 wrapI32; simp only; omega
  · unfold rawPointer_structSize wrapU16; simp only; omega

/-- **far pointers** (single and double): word-aligned landing-pad address below 4 GiB, any segment id -/
theorem rawFarPointer_fields (seg addr : Int) (hs : 0 ≤ seg ∧ seg < 4294967296)
    (ha : 0 ≤ addr ∧ addr < 4294967296 ∧ addr % 8 = 0) :
    InU64 (rawFarPointer seg addr) ∧ rawPointer_pointerType (rawFarPointer seg addr) = 2 ∧
    rawPointer_farSegment (rawFarPointer seg addr) = seg ∧ rawPointer_farAddress (rawFarPointer seg addr) = addr ∧
    InU64 (rawDoubleFarPointer seg addr) ∧ rawPointer_pointerType (rawDoubleFarPointer seg addr) = 6 ∧
    rawPointer_farSegment (rawDoubleFarPointer seg addr) = seg ∧ rawPointer_farAddress (rawDoubleFarPointer seg addr) = addr := by
  unfold rawFarPointer rawDoubleFarPointer
  generalize hA : wrapU64 (addr - addr % 8) = A
  generalize hB : wrapU64 (wrapU64 seg * 4294967296) = B
  have hAv : A = addr := by rw [← hA]; unfold wrapU64; omega
  have hBv : B = seg * 4294967296 := by rw [← hB]; unfold wrapU64; omega
  have h1 : bor 2 A = 2 + A := bor_add 2 A 8 3 (by decide) (by decide) (by omega) (by omega) (by omega)
  have h1' : bor 6 A = 6 + A := bor_add 6 A 8 3 (by decide) (by decide) (by omega) (by omega) (by omega)
  rw [h1, h1']
  have h2 : bor (2 + A) B = 2 + A + B :=
    bor_add (2 + A) B 4294967296 32 (by decide) (by decide) (by omega) (by omega) (by omega)
  have h2' : bor (6 + A) B = 6 + A + B :=
    bor_add (6 + A) B 4294967296 32 (by decide) (by decide) (by omega) (by omega) (by omega)
  rw [h2, h2']
  refine ⟨by unfold InU64; omega, ?_, ?_, ?_, by unfold InU64; omega, ?_, ?_, ?_⟩
  · unfold rawPointer_pointerType wrapI64; simp only [decide_eq_true_eq]; split <;> omega
  · unfold rawPointer_farSegment wrapU32; omega
  · unfold rawPointer_farAddress wrapU32; omega
  · unfold rawPointer_pointerType wrapI64; simp only [decide_eq_true_eq]; split <;> omega
  · unfold rawPointer_farSegment wrapU32; omega
  · unfold rawPointer_farAddress wrapU32; omega

/-- **capability pointers** -/
theorem rawInterfacePointer_fields (c : Int) (hc : 0 ≤ c ∧ c < 4294967296) :
    InU64 (rawInterfacePointer c) ∧ rawPointer_pointerType (rawInterfacePointer c) = 3 ∧
    rawPointer_otherPointerType (rawInterfacePointer c) = 0 ∧ rawPointer_capabilityIndex (rawInterfacePointer c) = c := by
  unfold rawInterfacePointer
  generalize hB : wrapU64 (wrapU64 c * 4294967296) = B
  have hBv : B = c * 4294967296 := by rw [← hB]; unfold wrapU64; omega
  have h1 : bor 3 B = 3 + B := bor_add 3 B 4294967296 32 (by decide) (by decide) (by omega) (by omega) (by omega)
  rw [h1]
  refine ⟨by unfold InU64; omega, ?_, ?_, ?_⟩
  · unfold rawPointer_pointerType wrapI64; simp only [decide_eq_true_eq]; split <;> omega
  · unfold rawPointer_otherPointerType wrapU32; omega
  · unfold rawPointer_capabilityIndex wrapU32; omega

/-- `nearPointerOffset`: the offset that makes a pointer at `paddr` resolve to `addr` (both word aligned,
    both inside one segment): `resolve (offset) (paddr + 8) = addr` -/
theorem nearPointerOffset_resolves (paddr addr : Int) (hp : 0 ≤ paddr ∧ paddr ≤ 4294967280 ∧ paddr % 8 = 0)
    (ha : 0 ≤ addr ∧ addr ≤ 4294967288 ∧ addr % 8 = 0) :
    -536870912 ≤ nearPointerOffset paddr addr ∧ nearPointerOffset paddr addr < 536870912 ∧
    pointerOffset_resolve (nearPointerOffset paddr addr) (paddr + 8) = (addr, true) := by
  have hv : nearPointerOffset paddr addr = addr / 8 - paddr / 8 - 1 := by
    unfold nearPointerOffset wrapI32 wrapU32; omega
  rw [hv]
  refine ⟨by omega, by omega, ?_⟩
  unfold pointerOffset_resolve
  rw [wrapI32_id _ (by omega), element_spec (paddr + 8) _ 8 (by unfold InU32; omega) (by omega) (by omega)]
  have : ¬ (paddr + 8 + (addr / 8 - paddr / 8 - 1) * 8 > 4294967288 ∨ paddr + 8 + (addr / 8 - paddr / 8 - 1) * 8 < 0) := by omega
  rw [if_neg this]
  congr 1
  omega

/-- `ObjectSize.isValid` is the gate of `NewStruct` / `NewCompositeList`: it admits exactly the data sizes
    whose word count (after padding to a word) fits the pointer's 16-bit field -/
theorem isValid_spec (sz : ObjectSize) (h0 : 0 ≤ sz.DataSize ∧ sz.DataSize < 4294967296) :
    ObjectSize_isValid sz = true ↔ sz.DataSize ≤ 524280 := by
  unfold ObjectSize_isValid; simp

theorem padToWord_spec (n : Int) (h : 0 ≤ n ∧ n ≤ 4294967288) : Size_padToWord n = (n + 7) / 8 * 8 := by
  unfold Size_padToWord wrapU32; simp only; omega

theorem valid_size_encodable (sz : ObjectSize) (h0 : 0 ≤ sz.DataSize ∧ sz.DataSize < 4294967296)
    (hv : ObjectSize_isValid sz = true) : Size_padToWord sz.DataSize / 8 < 65536 := by
  have := (isValid_spec sz h0).mp hv
  rw [padToWord_spec _ (by omega)]; omega

end Capnp.Props.C05
