import Capnp.Lemmas.Read
/-!
# C01 — reading arbitrary bytes never crashes and never escapes the segments

For *arbitrary* segment contents (every pointer word, every offset and size field) the
pointer-decoding functions of the read path return a value or an error, never a panic, and every
object they hand out lies inside the supplied segment bytes (`StructWF`, `ListWF`).  Accessors on
such objects never panic either.  In this model a Go slice/index fault is the value
`.error (.panic _)`, so "never reads outside the segments" *is* "never panics".
-/
namespace Capnp.Props.C01
open Capnp.Prelude Capnp.Gen Capnp.Model.Read Capnp.Lemmas.Arith Capnp.Lemmas.Read

/-- the result of a model function is not a panic, and satisfies `P` when it is a value -/
def Safe {α} (r : Except Err α) (P : α → Prop) : Prop :=
  match r with
  | .error (.panic _) => False
  | .error (.err _) => True
  | .ok v => P v

theorem Safe_err {α} (msg : String) (P : α → Prop) : Safe (.error (.err msg) : Except Err α) P := trivial

/-- **struct pointers**: any pointer word, any base inside the address range -/
theorem readStructPtr_wf (m : Msg) (seg : Nat) (base val : Int) (hm : MsgOK m)
    (hb : 0 ≤ base ∧ base ≤ 4294967288) :
    Safe (readStructPtr m seg base val) (fun s => StructWF m s ∧ s.seg = seg) := by
  have hoff := offset_range val
  have hss := structSize_range val
  unfold readStructPtr pointerOffset_resolve
  rw [wrapI32_id _ (by omega)]
  rw [element_spec base _ 8 (by unfold InU32; omega) (by omega) (by omega)]
  by_cases hc : base + rawPointer_offset val * 8 > 4294967288 ∨ base + rawPointer_offset val * 8 < 0
  · simp [hc, Safe]
  · simp only [hc, ↓reduceIte, Bool.not_true, Bool.false_eq_true]
    rw [totalSize_spec _ (by omega) (by omega)]
    by_cases hr : regionInBounds m seg (base + rawPointer_offset val * 8)
        ((rawPointer_structSize val).DataSize + 8 * (rawPointer_structSize val).PointerCount) = true
    · have := (regionInBounds_spec m seg _ _ hm (by unfold InU32; omega) (by unfold InU32; omega)).mp hr
      simp only [hr, Bool.not_true, Bool.false_eq_true, ↓reduceIte, Safe, StructWF, SizeOK, and_true]
      omega
    · simp [hr, Safe]

/-- what the non-composite, non-bit branches of `totalListSize` compute -/
theorem totalListSize_prim (p : Int) (hp : InU64 p) (h7 : rawPointer_listType p ≠ 7) (h1 : rawPointer_listType p ≠ 1) :
    ∃ es, rawPointer_elementSize p = .ok es ∧
      0 ≤ es.DataSize ∧ es.DataSize ≤ 8 ∧ 0 ≤ es.PointerCount ∧ es.PointerCount ≤ 1 ∧ es.DataSize + 8 * es.PointerCount ≤ 8 ∧
      rawPointer_totalListSize p = .ok ((es.DataSize + 8 * es.PointerCount) * rawPointer_numListElements p, true) := by
  have hr := listType_range p hp
  have hn := numElems_range p hp
  have hcases : rawPointer_listType p = 0 ∨ rawPointer_listType p = 2 ∨ rawPointer_listType p = 3 ∨
      rawPointer_listType p = 4 ∨ rawPointer_listType p = 5 ∨ rawPointer_listType p = 6 := by omega
  unfold rawPointer_totalListSize rawPointer_elementSize
  rcases hcases with h|h|h|h|h|h <;> rw [h] <;> simp only [Err.bind] <;>
    refine ⟨_, rfl, ?_⟩ <;> simp [ObjectSize_totalSize, ObjectSize_pointerSize, wrapU32] <;>
    (rw [timesUnchecked_spec _ _ (by omega) hn]) <;> omega

/-- **list pointers**: any pointer word, any tag word, any segment contents.
    (With `0 ≤ length` in `ListWF` this fails on the pinned tree: zero-sized composite elements with a
    negative count pass both size checks — defect D5, repaired by the negative-count check.) -/
theorem readListPtr_wf (m : Msg) (seg : Nat) (base val : Int) (hm : MsgOK m)
    (hb : 0 ≤ base ∧ base ≤ 4294967288) (hv : InU64 val) :
    Safe (readListPtr m seg base val) (fun l => ListWF m l ∧ l.seg = seg) := by
  have hoff := offset_range val
  have hn := numElems_range val hv
  have hlt := listType_range val hv
  unfold readListPtr pointerOffset_resolve
  rw [wrapI32_id _ (by omega)]
  rw [element_spec base _ 8 (by unfold InU32; omega) (by omega) (by omega)]
  by_cases hc : base + rawPointer_offset val * 8 > 4294967288 ∨ base + rawPointer_offset val * 8 < 0
  · simp [hc, Safe]
  · simp only [hc, ↓reduceIte, Bool.not_true, Bool.false_eq_true]
    have haddr : InU32 (base + rawPointer_offset val * 8) := by unfold InU32; omega
    generalize base + rawPointer_offset val * 8 = addr at *
    unfold InU32 at haddr
    by_cases h7 : rawPointer_listType val = 7
    · -- composite
      have htl : rawPointer_totalListSize val = .ok (Size_times 8 (wrapI32 (rawPointer_numListElements val + 1))) := by
        unfold rawPointer_totalListSize; simp [h7]
      rw [htl]
      simp only [Err.bind]
      rw [wrapI32_id (rawPointer_numListElements val + 1) (by omega)]
      rw [times_spec 8 _ (by omega) (by omega)]
      by_cases hov : 8 * (rawPointer_numListElements val + 1) > 4294967288 ∨ 8 * (rawPointer_numListElements val + 1) < 0
      · simp [hov, Safe]
      · simp only [hov, ↓reduceIte, Bool.not_true, Bool.false_eq_true]
        by_cases hr : regionInBounds m seg addr (8 * (rawPointer_numListElements val + 1)) = true
        · have hin := (regionInBounds_spec m seg addr _ hm (by unfold InU32; omega) (by unfold InU32; omega)).mp hr
          simp only [hr, Bool.not_true, Bool.false_eq_true, ↓reduceIte, h7]
          obtain ⟨hdr, hhdr, hhv⟩ := readRawPointer_ok m seg addr hm (by omega) (by omega)
          rw [hhdr]; simp only
          rw [addSize_spec addr 8 (by unfold InU32; omega) (by unfold InU32; omega)]
          by_cases ho2 : addr + 8 > 4294967288
          · simp [ho2, Safe]
          · simp only [ho2, ↓reduceIte, Bool.not_true, Bool.false_eq_true]
            by_cases hpt : rawPointer_pointerType hdr = 0
            · simp only [hpt, ne_eq, not_true_eq_false, ↓reduceIte]
              have hss := structSize_range hdr
              have hoffh := offset_range hdr
              rw [totalSize_spec _ (by omega) (by omega)]
              rw [wrapI32_id (rawPointer_offset hdr) (by omega)]
              by_cases hneg : rawPointer_offset hdr < 0
              · simp [hneg, Safe]
              · simp only [hneg, ↓reduceIte]
                rw [times_spec _ _ (by omega) (by omega)]
                by_cases hov2 : ((rawPointer_structSize hdr).DataSize + 8 * (rawPointer_structSize hdr).PointerCount) * rawPointer_offset hdr > 4294967288 ∨
                    ((rawPointer_structSize hdr).DataSize + 8 * (rawPointer_structSize hdr).PointerCount) * rawPointer_offset hdr < 0
                · simp [hov2, Safe]
                · simp only [hov2, ↓reduceIte, Bool.not_true, Bool.false_eq_true]
                  by_cases hr2 : regionInBounds m seg (addr + 8) (((rawPointer_structSize hdr).DataSize + 8 * (rawPointer_structSize hdr).PointerCount) * rawPointer_offset hdr) = true
                  · have hin2 := (regionInBounds_spec m seg (addr+8) _ hm (by unfold InU32; omega) (by unfold InU32; omega)).mp hr2
                    simp only [hr2, Bool.not_true, Bool.false_eq_true, ↓reduceIte, Safe, ListWF, SizeOK, contentBytes,
                      isCompositeList, isBitList, and_true]
                    simp
                    omega
                  · simp [hr2, Safe]
            · simp [hpt, Safe]
        · simp [hr, Safe]
    · by_cases h1 : rawPointer_listType val = 1
      · -- bit list
        have : rawPointer_totalListSize val = .ok (bitListSize (rawPointer_numListElements val), true) := by
          unfold rawPointer_totalListSize; simp [h1]
        rw [this]; simp only [Err.bind, Bool.not_true, Bool.false_eq_true, ↓reduceIte]
        rw [bitListSize_spec _ hn]
        by_cases hr : regionInBounds m seg addr ((rawPointer_numListElements val + 7) / 8) = true
        · have := (regionInBounds_spec m seg addr _ hm (by unfold InU32; omega) (by unfold InU32; omega)).mp hr
          simp only [hr, h7, h1, Bool.not_true, Bool.false_eq_true, ↓reduceIte, Safe, ListWF, SizeOK, contentBytes,
            isCompositeList, isBitList, and_true]
          simp
          omega
        · simp [hr, Safe]
      · -- primitive / pointer list
        obtain ⟨es, hes, e1, e2, e3, e4, e5, htl⟩ := totalListSize_prim val hv h7 h1
        rw [htl, hes]; simp only [Err.bind, Bool.not_true, Bool.false_eq_true, ↓reduceIte]
        have hb2 := mul_bounds (es.DataSize + 8 * es.PointerCount) (rawPointer_numListElements val) 8 536870911 (by omega) (by omega) (by omega)
        have hnn : 0 ≤ (es.DataSize + 8 * es.PointerCount) * rawPointer_numListElements val := Int.mul_nonneg (by omega) hn.1
        by_cases hr : regionInBounds m seg addr ((es.DataSize + 8 * es.PointerCount) * rawPointer_numListElements val) = true
        · have := (regionInBounds_spec m seg addr _ hm (by unfold InU32; omega) (by unfold InU32; omega)).mp hr
          simp only [hr, h7, h1, Bool.not_true, Bool.false_eq_true, ↓reduceIte, Safe, ListWF, SizeOK, contentBytes,
            isCompositeList, isBitList, and_true]
          simp
          omega
        · simp [hr, Safe]

/-- segment ids handed out by the reader name loaded segments -/
def SegOK (m : Msg) (seg : Nat) : Prop := (seg : Int) < m.numSegs

theorem lookupSegment_ok (m : Msg) (cur : Nat) (id : Int) (hc : SegOK m cur) (hid : 0 ≤ id) :
    Safe (lookupSegment m cur id) (fun d => SegOK m d) := by
  unfold lookupSegment
  split
  · exact hc
  · split
    · exact trivial
    · simp only [Safe, SegOK]; omega

/-- **far pointers**: landing pads are bounds-checked before they are read, in whatever segment they
    name; the resolved base is a legal address and the destination segment exists. -/
theorem resolveFarPointer_safe (m : Msg) (seg : Nat) (paddr : Int) (hm : MsgOK m) (hs : SegOK m seg)
    (hp : 0 ≤ paddr) (hb : paddr + 8 ≤ m.segLen seg) :
    Safe (resolveFarPointer m seg paddr)
      (fun r => SegOK m r.1 ∧ 0 ≤ r.2.1 ∧ r.2.1 ≤ 4294967288 ∧ InU64 r.2.2) := by
  obtain ⟨val, hval, hvr⟩ := readRawPointer_ok m seg paddr hm hp hb
  have hl := hm seg
  unfold resolveFarPointer
  rw [hval]; simp only [Err.bind]
  have hfs := farSegment_range val hvr
  have hfa := farAddress_range val
  split
  · -- double far
    have h1 := lookupSegment_ok m seg (rawPointer_farSegment val) hs hfs.1
    cases hls : lookupSegment m seg (rawPointer_farSegment val) with
    | error e => rw [hls] at h1; cases e <;> simp_all [Safe]
    | ok padSeg =>
      rw [hls] at h1; simp only [Safe] at h1
      simp only
      by_cases hr : regionInBounds m padSeg (rawPointer_farAddress val) 16 = true
      · have hin := (regionInBounds_spec m padSeg _ 16 hm (by unfold InU32; omega) (by unfold InU32; omega)).mp hr
        simp only [hr, Bool.not_true, Bool.false_eq_true, ↓reduceIte]
        obtain ⟨far, hfar, hfr⟩ := readRawPointer_ok m padSeg (rawPointer_farAddress val) hm (by omega) (by omega)
        rw [hfar]; simp only
        split
        · exact trivial
        · rw [addSize_spec _ 8 (by unfold InU32; omega) (by unfold InU32; omega)]
          have : ¬ (rawPointer_farAddress val + 8 > 4294967288) := by omega
          simp only [this, ↓reduceIte, Bool.not_true, Bool.false_eq_true]
          obtain ⟨tag, htag, htr⟩ := readRawPointer_ok m padSeg (rawPointer_farAddress val + 8) hm (by omega) (by omega)
          rw [htag]; simp only
          split
          · exact trivial
          · have hfs2 := farSegment_range far hfr
            have h2 := lookupSegment_ok m seg (rawPointer_farSegment far) hs hfs2.1
            cases hls2 : lookupSegment m seg (rawPointer_farSegment far) with
            | error e => rw [hls2] at h2; cases e <;> simp_all [Safe]
            | ok dst =>
              rw [hls2] at h2; simp only [Safe] at h2
              simp only [Safe]
              refine ⟨h2, by omega, by omega, ?_⟩
              unfold landingPadNearPointer
              apply bor_u64
              · unfold InU64 at htr; omega
              · unfold wrapU64; omega
      · simp [hr, Safe]
  · split
    · -- far
      have h1 := lookupSegment_ok m seg (rawPointer_farSegment val) hs hfs.1
      cases hls : lookupSegment m seg (rawPointer_farSegment val) with
      | error e => rw [hls] at h1; cases e <;> simp_all [Safe]
      | ok dst =>
        rw [hls] at h1; simp only [Safe] at h1
        simp only
        by_cases hr : regionInBounds m dst (rawPointer_farAddress val) 8 = true
        · have hin := (regionInBounds_spec m dst _ 8 hm (by unfold InU32; omega) (by unfold InU32; omega)).mp hr
          simp only [hr, Bool.not_true, Bool.false_eq_true, ↓reduceIte]
          rw [addSize_spec _ 8 (by unfold InU32; omega) (by unfold InU32; omega)]
          have : ¬ (rawPointer_farAddress val + 8 > 4294967288) := by omega
          simp only [this, ↓reduceIte, Bool.not_true, Bool.false_eq_true]
          obtain ⟨v, hv, hvr2⟩ := readRawPointer_ok m dst (rawPointer_farAddress val) hm (by omega) (by omega)
          rw [hv]
          simp only [Safe]
          exact ⟨h1, by omega, by omega, hvr2⟩
        · simp [hr, Safe]
    · -- near
      rw [addSize_spec paddr 8 (by unfold InU32; omega) (by unfold InU32; omega)]
      split
      · exact trivial
      · simp only [Bool.not_true, Bool.false_eq_true, ↓reduceIte, Safe]
        exact ⟨hs, by omega, by omega, hvr⟩

/-- what `readPtr` promises about the pointer it hands out -/
def PtrOK (m : Msg) (depth rl rl' : Int) : Ptr → Prop
  | .null => rl' = rl
  | .cap seg idx => SegOK m seg ∧ 0 ≤ idx ∧ idx < 4294967296 ∧ rl' = rl ∧ 1 ≤ depth
  | .struct s => StructWF m s ∧ SegOK m s.seg ∧ 1 ≤ depth ∧ s.depth = depth - 1 ∧ s.listMember = false ∧
      rl' + s.readSize = rl ∧ s.readSize = s.size.DataSize + 8 * s.size.PointerCount
  | .list l => ListWF m l ∧ SegOK m l.seg ∧ 1 ≤ depth ∧ l.depth = depth - 1 ∧
      rl' + l.readSize = rl ∧ 0 ≤ l.readSize

theorem times_range (a b : Int) : 0 ≤ (Size_times a b).1 ∧ ((Size_times a b).2 = true → (Size_times a b).1 ≤ 4294967288) := by
  unfold Size_times wrapU32
  simp only
  split
  · simp
  · rename_i h
    simp only [Bool.or_eq_true, decide_eq_true_eq, not_or] at h
    simp only [forall_const]
    omega

theorem readSize_nonneg (l : ListP) : 0 ≤ l.readSize ∧ l.readSize ≤ 4294967288 := by
  unfold ListP.readSize
  simp only
  generalize (if ObjectSize_totalSize l.size = 0 then (8:Int) else ObjectSize_totalSize l.size) = e
  have := times_range e l.length
  split
  · omega
  · rename_i h
    simp only [Bool.not_eq_true, Bool.not_eq_eq_eq_not, Bool.not_true, Bool.not_false] at h
    have h2 := this.2 (by simpa using h)
    omega

/-- **`readPtr` on arbitrary bytes**: never a panic; whatever it hands out is well formed, lies inside the
    segments, has had its size charged to the traversal budget and carries a depth budget one lower. -/
theorem readPtr_wf (m : Msg) (seg : Nat) (paddr depth rl : Int) (hm : MsgOK m) (hs : SegOK m seg)
    (hp : 0 ≤ paddr) (hb : paddr + 8 ≤ m.segLen seg) (hd : 0 ≤ depth ∧ depth < 18446744073709551616) (hrl : 0 ≤ rl) :
    Safe (readPtr m seg paddr depth rl).1 (PtrOK m depth rl (readPtr m seg paddr depth rl).2) ∧
    0 ≤ (readPtr m seg paddr depth rl).2 ∧ (readPtr m seg paddr depth rl).2 ≤ rl := by
  have hrf := resolveFarPointer_safe m seg paddr hm hs hp hb
  unfold readPtr
  cases hres : resolveFarPointer m seg paddr with
  | error e =>
    rw [hres] at hrf
    cases e <;> simp_all [Safe]
  | ok r =>
    obtain ⟨s, base, val⟩ := r
    rw [hres] at hrf
    simp only [Safe] at hrf
    obtain ⟨hso, hb0, hb1, hvr⟩ := hrf
    simp only
    split
    · simp [Safe, PtrOK]; omega
    · split
      · simp [Safe]; omega
      · rename_i hv0 hd0
        have hdw : wrapU64 (depth - 1) = depth - 1 := wrapU64_id _ (by omega)
        split
        · -- struct
          have hsp := readStructPtr_wf m s base val hm ⟨hb0, hb1⟩
          cases hrs : readStructPtr m s base val with
          | error e => rw [hrs] at hsp; cases e <;> simp_all [Safe]
          | ok sp =>
            rw [hrs] at hsp; simp only [Safe] at hsp
            obtain ⟨hwf, hseg⟩ := hsp
            simp only
            have hsz : sp.readSize = sp.size.DataSize + 8 * sp.size.PointerCount := by
              unfold StructP.readSize
              obtain ⟨⟨a, b, c, d⟩, _⟩ := hwf
              exact totalSize_spec _ ⟨a, b⟩ ⟨c, d⟩
            have hnn : 0 ≤ sp.readSize := by
              obtain ⟨⟨a, b, c, d⟩, _⟩ := hwf; omega
            unfold canRead
            split
            · rename_i hge
              simp only [Bool.not_true, Bool.false_eq_true, ↓reduceIte, hdw]
              have hlm : sp.listMember = false := by
                unfold readStructPtr at hrs
                revert hrs
                simp only
                split
                · intro h; cases h
                · split
                  · intro h; cases h
                  · intro h; cases h; rfl
              refine ⟨?_, by omega, by omega⟩
              show StructWF m sp ∧ SegOK m sp.seg ∧ 1 ≤ depth ∧ depth - 1 = depth - 1 ∧ sp.listMember = false ∧
                (rl - sp.readSize) + sp.readSize = rl ∧ sp.readSize = sp.size.DataSize + 8 * sp.size.PointerCount
              exact ⟨hwf, by rw [hseg]; exact hso, by omega, rfl, hlm, by omega, hsz⟩
            · simp [Safe]; omega
        · split
          · -- list
            have hlp := readListPtr_wf m s base val hm ⟨hb0, hb1⟩ hvr
            cases hrs : readListPtr m s base val with
            | error e => rw [hrs] at hlp; cases e <;> simp_all [Safe]
            | ok lp =>
              rw [hrs] at hlp; simp only [Safe] at hlp
              obtain ⟨hwf, hseg⟩ := hlp
              simp only
              have hnn := readSize_nonneg lp
              unfold canRead
              split
              · simp only [Bool.not_true, Bool.false_eq_true, ↓reduceIte, hdw]
                refine ⟨?_, by omega, by omega⟩
                show ListWF m lp ∧ SegOK m lp.seg ∧ 1 ≤ depth ∧ depth - 1 = depth - 1 ∧
                  (rl - lp.readSize) + lp.readSize = rl ∧ 0 ≤ lp.readSize
                exact ⟨hwf, by rw [hseg]; exact hso, by omega, rfl, by omega, hnn.1⟩
              · simp [Safe]; omega
          · split
            · split
              · simp [Safe]; omega
              · simp only [Safe, PtrOK]
                have hc : 0 ≤ rawPointer_capabilityIndex val ∧ rawPointer_capabilityIndex val < 4294967296 := by
                  unfold rawPointer_capabilityIndex wrapU32; omega
                exact ⟨⟨hso, hc.1, hc.2, trivial, by omega⟩, by omega, by omega⟩
            · simp [Safe]; omega

/-! ## accessors on well-formed objects never fault -/

theorem elem_bound (i len sz : Int) (h1 : i < len) (hs : 0 ≤ sz) : i * sz + sz ≤ len * sz := by
  have : (i + 1) * sz ≤ len * sz := Int.mul_le_mul_of_nonneg_right (by omega) hs
  rw [Int.add_mul, Int.one_mul] at this
  exact this

theorem pointerAddress_spec (m : Msg) (s : StructP) (i : Int) (hw : StructWF m s) (hi : 0 ≤ i ∧ i < s.size.PointerCount) :
    s.pointerAddress i = s.off + s.size.DataSize + 8 * i := by
  obtain ⟨⟨a, b, c, d⟩, h0, h1, h2⟩ := hw
  unfold StructP.pointerAddress
  simp only
  rw [addSize_spec s.off s.size.DataSize (by unfold InU32; omega) (by unfold InU32; omega)]
  rw [if_neg (by omega)]
  simp only
  rw [wrapI32_id i (by omega), element_spec _ i 8 (by unfold InU32; omega) (by omega) (by omega)]
  rw [if_neg (by omega)]
  simp only; omega

/-- `Struct.Ptr(i)` for any index: never a panic, result as for `readPtr` -/
theorem struct_ptr_safe (m : Msg) (s : StructP) (i rl : Int) (hm : MsgOK m) (hw : StructWF m s) (hs : SegOK m s.seg)
    (hi : 0 ≤ i) (hd : 0 ≤ s.depth ∧ s.depth < 18446744073709551616) (hrl : 0 ≤ rl) :
    Safe (s.ptr m i rl).1 (PtrOK m s.depth rl (s.ptr m i rl).2) ∧ 0 ≤ (s.ptr m i rl).2 ∧ (s.ptr m i rl).2 ≤ rl := by
  unfold StructP.ptr
  split
  · simp [Safe, PtrOK]; omega
  · rename_i hlt
    have hpa := pointerAddress_spec m s i hw ⟨hi, by omega⟩
    obtain ⟨⟨a, b, c, d⟩, h0, h1, h2⟩ := hw
    exact readPtr_wf m s.seg _ s.depth rl hm hs (by rw [hpa]; omega) (by rw [hpa]; omega) hd hrl

/-- `Struct.HasPtr(i)` -/
theorem struct_hasPtr_safe (m : Msg) (s : StructP) (i : Int) (hm : MsgOK m) (hw : StructWF m s) (hi : 0 ≤ i) :
    Safe (s.hasPtr m i) (fun _ => True) := by
  unfold StructP.hasPtr
  split
  · exact trivial
  · rename_i hlt
    have hpa := pointerAddress_spec m s i hw ⟨hi, by omega⟩
    obtain ⟨⟨a, b, c, d⟩, h0, h1, h2⟩ := hw
    obtain ⟨v, hv, _⟩ := readRawPointer_ok m s.seg (s.pointerAddress i) hm (by rw [hpa]; omega) (by rw [hpa]; omega)
    rw [hv]; exact trivial

/-- `Struct.Uint8/16/32/64(off)` for every documented offset (`DataOffset` is bounded to `[0, 1<<19)`):
    inside the data section it reads in bounds, outside it yields the default 0 without touching memory -/
theorem struct_uint_safe (m : Msg) (s : StructP) (off : Int) (w : Nat) (hm : MsgOK m) (hw : StructWF m s)
    (ho : 0 ≤ off ∧ off < 524288) (hww : 1 ≤ w ∧ w ≤ 8) :
    Safe (s.uint m off w) (fun v => 0 ≤ v ∧ (off + w > s.size.DataSize → v = 0)) := by
  obtain ⟨⟨a, b, c, d⟩, h0, h1, h2⟩ := hw
  unfold StructP.uint
  rw [wrapU32_id (off + w) (by omega)]
  split
  · simp [Safe]
  · rename_i hle
    unfold address_addOffset
    rw [if_neg (by simp; omega)]
    simp only [Err.bind]
    rw [wrapU32_id off (by omega), wrapU32_id (s.off + off) (by omega)]
    obtain ⟨v, hv, _⟩ := readUint_ok m s.seg (s.off + off) w hm (by omega) hww.2 (by omega)
    rw [hv]; simp only [Safe]; omega

/-- `Struct.Bit(n)` for every documented bit offset (`BitOffset` is bounded to `[0, 1<<22)`) -/
theorem struct_bit_safe (m : Msg) (s : StructP) (n : Int) (hm : MsgOK m) (hw : StructWF m s)
    (hn : 0 ≤ n ∧ n < 4194304) : Safe (s.bit m n) (fun _ => True) := by
  obtain ⟨⟨a, b, c, d⟩, h0, h1, h2⟩ := hw
  unfold StructP.bit
  rw [wrapU32_id (s.size.DataSize * 8) (by omega)]
  split
  · exact trivial
  · rename_i hlt
    simp only [Bool.not_eq_true, decide_eq_false_iff_not, Int.not_lt, Classical.not_not] at hlt
    have hlt' : n < s.size.DataSize * 8 := by
      by_cases h : n < s.size.DataSize * 8
      · exact h
      · simp [h] at hlt
    unfold BitOffset_offset address_addOffset
    rw [wrapU32_id (n / 8) (by omega)]
    rw [if_neg (by simp; omega)]
    simp only [Err.bind]
    rw [wrapU32_id (n / 8) (by omega), wrapU32_id (s.off + n / 8) (by omega)]
    obtain ⟨v, hv, _⟩ := readUint_ok m s.seg (s.off + n / 8) 1 hm (by omega) (by omega) (by omega)
    rw [hv]; exact trivial

theorem listSize_bound (l : ListP) (hs : SizeOK l.size) :
    ObjectSize_totalSize l.size = l.size.DataSize + 8 * l.size.PointerCount ∧
    0 ≤ l.size.DataSize + 8 * l.size.PointerCount ∧ l.size.DataSize + 8 * l.size.PointerCount ≤ 1048576 := by
  obtain ⟨a, b, c, d⟩ := hs
  exact ⟨totalSize_spec _ ⟨a, b⟩ ⟨c, d⟩, by omega, by omega⟩

/-- `List.Struct(i)` for `0 ≤ i < Len()`: the element struct lies inside the list (hence inside the
    segment) and its depth budget is never larger than the list's -/
theorem list_struct_wf (m : Msg) (l : ListP) (i : Int) (hw : ListWF m l) (hi : 0 ≤ i ∧ i < l.length)
    (hd : 0 ≤ l.depth) (st : StructP) (hst : l.structAt i = some st) :
    StructWF m st ∧ st.seg = l.seg ∧ 0 ≤ st.depth ∧ st.depth ≤ l.depth ∧ (l.depth > 0 → st.depth < l.depth) := by
  obtain ⟨hsz, h0, hl0, hl1, hb1, hb2, hfl⟩ := hw
  obtain ⟨ets, etn, etb⟩ := listSize_bound l hsz
  unfold ListP.structAt at hst
  by_cases hnb : l.flags = isBitList
  · simp [hnb] at hst
  · have hcb : contentBytes l = (l.size.DataSize + 8 * l.size.PointerCount) * l.length := by
      unfold contentBytes; rw [if_neg hnb]
    rw [hcb] at hb1 hb2
    have hel := elem_bound i l.length _ hi.2 etn
    have hnn : 0 ≤ i * (l.size.DataSize + 8 * l.size.PointerCount) := Int.mul_nonneg hi.1 etn
    rw [Int.mul_comm _ l.length] at hb1 hb2
    rw [if_neg hnb] at hst
    simp only at hst
    rw [ets, wrapI32_id i (by omega), element_spec l.off i _ (by unfold InU32; omega) ⟨etn, etb⟩ (by omega)] at hst
    generalize i * (l.size.DataSize + 8 * l.size.PointerCount) = p at *
    generalize l.length * (l.size.DataSize + 8 * l.size.PointerCount) = q at *
    have hcond : ¬ (l.off + p > 4294967288 ∨ l.off + p < 0) := by omega
    rw [if_neg hcond] at hst
    simp only [Bool.not_true, Bool.false_eq_true, ↓reduceIte, Option.some.injEq] at hst
    subst hst
    refine ⟨⟨hsz, by simp only; omega, by simp only; omega, by simp only; omega⟩, rfl, ?_, ?_, ?_⟩
    · simp only; split <;> omega
    · simp only; split <;> omega
    · intro h; simp only; rw [if_neg (by omega)]; omega

/-- `List.primitiveElem` for `0 ≤ i < Len()`: an address whose whole element (for a pointer read from a
    struct list: the element's whole pointer section) lies inside the list -/
theorem primitiveElem_ok (m : Msg) (l : ListP) (i : Int) (exp : ObjectSize) (hw : ListWF m l) (hi : 0 ≤ i ∧ i < l.length) :
    Safe (l.primitiveElem i exp) (fun a => 0 ≤ a ∧
      a + (if l.flags = isCompositeList ∧ exp.PointerCount > 0 then 8 * l.size.PointerCount
           else l.size.DataSize + 8 * l.size.PointerCount) ≤ m.segLen l.seg ∧
      l.flags ≠ isBitList ∧ (l.flags ≠ isCompositeList → l.size = exp) ∧
      (l.flags = isCompositeList → exp.DataSize ≤ l.size.DataSize ∧ exp.PointerCount ≤ l.size.PointerCount)) := by
  obtain ⟨hsz, h0, hl0, hl1, hb1, hb2, hfl⟩ := hw
  obtain ⟨ets, etn, etb⟩ := listSize_bound l hsz
  unfold ListP.primitiveElem
  split
  · exact trivial
  · rename_i hc
    simp only [not_or, not_and, Classical.not_not, Int.not_lt] at hc
    obtain ⟨hnb, hnc, hcc⟩ := hc
    have hcb : contentBytes l = (l.size.DataSize + 8 * l.size.PointerCount) * l.length := by
      unfold contentBytes; rw [if_neg hnb]
    rw [hcb] at hb1 hb2
    have hel := elem_bound i l.length _ hi.2 etn
    have hnn : 0 ≤ i * (l.size.DataSize + 8 * l.size.PointerCount) := Int.mul_nonneg hi.1 etn
    rw [Int.mul_comm _ l.length] at hb1 hb2
    simp only
    rw [ets, wrapI32_id i (by omega), element_spec l.off i _ (by unfold InU32; omega) ⟨etn, etb⟩ (by omega)]
    generalize i * (l.size.DataSize + 8 * l.size.PointerCount) = p at *
    generalize l.length * (l.size.DataSize + 8 * l.size.PointerCount) = q at *
    have hcond : ¬ (l.off + p > 4294967288 ∨ l.off + p < 0) := by omega
    rw [if_neg hcond]
    simp only [Bool.not_true, Bool.false_eq_true, ↓reduceIte]
    obtain ⟨a, b, c, d⟩ := hsz
    by_cases hup : l.flags = isCompositeList ∧ exp.PointerCount > 0
    · rw [if_pos hup]
      have hu1 : InU32 (l.off + p) := by unfold InU32; omega
      have hu2 : InU32 l.size.DataSize := by unfold InU32; omega
      rw [addSize_spec (l.off + p) l.size.DataSize hu1 hu2]
      have hc2 : ¬ (l.off + p + l.size.DataSize > 4294967288) := by omega
      rw [if_neg hc2]
      simp only [Bool.not_true, Bool.false_eq_true, ↓reduceIte, Safe]
      rw [if_pos hup]
      refine ⟨by omega, by omega, hnb, hnc, ?_⟩
      intro hcomp
      have := hcc hcomp
      omega
    · rw [if_neg hup]
      simp only [Safe]
      rw [if_neg hup]
      refine ⟨by omega, by omega, hnb, hnc, ?_⟩
      intro hcomp
      have := hcc hcomp
      omega

/-- `PointerList.At(i)` for `0 ≤ i < Len()` -/
theorem list_ptrAt_safe (m : Msg) (l : ListP) (i rl : Int) (hm : MsgOK m) (hw : ListWF m l) (hs : SegOK m l.seg)
    (hi : 0 ≤ i ∧ i < l.length) (hd : 0 ≤ l.depth ∧ l.depth < 18446744073709551616) (hrl : 0 ≤ rl) :
    Safe (l.ptrAt m i rl).1 (PtrOK m l.depth rl (l.ptrAt m i rl).2) ∧ 0 ≤ (l.ptrAt m i rl).2 ∧ (l.ptrAt m i rl).2 ≤ rl := by
  have hpe := primitiveElem_ok m l i ⟨0, 1⟩ hw hi
  unfold ListP.ptrAt
  cases hp : l.primitiveElem i ⟨0, 1⟩ with
  | error e => rw [hp] at hpe; cases e <;> simp_all [Safe]
  | ok addr =>
    rw [hp] at hpe; simp only [Safe] at hpe
    obtain ⟨ha0, ha1, hnb, hnc, hcc⟩ := hpe
    simp only
    have hsz8 : addr + 8 ≤ m.segLen l.seg := by
      obtain ⟨⟨a, b, c, d⟩, _⟩ := hw
      by_cases hcomp : l.flags = isCompositeList
      · have := hcc hcomp
        rw [if_pos ⟨hcomp, by show (1:Int) > 0; omega⟩] at ha1
        have h1 : (1:Int) ≤ l.size.PointerCount := this.2
        omega
      · have := hnc hcomp
        rw [if_neg (by intro h; exact hcomp h.1)] at ha1
        rw [this] at ha1
        have : (({ DataSize := 0, PointerCount := 1 } : ObjectSize).DataSize + 8 * ({ DataSize := 0, PointerCount := 1 } : ObjectSize).PointerCount) = 8 := by
          show (0:Int) + 8 * 1 = 8; omega
        omega
    exact readPtr_wf m l.seg addr l.depth rl hm hs ha0 hsz8 hd hrl

/-- `UInt8List.At … UInt64List.At` for `0 ≤ i < Len()` (a list of another element size reads as 0) -/
theorem list_uintAt_safe (m : Msg) (l : ListP) (i : Int) (w : Nat) (hm : MsgOK m) (hw : ListWF m l)
    (hi : 0 ≤ i ∧ i < l.length) (hww : 1 ≤ w ∧ w ≤ 8) : Safe (l.uintAt m i w) (fun v => 0 ≤ v) := by
  have hpe := primitiveElem_ok m l i ⟨w, 0⟩ hw hi
  unfold ListP.uintAt
  cases hp : l.primitiveElem i ⟨w, 0⟩ with
  | error e => simp [Safe]
  | ok addr =>
    rw [hp] at hpe; simp only [Safe] at hpe
    obtain ⟨ha0, ha1, hnb, hnc, hcc⟩ := hpe
    simp only
    rw [if_neg (by intro h; exact absurd h.2 (by show ¬ ((0:Int) > 0); omega))] at ha1
    have hszw : (w : Int) ≤ l.size.DataSize + 8 * l.size.PointerCount := by
      obtain ⟨⟨a, b, c, d⟩, _⟩ := hw
      by_cases hcomp : l.flags = isCompositeList
      · have := hcc hcomp
        have h1 : (w:Int) ≤ l.size.DataSize := this.1
        omega
      · have := hnc hcomp; rw [this]; show (w:Int) ≤ w + 8 * 0; omega
    obtain ⟨v, hv, _⟩ := readUint_ok m l.seg addr w hm ha0 hww.2 (by omega)
    rw [hv]; simp only [Safe]; omega

/-- `BitList.At(i)` for `0 ≤ i < Len()` — every index up to the maximal list length `2^29 - 1`
    (fails on the pinned tree for `i ≥ 2^22`, repaired by 95dc3e5) -/
theorem list_bitAt_safe (m : Msg) (l : ListP) (i : Int) (hm : MsgOK m) (hw : ListWF m l)
    (hi : 0 ≤ i ∧ i < l.length) : Safe (l.bitAt m i) (fun _ => True) := by
  obtain ⟨hsz, h0, hl0, hl1, hb1, hb2, hfl⟩ := hw
  unfold ListP.bitAt
  split
  · exact trivial
  · rename_i hb
    simp only [ne_eq, Classical.not_not] at hb
    have hcb : contentBytes l = (l.length + 7) / 8 := by unfold contentBytes; rw [if_pos hb]
    rw [hcb] at hb1 hb2
    simp only [Err.bind]
    unfold BitOffset_offset address_addSizeUnchecked
    rw [wrapU32_id i (by omega), wrapU32_id (i / 8) (by omega), wrapU32_id (i / 8) (by omega), wrapU32_id (i / 8) (by omega),
      wrapU32_id (l.off + i / 8) (by omega)]
    obtain ⟨v, hv, _⟩ := readUint_ok m l.seg (l.off + i / 8) 1 hm (by omega) (by omega) (by omega)
    rw [hv]; exact trivial

theorem sliceBytes_ok (m : Msg) (seg : Nat) (off n : Int) (hm : MsgOK m) (h0 : 0 ≤ off) (hn : 0 ≤ n)
    (hb : off + n ≤ m.segLen seg) : ∃ b, sliceBytes m seg off n = .ok b := by
  have h1 := hm seg
  unfold sliceBytes sliceOk address_addSizeUnchecked
  rw [wrapU32_id n (by omega), wrapU32_id (off + n) (by omega)]
  have : (decide (off ≤ off + n) && decide (off + n ≤ m.segLen seg)) = true := by
    simp only [Bool.and_eq_true, decide_eq_true_eq]; omega
  rw [if_pos this]
  exact ⟨_, rfl⟩

/-- `Ptr.Text / TextBytes / Data` on a list pointer -/
theorem list_text_data_safe (m : Msg) (l : ListP) (hm : MsgOK m) (hw : ListWF m l) :
    Safe (l.text m) (fun _ => True) ∧ Safe (l.data m) (fun _ => True) := by
  obtain ⟨hsz, h0, hl0, hl1, hb1, hb2, hfl, hbz⟩ := hw
  unfold ListP.text ListP.data
  by_cases h1 : l.isOneByte = true
  · simp only [h1, Bool.not_true, Bool.false_eq_true, ↓reduceIte]
    unfold ListP.isOneByte ObjectSize_isOneByte at h1
    simp only [Bool.and_eq_true, decide_eq_true_eq] at h1
    obtain ⟨⟨hds, hpc⟩, hnc⟩ := h1
    have hnb : l.flags ≠ isBitList := by
      intro hb; have := hbz hb; omega
    have hcb : contentBytes l = l.length := by
      unfold contentBytes; rw [if_neg hnb, hds, hpc]; omega
    rw [hcb] at hb1 hb2
    obtain ⟨b, hb⟩ := sliceBytes_ok m l.seg l.off (wrapU32 l.length) hm h0 (by rw [wrapU32_id _ (by omega)]; omega)
      (by rw [wrapU32_id _ (by omega)]; omega)
    rw [hb]
    simp only [Err.bind]
    constructor
    · split <;> exact trivial
    · exact trivial
  · simp [h1, Safe]

end Capnp.Props.C01
