import Capnp.Lemmas.RpcQImports
import Capnp.Props.C06Q
/-!
# C07, import side — references received are counted exactly and given back with one exact Release

Same histories as `Props.C06Q`: every sequence of local operations (bootstraps, calls, pipelined calls, handles taken
from results, handles and results released in any order, cancellations, Close) and peer Returns carrying any list
of descriptors (the same import any number of times, in any number of Returns, before or after earlier references
were dropped).
-/
namespace Capnp.Props.C07Q
open Capnp.Model.RpcQ Capnp.Lemmas.RpcQ Capnp.Lemmas.RpcQImports Capnp.Props.C06Q
open Capnp.Model.Rpc (lookup Imp)

theorem init_MInv : MInvT {} [] := by
  intro _; refine ⟨rfl, fun i => ?_⟩; simp [lookup, held, heldH, heldC]

theorem run_MInv (s : QS) (ops : List Op) (hI : Inv s) (h : MInvT s []) : MInvT (run s ops) [] := by
  induction ops generalizing s with
  | nil => exact h
  | cons o os ih => exact ih _ (step_Inv s o hI) (step_MInv s o hI h)

/-- **the import table mirrors the references the application holds**: after any history, while the connection is
    up, an entry exists for import `i` exactly while some local reference to it remains (a handle, or an entry of
    the capability table of results not yet released); its local count is the number of those references and its
    wire count the number of descriptors received for `i` since the entry was created.  No reference is ever
    dropped twice. -/
theorem import_refs (ops : List Op) (hopen : (run {} ops).closed = false) (i : Nat) :
    (run {} ops).doubleFree = false ∧
    (∀ e, lookup (run {} ops).imports i = some e →
        e.refs = held (run {} ops) i ∧ 0 < e.refs ∧ e.wireRefs = (run {} ops).received i ∧ 0 < e.wireRefs) ∧
    (lookup (run {} ops).imports i = none ↔ held (run {} ops) i = 0) := by
  obtain ⟨hd, hi⟩ := run_MInv {} ops init_Inv init_MInv hopen
  have := hi i
  refine ⟨hd, ?_, ?_⟩
  · intro e he; rw [he] at this; simpa using this
  · cases hl : lookup (run {} ops).imports i with
    | none => rw [hl] at this; simpa using this
    | some e => rw [hl] at this; simp only [List.count_nil, Nat.add_zero] at this; simp; omega

/-- **one Release with the exact count, when the last local reference goes away**: for every reachable state and
    every next operation —
    * a `Release(i, n)` sent by the step carries exactly the number of descriptors received for `i` since its
      entry was created (including those of the Return being handled), and afterwards the entry is gone (so, by
      `import_refs`, no local reference to `i` remains);
    * while the connection stays up, an entry disappears only in a step that sends such a `Release`. -/
theorem release_exact (ops : List Op) (op : Op) :
    (∀ i n, Ev.rel i n ∈ (step (run {} ops) op).2.1 →
        n = (step (run {} ops) op).1.received i ∧ lookup (step (run {} ops) op).1.imports i = none ∧
        (step (run {} ops) op).1.closed = false) ∧
    (∀ i, lookup (run {} ops).imports i ≠ none → lookup (step (run {} ops) op).1.imports i = none →
        (step (run {} ops) op).1.closed = false → ∃ n, Ev.rel i n ∈ (step (run {} ops) op).2.1) :=
  step_RelSpec _ op (run_Inv {} ops init_Inv) (run_MInv {} ops init_Inv init_MInv)

-- non-vacuity (kernel-evaluated): import 1 arrives as the bootstrap capability and twice more in a call's results;
-- one of those is taken as a handle; everything is released: one Release(1, 3), only after the last reference
example : history {} [.bootstrap, .ret 0 1 [.senderHosted 1], .call 0 0, .ret 0 0 [.senderHosted 1, .senderHosted 1],
    .take 0 0, .release 0, .release 1, .releaseResults 0] =
    [.boot 0, .fin 0 false, .call 0 "e1" 0 1000, .fin 0 false, .resolved 0 "ok.t100", .rel 1 3] := by decide

end Capnp.Props.C07Q
