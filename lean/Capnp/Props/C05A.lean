import Capnp.Model.Alloc
/-!
# C05 — allocation: objects are word-aligned, zeroed, disjoint, and leave everything else alone (`Model.Alloc`)

Tie: `build alloc` M ops (harness/build.go): runs of `NewData` allocations of arbitrary sizes in single-segment arenas of
every capacity, clean and recycled (dirty) buffers; the bytes of the segment afterwards against `allocFill`.
-/
namespace Capnp.Props.C05A
open Capnp.Model.Alloc

theorem padToWord_ge (n : Nat) : n ≤ padToWord n := by unfold padToWord; omega
theorem padToWord_lt (n : Nat) : padToWord n < n + 8 := by unfold padToWord; omega
theorem padToWord_words (n : Nat) : padToWord n % 8 = 0 := by unfold padToWord; omega

/-- the new object starts where the used part ended: word-aligned if the segment was -/
theorem alloc_addr (s : Seg) (sz : Nat) : (alloc s sz).1 = s.data.length := rfl

theorem alloc_aligned (s : Seg) (sz : Nat) (h : s.data.length % 8 = 0) :
    (alloc s sz).1 % 8 = 0 ∧ (alloc s sz).2.data.length % 8 = 0 := by
  have := padToWord_words sz
  simp [alloc]; omega

/-- **existing content is preserved** -/
theorem alloc_preserves (s : Seg) (sz : Nat) (i : Nat) (hi : i < s.data.length) :
    (alloc s sz).2.data[i]? = s.data[i]? := by
  simp [alloc, List.getElem?_append_left hi]

/-- **the new object is zero whatever the buffer held before** -/
theorem alloc_zeroed (s : Seg) (sz : Nat) (i : Nat) (hi : i < padToWord sz) :
    (alloc s sz).2.data[s.data.length + i]? = some 0 := by
  simp [alloc, hi]

/-- the result does not depend on the spare capacity's content at all -/
theorem alloc_ignores_spare (d sp sp' : List Nat) (sz : Nat) :
    (alloc { data := d, spare := sp } sz).2.data = (alloc { data := d, spare := sp' } sz).2.data := rfl

/-- the segment grows by exactly the padded size: the next object starts right behind this one -/
theorem alloc_next (s : Seg) (sz sz' : Nat) :
    (alloc (alloc s sz).2 sz').1 = (alloc s sz).1 + padToWord sz := by
  simp [alloc]

/-- **objects are disjoint**: addresses in a run of allocations increase by at least the (padded) size of the earlier
    object -/
theorem allocs_disjoint (s : Seg) (szs : List Nat) :
    ∀ i j, (hij : i < j) → (hj : j < szs.length) →
      ∃ ai aj, (allocs s szs).1[i]? = some ai ∧ (allocs s szs).1[j]? = some aj ∧ ai + padToWord (szs[i]'(by omega)) ≤ aj := by
  induction szs generalizing s with
  | nil => intro i j _ hj; simp at hj
  | cons sz rest ih =>
    intro i j hij hj
    have lower : ∀ (s : Seg) (l : List Nat) (k : Nat) (a : Nat), (allocs s l).1[k]? = some a → s.data.length ≤ a := by
      intro s l
      induction l generalizing s with
      | nil => intro k a h; simp [allocs] at h
      | cons x xs ihx =>
        intro k a h
        cases k with
        | zero => simp [allocs, alloc] at h; omega
        | succ k =>
          simp only [allocs, List.getElem?_cons_succ] at h
          have := ihx _ k a h
          simp [alloc] at this; omega
    cases j with
    | zero => omega
    | succ j =>
      have hj' : j < rest.length := by simpa using hj
      cases i with
      | zero =>
        have hlen : j < (allocs (alloc s sz).2 rest).1.length := by
          have : ∀ (s : Seg) (l : List Nat), (allocs s l).1.length = l.length := by
            intro s l; induction l generalizing s with
            | nil => rfl
            | cons x xs ihx => simp [allocs, ihx]
          rw [this]; exact hj'
        refine ⟨s.data.length, (allocs (alloc s sz).2 rest).1[j], ?_, ?_, ?_⟩
        · simp [allocs, alloc]
        · simp [allocs]
        · have := lower (alloc s sz).2 rest j _ (List.getElem?_eq_getElem hlen)
          simpa [alloc] using this
      | succ i =>
        obtain ⟨ai, aj, h1, h2, h3⟩ := ih (alloc s sz).2 i j (by omega) hj'
        exact ⟨ai, aj, by simpa [allocs] using h1, by simpa [allocs] using h2, by simpa using h3⟩

/-- the variant without the clearing loop shows what a recycled buffer held -/
theorem noclear_variant_shows_old_bytes :
    ∃ s sz i, i < padToWord sz ∧ (allocNoClear s sz).2.data[s.data.length + i]? ≠ some 0 :=
  ⟨{ data := [1, 2, 3, 4, 5, 6, 7, 8], spare := [0xdd, 0xdd, 0xdd, 0xdd, 0xdd, 0xdd, 0xdd, 0xdd] }, 3, 0, by decide, by decide⟩

example : (allocFill { data := [], spare := [0xdd, 0xdd, 0xdd] } [3, 9] 1).data =
    [1, 1, 1, 0, 0, 0, 0, 0, 2, 2, 2, 2, 2, 2, 2, 2, 2, 0, 0, 0, 0, 0, 0, 0] := by decide

end Capnp.Props.C05A
