import Capnp.Model.Pogs
import Capnp.Props.C15
/-!
# C19 — struct mapping (pogs) round-trips and agrees with generated accessors (data section)
-/
namespace Capnp.Props.C19
open Capnp.Model.Layout Capnp.Model.Pogs Capnp.Props.C15

/-- **pogs and the generated getter read the same value from any bytes**: `Extract`'s field formula is the
    generated getter's, for every integer-shaped field, offset, default and struct content (a union member:
    whenever its tag check passes) -/
theorem pogs_accessor (n : Node) (f : Field) (w : Nat) (b : Bytes) (hk : f.kind = .int w) (ht : tagOk n f b = true) :
    getInt n f w b = some (extractField f b) := by
  unfold getInt extractField
  rw [if_pos ht, hk]

theorem pogs_accessor_bool (n : Node) (f : Field) (b : Bytes) (hk : f.kind = .bool) (ht : tagOk n f b = true) :
    getBool n f b = some (decide (extractField f b = 1)) := by
  unfold getBool extractField
  rw [if_pos ht, hk]
  by_cases hm : f.mask = 1 <;> cases hg : getBit b f.offset <;> simp [hm]

/-- one field: what `Insert` stores, `Extract` returns -/
theorem field_rt (f : Field) (w : Nat) (b : Bytes) (v : Nat) (hk : f.kind = .int w) (hv : v < 256 ^ w) (hm : f.mask < 256 ^ w) :
    extractField f (insertField f v b) = v := by
  unfold extractField insertField
  rw [hk]
  simp only
  rw [getU_setU _ _ _ _ (xor_lt v f.mask w hv hm), Nat.xor_assoc, Nat.xor_self, Nat.xor_zero]

/-- a field stored later in a disjoint slot does not disturb an earlier one -/
theorem field_frame (f g : Field) (wf wg : Nat) (b : Bytes) (v : Nat) (hf : f.kind = .int wf) (hg : g.kind = .int wg)
    (hdis : g.offset * wg + wg ≤ f.offset * wf ∨ f.offset * wf + wf ≤ g.offset * wg) :
    extractField g (insertField f v b) = extractField g b := by
  unfold extractField insertField
  rw [hf, hg]
  simp only
  rw [getU_setU_disjoint _ _ _ _ _ _ hdis]

/-- byte ranges of two integer-shaped fields do not meet -/
def Disjoint (f g : Field) : Prop :=
  ∀ wf wg, f.kind = .int wf → g.kind = .int wg →
    g.offset * wg + wg ≤ f.offset * wf ∨ f.offset * wf + wf ≤ g.offset * wg

def IntField (f : Field) (v : Nat) : Prop := ∃ w, f.kind = .int w ∧ v < 256 ^ w ∧ f.mask < 256 ^ w

/-- **round trip of a whole struct without a union**: after `Insert` of any list of integer-shaped fields in
    pairwise disjoint slots, `Extract` returns every field's value -/
theorem struct_rt (fs : List (Field × Nat)) (b : Bytes)
    (hint : ∀ fv ∈ fs, IntField fv.1 fv.2) (hnu : ∀ fv ∈ fs, fv.1.disc = none)
    (hdis : fs.Pairwise (fun a c => Disjoint a.1 c.1 ∧ Disjoint c.1 a.1)) :
    ∀ fv ∈ fs, extractField fv.1 (fs.foldl (fun b fv => if active none fv.1 then insertField fv.1 fv.2 b else b) b) = fv.2 := by
  induction fs generalizing b with
  | nil => intro fv h; cases h
  | cons a rest ih =>
    intro fv hfv
    simp only [List.foldl_cons]
    have ha : active none a.1 = true := by unfold active; rw [hnu a (by simp)]
    rw [ha]; simp only [↓reduceIte]
    have hrest := ih (insertField a.1 a.2 b) (fun x hx => hint x (by simp [hx])) (fun x hx => hnu x (by simp [hx]))
      (List.Pairwise.of_cons hdis)
    rcases List.mem_cons.mp hfv with rfl | hmem
    · -- the first field: later inserts do not touch it
      obtain ⟨w, hk, hv, hm⟩ := hint fv (by simp)
      have hrel : ∀ x ∈ rest, Disjoint fv.1 x.1 ∧ Disjoint x.1 fv.1 := fun x hx => List.rel_of_pairwise_cons hdis hx
      clear ih hrest hfv
      have key : ∀ (l : List (Field × Nat)) (b' : Bytes), (∀ x ∈ l, IntField x.1 x.2) → (∀ x ∈ l, x.1.disc = none) →
          (∀ x ∈ l, Disjoint fv.1 x.1 ∧ Disjoint x.1 fv.1) →
          extractField fv.1 (l.foldl (fun b fv => if active none fv.1 then insertField fv.1 fv.2 b else b) b') = extractField fv.1 b' := by
        intro l
        induction l with
        | nil => intro b' _ _ _; rfl
        | cons c l ihl =>
          intro b' h1 h2 h3
          simp only [List.foldl_cons]
          have hc : active none c.1 = true := by unfold active; rw [h2 c (by simp)]
          rw [hc]; simp only [↓reduceIte]
          rw [ihl _ (fun x hx => h1 x (by simp [hx])) (fun x hx => h2 x (by simp [hx])) (fun x hx => h3 x (by simp [hx]))]
          obtain ⟨wc, hkc, _, _⟩ := h1 c (by simp)
          exact field_frame c.1 fv.1 wc w b' c.2 hkc hk ((h3 c (by simp)).2 wc w hkc hk)
      rw [key rest _ (fun x hx => hint x (by simp [hx])) (fun x hx => hnu x (by simp [hx])) hrel]
      exact field_rt fv.1 w b fv.2 hk hv hm
    · exact hrest fv hmem

/-- **fields outside the active union member are not read by `Insert`**: two Go values that agree on the active
    and the non-union fields produce the same struct, whatever their other fields hold -/
theorem insert_ignores_inactive (n : Node) (which : Option Nat) (fs fs' : List (Field × Nat)) (b : Bytes)
    (hsame : fs.map (·.1) = fs'.map (·.1))
    (hagree : ∀ i, ∀ h : i < fs.length, ∀ h' : i < fs'.length, active which (fs[i]).1 = true → (fs[i]).2 = (fs'[i]).2) :
    insertStruct n which fs b = insertStruct n which fs' b := by
  unfold insertStruct
  simp only
  suffices hgen : ∀ b0 : Bytes, fs.foldl (fun b fv => if active which fv.1 then insertField fv.1 fv.2 b else b) b0 =
      fs'.foldl (fun b fv => if active which fv.1 then insertField fv.1 fv.2 b else b) b0 from hgen _
  intro b0
  induction fs generalizing fs' b0 with
  | nil =>
    cases fs' with
    | nil => rfl
    | cons a t => simp at hsame
  | cons a t ih =>
    cases fs' with
    | nil => simp at hsame
    | cons a' t' =>
      simp only [List.map_cons, List.cons.injEq] at hsame
      obtain ⟨hf, ht⟩ := hsame
      simp only [List.foldl_cons]
      have hhead : (if active which a.1 then insertField a.1 a.2 b0 else b0) = (if active which a'.1 then insertField a'.1 a'.2 b0 else b0) := by
        rw [← hf]
        by_cases hact : active which a.1 = true
        · have := hagree 0 (by simp) (by simp) (by simpa using hact)
          simp only [List.getElem_cons_zero] at this
          rw [if_pos hact, if_pos hact, this, hf]
        · rw [if_neg hact, if_neg hact]
      rw [hhead]
      apply ih t' ht
      intro i h h' hact
      have := hagree (i + 1) (by simp; omega) (by simp; omega) (by simpa using hact)
      simpa using this

/-- **… and not written by `Extract`**: the Go field of a non-active member stays at its zero value -/
theorem extract_skips_inactive (n : Node) (fs : List Field) (b : Bytes) (i : Nat) (h : i < fs.length) (d : Nat)
    (hd : (fs[i]).disc = some d) (hother : getU b (tagOff n) 2 ≠ d) :
    ((extractStruct n true fs b).2)[i]'(by simp [extractStruct]; exact h) = 0 := by
  simp only [extractStruct, ↓reduceIte, List.getElem_map]
  have : active (some (getU b (tagOff n) 2)) fs[i] = false := by
    unfold active; rw [hd]; simpa using hother
  rw [this]; simp

-- non-vacuity: a union of a UInt32 (discriminant 0, default 7) and a UInt16 (discriminant 1); `Which = 1`
example : extractStruct ⟨2, 0, 2⟩ true [⟨.int 4, 0, 7, some 0⟩, ⟨.int 2, 1, 0, some 1⟩]
    (insertStruct ⟨2, 0, 2⟩ (some 1) [(⟨.int 4, 0, 7, some 0⟩, 99), (⟨.int 2, 1, 0, some 1⟩, 513)] (fun _ => 0)) = (some 1, [0, 513]) := by
  decide

end Capnp.Props.C19
