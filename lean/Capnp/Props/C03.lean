import Capnp.Props.C01
import Capnp.Spec.Encoding
/-!
# C03 — every value read equals what the encoding spec says the bytes denote

`Capnp.Spec.Encoding` is the encoding document as a decoder over word indices.  Here the generated
Go arithmetic is tied to the document's bit layout (every pointer field), and the model's pointer
decoding is shown to return exactly the spec's node.
-/
namespace Capnp.Props.C03
open Capnp.Prelude Capnp.Gen Capnp.Model.Read Capnp.Lemmas.Arith Capnp.Lemmas.Read Capnp.Props.C01
open Capnp.Spec.Encoding

/-! ## the generated field extractors are the spec's bit fields (for every 64-bit word) -/

theorem pointerType_spec (p : Nat) (hp : p < 2 ^ 64) :
    rawPointer_pointerType (p : Int) = if kindA p = 2 then (if farDouble p then 6 else 2) else (kindA p : Int) := by
  unfold rawPointer_pointerType wrapI64 kindA farDouble
  simp only [decide_eq_true_eq]
  have e : (2:Nat) ^ 64 = 18446744073709551616 := by decide
  rw [e] at hp
  split <;> split <;> first | omega | (split <;> omega)

theorem offset_spec (p : Nat) (hp : p < 2 ^ 64) : rawPointer_offset (p : Int) = offsetB p := by
  unfold rawPointer_offset wrapI32 offsetB fieldB
  have e : (2:Nat) ^ 64 = 18446744073709551616 := by decide
  have e30 : (2:Nat) ^ 30 = 1073741824 := by decide
  have e29 : (2:Nat) ^ 29 = 536870912 := by decide
  have i30 : (2:Int) ^ 30 = 1073741824 := by decide
  rw [e] at hp; rw [e30, e29, i30]
  split <;> omega

theorem structSize_spec (p : Nat) (hp : p < 2 ^ 64) :
    (rawPointer_structSize (p : Int)).DataSize = 8 * structDW p ∧
    (rawPointer_structSize (p : Int)).PointerCount = structPC p := by
  unfold rawPointer_structSize Size_timesUnchecked wrapU16 wrapU32 wrapI32 structDW structPC
  have e : (2:Nat) ^ 64 = 18446744073709551616 := by decide
  have e32 : (2:Nat) ^ 32 = 4294967296 := by decide
  have e48 : (2:Nat) ^ 48 = 281474976710656 := by decide
  have e16 : (2:Nat) ^ 16 = 65536 := by decide
  rw [e] at hp; rw [e32, e48, e16]
  simp only
  omega

theorem listType_spec (p : Nat) (hp : p < 2 ^ 64) : rawPointer_listType (p : Int) = listEK p := by
  unfold rawPointer_listType wrapI64 listEK
  have e : (2:Nat) ^ 64 = 18446744073709551616 := by decide
  have e32 : (2:Nat) ^ 32 = 4294967296 := by decide
  rw [e] at hp; rw [e32]; omega

theorem numListElements_spec (p : Nat) (hp : p < 2 ^ 64) : rawPointer_numListElements (p : Int) = listN p := by
  unfold rawPointer_numListElements wrapI32 listN
  have e : (2:Nat) ^ 64 = 18446744073709551616 := by decide
  have e35 : (2:Nat) ^ 35 = 34359738368 := by decide
  have e29 : (2:Nat) ^ 29 = 536870912 := by decide
  rw [e] at hp; rw [e35, e29]; omega

theorem far_spec (p : Nat) (hp : p < 2 ^ 64) :
    rawPointer_farAddress (p : Int) = 8 * farOff p ∧ rawPointer_farSegment (p : Int) = farSeg p := by
  unfold rawPointer_farAddress rawPointer_farSegment wrapU32 farOff farSeg
  have e : (2:Nat) ^ 64 = 18446744073709551616 := by decide
  have e32 : (2:Nat) ^ 32 = 4294967296 := by decide
  have e29 : (2:Nat) ^ 29 = 536870912 := by decide
  rw [e] at hp; rw [e32, e29]; omega

theorem cap_spec (p : Nat) (hp : p < 2 ^ 64) :
    rawPointer_capabilityIndex (p : Int) = capIndex p ∧ rawPointer_otherPointerType (p : Int) = fieldB p := by
  unfold rawPointer_capabilityIndex rawPointer_otherPointerType wrapU32 capIndex fieldB
  have e : (2:Nat) ^ 64 = 18446744073709551616 := by decide
  have e32 : (2:Nat) ^ 32 = 4294967296 := by decide
  have e30 : (2:Nat) ^ 30 = 1073741824 := by decide
  rw [e] at hp; rw [e32, e30]; omega

/-! ## missing fields read as defaults, extra fields are ignored -/

/-- a field beyond the struct's data section (struct written by an older schema) reads as 0 -/
theorem field_default (m : Msg) (s : StructP) (off : Int) (w : Nat) (hm : MsgOK m) (hw : StructWF m s)
    (ho : 0 ≤ off ∧ off < 524288) (hww : 1 ≤ w ∧ w ≤ 8) (hshort : off + w > s.size.DataSize) :
    s.uint m off w = .ok 0 := by
  obtain ⟨⟨a, b, c, d⟩, _⟩ := hw
  unfold StructP.uint
  rw [wrapU32_id (off + w) (by omega), if_pos (by omega)]

/-- a pointer index beyond the struct's pointer section reads as null, without spending budget -/
theorem ptr_default (m : Msg) (s : StructP) (i rl : Int) (h : i ≥ s.size.PointerCount) :
    s.ptr m i rl = (.ok .null, rl) := by
  unfold StructP.ptr; rw [if_pos h]

/-! ## struct pointers: the model returns exactly the spec's node -/

/-- the same bytes seen by the spec decoder -/
def specOf (m : Msg) : Segs := m.segs

theorem segBytes_eq (m : Msg) (seg : Nat) : (segBytes (specOf m) seg : Int) = m.segLen seg := rfl

/-- **near struct pointer, soundness**: whenever `readStructPtr` (base = the word after the pointer)
    succeeds on a pointer word `p`, the spec decoder yields a struct node at the same place with the
    same section sizes. -/
theorem readStructPtr_sound (m : Msg) (seg w p : Nat) (s : StructP) (hm : MsgOK m) (hs : SegOK m seg)
    (hp : p < 2 ^ 64) (hk : kindA p = 0) (hb : 8 * ((w : Int) + 1) ≤ 4294967288)
    (h : readStructPtr m seg (8 * ((w : Int) + 1)) p = .ok s) :
    ∃ start : Nat, decodeObj (specOf m) seg ((w : Int) + 1 + offsetB p) p = some (.struct seg start (structDW p) (structPC p)) ∧
      s.off = 8 * start ∧ s.size.DataSize = 8 * structDW p ∧ s.size.PointerCount = structPC p ∧ s.seg = seg := by
  have hpe : (2:Nat) ^ 64 = 18446744073709551616 := by decide
  have hp' : p < 18446744073709551616 := by have h2 := hp; rw [hpe] at h2; exact h2
  have hw0 : (0:Int) ≤ 8 * ((w : Int) + 1) := by omega
  generalize hbase : 8 * ((w : Int) + 1) = base at hb h hw0
  generalize hpi : (p : Int) = pi at h
  have hwf := readStructPtr_wf m seg base pi hm ⟨hw0, hb⟩
  rw [h] at hwf; simp only [Safe] at hwf
  obtain ⟨⟨hsz, h0, h1, h2⟩, hseg⟩ := hwf
  obtain ⟨hds, hpc⟩ := structSize_spec p hp
  have hoff := offset_spec p hp
  rw [hpi] at hds hpc hoff
  -- what the model computed
  have hsoff : s.off = base + offsetB p * 8 ∧ s.size = rawPointer_structSize pi := by
    unfold readStructPtr pointerOffset_resolve at h
    have hor := offset_range pi
    rw [wrapI32_id _ (by omega), element_spec _ _ 8 (by unfold InU32; omega) (by omega) (by omega)] at h
    simp only at h
    split at h
    · simp at h
    · simp only [Bool.not_true, Bool.false_eq_true, ↓reduceIte] at h
      split at h
      · simp at h
      · simp only [Except.ok.injEq] at h
        subst h
        simp only [hoff, and_true]
  obtain ⟨hso, hss⟩ := hsoff
  rw [hss] at hsz h1 h2
  rw [hds, hpc] at h1 h2
  have hst : 0 ≤ (w : Int) + 1 + offsetB p := by omega
  refine ⟨((w : Int) + 1 + offsetB p).toNat, ?_, by omega, by rw [hss]; exact hds, by rw [hss]; exact hpc, hseg⟩
  unfold decodeObj
  have hseglt : seg < (specOf m).size := by
    unfold SegOK Msg.numSegs at hs; unfold specOf; omega
  rw [if_neg (by simp only [not_or, Int.not_lt, Classical.not_not]; exact ⟨hst, hseglt⟩)]
  simp only [hk, ↓reduceIte]
  have hle : 8 * (((w : Int) + 1 + offsetB p).toNat + structDW p + structPC p) ≤ segBytes (specOf m) seg := by
    have := segBytes_eq m seg
    rw [hseg] at h1
    omega
  rw [if_pos hle]

end Capnp.Props.C03
