import Capnp.Model.CopyStruct
import Capnp.Props.C17
/-!
# C16 — deep copy: the data and pointer sections of the destination after `copyStruct`

For every source, every destination size (whole words or the 1/2/4 bytes of a primitive-list element) and every
previous content of the segment: the destination reads as the source truncated or zero-extended, nothing outside the
destination changes, and nothing of the previous content survives.  The two round-5 variants are refuted by
kernel-evaluated witnesses.  Tie: `build copydata` ops (harness/build.go) run `Struct.CopyFrom` / `List.SetStruct` on
real segments and compare the bytes of the whole neighbourhood with `copyInto`.
-/
namespace Capnp.Props.C16
open Capnp.Model.CopyStruct

theorem copyData_length (src : List Nat) (n : Nat) : (copyData src n).length = n := by
  unfold copyData; simp; omega

/-- **truncated or zero-extended**: byte `i` of the destination is the source's byte `i`, or 0 past the source's end -/
theorem copyData_get (src : List Nat) (n i : Nat) (hi : i < n) :
    (copyData src n).getD i 0 = src.getD i 0 := by
  unfold copyData
  by_cases h : i < src.length
  · have : i < (src.take n).length := by simp; omega
    simp [List.getD_eq_getElem?_getD, List.getElem?_append_left this, hi]
  · have h2 : (src.take n).length ≤ i := by simp; omega
    have h3 : src[i]? = none := by simp; omega
    simp only [List.getD_eq_getElem?_getD, List.getElem?_append_right h2, h3, List.getElem?_replicate]
    split <;> rfl

/-- the same for the pointer section: slot `i` is the source's slot `i`, or null past the source's end -/
theorem copySlots_get {α : Type} (null : α) (src : List α) (n i : Nat) (hi : i < n) :
    (copySlots null src n).getD i null = src.getD i null := by
  unfold copySlots
  by_cases h : i < src.length
  · have : i < (src.take n).length := by simp; omega
    simp [List.getD_eq_getElem?_getD, List.getElem?_append_left this, hi]
  · have h2 : (src.take n).length ≤ i := by simp; omega
    have h3 : src[i]? = none := by simp; omega
    simp only [List.getD_eq_getElem?_getD, List.getElem?_append_right h2, h3, List.getElem?_replicate]
    split <;> rfl

/-- **nothing of the previous content survives**: the result does not depend on what the destination held -/
theorem copyInto_forgets (mem mem' : List Nat) (off n : Nat) (src : List Nat)
    (hpre : mem.take off = mem'.take off) (hpost : mem.drop (off + n) = mem'.drop (off + n)) :
    copyInto mem off n src = copyInto mem' off n src := by
  unfold copyInto; rw [hpre, hpost]

theorem copyInto_length (mem : List Nat) (off n : Nat) (src : List Nat) (h : off + n ≤ mem.length) :
    (copyInto mem off n src).length = mem.length := by
  unfold copyInto; simp [copyData_length]; omega

/-- **frame**: a byte outside `[off, off+n)` — a neighbouring list element, the object allocated behind — is untouched -/
theorem copyInto_frame (mem : List Nat) (off n : Nat) (src : List Nat) (h : off + n ≤ mem.length) (j : Nat)
    (hj : j < off ∨ off + n ≤ j) : (copyInto mem off n src)[j]? = mem[j]? := by
  unfold copyInto
  rcases hj with hj | hj
  · have : j < (mem.take off).length := by simp; omega
    rw [List.append_assoc, List.getElem?_append_left this, List.getElem?_take]; simp [hj]
  · have h1 : (mem.take off ++ copyData src n).length ≤ j := by simp [copyData_length]; omega
    rw [List.getElem?_append_right h1]
    simp [copyData_length]
    have : min off mem.length = off := by omega
    rw [this]; congr 1; omega

/-- **inside**: byte `off + i` is the source's byte `i`, or 0 -/
theorem copyInto_inside (mem : List Nat) (off n : Nat) (src : List Nat) (h : off + n ≤ mem.length) (i : Nat) (hi : i < n) :
    (copyInto mem off n src).getD (off + i) 0 = src.getD i 0 := by
  unfold copyInto
  have h0 : (mem.take off).length = off := by simp; omega
  have h1 : (mem.take off).length ≤ off + i := by omega
  have h2 : off + i - (mem.take off).length < (copyData src n).length := by rw [copyData_length]; omega
  rw [List.append_assoc, List.getD_eq_getElem?_getD, List.getElem?_append_right h1, List.getElem?_append_left h2, h0]
  have : off + i - off = i := by omega
  rw [this, ← List.getD_eq_getElem?_getD, copyData_get src n i hi]

/-- a value equals its zero-extended copy: with trailing zero bytes dropped the two data sections are the same -/
theorem copy_extends (src : List Nat) (n : Nat) (h : src.length ≤ n) :
    copyData src n = src ++ List.replicate (n - src.length) 0 := by
  unfold copyData; rw [List.take_of_length_le h]

/-- variant A keeps old bytes between the end of a sub-word source and the next word boundary -/
theorem padword_variant_keeps_old_bytes :
    ∃ old src n, copyDataPadWord old src n ≠ copyData src n :=
  ⟨[0xbb, 0xbb, 0xbb, 0xbb, 0xbb, 0xbb, 0xbb, 0xbb, 0xbb, 0xbb, 0xbb, 0xbb, 0xbb, 0xbb, 0xbb, 0xbb], [7, 1], 16, by decide⟩

/-- … and agrees with the code whenever the source is whole words (why ordinary structs never show it) -/
theorem padword_variant_same_on_words (old src : List Nat) (n : Nat) (hw : src.length % 8 = 0) (hn : n % 8 = 0) (i : Nat) (hi : i < n) :
    (copyDataPadWord old src n).getD i 0 = (copyData src n).getD i 0 := by
  rw [copyData_get src n i hi]
  unfold copyDataPadWord
  simp only [List.getD_eq_getElem?_getD, List.getElem?_map, List.getElem?_range hi, Option.map_some, Option.getD_some]
  have hc : (min src.length n + 7) / 8 * 8 = min src.length n := by omega
  rw [hc]
  by_cases h : i < min src.length n
  · simp [h]
  · simp only [h, if_false]
    have : src[i]? = none ∨ n ≤ i := by
      by_cases h2 : src.length ≤ i
      · left; simp [h2]
      · right; omega
    rcases this with h3 | h3
    · simp [h3]
    · omega

/-- variant B overwrites the neighbour of a sub-word destination -/
theorem paddst_variant_touches_neighbour :
    ∃ mem off n src j, off + n ≤ mem.length ∧ off + n ≤ j ∧ (copyIntoPadDst mem off n src)[j]? ≠ mem[j]? :=
  ⟨[0xbb, 0xbb, 0xbb, 0xbb, 0xbb, 0xbb, 0xbb, 0xbb, 0xcc, 0xcc], 2, 2, [1, 2, 3, 4, 5, 6, 7, 8], 4, by decide, by decide, by decide⟩

/-- the hypotheses are satisfiable: a two-byte element inside a ten-byte segment -/
example : (copyInto [0xbb, 0xbb, 0xbb, 0xbb, 0xbb, 0xbb, 0xbb, 0xbb, 0xcc, 0xcc] 2 2 [1, 2, 3, 4, 5, 6, 7, 8]) =
    [0xbb, 0xbb, 1, 2, 0xbb, 0xbb, 0xbb, 0xbb, 0xcc, 0xcc] := by decide

/-! ## version rules: round trip through a larger struct, idempotence, lossless truncation (with C17's equality) -/
section versions
open Capnp.Spec.Value

/-- **upgrade then downgrade is lossless**: copying a data section into a larger (newer-version) struct and
    back into one of the original size returns the original bytes -/
theorem copy_roundtrip (src : List Nat) (n : Nat) (h : src.length ≤ n) :
    copyData (copyData src n) src.length = src := by
  unfold copyData
  rw [List.take_of_length_le h]
  simp only [List.length_append, List.length_replicate]
  rw [List.take_append_of_le_length (Nat.le_refl _), List.take_length]
  have : src.length - (src.length + (n - src.length)) = 0 := by omega
  rw [this]; simp

/-- copying is idempotent: copying the copy into a struct of the same size changes nothing -/
theorem copy_idem (src : List Nat) (n : Nat) : copyData (copyData src n) n = copyData src n := by
  have hl : (copyData src n).length = n := copyData_length src n
  unfold copyData at hl ⊢
  rw [List.take_of_length_le (by omega), hl, Nat.sub_self]; simp

/-- **truncation loses only what the version rules allow**: when every byte beyond the destination's size is zero
    (the fields the older schema does not know are at their defaults) the truncated copy is `Equal` to the source -/
theorem copy_trunc_eq (src : List Nat) (n : Nat) (hz : (src.drop n).all (· == 0) = true) :
    dataEq (copyData src n) src = true := by
  by_cases h : src.length ≤ n
  · have := Capnp.Props.C17.dataEq_pad src (n - src.length)
    unfold copyData; rw [List.take_of_length_le h]; exact this
  · have hk : src.drop n = List.replicate (src.drop n).length 0 := by
      generalize src.drop n = t at hz
      induction t with
      | nil => rfl
      | cons x t ih =>
        simp only [List.all_cons, Bool.and_eq_true, beq_iff_eq] at hz
        simp only [List.length_cons, List.replicate_succ, hz.1]; congr 1; exact ih hz.2
    have hc : copyData src n = src.take n := by
      unfold copyData
      have : n - src.length = 0 := by omega
      rw [this]; simp
    have hs : src = src.take n ++ List.replicate (src.drop n).length 0 := by
      rw [← hk, List.take_append_drop]
    rw [hc, Capnp.Props.C17.dataEq_symm]
    have := Capnp.Props.C17.dataEq_pad (src.take n) (src.drop n).length
    rw [← hs] at this; exact this

example : copyData (copyData [1, 2] 8) 2 = [1, 2] := copy_roundtrip [1, 2] 8 (by decide)
example : dataEq (copyData [1, 2, 0, 0] 2) [1, 2, 0, 0] = true := copy_trunc_eq _ _ (by decide)
end versions

end Capnp.Props.C16
