import Capnp.Lemmas.RpcAns
/-!
# C06 — every RPC call gets exactly one correct return

The theorems quantify over every list of events of `Capnp.Model.Rpc` from the initial state: every sequence of
Bootstrap / Call (any target, any transform, any capability descriptors) / Finish / Release messages — well formed
or not — interleaved with every timing of the application's returns and with Close.
-/
namespace Capnp.Props.C06
open Capnp.Model.Rpc Capnp.Lemmas.Rpc Capnp.Lemmas.RpcAns

def run (s : RS) : List Ev → RS
  | [] => s
  | e :: es => run (stepTop true s e).1 es

theorem run_AInv (s : RS) (es : List Ev) (h : AInv s) : AInv (run s es) := by
  induction es generalizing s with
  | nil => exact h
  | cons e es ih => exact ih _ (stepTop_AInv s e h)

theorem init_AInv (s0 : RS) (h0 : s0.answers = []) (h1 : ∀ id, s0.returned id = s0.accepted id) : AInv s0 := by
  intro _ id
  rw [h0]; exact h1 id

/-- **each Bootstrap or Call received is answered by exactly one Return**: while the connection is up, for every
    answer id the number of Returns sent equals the number of Bootstraps/Calls accepted with that id — minus one
    exactly while the table holds an entry for it whose Return has not been sent (the application has not returned,
    or the call is queued on an unreturned answer).  In particular never two Returns for one call, and none without
    a call. -/
theorem one_return (es : List Ev) (s : RS) (hs : s = run {} es) (hopen : s.closed = false) (id : Nat) :
    s.returned id ≤ s.accepted id ∧
    (lookup s.answers id = none → s.returned id = s.accepted id) ∧
    (∀ a, lookup s.answers id = some a → (a.returnSent = true → s.returned id = s.accepted id) ∧
                                         (a.returnSent = false → s.returned id + 1 = s.accepted id)) := by
  have hinv : AInv s := by rw [hs]; exact run_AInv _ es (init_AInv {} rfl (fun _ => rfl))
  have := hinv hopen id
  cases hl : lookup s.answers id with
  | none =>
    rw [hl] at this
    unfold AOk at this
    refine ⟨by omega, fun _ => this, ?_⟩
    intro a ha; cases ha
  | some a =>
    rw [hl] at this
    unfold AOk at this
    refine ⟨?_, ?_, ?_⟩
    · cases hr : a.returnSent with
      | true => have := this.1 hr; omega
      | false => have := this.2 hr; omega
    · intro h; cases h
    · intro a' ha'
      simp only [Option.some.injEq] at ha'; subst ha'; exact this

/-- an answer id is not accepted twice: a Bootstrap or Call reusing the id of an entry still in the table is a
    protocol violation that ends the connection — it never overwrites the entry -/
theorem id_reuse_aborts (s : RS) (q : Nat) (a : Ans) (h : lookup s.answers q = some a) (hopen : s.closed = false) :
    (step true s (.bootstrap q)).1.closed = true ∧ (∀ tgt m caps, (step true s (.call q tgt m caps)).1.closed = true) := by
  have hsd : (shutdown true s true).1.closed = true := shutdown_closed true s true
  constructor
  · simp only [step, hopen, Bool.false_eq_true, ↓reduceIte, h, Option.isSome_some, abortWith]; exact hsd
  · intro tgt m caps
    simp only [step, hopen, Bool.false_eq_true, ↓reduceIte, h, Option.isSome_some, abortWith]; exact hsd

-- non-vacuity: Bootstrap, a held call, a call pipelined on it, the application returns a new capability, Finishes
-- non-vacuity (kernel-evaluated): a Bootstrap, its Finish, and the id used again: two accepted, two returned, still open
example : (run {} [.bootstrap 0, .finish 0 false, .bootstrap 0]).closed = false ∧
    (run {} [.bootstrap 0, .finish 0 false, .bootstrap 0]).accepted 0 = 2 ∧
    (run {} [.bootstrap 0, .finish 0 false, .bootstrap 0]).returned 0 = 2 := by decide

end Capnp.Props.C06
