import Capnp.Props.C01
/-!
# C02 — traversal and depth limits bound all work done on a hostile message

* `Walk`: the public read API as an op language (`Struct.Ptr(i)`, `List.Struct(i)`, `PointerList.At(i)`)
  over the read-path model.  For **every** message, every `T`, `D` and every access path:
  the bytes charged for the objects handed out never exceed `T`, and at most `D` pointers are
  successfully dereferenced along the path (`path_bounds`).
* `CanRead`: `Message.canRead`'s load/compare-and-swap loop as a transition system over any number of
  reader threads; for every interleaving the granted bytes plus the remaining budget never exceed `T`.
-/
namespace Capnp.Props.C02
open Capnp.Prelude Capnp.Gen Capnp.Model.Read Capnp.Lemmas.Arith Capnp.Lemmas.Read Capnp.Props.C01

/-! ## sequential accounting along arbitrary access paths -/

inductive Step
  | field (i : Int)      -- `Struct.Ptr(i)`
  | elem (i : Int)       -- `List.Struct(i)`
  | ptrElem (i : Int)    -- `PointerList.At(i)`

/-- the reader's position: current pointer, remaining budget, and ghost counters -/
structure Cur where
  p : Ptr
  rl : Int
  derefs : Nat        -- successful dereferences that yielded an object, so far
  charged : Int       -- bytes charged so far

def isObj : Ptr → Bool
  | .struct _ => true
  | .list _ => true
  | _ => false

def after (c : Cur) (r : Except Err Ptr × Int) : Option Cur :=
  match r with
  | (.ok p, rl') => some ⟨p, rl', c.derefs + (if isObj p then 1 else 0), c.charged + (c.rl - rl')⟩
  | (.error _, _) => none

/-- one API call; `none` = the call is refused, fails, or is the documented programmer error -/
def step (m : Msg) (c : Cur) : Step → Option Cur
  | .field i =>
    match c.p with
    | .struct s => if i < 0 then none else after c (s.ptr m i c.rl)
    | _ => none
  | .elem i =>
    match c.p with
    | .list l => if 0 ≤ i ∧ i < l.length then (l.structAt i).map (fun st => { c with p := .struct st }) else none
    | _ => none
  | .ptrElem i =>
    match c.p with
    | .list l => if 0 ≤ i ∧ i < l.length then after c (l.ptrAt m i c.rl) else none
    | _ => none

def run (m : Msg) (c : Cur) : List Step → Option Cur
  | [] => some c
  | s :: ss => (step m c s).bind (fun c' => run m c' ss)

def depthOf : Ptr → Int
  | .struct s => s.depth
  | .list l => l.depth
  | _ => 0

def objOK (m : Msg) : Ptr → Prop
  | .struct s => StructWF m s ∧ SegOK m s.seg
  | .list l => ListWF m l ∧ SegOK m l.seg
  | _ => True

/-- the invariant of the walk -/
def Good (m : Msg) (D T : Int) (c : Cur) : Prop :=
  objOK m c.p ∧ 0 ≤ depthOf c.p ∧ (c.derefs : Int) + depthOf c.p ≤ D ∧
  c.charged + c.rl = T ∧ 0 ≤ c.rl ∧ 0 ≤ c.charged

theorem after_good (m : Msg) (D T : Int) (c c' : Cur) (d : Int) (r : Except Err Ptr × Int)
    (hD : D < 18446744073709551616) (hg : Good m D T c) (hd : d = depthOf c.p)
    (hr : Safe r.1 (PtrOK m d c.rl r.2) ∧ 0 ≤ r.2 ∧ r.2 ≤ c.rl) (ha : after c r = some c') : Good m D T c' := by
  obtain ⟨hok, hd0, hdd, hch, hrl, hc0⟩ := hg
  obtain ⟨r1, r2⟩ := r
  obtain ⟨hs, h0, h1⟩ := hr
  cases r1 with
  | error e => simp [after] at ha
  | ok p =>
    simp only [after, Option.some.injEq] at ha
    subst ha
    simp only [Safe] at hs
    cases p with
    | null => simp only [PtrOK] at hs; simp [Good, objOK, depthOf, isObj]; omega
    | cap s i => simp only [PtrOK] at hs; simp [Good, objOK, depthOf, isObj]; omega
    | struct s =>
      simp only [PtrOK] at hs
      obtain ⟨hw, hso, hd1, hsd, _, hrs, hsz⟩ := hs
      have := hw.1
      unfold SizeOK at this
      simp only [Good, objOK, depthOf, isObj]
      refine ⟨⟨hw, hso⟩, by omega, ?_, by omega, by omega, by omega⟩
      simp; omega
    | list l =>
      simp only [PtrOK] at hs
      obtain ⟨hw, hso, hd1, hsd, hrs, hsz⟩ := hs
      simp only [Good, objOK, depthOf, isObj]
      refine ⟨⟨hw, hso⟩, by omega, ?_, by omega, by omega, by omega⟩
      simp; omega

theorem step_good (m : Msg) (D T : Int) (c c' : Cur) (s : Step) (hm : MsgOK m)
    (hD : D < 18446744073709551616) (hg : Good m D T c) (hs : step m c s = some c') : Good m D T c' := by
  have hg' := hg
  obtain ⟨hok, hd0, hdd, hch, hrl, hc0⟩ := hg
  cases s with
  | field i =>
    simp only [step] at hs
    cases hp : c.p with
    | struct st =>
      rw [hp] at hs hok hd0 hdd; simp only at hs
      split at hs
      · simp at hs
      · rename_i hi
        simp only [objOK] at hok; simp only [depthOf] at hd0 hdd
        exact after_good m D T c c' st.depth _ hD hg' (by rw [hp]; rfl)
          (struct_ptr_safe m st i c.rl hm hok.1 hok.2 (by omega) ⟨hd0, by omega⟩ hrl) hs
    | null => rw [hp] at hs; simp at hs
    | list l => rw [hp] at hs; simp at hs
    | cap a b => rw [hp] at hs; simp at hs
  | elem i =>
    simp only [step] at hs
    cases hp : c.p with
    | list l =>
      rw [hp] at hs hok hd0 hdd; simp only at hs
      split at hs
      · rename_i hi
        simp only [objOK] at hok; simp only [depthOf] at hd0 hdd
        cases hst : l.structAt i with
        | none => simp [hst] at hs
        | some st =>
          simp only [hst, Option.map_some, Option.some.injEq] at hs
          subst hs
          obtain ⟨hw, hseg, hsd0, hsd1, _⟩ := list_struct_wf m l i hok.1 hi hd0 st hst
          simp only [Good, objOK, depthOf]
          exact ⟨⟨hw, by rw [hseg]; exact hok.2⟩, hsd0, by omega, hch, hrl, hc0⟩
      · simp at hs
    | null => rw [hp] at hs; simp at hs
    | struct l => rw [hp] at hs; simp at hs
    | cap a b => rw [hp] at hs; simp at hs
  | ptrElem i =>
    simp only [step] at hs
    cases hp : c.p with
    | list l =>
      rw [hp] at hs hok hd0 hdd; simp only at hs
      split at hs
      · rename_i hi
        simp only [objOK] at hok; simp only [depthOf] at hd0 hdd
        exact after_good m D T c c' l.depth _ hD hg' (by rw [hp]; rfl)
          (list_ptrAt_safe m l i c.rl hm hok.1 hok.2 hi ⟨hd0, by omega⟩ hrl) hs
      · simp at hs
    | null => rw [hp] at hs; simp at hs
    | struct l => rw [hp] at hs; simp at hs
    | cap a b => rw [hp] at hs; simp at hs

theorem run_good (m : Msg) (D T : Int) (c c' : Cur) (path : List Step) (hm : MsgOK m)
    (hD : D < 18446744073709551616) (hg : Good m D T c) (hr : run m c path = some c') : Good m D T c' := by
  induction path generalizing c with
  | nil => simp [run] at hr; subst hr; exact hg
  | cons s ss ih =>
    simp only [run] at hr
    cases hs : step m c s with
    | none => simp [hs] at hr
    | some c1 => simp [hs] at hr; exact ih c1 (step_good m D T c c1 s hm hD hg hs) hr

/-- the state after `Message.Root()` -/
def start (m : Msg) (D T : Int) : Option Cur :=
  match root m D T with
  | (.ok p, rl) => some ⟨p, rl, if isObj p then 1 else 0, T - rl⟩
  | _ => none

theorem start_good (m : Msg) (D T : Int) (c : Cur) (hm : MsgOK m) (hD : 0 ≤ D ∧ D < 18446744073709551616) (hT : 0 ≤ T)
    (hs : start m D T = some c) : Good m D T c := by
  unfold start at hs
  unfold root at hs
  by_cases h1 : m.numSegs < 1
  · simp [h1] at hs
  · by_cases h2 : regionInBounds m 0 0 8 = true
    · simp only [h1, h2, ↓reduceIte, Bool.not_true, Bool.false_eq_true] at hs
      have hin := (regionInBounds_spec m 0 0 8 hm (by unfold InU32; omega) (by unfold InU32; omega)).mp h2
      have hw : ListWF m { seg := 0, off := 0, length := 1, size := ⟨0, 1⟩, depth := D, flags := 0 } := by
        simp [ListWF, SizeOK, contentBytes, isBitList, isCompositeList]; omega
      have hseg : SegOK m 0 := by unfold SegOK; omega
      have hsafe := list_ptrAt_safe m { seg := 0, off := 0, length := 1, size := ⟨0, 1⟩, depth := D, flags := 0 } 0 T hm hw hseg
        (by simp) hD hT
      have c0 : Cur := ⟨.null, T, 0, 0⟩
      have hg0 : Good m D T ⟨.list { seg := 0, off := 0, length := 1, size := ⟨0, 1⟩, depth := D, flags := 0 }, T, 0, 0⟩ := by
        simp only [Good, objOK, depthOf]
        exact ⟨⟨hw, hseg⟩, hD.1, by simp, by omega, hT, by omega⟩
      generalize hrr : ListP.ptrAt m { seg := 0, off := 0, length := 1, size := ⟨0, 1⟩, depth := D, flags := 0 } 0 T = r at hs hsafe
      have := after_good m D T ⟨.list { seg := 0, off := 0, length := 1, size := ⟨0, 1⟩, depth := D, flags := 0 }, T, 0, 0⟩ c D r hD.2 hg0 rfl hsafe
      apply this
      obtain ⟨r1, r2⟩ := r
      cases r1 with
      | error e => simp at hs
      | ok p => simp only [Option.some.injEq] at hs; subst hs; simp [after]
    · simp [h1, h2] at hs

/-- **C02, sequential**: for every message, every limits `T`, `D` and every access path mixing
    `Struct.Ptr`, `List.Struct` and `PointerList.At` from the root: at most `D` pointers are successfully
    dereferenced, and the bytes charged for the objects handed out never exceed `T`. -/
theorem path_bounds (m : Msg) (D T : Int) (path : List Step) (c0 c : Cur) (hm : MsgOK m)
    (hD : 0 ≤ D ∧ D < 18446744073709551616) (hT : 0 ≤ T)
    (h0 : start m D T = some c0) (hr : run m c0 path = some c) :
    (c.derefs : Int) ≤ D ∧ c.charged ≤ T ∧ 0 ≤ c.rl := by
  have hg := run_good m D T c0 c path hm hD.2 (start_good m D T c0 hm hD hT h0) hr
  obtain ⟨_, hd0, hdd, hch, hrl, hc0⟩ := hg
  omega

/-! ## concurrent readers: `canRead`'s load / compare-and-swap loop, all interleavings -/

structure CS where
  rlimit : Nat                       -- the shared `m.rlimit`
  granted : Nat                      -- ghost: sum of sizes for which `canRead` returned true
  loaded : Nat → Option Nat          -- per thread: the value read by `atomic.LoadUint64`, if mid-loop

inductive Act
  | load (t : Nat)                   -- `curr := atomic.LoadUint64(&m.rlimit)`
  | cas (t : Nat) (sz : Nat)         -- `atomic.CompareAndSwapUint64(&m.rlimit, curr, new)`

def upd (f : Nat → Option Nat) (t : Nat) (v : Option Nat) : Nat → Option Nat := fun u => if u = t then v else f u

def cstep (s : CS) : Act → Option CS
  | .load t => some { s with loaded := upd s.loaded t (some s.rlimit) }
  | .cas t sz =>
    match s.loaded t with
    | none => none
    | some curr =>
      if curr = s.rlimit then
        if curr ≥ sz then some { rlimit := curr - sz, granted := s.granted + sz, loaded := upd s.loaded t none }
        else some { rlimit := 0, granted := s.granted, loaded := upd s.loaded t none }
      else some { s with loaded := upd s.loaded t none }      -- CAS failed: loop again

def crun (s : CS) : List Act → Option CS
  | [] => some s
  | a :: as => (cstep s a).bind (fun s' => crun s' as)

theorem cstep_inv (T : Nat) (s s' : CS) (a : Act) (h : s.granted + s.rlimit ≤ T) (hs : cstep s a = some s') :
    s'.granted + s'.rlimit ≤ T := by
  cases a with
  | load t => simp only [cstep, Option.some.injEq] at hs; subst hs; exact h
  | cas t sz =>
    simp only [cstep] at hs
    cases hl : s.loaded t with
    | none => simp [hl] at hs
    | some curr =>
      simp only [hl] at hs
      split at hs
      · rename_i heq
        split at hs
        · simp only [Option.some.injEq] at hs; subst hs; simp only; omega
        · simp only [Option.some.injEq] at hs; subst hs; simp only; omega
      · simp only [Option.some.injEq] at hs; subst hs; exact h

theorem crun_inv (T : Nat) (acts : List Act) (s0 s : CS) (h0 : s0.granted + s0.rlimit ≤ T)
    (hr : crun s0 acts = some s) : s.granted + s.rlimit ≤ T := by
  induction acts generalizing s0 with
  | nil => simp [crun] at hr; subst hr; exact h0
  | cons a as ih =>
    simp only [crun] at hr
    cases hs : cstep s0 a with
    | none => simp [hs] at hr
    | some s1 => simp [hs] at hr; exact ih s1 (cstep_inv T s0 s1 a h0 hs) hr

/-- **C02, concurrent**: any number of reader threads, any interleaving of their loads and CASes:
    the bytes granted plus the remaining budget never exceed the configured limit. -/
theorem budget_conc (T : Nat) (acts : List Act) (s : CS)
    (hr : crun ⟨T, 0, fun _ => none⟩ acts = some s) : s.granted + s.rlimit ≤ T :=
  crun_inv T acts _ s (by simp) hr

-- non-vacuity: two threads race on a budget of 16 for 16 bytes each; exactly one is granted
example : (crun ⟨16, 0, fun _ => none⟩ [.load 0, .load 1, .cas 0 16, .cas 1 16, .load 1, .cas 1 16]).map
    (fun s => (s.rlimit, s.granted)) = some (0, 16) := by decide

end Capnp.Props.C02
