import Capnp.Props.C07
/-!
# C08 — a hostile or buggy peer cannot crash an RPC connection (table logic)
-/
namespace Capnp.Props.C08
open Capnp.Model.Rpc Capnp.Lemmas.Rpc Capnp.Props.C06 Capnp.Props.C07

/-- **the pinned code**: a Call whose parameters name a non-existent export in a `receiverHosted` descriptor makes
    `handleCall` evaluate `annotate(nil)`: the model's `panicked` flag — one message kills the process (D10) -/
theorem pinned_call_bad_descriptor_panics :
    (step false {} (.call 1 (.exp 0) 0 [.receiverHosted 7])).1.panicked = true := by decide

/-- **the pinned code**: a Call to an unknown export leaves an answer without return message; the abort that
    follows calls its nil `releaseMsg` (D11) -/
theorem pinned_unknown_export_panics :
    (step false {} (.call 1 (.exp 9) 0 [])).1.panicked = true := by decide

/-- **the repaired code never panics**, whatever the peer sends — any ids (unknown, reused), any target, any
    descriptors, in any order, with any timing of application returns -/
theorem never_panics (es : List Ev) : (run {} es).panicked = false :=
  (run_EInv {} es init_EInv).2

/-- each offending message is answered per protocol: an invalid descriptor or an unknown kind of target gets an
    exception Return for that very call … -/
theorem bad_params_answered (s : RS) (q : Nat) (tgt : Tgt) (m : Nat) (caps : List Desc) (hopen : s.closed = false)
    (hq : lookup s.answers q = none) (hbad : (recvParams s caps).2.2 = false) :
    Out.retExc q ∈ (step true s (.call q tgt m caps)).2 ∧ (step true s (.call q tgt m caps)).1.closed = false := by
  have hcl : (recvParams s caps).1.closed = false := by
    have := Capnp.Lemmas.RpcAns.recvParams_acore s caps
    simp only [Capnp.Lemmas.RpcAns.acore, Prod.mk.injEq] at this
    rw [this.2.2.2]; exact hopen
  simp only [step, hopen, Bool.false_eq_true, ↓reduceIte, hq, Option.isSome_none]
  generalize recvParams s caps = rp at hbad hcl
  obtain ⟨s1, imps, ok⟩ := rp
  simp only at hbad hcl
  subst hbad
  simp only [Bool.not_true, Bool.false_eq_true, ↓reduceIte, List.cons_append, List.nil_append, List.mem_cons, true_or, true_and]
  have hcl' : ∀ (t : RS) (cs : List CapV), (dropRefs t cs).1.closed = t.closed := by
    intro t cs; have := Capnp.Lemmas.RpcAns.dropRefs_acore t cs
    simp only [Capnp.Lemmas.RpcAns.acore, Prod.mk.injEq] at this; exact this.2.2.2
  rw [hcl']; exact hcl

/-- … while a target that does not exist (unknown export, unknown or finished answer, the call itself) ends the
    connection with an Abort -/
theorem bad_target_aborts (s : RS) (q id : Nat) (m : Nat) (hopen : s.closed = false)
    (hq : lookup s.answers q = none) (hx : s.exports id = none) :
    Out.abort ∈ (step true s (.call q (.exp id) m [])).2 ∧ (step true s (.call q (.exp id) m [])).1.closed = true := by
  simp only [step, hopen, Bool.false_eq_true, ↓reduceIte, hq, Option.isSome_none, recvParams, List.foldl_nil, hx, abortCall]
  constructor
  · unfold shutdown
    simp only [dropRefs, List.map_nil, List.foldl_nil, hopen, Bool.false_eq_true, ↓reduceIte, List.nil_append]
    simp
  · exact Capnp.Lemmas.RpcAns.shutdown_closed true _ true

end Capnp.Props.C08
