import Capnp.Model.ImportGen
/-!
# C07 — re-import after the last release (the generation race)

All action lists of `Capnp.Model.ImportGen`: descriptors for one import id arriving at any time, strong references
of any client dropped at any time, every client's `Shutdown` getting `Conn.mu` any time after its last reference
went away — in particular after the table entry was re-created, dropped and created again.
-/
namespace Capnp.Props.C07G
open Capnp.Model.ImportGen

/-- **the pinned code**: client 0's `Shutdown` is still waiting for `Conn.mu` when a second descriptor re-creates
    the client (generation 1), that one is released (entry dropped, Release with both references), a third
    descriptor creates a fresh entry — at generation 0 again — and then client 0's `Shutdown` runs: it deletes the
    new entry under its live client (client 2) and sends a Release for a reference that is still in use. -/
theorem pinned_generation_recurs :
    (run false {} [.recv, .drop 0, .recv, .drop 1, .shutdown 1, .recv, .shutdown 0]).map
      (fun s => (s.entry.isNone, (s.cl 2).refs, s.received, s.released)) = some (true, 1, 3, 3) := by decide

structure GInv (s : GS) : Prop where
  gens : ∀ k, k < s.n → (s.cl k).gen ≤ s.counter ∧ 0 < (s.cl k).gen
  distinct : ∀ j k, j < s.n → k < s.n → (s.cl j).gen = (s.cl k).gen → j = k
  fresh : ∀ k, s.n ≤ k → s.cl k = {}
  some_ : ∀ e, s.entry = some e → e.cur < s.n ∧ (s.cl e.cur).gen = e.gen ∧ 0 < e.wireRefs ∧
            (∀ k, k ≠ e.cur → (s.cl k).refs = 0) ∧ (0 < (s.cl e.cur).refs ∨ (s.cl e.cur).pending = true)
  none_ : s.entry = none → ∀ k, (s.cl k).refs = 0
  pend : ∀ k, (s.cl k).pending = true → (s.cl k).refs = 0
  acct : s.released + (match s.entry with | some e => e.wireRefs | none => 0) = s.received

theorem init_GInv : GInv {} := by
  refine ⟨?_, ?_, ?_, ?_, ?_, ?_, ?_⟩ <;> simp

theorem step_GInv (s s' : GS) (a : Act) (h : GInv s) (hs : step true s a = some s') : GInv s' := by
  obtain ⟨hg, hd, hf, hsome, hnone, hp, hacct⟩ := h
  cases a with
  | recv =>
    simp only [step] at hs
    cases he : s.entry with
    | none =>
      simp only [he, ↓reduceIte, Option.some.injEq] at hs
      subst hs
      have hall := hnone he
      refine ⟨?_, ?_, ?_, ?_, ?_, ?_, ?_⟩
      · intro k hk
        simp only [setCl] at hk ⊢
        by_cases e : k = s.n
        · simp only [e, ↓reduceIte]; omega
        · simp only [e, ↓reduceIte]; have := hg k (by omega); omega
      · intro j k hj hk hjk
        simp only [setCl] at hj hk hjk
        by_cases ej : j = s.n <;> by_cases ek : k = s.n
        · omega
        · simp only [ej, ↓reduceIte, ek] at hjk; have := hg k (by omega); omega
        · simp only [ej, ↓reduceIte, ek] at hjk; have := hg j (by omega); omega
        · simp only [ej, ↓reduceIte, ek] at hjk; exact hd j k (by omega) (by omega) hjk
      · intro k hk
        simp only [setCl] at hk ⊢
        have : ¬ k = s.n := by omega
        simp only [this, ↓reduceIte]; exact hf k (by omega)
      · intro e he'
        simp only [Option.some.injEq] at he'
        subst he'
        simp only [setCl, ↓reduceIte]
        refine ⟨by omega, trivial, by omega, ?_, Or.inl (by omega)⟩
        intro k hk
        simp only [hk, ↓reduceIte]; exact hall k
      · intro hh; simp at hh
      · intro k hk
        simp only [setCl] at hk ⊢
        by_cases e : k = s.n
        · simp [e] at hk
        · simp only [e, ↓reduceIte] at hk ⊢; exact hp k hk
      · simp only [he] at hacct; simp only; omega
    | some e =>
      obtain ⟨hcur, hgen, hw, hothers, hlive⟩ := hsome e he
      simp only [he] at hs hacct
      split at hs
      · rename_i hpos
        simp only [Option.some.injEq] at hs
        subst hs
        refine ⟨?_, ?_, ?_, ?_, ?_, ?_, ?_⟩
        · intro k hk
          simp only [setCl]
          split
          · rename_i ek; subst ek; exact hg e.cur hk
          · exact hg k hk
        · intro j k hj hk hjk
          have gj : (setCl s.cl e.cur { s.cl e.cur with refs := (s.cl e.cur).refs + 1 } j).gen = (s.cl j).gen := by
            simp only [setCl]; split
            · rename_i ej; rw [ej]
            · rfl
          have gk : (setCl s.cl e.cur { s.cl e.cur with refs := (s.cl e.cur).refs + 1 } k).gen = (s.cl k).gen := by
            simp only [setCl]; split
            · rename_i ek; rw [ek]
            · rfl
          simp only at hjk
          rw [gj, gk] at hjk
          exact hd j k hj hk hjk
        · intro k hk
          simp only at hk
          simp only [setCl]
          have : ¬ k = e.cur := by omega
          simp only [this, ↓reduceIte]; exact hf k hk
        · intro e' he'
          simp only [Option.some.injEq] at he'
          subst he'
          simp only [setCl, ↓reduceIte]
          refine ⟨hcur, hgen, by omega, ?_, Or.inl (by omega)⟩
          intro k hk
          simp only [hk, ↓reduceIte]; exact hothers k hk
        · intro hh; simp at hh
        · intro k hk
          simp only [setCl] at hk ⊢
          by_cases ek : k = e.cur
          · simp only [ek, ↓reduceIte] at hk
            have := hp e.cur hk; omega
          · simp only [ek, ↓reduceIte] at hk ⊢; exact hp k hk
        · simp only; omega
      · rename_i hzero
        have hz : (s.cl e.cur).refs = 0 := by omega
        simp only [↓reduceIte, Option.some.injEq] at hs
        subst hs
        refine ⟨?_, ?_, ?_, ?_, ?_, ?_, ?_⟩
        · intro k hk
          simp only [setCl] at hk ⊢
          by_cases ek : k = s.n
          · simp only [ek, ↓reduceIte]; omega
          · simp only [ek, ↓reduceIte]; have := hg k (by omega); omega
        · intro j k hj hk hjk
          simp only [setCl] at hj hk hjk
          by_cases ej : j = s.n <;> by_cases ek : k = s.n
          · omega
          · simp only [ej, ↓reduceIte, ek] at hjk; have := hg k (by omega); omega
          · simp only [ej, ↓reduceIte, ek] at hjk; have := hg j (by omega); omega
          · simp only [ej, ↓reduceIte, ek] at hjk; exact hd j k (by omega) (by omega) hjk
        · intro k hk
          simp only [setCl] at hk ⊢
          have : ¬ k = s.n := by omega
          simp only [this, ↓reduceIte]; exact hf k (by omega)
        · intro e' he'
          simp only [Option.some.injEq] at he'
          subst he'
          simp only [setCl, ↓reduceIte]
          refine ⟨by omega, trivial, by omega, ?_, Or.inl (by omega)⟩
          intro k hk
          simp only [hk, ↓reduceIte]
          by_cases ek : k = e.cur
          · rw [ek]; exact hz
          · exact hothers k ek
        · intro hh; simp at hh
        · intro k hk
          simp only [setCl] at hk ⊢
          by_cases ek : k = s.n
          · simp [ek] at hk
          · simp only [ek, ↓reduceIte] at hk ⊢; exact hp k hk
        · simp only; omega
  | drop k =>
    simp only [step] at hs
    split at hs
    · cases hs
    · rename_i hgd
      simp only [not_or, Nat.not_le] at hgd
      obtain ⟨hk, hr⟩ := hgd
      simp only [Option.some.injEq] at hs
      subst hs
      have gen_same : ∀ x, (setCl s.cl k { s.cl k with refs := (s.cl k).refs - 1, pending := decide ((s.cl k).refs = 1) } x).gen = (s.cl x).gen := by
        intro x; simp only [setCl]; split
        · rename_i ex; rw [ex]
        · rfl
      refine ⟨?_, ?_, ?_, ?_, ?_, ?_, hacct⟩
      · intro x hx; rw [gen_same x]; exact hg x hx
      · intro i j hi hj hij; simp only at hij; rw [gen_same i, gen_same j] at hij; exact hd i j hi hj hij
      · intro x hx
        simp only at hx
        have : ¬ x = k := by omega
        simp only [setCl, this, ↓reduceIte]; exact hf x hx
      · intro e he
        obtain ⟨hcur, hgen, hw, hothers, hlive⟩ := hsome e he
        have hk' : k = e.cur := by
          by_cases ek : k = e.cur
          · exact ek
          · exact absurd (hothers k ek) hr
        subst hk'
        refine ⟨hcur, by rw [gen_same]; exact hgen, hw, ?_, ?_⟩
        · intro x hx
          simp only [setCl, hx, ↓reduceIte]; exact hothers x hx
        · simp only [setCl, ↓reduceIte]
          by_cases h1 : (s.cl e.cur).refs = 1
          · right; simp [h1]
          · left; omega
      · intro he x
        exact absurd (hnone he k) hr
      · intro x hx
        simp only [setCl] at hx ⊢
        by_cases ex : x = k
        · simp only [ex, ↓reduceIte, decide_eq_true_eq] at hx ⊢; omega
        · simp only [ex, ↓reduceIte] at hx ⊢; exact hp x hx
  | shutdown k =>
    simp only [step] at hs
    split at hs
    · cases hs
    · rename_i hgd
      simp only [not_or, Nat.not_le, Bool.not_eq_false] at hgd
      obtain ⟨hk, hpk⟩ := hgd
      have hrk := hp k hpk
      have gen_same : ∀ x, (setCl s.cl k { s.cl k with pending := false } x).gen = (s.cl x).gen := by
        intro x; simp only [setCl]; split
        · rename_i ex; rw [ex]
        · rfl
      have refs_same : ∀ x, (setCl s.cl k { s.cl k with pending := false } x).refs = (s.cl x).refs := by
        intro x; simp only [setCl]; split
        · rename_i ex; rw [ex]
        · rfl
      cases he : s.entry with
      | none =>
        simp only [he, Option.some.injEq] at hs
        subst hs
        refine ⟨?_, ?_, ?_, ?_, ?_, ?_, ?_⟩
        · intro x hx; rw [gen_same x]; exact hg x hx
        · intro i j hi hj hij; simp only at hij; rw [gen_same i, gen_same j] at hij; exact hd i j hi hj hij
        · intro x hx
          simp only at hx
          have : ¬ x = k := by omega
          simp only [setCl, this, ↓reduceIte]; exact hf x hx
        · intro e' he'; simp at he'
        · intro _ x; rw [refs_same x]; exact hnone he x
        · intro x hx
          rw [refs_same x]
          simp only [setCl] at hx
          by_cases ex : x = k
          · simp [ex] at hx
          · simp only [ex, ↓reduceIte] at hx; exact hp x hx
        · simp only [he] at hacct ⊢; exact hacct
      | some e =>
        obtain ⟨hcur, hgen, hw, hothers, hlive⟩ := hsome e he
        simp only [he] at hs hacct
        split at hs
        · rename_i hmatch
          -- the generation matches: k is the entry's own client (generations are distinct)
          have hkc : k = e.cur := hd k e.cur hk hcur (by rw [hgen]; exact hmatch.symm)
          simp only [Option.some.injEq] at hs
          subst hs
          refine ⟨?_, ?_, ?_, ?_, ?_, ?_, ?_⟩
          · intro x hx; rw [gen_same x]; exact hg x hx
          · intro i j hi hj hij; simp only at hij; rw [gen_same i, gen_same j] at hij; exact hd i j hi hj hij
          · intro x hx
            simp only at hx
            have : ¬ x = k := by omega
            simp only [setCl, this, ↓reduceIte]; exact hf x hx
          · intro e' he'; simp at he'
          · intro _ x
            rw [refs_same x]
            by_cases ex : x = e.cur
            · rw [ex, ← hkc]; exact hrk
            · exact hothers x ex
          · intro x hx
            rw [refs_same x]
            simp only [setCl] at hx
            by_cases ex : x = k
            · simp [ex] at hx
            · simp only [ex, ↓reduceIte] at hx; exact hp x hx
          · simp only; omega
        · rename_i hnomatch
          -- a stale client: the entry belongs to a newer one and stays
          have hkc : k ≠ e.cur := fun ek => hnomatch (by rw [ek, hgen])
          simp only [Option.some.injEq] at hs
          subst hs
          refine ⟨?_, ?_, ?_, ?_, ?_, ?_, ?_⟩
          · intro x hx; rw [gen_same x]; exact hg x hx
          · intro i j hi hj hij; simp only at hij; rw [gen_same i, gen_same j] at hij; exact hd i j hi hj hij
          · intro x hx
            simp only at hx
            have : ¬ x = k := by omega
            simp only [setCl, this, ↓reduceIte]; exact hf x hx
          · intro e' he'
            simp only [Option.some.injEq] at he'
            subst he'
            refine ⟨hcur, by rw [gen_same]; exact hgen, hw, ?_, ?_⟩
            · intro x hx; rw [refs_same x]; exact hothers x hx
            · rw [refs_same]
              have hne : ¬ e.cur = k := fun ek => hkc ek.symm
              simp only [setCl, hne, ↓reduceIte]; exact hlive
          · intro hh; simp at hh
          · intro x hx
            rw [refs_same x]
            simp only [setCl] at hx
            by_cases ex : x = k
            · simp [ex] at hx
            · simp only [ex, ↓reduceIte] at hx; exact hp x hx
          · simp only [he]; exact hacct

theorem run_GInv (s s' : GS) (as : List Act) (h : GInv s) (hr : run true s as = some s') : GInv s' := by
  induction as generalizing s with
  | nil => simp only [run, Option.some.injEq] at hr; subst hr; exact h
  | cons a as ih =>
    simp only [run] at hr
    cases hst : step true s a with
    | none => simp [hst] at hr
    | some s1 => simp only [hst, Option.bind_some] at hr; exact ih s1 (step_GInv s s1 a h hst) hr

/-- **re-import after the last release** (repaired code), for every interleaving of arriving descriptors, dropped
    references and delayed Shutdowns:
    * a client that still has a strong reference is the client of the table entry — the entry is never deleted under
      a live client, and at most one client is live;
    * the references given back so far plus those of the entry (if any) are exactly the descriptors received;
    * a `Shutdown` that finds an entry of another generation leaves it alone. -/
theorem generation_race (as : List Act) (s : GS) (h : run true {} as = some s) :
    (∀ k, 0 < (s.cl k).refs → ∃ e, s.entry = some e ∧ e.cur = k) ∧
    s.released + (match s.entry with | some e => e.wireRefs | none => 0) = s.received := by
  have hi := run_GInv {} s as init_GInv h
  refine ⟨?_, hi.acct⟩
  intro k hk
  cases he : s.entry with
  | none => have := hi.none_ he k; omega
  | some e =>
    refine ⟨e, rfl, ?_⟩
    by_cases ek : k = e.cur
    · exact ek.symm
    · have := (hi.some_ e he).2.2.2.1 k ek; omega

/-- **one Release with the exact count when the last reference is gone**: once no client has a reference and no
    Shutdown is outstanding, the entry is gone and every descriptor received has been given back -/
theorem quiescent_all_released (as : List Act) (s : GS) (h : run true {} as = some s)
    (hq : ∀ k, (s.cl k).refs = 0 ∧ (s.cl k).pending = false) : s.entry = none ∧ s.released = s.received := by
  have hi := run_GInv {} s as init_GInv h
  cases he : s.entry with
  | none => have := hi.acct; rw [he] at this; exact ⟨rfl, by simpa using this⟩
  | some e =>
    have := (hi.some_ e he).2.2.2.2
    have hq' := hq e.cur
    rcases this with h1 | h1
    · omega
    · rw [hq'.2] at h1; cases h1

/-- a pending Shutdown can always proceed (it only needs `Conn.mu`): nothing waits for ever -/
theorem shutdown_enabled (s : GS) (k : Nat) (hk : k < s.n) (hp : (s.cl k).pending = true) : (step true s (.shutdown k)).isSome = true := by
  simp only [step]
  have : ¬ (k ≥ s.n ∨ (s.cl k).pending = false) := by simp [hp]; omega
  simp only [this, ↓reduceIte]
  cases s.entry with
  | none => rfl
  | some e => simp only; split <;> rfl

-- non-vacuity: the history that breaks the pinned code, on the repaired code: the late Shutdown of client 0 leaves
-- the new entry alone; when client 2 goes, a second Release gives the third reference back
example : (run true {} [.recv, .drop 0, .recv, .drop 1, .shutdown 1, .recv, .shutdown 0]).map
    (fun s => (s.entry.map (·.wireRefs), (s.cl 2).refs, s.received, s.released)) = some (some 1, 1, 3, 2) := by decide
example : (run true {} [.recv, .drop 0, .recv, .drop 1, .shutdown 1, .recv, .shutdown 0, .drop 2, .shutdown 2]).map
    (fun s => (s.entry.isNone, s.received, s.released)) = some (true, 3, 3) := by decide

end Capnp.Props.C07G
