import Capnp.Spec.Canon
import Capnp.Props.C17
/-!
# C18 — canonical form is valid, value-preserving and layout-independent

`Spec.Canon.canon` is the canonicalisation section of the encoding spec as a function of the value
tree alone, so it cannot depend on segment placement or pointer kinds.  Proved here: schema-version
padding (trailing null pointers, trailing zero data words: `canon_struct_pad`, for every struct, every
amount of padding, at any depth via `canonPtr_struct_pad`) does not change it; truncation is idempotent
and never leaves a trailing zero word / null pointer (`trunc*_idem`, `trunc*_last`); two word-aligned data
sections are equal in the sense of `Equal` (C17) exactly when their canonical truncations are identical
(`dataEq_iff_truncData`), hence equal pointer-free structs have identical canonical bytes (`canon_flat_of_eq`);
the truncated struct is `Equal` to the original (`trunc_preserves_value`); capabilities are rejected.
That `Canonicalize` computes `canon`, that the result decodes to an equal value, and that
canonicalising twice is the identity are decided by the S-stream of the C18 check.
-/
namespace Capnp.Props.C18
open Capnp.Spec.Value Capnp.Spec.Canon Capnp.Props.C17

theorem dropWhile_replicate_append {α} (p : α → Bool) (x : α) (k : Nat) (l : List α) (hx : p x = true) :
    (List.replicate k x ++ l).dropWhile p = l.dropWhile p := by
  induction k with
  | zero => simp
  | succ k ih => simp [List.replicate_succ, List.dropWhile_cons, hx, ih]

/-- trailing null pointers (fields added by a newer schema, unset) do not change the canonical form -/
theorem truncPtrs_pad (ps : List Val) (k : Nat) : truncPtrs (ps ++ List.replicate k .null) = truncPtrs ps := by
  unfold truncPtrs
  rw [List.reverse_append, List.reverse_replicate, dropWhile_replicate_append _ _ _ _ (by rfl)]

/-- word-level truncation used by `truncData`: trailing all-zero words are dropped -/
def truncWords (ws : List (List Nat)) : List (List Nat) :=
  (ws.reverse.dropWhile (fun w => w.all (· == 0))).reverse

theorem truncWords_pad (ws : List (List Nat)) (k : Nat) :
    truncWords (ws ++ List.replicate k (List.replicate 8 0)) = truncWords ws := by
  unfold truncWords
  rw [List.reverse_append, List.reverse_replicate, dropWhile_replicate_append _ _ _ _ (by decide)]

/-- a struct with extra trailing null pointers has the same canonical encoding -/
theorem canonPtr_ptr_pad (f : Nat) (d : List Nat) (ps : List Val) (k : Nat) (out : List Nat) (pw : Nat) :
    canonPtr (f + 1) (.struct d (ps ++ List.replicate k .null)) out pw = canonPtr (f + 1) (.struct d ps) out pw := by
  simp only [canonPtr, truncPtrs_pad]

/-- capabilities are not representable in canonical form -/
theorem canon_cap_rejected (f : Nat) (i : Nat) (out : List Nat) (pw : Nat) : canonPtr f (.cap i) out pw = none := by
  cases f <;> simp [canonPtr]

/-- a struct whose pointer section contains a capability is rejected -/
theorem canonPtrs_cap_none (f : Nat) (ps qs : List Val) (i : Nat) (out : List Nat) (pw : Nat) :
    canonPtrs f (ps ++ .cap i :: qs) out pw = none := by
  induction ps generalizing out pw with
  | nil => simp [canonPtrs, canon_cap_rejected]
  | cons p ps ih =>
    simp only [List.cons_append, canonPtrs]
    cases h : canonPtr f p out pw with
    | none => rfl
    | some out1 => exact ih out1 (pw + 1)

/-- the data section cut into zero-padded words, as `truncData` does -/
def wordsOf (d : List Nat) : List (List Nat) :=
  ((List.range ((d.length + 7) / 8)).map (fun w => (d.drop (8 * w)).take 8)).map
    (fun w => w ++ List.replicate (8 - w.length) 0)

theorem truncData_eq (d : List Nat) : truncData d = (truncWords (wordsOf d)).flatten := rfl

theorem wordsOf_pad (d : List Nat) (m k : Nat) (hd : d.length = 8 * m) :
    wordsOf (d ++ List.replicate (8 * k) 0) = wordsOf d ++ List.replicate k (List.replicate 8 0) := by
  apply List.ext_getElem
  · simp [wordsOf, hd]; omega
  · intro i h1 h2
    simp only [wordsOf, List.length_map, List.length_range, List.length_append, List.length_replicate, hd] at h1
    have hi : i < m + k := by omega
    simp only [wordsOf, List.getElem_map, List.getElem_range]
    by_cases hlt : i < m
    · rw [List.getElem_append_left (by simp [hd]; omega)]
      simp only [List.getElem_map, List.getElem_range]
      have : (List.drop (8 * i) (d ++ List.replicate (8 * k) 0)).take 8 = (List.drop (8 * i) d).take 8 := by
        rw [List.drop_append_of_le_length (by omega), List.take_append_of_le_length (by simp; omega)]
      rw [this]
    · rw [List.getElem_append_right (by simp [hd]; omega)]
      simp only [List.getElem_replicate]
      have : (List.drop (8 * i) (d ++ List.replicate (8 * k) 0)).take 8 = List.replicate 8 0 := by
        rw [List.drop_append, List.drop_eq_nil_of_le (by omega), List.nil_append, List.drop_replicate,
          List.take_replicate]
        congr 1; omega
      rw [this]; simp

/-- trailing zero data words (fields added by a newer schema, unset) do not change the truncated data section -/
theorem truncData_pad (d : List Nat) (m k : Nat) (hd : d.length = 8 * m) :
    truncData (d ++ List.replicate (8 * k) 0) = truncData d := by
  rw [truncData_eq, truncData_eq, wordsOf_pad d m k hd, truncWords_pad]

/-- **layout independence under schema evolution**: a struct written by a newer schema version (k extra zero
    data words, j extra null pointers) has the same canonical encoding as the one written by the older version -/
theorem canonPtr_struct_pad (f : Nat) (d : List Nat) (ps : List Val) (m k j : Nat) (hd : d.length = 8 * m)
    (out : List Nat) (pw : Nat) :
    canonPtr (f + 1) (.struct (d ++ List.replicate (8 * k) 0) (ps ++ List.replicate j .null)) out pw
      = canonPtr (f + 1) (.struct d ps) out pw := by
  simp only [canonPtr, truncPtrs_pad, truncData_pad d m k hd]

theorem canon_struct_pad (d : List Nat) (ps : List Val) (m k j : Nat) (hd : d.length = 8 * m) :
    canon (.struct (d ++ List.replicate (8 * k) 0) (ps ++ List.replicate j .null)) = canon (.struct d ps) := by
  simp only [canon]; exact canonPtr_struct_pad 199 d ps m k j hd _ _

/-! ## truncation is idempotent and leaves no trailing zero word / null pointer -/

theorem revDrop_idem {α} (p : α → Bool) (l : List α) :
    (((l.reverse.dropWhile p).reverse).reverse.dropWhile p).reverse = (l.reverse.dropWhile p).reverse := by
  rw [List.reverse_reverse]
  congr 1
  generalize l.reverse = r
  induction r with
  | nil => rfl
  | cons x r ih =>
    by_cases hx : p x = true
    · simp [hx, ih]
    · simp [hx]

theorem truncPtrs_idem (ps : List Val) : truncPtrs (truncPtrs ps) = truncPtrs ps := revDrop_idem _ _
theorem truncWords_idem (ws : List (List Nat)) : truncWords (truncWords ws) = truncWords ws := revDrop_idem _ _

theorem revDrop_getLast {α} (p : α → Bool) (l : List α) (x : α)
    (h : ((l.reverse.dropWhile p).reverse).getLast? = some x) : p x = false := by
  rw [List.getLast?_reverse] at h
  generalize l.reverse = r at h
  induction r with
  | nil => simp at h
  | cons y r ih =>
    by_cases hy : p y = true
    · simp [hy] at h; exact ih h
    · simp [hy] at h; subst h; simpa using hy

/-- canonical structs never end in a null pointer -/
theorem truncPtrs_last (ps : List Val) (v : Val) (h : (truncPtrs ps).getLast? = some v) : isNullV v = false :=
  revDrop_getLast _ _ _ h
/-- canonical data sections never end in an all-zero word -/
theorem truncWords_last (ws : List (List Nat)) (w : List Nat) (h : (truncWords ws).getLast? = some w) :
    w.all (· == 0) = false := revDrop_getLast (fun w : List Nat => w.all (· == 0)) ws w h

-- non-vacuity: a two-word data section padded by one zero word, one pointer padded by two nulls
example : canon (.struct ([1,0,0,0,0,0,0,0] ++ List.replicate (8 * 1) 0) ([.struct [5,0,0,0,0,0,0,0] []] ++ List.replicate 2 .null))
    = canon (.struct [1,0,0,0,0,0,0,0] [.struct [5,0,0,0,0,0,0,0] []]) := canon_struct_pad _ _ 1 1 2 rfl
example : truncPtrs [.cap 1, .null, .null] = [.cap 1] := by simp [truncPtrs, List.dropWhile, isNullV]


/-! ## C17's equality and canonical identity agree on data sections -/

theorem all_zero_replicate (l : List Nat) (h : l.all (· == 0) = true) : l = List.replicate l.length 0 := by
  induction l with
  | nil => rfl
  | cons x l ih =>
    simp only [List.all_cons, Bool.and_eq_true, beq_iff_eq] at h
    simp only [List.length_cons, List.replicate_succ, h.1]
    congr 1; exact ih h.2

/-- documented data equality = one section is the other followed by zero bytes -/
theorem dataEq_split (a b : List Nat) (h : dataEq a b = true) :
    (∃ n, b = a ++ List.replicate n 0) ∨ (∃ n, a = b ++ List.replicate n 0) := by
  induction a generalizing b with
  | nil =>
    left; refine ⟨b.length, ?_⟩
    cases b with
    | nil => rfl
    | cons y ys => simp only [dataEq] at h; simpa using all_zero_replicate _ h
  | cons x xs ih =>
    cases b with
    | nil =>
      right; refine ⟨(x :: xs).length, ?_⟩
      simp only [dataEq] at h; simpa using all_zero_replicate _ h
    | cons y ys =>
      simp only [dataEq, Bool.and_eq_true, beq_iff_eq] at h
      obtain ⟨rfl, h2⟩ := h
      rcases ih ys h2 with ⟨n, hn⟩ | ⟨n, hn⟩
      · left; exact ⟨n, by simp [hn]⟩
      · right; exact ⟨n, by simp [hn]⟩

/-- **equal data sections canonicalise identically** (word-aligned sections, as every struct's data section is):
    the documented equality of C17 implies identical truncated data, whatever the two schema versions' sizes -/
theorem dataEq_truncData (a b : List Nat) (m n : Nat) (ha : a.length = 8 * m) (hb : b.length = 8 * n)
    (h : dataEq a b = true) : truncData a = truncData b := by
  rcases dataEq_split a b h with ⟨k, hk⟩ | ⟨k, hk⟩
  · have : k = 8 * (n - m) := by
      have := congrArg List.length hk; simp at this; omega
    subst this; rw [hk, truncData_pad a m _ ha]
  · have : k = 8 * (m - n) := by
      have := congrArg List.length hk; simp at this; omega
    subst this; rw [hk, truncData_pad b n _ hb]

theorem wordsOf_snoc (d w : List Nat) (m : Nat) (hd : d.length = 8 * m) (hw : w.length = 8) :
    wordsOf (d ++ w) = wordsOf d ++ [w] := by
  apply List.ext_getElem
  · simp [wordsOf, hd, hw]; omega
  · intro i h1 h2
    simp only [wordsOf, List.length_map, List.length_range, List.length_append, hd, hw] at h1
    have hi : i < m + 1 := by omega
    simp only [wordsOf, List.getElem_map, List.getElem_range]
    by_cases hlt : i < m
    · rw [List.getElem_append_left (by simp [hd]; omega)]
      simp only [List.getElem_map, List.getElem_range]
      have : (List.drop (8 * i) (d ++ w)).take 8 = (List.drop (8 * i) d).take 8 := by
        rw [List.drop_append_of_le_length (by omega), List.take_append_of_le_length (by simp; omega)]
      rw [this]
    · rw [List.getElem_append_right (by simp [hd]; omega)]
      have him : i = m := by omega
      subst him
      have : (List.drop (8 * i) (d ++ w)).take 8 = w := by
        rw [List.drop_append, List.drop_eq_nil_of_le (by omega), List.nil_append, hd, Nat.sub_self, List.drop_zero,
          List.take_of_length_le (by omega)]
      rw [this]; simp [hw]

theorem truncWords_snoc (ws : List (List Nat)) (w : List Nat) :
    truncWords (ws ++ [w]) = if w.all (· == 0) then truncWords ws else ws ++ [w] := by
  unfold truncWords
  rw [List.reverse_append]
  by_cases h : w.all (· == 0) = true
  · simp [h]
  · simp [h]

/-- a word-aligned data section splits into `m` words -/
theorem aligned_snoc (a : List Nat) (m : Nat) (ha : a.length = 8 * (m + 1)) :
    ∃ d w, a = d ++ w ∧ d.length = 8 * m ∧ w.length = 8 :=
  ⟨a.take (8 * m), a.drop (8 * m), (List.take_append_drop _ _).symm, by simp; omega, by simp; omega⟩

theorem wordsOf_flatten (a : List Nat) (m : Nat) (ha : a.length = 8 * m) : (wordsOf a).flatten = a := by
  induction m generalizing a with
  | zero => have : a = [] := List.eq_nil_of_length_eq_zero (by omega); subst this; rfl
  | succ m ih =>
    obtain ⟨d, w, rfl, hd, hw⟩ := aligned_snoc a m ha
    rw [wordsOf_snoc d w m hd hw, List.flatten_append, ih d hd]; simp

/-- truncation only removes zero bytes from the end -/
theorem truncData_prefix (a : List Nat) (m : Nat) (ha : a.length = 8 * m) :
    ∃ k, a = truncData a ++ List.replicate k 0 := by
  induction m generalizing a with
  | zero => have : a = [] := List.eq_nil_of_length_eq_zero (by omega); subst this; exact ⟨0, rfl⟩
  | succ m ih =>
    obtain ⟨d, w, rfl, hd, hw⟩ := aligned_snoc a m ha
    rw [truncData_eq, wordsOf_snoc d w m hd hw, truncWords_snoc]
    by_cases h : w.all (· == 0) = true
    · obtain ⟨k, hk⟩ := ih d hd
      rw [if_pos h, ← truncData_eq]
      refine ⟨k + 8, ?_⟩
      have hwz := all_zero_replicate w h
      rw [hw] at hwz
      rw [hwz, ← List.replicate_append_replicate, ← List.append_assoc, ← hk]
    · rw [if_neg h, List.flatten_append, wordsOf_flatten d m hd]
      exact ⟨0, by simp⟩

theorem dataEq_zeros (j k : Nat) : dataEq (List.replicate j 0) (List.replicate k 0) = true := by
  induction j generalizing k with
  | zero => cases k <;> simp [dataEq, List.replicate]
  | succ j ih => cases k <;> simp [dataEq, List.replicate, ih]

theorem dataEq_common (t : List Nat) (j k : Nat) :
    dataEq (t ++ List.replicate j 0) (t ++ List.replicate k 0) = true := by
  induction t with
  | nil => simpa using dataEq_zeros j k
  | cons x t ih => simp [dataEq, ih]

/-- **identical canonical data ⇒ equal values**: the converse of `dataEq_truncData` -/
theorem truncData_dataEq (a b : List Nat) (m n : Nat) (ha : a.length = 8 * m) (hb : b.length = 8 * n)
    (h : truncData a = truncData b) : dataEq a b = true := by
  obtain ⟨j, hj⟩ := truncData_prefix a m ha
  obtain ⟨k, hk⟩ := truncData_prefix b n hb
  rw [hj, hk, h]; exact dataEq_common _ j k


/-- **value equality and canonical identity coincide on data sections** (both directions, every pair of
    word-aligned sections of any two sizes) -/
theorem dataEq_iff_truncData (a b : List Nat) (m n : Nat) (ha : a.length = 8 * m) (hb : b.length = 8 * n) :
    dataEq a b = true ↔ truncData a = truncData b :=
  ⟨dataEq_truncData a b m n ha hb, truncData_dataEq a b m n ha hb⟩

/-- pointer-free structs that `Equal` (C17's documented equality) have byte-identical canonical forms -/
theorem canon_flat_of_eq (f : Nat) (a b : List Nat) (m n : Nat) (ha : a.length = 8 * m) (hb : b.length = 8 * n)
    (h : eq (f + 1) (.struct a []) (.struct b []) = true) : canon (.struct a []) = canon (.struct b []) := by
  simp only [eq, Bool.and_eq_true] at h
  simp only [canon, canonPtr, dataEq_truncData a b m n ha hb h.1]

example : dataEq [1,0,0,0,0,0,0,0, 0,0,0,0,0,0,0,0] [1,0,0,0,0,0,0,0] = true ∧
    truncData [1,0,0,0,0,0,0,0, 0,0,0,0,0,0,0,0] = truncData [1,0,0,0,0,0,0,0] := by
  refine ⟨by decide, (dataEq_iff_truncData _ _ 2 1 rfl rfl).1 (by decide)⟩

/-! ## canonical truncation preserves the value -/

theorem truncPtrs_snoc (ps : List Val) (v : Val) :
    truncPtrs (ps ++ [v]) = if isNullV v then truncPtrs ps else ps ++ [v] := by
  unfold truncPtrs
  rw [List.reverse_append]
  by_cases h : isNullV v = true
  · simp [h]
  · simp [h]

theorem isNullV_eq (v : Val) (h : isNullV v = true) : v = .null := by
  cases v <;> simp [isNullV] at h ⊢

/-- pointer truncation only removes null pointers from the end -/
theorem truncPtrs_prefix_rev (r : List Val) : ∃ j, r.reverse = truncPtrs r.reverse ++ List.replicate j .null := by
  induction r with
  | nil => exact ⟨0, rfl⟩
  | cons v r ih =>
    rw [List.reverse_cons, truncPtrs_snoc]
    by_cases h : isNullV v = true
    · obtain ⟨j, hj⟩ := ih
      rw [if_pos h, isNullV_eq v h]
      refine ⟨j + 1, ?_⟩
      rw [← List.replicate_append_replicate, ← List.append_assoc, ← hj]; rfl
    · rw [if_neg h]; exact ⟨0, by simp⟩

/-- pointer truncation only removes null pointers from the end -/
theorem truncPtrs_prefix (ps : List Val) : ∃ j, ps = truncPtrs ps ++ List.replicate j .null := by
  have := truncPtrs_prefix_rev ps.reverse
  rwa [List.reverse_reverse] at this

theorem fitsAll_append_left (f : Nat) (xs ys : List Val) (h : fitsAll f (xs ++ ys) = true) : fitsAll f xs = true := by
  induction xs with
  | nil => simp [fitsAll]
  | cons x xs ih =>
    simp only [List.cons_append, fitsAll, Bool.and_eq_true] at h ⊢
    exact ⟨h.1, ih h.2⟩

/-- **canonical truncation is value-preserving**: for every struct (word-aligned data section, any pointers), the
    struct with its data and pointer sections truncated as the canonical form requires is `Equal` (C17's
    documented equality) to the original -/
theorem trunc_preserves_value (f : Nat) (d : List Nat) (ps : List Val) (m : Nat) (hd : d.length = 8 * m)
    (hf : fitsAll f ps = true) :
    eq (f + 1) (.struct d ps) (.struct (truncData d) (truncPtrs ps)) = true := by
  obtain ⟨k, hk⟩ := truncData_prefix d m hd
  obtain ⟨j, hj⟩ := truncPtrs_prefix ps
  have hf' : fitsAll f (truncPtrs ps) = true := by
    rw [hj] at hf; exact fitsAll_append_left f _ _ hf
  have := eq_struct_pad f (truncData d) (truncPtrs ps) k j hf'
  rw [← hk, ← hj] at this
  exact this

example : eq 3 (.struct [7,0,0,0,0,0,0,0, 0,0,0,0,0,0,0,0] [.cap 1, .null])
    (.struct (truncData [7,0,0,0,0,0,0,0, 0,0,0,0,0,0,0,0]) (truncPtrs [.cap 1, .null])) = true :=
  trunc_preserves_value 2 _ _ 2 rfl (by decide)

/-! ## shape of the canonical data section -/

theorem wordsOf_len8 (d : List Nat) : ∀ w ∈ wordsOf d, w.length = 8 := by
  intro w hw
  simp only [wordsOf, List.mem_map, List.mem_range] at hw
  obtain ⟨x, ⟨i, _, rfl⟩, rfl⟩ := hw
  have : ((d.drop (8 * i)).take 8).length ≤ 8 := by simp [List.length_take]; omega
  simp only [List.length_append, List.length_replicate]; omega

theorem truncWords_subset (ws : List (List Nat)) : ∀ w ∈ truncWords ws, w ∈ ws := by
  intro w hw
  simp only [truncWords, List.mem_reverse] at hw
  have := (List.dropWhile_sublist (fun w : List Nat => w.all (· == 0)) (l := ws.reverse)).subset hw
  simpa using this

theorem flatten_len8' (l : List (List Nat)) (h : ∀ w ∈ l, w.length = 8) : l.flatten.length = 8 * l.length := by
  induction l with
  | nil => rfl
  | cons w l ih =>
    simp only [List.flatten_cons, List.length_append, List.length_cons]
    rw [h w (by simp), ih (fun x hx => h x (by simp [hx]))]; omega

/-- **the canonical data section is whole words**, for every data section (also the 1/2/4-byte sections of
    primitive-list elements viewed as structs) -/
theorem truncData_whole_words (d : List Nat) : (truncData d).length % 8 = 0 := by
  rw [truncData_eq, flatten_len8' _ (fun w hw => wordsOf_len8 d w (truncWords_subset _ w hw))]; omega

/-- … and never longer than the section rounded up to whole words -/
theorem truncData_length_le (d : List Nat) : (truncData d).length ≤ (d.length + 7) / 8 * 8 := by
  rw [truncData_eq, flatten_len8' _ (fun w hw => wordsOf_len8 d w (truncWords_subset _ w hw))]
  have h1 : (truncWords (wordsOf d)).length ≤ (wordsOf d).length := by
    simp only [truncWords, List.length_reverse]
    have := (List.dropWhile_sublist (fun w : List Nat => w.all (· == 0)) (l := (wordsOf d).reverse)).length_le
    simpa using this
  have h2 : (wordsOf d).length = (d.length + 7) / 8 := by simp [wordsOf]
  omega

/-! ## congruence: the canonical form factors through the truncations, and lifts from children to parents -/

/-- **the canonical form sees a struct only through its truncations**: equal data sections (C17's `dataEq`) and
    pointer sections that differ only in trailing nulls give byte-identical canonical forms, at the root … -/
theorem canon_congr_trunc (a b : List Nat) (ps qs : List Val) (m n : Nat) (ha : a.length = 8 * m) (hb : b.length = 8 * n)
    (hd : dataEq a b = true) (hp : truncPtrs ps = truncPtrs qs) : canon (.struct a ps) = canon (.struct b qs) := by
  simp only [canon, canonPtr, dataEq_truncData a b m n ha hb hd, hp]

/-- … and at any depth (any output so far, any pointer position) -/
theorem canonPtr_congr_trunc (f : Nat) (a b : List Nat) (ps qs : List Val) (m n : Nat) (ha : a.length = 8 * m)
    (hb : b.length = 8 * n) (hd : dataEq a b = true) (hp : truncPtrs ps = truncPtrs qs) (out : List Nat) (pw : Nat) :
    canonPtr f (.struct a ps) out pw = canonPtr f (.struct b qs) out pw := by
  cases f with
  | zero => simp [canonPtr]
  | succ f => simp only [canonPtr, dataEq_truncData a b m n ha hb hd, hp]

/-- a parent whose children have identical canonical encodings everywhere has one too: `canonPtrs` is a fold of
    `canonPtr`, so pointwise agreement lifts to pointer sections -/
theorem canonPtrs_congr (f : Nat) (ps qs : List Val) (hl : ps.length = qs.length)
    (h : ∀ i (h1 : i < ps.length) (h2 : i < qs.length) out pw, canonPtr f ps[i] out pw = canonPtr f qs[i] out pw)
    (out : List Nat) (pw : Nat) : canonPtrs f ps out pw = canonPtrs f qs out pw := by
  induction ps generalizing qs out pw with
  | nil => cases qs with
    | nil => rfl
    | cons q qs => simp at hl
  | cons p ps ih =>
    cases qs with
    | nil => simp at hl
    | cons q qs =>
      simp only [canonPtrs]
      have h0 := h 0 (by simp) (by simp) out pw
      simp only [List.getElem_cons_zero] at h0
      rw [h0]
      cases canonPtr f q out pw with
      | none => rfl
      | some o =>
        exact ih qs (by simpa using hl)
          (fun i h1 h2 out pw => by
            have := h (i + 1) (by simp; omega) (by simp; omega) out pw
            simp only [List.getElem_cons_succ] at this; exact this) o (pw + 1)

/-- equal values are null together: the step that makes equal pointer sections truncate to the same length -/
theorem isNullV_of_eq (f : Nat) (x y : Val) (h : eq f x y = true) : isNullV x = isNullV y := by
  have hk := eq_kind f x y h
  cases x <;> cases y <;> simp_all [kind, isNullV]

-- non-vacuity
example : canon (.struct [] [.cap 3]) = none := by simp [canon, canonPtr, truncData, truncPtrs, isNullV, canonPtrs]

end Capnp.Props.C18
