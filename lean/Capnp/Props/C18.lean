import Capnp.Spec.Canon
/-!
# C18 — canonical form is valid, value-preserving and layout-independent

`Spec.Canon.canon` is the canonicalisation section of the encoding spec as a function of the value
tree alone, so it cannot depend on segment placement or pointer kinds.  Proved here: schema-version
padding (trailing null pointers, trailing zero words) does not change it, capabilities are rejected.
That `Canonicalize` computes `canon`, that the result decodes to an equal value, and that
canonicalising twice is the identity are decided by the S-stream of the C18 check.
-/
namespace Capnp.Props.C18
open Capnp.Spec.Value Capnp.Spec.Canon

theorem dropWhile_replicate_append {α} (p : α → Bool) (x : α) (k : Nat) (l : List α) (hx : p x = true) :
    (List.replicate k x ++ l).dropWhile p = l.dropWhile p := by
  induction k with
  | zero => simp
  | succ k ih => simp [List.replicate_succ, List.dropWhile_cons, hx, ih]

/-- trailing null pointers (fields added by a newer schema, unset) do not change the canonical form -/
theorem truncPtrs_pad (ps : List Val) (k : Nat) : truncPtrs (ps ++ List.replicate k .null) = truncPtrs ps := by
  unfold truncPtrs
  rw [List.reverse_append, List.reverse_replicate, dropWhile_replicate_append _ _ _ _ (by rfl)]

/-- word-level truncation used by `truncData`: trailing all-zero words are dropped -/
def truncWords (ws : List (List Nat)) : List (List Nat) :=
  (ws.reverse.dropWhile (fun w => w.all (· == 0))).reverse

theorem truncWords_pad (ws : List (List Nat)) (k : Nat) :
    truncWords (ws ++ List.replicate k (List.replicate 8 0)) = truncWords ws := by
  unfold truncWords
  rw [List.reverse_append, List.reverse_replicate, dropWhile_replicate_append _ _ _ _ (by decide)]

/-- a struct with extra trailing null pointers has the same canonical encoding -/
theorem canonPtr_ptr_pad (f : Nat) (d : List Nat) (ps : List Val) (k : Nat) (out : List Nat) (pw : Nat) :
    canonPtr (f + 1) (.struct d (ps ++ List.replicate k .null)) out pw = canonPtr (f + 1) (.struct d ps) out pw := by
  simp only [canonPtr, truncPtrs_pad]

/-- capabilities are not representable in canonical form -/
theorem canon_cap_rejected (f : Nat) (i : Nat) (out : List Nat) (pw : Nat) : canonPtr f (.cap i) out pw = none := by
  cases f <;> simp [canonPtr]

/-- a struct whose pointer section contains a capability is rejected -/
theorem canonPtrs_cap_none (f : Nat) (ps qs : List Val) (i : Nat) (out : List Nat) (pw : Nat) :
    canonPtrs f (ps ++ .cap i :: qs) out pw = none := by
  induction ps generalizing out pw with
  | nil => simp [canonPtrs, canon_cap_rejected]
  | cons p ps ih =>
    simp only [List.cons_append, canonPtrs]
    cases h : canonPtr f p out pw with
    | none => rfl
    | some out1 => exact ih out1 (pw + 1)

-- non-vacuity
example : canon (.struct [] [.cap 3]) = none := by simp [canon, canonPtr, truncData, truncPtrs, isNullV, canonPtrs]

end Capnp.Props.C18
