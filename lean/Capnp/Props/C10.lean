import Capnp.Model.Cap
/-!
# C10 — a capability is shut down exactly once, only after its last user is gone

All interleavings of AddRef / Release / weak upgrades / calls / Fulfill on any number of client
handles and threads = all action lists of `Model.Cap`.
-/
namespace Capnp.Props.C10
open Capnp.Model.Cap

/-! ## the pinned code: references in flight during `Fulfill` are counted nowhere -/

/-- **the full statement fails on the code as pinned** (`windowed = true`): the target capability is shut
    down while a client handle still refers to it.  Witness: `Fulfill` has marked the promise resolved and
    released `p.mu`; before it locks the target, the promised client's handle is released — the release
    walks to the target and decrements a count that does not include that handle yet. -/
theorem window_violation :
    ∃ s, run true init [.fulfill false, .release true, .passDone false] = some s ∧ s.t.shut = 1 ∧ s.onT = 1 := by
  refine ⟨_, rfl, ?_, ?_⟩ <;> decide

/-- **… and so does fulfilling a promise with its own client** (as pinned): the hook is marked resolved to
    itself and keeps its references, but `Fulfill` closes `done` and calls `Shutdown` all the same — the
    capability is shut down while a handle still refers to it … -/
theorem self_fulfil_violation :
    ∃ s, run true init [.fulfillSelf, .passDone true] = some s ∧ s.p.shut = 1 ∧ s.onP = 1 ∧ s.p.refs = 1 := by
  refine ⟨_, rfl, ?_, ?_, ?_⟩ <;> decide

/-- … and the last `Release` closes `done` a second time (a Go panic).  A peer of an RPC connection can bring
    this about: it answers a call with the export of the caller's own promise. -/
theorem self_fulfil_double_close :
    ∃ s, run true init [.fulfillSelf, .release true] = some s ∧ s.bad = true := by
  refine ⟨_, rfl, ?_⟩; decide

/-! ## the repaired code: `Fulfill` hands the references over before releasing `p.mu` -/

def HookInv (h : Hook) : Prop :=
  0 ≤ h.refs ∧
  h.waiting + h.shut ≤ 1 ∧
  (h.waiting + h.shut = 1 → h.refs = 0) ∧
  (h.refs = 0 → h.waiting + h.shut = 1) ∧
  (h.done = true → h.refs = 0 ∧ h.calls = 0) ∧
  (h.refs = 0 → h.calls = 0 → h.done = true) ∧
  (h.shut = 1 → h.done = true)

def Inv (s : St) : Prop :=
  HookInv s.t ∧ HookInv s.p ∧
  s.t.refs = (s.onT : Int) + (if s.pResolved ∧ ¬ s.toNil then (s.onP : Int) else 0) ∧
  s.p.refs = (if s.pResolved then 0 else (s.onP : Int)) ∧
  s.bad = false ∧ s.useAfter = false ∧ s.parked = 0 ∧ (s.toNil = true → s.pResolved = true)

theorem inv_init : Inv init := by
  simp [Inv, HookInv, init]

theorem dec_inv (h : Hook) (hi : HookInv h) (hpos : 0 < h.refs) :
    HookInv h.dec.1 ∧ h.dec.2 = false ∧ h.dec.1.refs = h.refs - 1 := by
  obtain ⟨refs, calls, done, waiting, shut⟩ := h
  unfold HookInv at hi
  simp only at hi hpos
  obtain ⟨h0, h1, h2, h3, h4, h5, h6⟩ := hi
  unfold Hook.dec
  simp only
  by_cases hr : refs - 1 > 0
  · simp only [hr, ↓reduceIte, HookInv]
    refine ⟨⟨by omega, h1, ?_, ?_, ?_, ?_, h6⟩, trivial, trivial⟩
    · intro hw; have := h2 hw; omega
    · intro h; omega
    · intro hd; have := h4 hd; omega
    · intro h; omega
  · have hr1 : refs = 1 := by omega
    have hw0 : waiting + shut = 0 := by
      by_cases hw : waiting + shut = 1
      · have := h2 hw; omega
      · omega
    have hdf : done = false := by
      cases done with
      | false => rfl
      | true => have := (h4 rfl).1; omega
    subst hdf
    simp only [hr, ↓reduceIte]
    by_cases hc : calls = 0
    · simp only [hc, ↓reduceIte, HookInv]
      refine ⟨⟨by omega, by omega, ?_, ?_, ?_, ?_, ?_⟩, trivial, trivial⟩
      · intro _; omega
      · intro _; omega
      · intro _; exact ⟨by omega, trivial⟩
      · intro _ _; trivial
      · intro _; trivial
    · simp only [hc, ↓reduceIte, HookInv]
      refine ⟨⟨by omega, by omega, ?_, ?_, ?_, ?_, ?_⟩, trivial, trivial⟩
      · intro _; omega
      · intro _; omega
      · intro hd; cases hd
      · intro _ h; exact absurd (by simpa using h) hc
      · intro hs; omega

theorem incRef_inv (h : Hook) (hi : HookInv h) (hpos : 0 < h.refs) : HookInv { h with refs := h.refs + 1 } ∧ h.shut = 0 := by
  obtain ⟨refs, calls, done, waiting, shut⟩ := h
  unfold HookInv at *
  simp only at *
  obtain ⟨h0, h1, h2, h3, h4, h5, h6⟩ := hi
  have hw0 : waiting + shut = 0 := by
    by_cases hw : waiting + shut = 1
    · have := h2 hw; omega
    · omega
  refine ⟨⟨by omega, h1, ?_, ?_, ?_, ?_, h6⟩, by omega⟩
  · intro hw; omega
  · intro h; omega
  · intro hd; have := h4 hd; omega
  · intro h; omega

theorem incCall_inv (h : Hook) (hi : HookInv h) (hpos : 0 < h.refs) : HookInv { h with calls := h.calls + 1 } ∧ h.shut = 0 := by
  obtain ⟨refs, calls, done, waiting, shut⟩ := h
  unfold HookInv at *
  simp only at *
  obtain ⟨h0, h1, h2, h3, h4, h5, h6⟩ := hi
  have hw0 : waiting + shut = 0 := by
    by_cases hw : waiting + shut = 1
    · have := h2 hw; omega
    · omega
  refine ⟨⟨h0, h1, h2, h3, ?_, ?_, h6⟩, by omega⟩
  · intro hd; have := h4 hd; omega
  · intro h; omega

theorem finish_inv (h : Hook) (hi : HookInv h) (hc : h.calls ≠ 0) :
    HookInv (if h.refs = 0 ∧ h.calls - 1 = 0 then { h with calls := h.calls - 1, done := true } else { h with calls := h.calls - 1 }) ∧
    (decide (h.refs = 0 ∧ h.calls - 1 = 0) && h.done) = false := by
  obtain ⟨refs, calls, done, waiting, shut⟩ := h
  unfold HookInv at *
  simp only at *
  obtain ⟨h0, h1, h2, h3, h4, h5, h6⟩ := hi
  have hdf : done = false := by
    cases done with
    | false => rfl
    | true => have := (h4 rfl).2; omega
  subst hdf
  refine ⟨?_, by simp⟩
  by_cases hz : refs = 0 ∧ calls - 1 = 0
  · rw [if_pos hz]
    refine ⟨h0, h1, h2, h3, ?_, ?_, ?_⟩
    · intro _; exact ⟨hz.1, hz.2⟩
    · intro _ _; trivial
    · intro _; trivial
  · rw [if_neg hz]
    refine ⟨h0, h1, h2, h3, ?_, ?_, ?_⟩
    · intro hd; cases hd
    · intro hr hcc; exact absurd ⟨hr, hcc⟩ hz
    · intro hs; have := h6 hs; cases this

theorem passDone_inv (h : Hook) (hi : HookInv h) (hw : ¬ (h.waiting = 0 ∨ h.done = false)) :
    HookInv { h with waiting := h.waiting - 1, shut := h.shut + 1 } ∧ h.shut = 0 ∧ h.refs = 0 ∧ h.calls = 0 := by
  obtain ⟨refs, calls, done, waiting, shut⟩ := h
  unfold HookInv at *
  simp only at *
  obtain ⟨h0, h1, h2, h3, h4, h5, h6⟩ := hi
  simp only [not_or] at hw
  have hd : done = true := by cases done <;> simp_all
  have := h4 hd
  refine ⟨⟨h0, by omega, ?_, ?_, ?_, ?_, ?_⟩, by omega, this.1, this.2⟩
  · intro _; exact this.1
  · intro _; omega
  · intro _; exact this
  · intro _ _; exact hd
  · intro _; exact hd

theorem addRefs_inv (h : Hook) (hi : HookInv h) (hpos : 0 < h.refs) (n : Int) (hn : 0 ≤ n) : HookInv { h with refs := h.refs + n } := by
  obtain ⟨refs, calls, done, waiting, shut⟩ := h
  unfold HookInv at *
  simp only at *
  obtain ⟨h0, h1, h2, h3, h4, h5, h6⟩ := hi
  have hw0 : waiting + shut = 0 := by
    by_cases hw : waiting + shut = 1
    · have := h2 hw; omega
    · omega
  refine ⟨by omega, h1, ?_, ?_, ?_, ?_, h6⟩
  · intro hw; omega
  · intro h; omega
  · intro hd; have := h4 hd; omega
  · intro h; omega

theorem resolve_inv (p : Hook) (hi : HookInv p) (hpos : 0 < p.refs) :
    HookInv (if p.calls = 0 then { p with refs := 0, done := true, waiting := p.waiting + 1 } else { p with refs := 0, waiting := p.waiting + 1 }) ∧
    p.done = false := by
  obtain ⟨refs, calls, done, waiting, shut⟩ := p
  unfold HookInv at *
  simp only at *
  obtain ⟨h0, h1, h2, h3, h4, h5, h6⟩ := hi
  have hw0 : waiting + shut = 0 := by
    by_cases hw : waiting + shut = 1
    · have := h2 hw; omega
    · omega
  have hdf : done = false := by
    cases done with
    | false => rfl
    | true => have := (h4 rfl).1; omega
  subst hdf
  refine ⟨?_, rfl⟩
  by_cases hc : calls = 0
  · rw [if_pos hc]
    dsimp only
    refine ⟨by omega, by omega, ?_, ?_, ?_, ?_, ?_⟩
    · intro _; trivial
    · intro _; omega
    · intro _; exact ⟨rfl, hc⟩
    · intro _ _; trivial
    · intro _; trivial
  · rw [if_neg hc]
    dsimp only
    refine ⟨by omega, by omega, ?_, ?_, ?_, ?_, ?_⟩
    · intro _; trivial
    · intro _; omega
    · intro hd; cases hd
    · intro _ h; exact absurd h hc
    · intro hs; omega

/-- `Fulfill`'s critical section preserves the invariant (repaired code) -/
theorem inv_fulfill (s s' : St) (nl : Bool) (h : Inv s) (hs : fulfillStep false s nl = some s') : Inv s' := by
  obtain ⟨t, p, res, nil, onT, onP, parked, bad, ua⟩ := s
  obtain ⟨ht, hp, hrt, hrp, hb, hu, hpk, hnil⟩ := h
  simp only at ht hp hrt hrp hb hu hpk hnil
  subst hb hu hpk
  simp only [fulfillStep] at hs
  cases res with
  | true => simp at hs
  | false =>
    simp only [Bool.false_eq_true, ↓reduceIte, false_and] at hs hrt hrp
    split at hs
    · cases hs
    · rename_i hlive
      split at hs
      · -- the promise had no references left: nothing to hand over
        rename_i hn0
        simp only [Option.some.injEq] at hs
        subst hs
        have honP : onP = 0 := by omega
        have hp0 : ({ p with refs := 0 } : Hook) = p := by
          obtain ⟨refs, calls, done, waiting, shut⟩ := p
          simp only at hn0; subst hn0; rfl
        refine ⟨ht, by rw [hp0]; exact hp, ?_, ?_, rfl, rfl, rfl, fun _ => rfl⟩
        · simp only; rw [hrt, honP]; split <;> simp
        · simp
      · rename_i hn0
        have hpos : 0 < p.refs := by have := hp.1; omega
        obtain ⟨hpi, hpd⟩ := resolve_inv p hp hpos
        have hbad : (decide (p.calls = 0) && p.done) = false := by rw [hpd]; simp
        cases nl with
        | true =>
          simp only [↓reduceIte, Option.some.injEq] at hs
          subst hs
          refine ⟨ht, ?_, ?_, ?_, ?_, rfl, rfl, fun _ => rfl⟩
          · simp only; split <;> rename_i hc
            · have := hpi; rw [if_pos hc] at this; exact this
            · have := hpi; rw [if_neg hc] at this; exact this
          · simp only [not_true_eq_false, and_false, ↓reduceIte]; rw [hrt]
          · simp only [↓reduceIte]; split <;> rfl
          · simp only [Bool.false_or]; exact hbad
        | false =>
          simp only [Bool.false_eq_true, ↓reduceIte, Option.some.injEq] at hs
          subst hs
          simp only [Bool.not_false, Bool.true_eq_false, false_and, not_false_eq_true] at hlive
          have hont : onT ≠ 0 := by
            intro h; apply hlive; simp [h]
          have htpos : 0 < t.refs := by rw [hrt]; omega
          refine ⟨addRefs_inv t ht htpos p.refs (by omega), ?_, ?_, ?_, ?_, rfl, rfl, fun h => by cases h⟩
          · simp only; split <;> rename_i hc
            · have := hpi; rw [if_pos hc] at this; exact this
            · have := hpi; rw [if_neg hc] at this; exact this
          · simp only [Bool.false_eq_true, not_false_eq_true, and_self, ↓reduceIte]; rw [hrt, hrp]; simp
          · simp only [↓reduceIte]; split <;> rfl
          · simp only [Bool.false_or]; exact hbad

/-- the invariant is preserved by every atomic section of every operation (repaired code) -/
theorem inv_step (s s' : St) (a : Act) (h : Inv s) (hs : step false s a = some s') : Inv s' := by
  obtain ⟨t, p, res, nil, onT, onP, parked, bad, ua⟩ := s
  obtain ⟨ht, hp, hrt, hrp, hb, hu, hpk, hnil⟩ := h
  simp only at ht hp hrt hrp hb hu hpk hnil
  subst hb hu hpk
  cases a with
  | addRef viaP =>
    simp only [step, St.via] at hs
    cases viaP with
    | false =>
      simp only [Bool.false_eq_true, ↓reduceIte] at hs
      split at hs
      · cases hs
      · rename_i hon
        simp only [Option.some.injEq] at hs
        subst hs
        have hpos : 0 < t.refs := by rw [hrt]; split <;> omega
        obtain ⟨hi, hsh⟩ := incRef_inv t ht hpos
        refine ⟨hi, hp, ?_, hrp, ?_, ?_, rfl, hnil⟩
        · simp only; rw [hrt]; split <;> omega
        · rfl
        · simp [hsh]
    | true =>
      simp only [↓reduceIte] at hs
      split at hs
      · cases hs
      · rename_i hon
        cases res with
        | false =>
          simp only [Bool.false_eq_true, ↓reduceIte, Option.some.injEq] at hs
          subst hs
          simp only [Bool.false_eq_true, ↓reduceIte, false_and] at hrt hrp
          have hpos : 0 < p.refs := by rw [hrp]; omega
          obtain ⟨hi, hsh⟩ := incRef_inv p hp hpos
          refine ⟨ht, hi, ?_, ?_, rfl, ?_, rfl, hnil⟩
          · simp only [Bool.false_eq_true, false_and, ↓reduceIte]; exact hrt
          · simp only [Bool.false_eq_true, ↓reduceIte]; rw [hrp]; omega
          · simp [hsh]
        | true =>
          cases nil with
          | true =>
            simp only [↓reduceIte, Option.some.injEq] at hs
            subst hs
            simp only [↓reduceIte, not_true_eq_false, and_false] at hrt hrp
            refine ⟨ht, hp, ?_, ?_, rfl, rfl, rfl, hnil⟩
            · simp only [not_true_eq_false, and_false, ↓reduceIte]; exact hrt
            · simp only [↓reduceIte]; exact hrp
          | false =>
            simp only [↓reduceIte, Bool.false_eq_true, Option.some.injEq] at hs
            subst hs
            simp only [↓reduceIte, Bool.false_eq_true, not_false_eq_true, and_self] at hrt hrp
            have hpos : 0 < t.refs := by rw [hrt]; omega
            obtain ⟨hi, hsh⟩ := incRef_inv t ht hpos
            refine ⟨hi, hp, ?_, ?_, rfl, ?_, rfl, hnil⟩
            · simp only [Bool.false_eq_true, not_false_eq_true, and_self, ↓reduceIte]; rw [hrt]; omega
            · simp only [↓reduceIte]; exact hrp
            · simp [hsh]
  | release viaP =>
    simp only [step, St.via] at hs
    cases viaP with
    | false =>
      simp only [Bool.false_eq_true, ↓reduceIte] at hs
      split at hs
      · cases hs
      · rename_i hon
        simp only [Option.some.injEq] at hs
        subst hs
        have hpos : 0 < t.refs := by rw [hrt]; split <;> omega
        obtain ⟨hi, hb2, hr2⟩ := dec_inv t ht hpos
        refine ⟨hi, hp, ?_, hrp, ?_, rfl, rfl, hnil⟩
        · simp only; rw [hr2, hrt]; split <;> omega
        · simp [hb2]
    | true =>
      simp only [↓reduceIte] at hs
      split at hs
      · cases hs
      · rename_i hon
        cases res with
        | false =>
          simp only [Bool.false_eq_true, ↓reduceIte, Option.some.injEq] at hs
          subst hs
          simp only [Bool.false_eq_true, ↓reduceIte, false_and] at hrt hrp
          have hpos : 0 < p.refs := by rw [hrp]; omega
          obtain ⟨hi, hb2, hr2⟩ := dec_inv p hp hpos
          refine ⟨ht, hi, ?_, ?_, ?_, rfl, rfl, hnil⟩
          · simp only [Bool.false_eq_true, false_and, ↓reduceIte]; exact hrt
          · simp only [Bool.false_eq_true, ↓reduceIte]; rw [hr2, hrp]; omega
          · simp [hb2]
        | true =>
          cases nil with
          | true =>
            simp only [↓reduceIte, Option.some.injEq] at hs
            subst hs
            simp only [↓reduceIte, not_true_eq_false, and_false] at hrt hrp
            refine ⟨ht, hp, ?_, ?_, rfl, rfl, rfl, hnil⟩
            · simp only [not_true_eq_false, and_false, ↓reduceIte]; exact hrt
            · simp only [↓reduceIte]; exact hrp
          | false =>
            simp only [↓reduceIte, Bool.false_eq_true, Option.some.injEq] at hs
            subst hs
            simp only [↓reduceIte, Bool.false_eq_true, not_false_eq_true, and_self] at hrt hrp
            have hpos : 0 < t.refs := by rw [hrt]; omega
            obtain ⟨hi, hb2, hr2⟩ := dec_inv t ht hpos
            refine ⟨hi, hp, ?_, ?_, ?_, rfl, rfl, hnil⟩
            · simp only [Bool.false_eq_true, not_false_eq_true, and_self, ↓reduceIte]; rw [hr2, hrt]; omega
            · simp only [↓reduceIte]; exact hrp
            · simp [hb2]
  | startCall viaP =>
    simp only [step, St.via] at hs
    cases viaP with
    | false =>
      simp only [Bool.false_eq_true, ↓reduceIte] at hs
      split at hs
      · cases hs
      · rename_i hon
        simp only [Option.some.injEq] at hs
        subst hs
        have hpos : 0 < t.refs := by rw [hrt]; split <;> omega
        obtain ⟨hi, hsh⟩ := incCall_inv t ht hpos
        refine ⟨hi, hp, hrt, hrp, rfl, ?_, rfl, hnil⟩
        simp [hsh]
    | true =>
      simp only [↓reduceIte] at hs
      split at hs
      · cases hs
      · rename_i hon
        cases res with
        | false =>
          simp only [Bool.false_eq_true, ↓reduceIte, Option.some.injEq] at hs
          subst hs
          simp only [Bool.false_eq_true, ↓reduceIte, false_and] at hrt hrp
          have hpos : 0 < p.refs := by rw [hrp]; omega
          obtain ⟨hi, hsh⟩ := incCall_inv p hp hpos
          refine ⟨ht, hi, ?_, ?_, rfl, ?_, rfl, hnil⟩
          · simp only [Bool.false_eq_true, false_and, ↓reduceIte]; exact hrt
          · simp only [Bool.false_eq_true, ↓reduceIte]; exact hrp
          · simp [hsh]
        | true =>
          cases nil with
          | true =>
            simp only [↓reduceIte, Option.some.injEq] at hs
            subst hs
            simp only [↓reduceIte, not_true_eq_false, and_false] at hrt hrp
            refine ⟨ht, hp, ?_, ?_, rfl, rfl, rfl, hnil⟩
            · simp only [not_true_eq_false, and_false, ↓reduceIte]; exact hrt
            · simp only [↓reduceIte]; exact hrp
          | false =>
            simp only [↓reduceIte, Bool.false_eq_true, Option.some.injEq] at hs
            subst hs
            simp only [↓reduceIte, Bool.false_eq_true, not_false_eq_true, and_self] at hrt hrp
            have hpos : 0 < t.refs := by rw [hrt]; omega
            obtain ⟨hi, hsh⟩ := incCall_inv t ht hpos
            refine ⟨hi, hp, ?_, ?_, rfl, ?_, rfl, hnil⟩
            · simp only [Bool.false_eq_true, not_false_eq_true, and_self, ↓reduceIte]; rw [hrt]; omega
            · simp only [↓reduceIte]; exact hrp
            · simp [hsh]
  | finishCall onPHook =>
    simp only [step] at hs
    cases onPHook with
    | false =>
      simp only [Bool.false_eq_true, ↓reduceIte] at hs
      split at hs
      · cases hs
      · rename_i hc
        simp only [Option.some.injEq] at hs
        subst hs
        obtain ⟨hi, hb2⟩ := finish_inv t ht hc
        refine ⟨hi, hp, ?_, hrp, ?_, rfl, rfl, hnil⟩
        · simp only; rw [← hrt]; split <;> rfl
        · simp only [Bool.false_or]; exact hb2
    | true =>
      simp only [↓reduceIte] at hs
      split at hs
      · cases hs
      · rename_i hc
        simp only [Option.some.injEq] at hs
        subst hs
        obtain ⟨hi, hb2⟩ := finish_inv p hp hc
        refine ⟨ht, hi, hrt, ?_, ?_, rfl, rfl, hnil⟩
        · simp only; rw [← hrp]; split <;> rfl
        · simp only [Bool.false_or]; exact hb2
  | weakAdd viaP =>
    simp only [step, St.via] at hs
    cases viaP with
    | false =>
      simp only [Bool.false_eq_true, ↓reduceIte] at hs
      split at hs
      · simp only [Option.some.injEq] at hs; subst hs
        exact ⟨ht, hp, hrt, hrp, rfl, rfl, rfl, hnil⟩
      · rename_i hz
        simp only [Option.some.injEq] at hs
        subst hs
        have hpos : 0 < t.refs := by have := ht.1; omega
        obtain ⟨hi, hsh⟩ := incRef_inv t ht hpos
        refine ⟨hi, hp, ?_, hrp, rfl, ?_, rfl, hnil⟩
        · simp only; rw [hrt]; split <;> omega
        · simp [hsh]
    | true =>
      simp only [↓reduceIte] at hs
      cases res with
      | false =>
        simp only [Bool.false_eq_true, ↓reduceIte] at hs
        simp only [Bool.false_eq_true, ↓reduceIte, false_and] at hrt hrp
        split at hs
        · simp only [Option.some.injEq] at hs; subst hs
          refine ⟨ht, hp, ?_, ?_, rfl, rfl, rfl, hnil⟩
          · simp only [Bool.false_eq_true, false_and, ↓reduceIte]; exact hrt
          · simp only [Bool.false_eq_true, ↓reduceIte]; exact hrp
        · rename_i hz
          simp only [Option.some.injEq] at hs
          subst hs
          have hpos : 0 < p.refs := by have := hp.1; omega
          obtain ⟨hi, hsh⟩ := incRef_inv p hp hpos
          refine ⟨ht, hi, ?_, ?_, rfl, ?_, rfl, hnil⟩
          · simp only [Bool.false_eq_true, false_and, ↓reduceIte]; exact hrt
          · simp only [Bool.false_eq_true, ↓reduceIte]; rw [hrp]; omega
          · simp [hsh]
      | true =>
        cases nil with
        | true =>
          simp only [↓reduceIte, Option.some.injEq] at hs
          subst hs
          exact ⟨ht, hp, hrt, hrp, rfl, rfl, rfl, hnil⟩
        | false =>
          simp only [↓reduceIte, Bool.false_eq_true] at hs
          simp only [↓reduceIte, Bool.false_eq_true, not_false_eq_true, and_self] at hrt hrp
          split at hs
          · simp only [Option.some.injEq] at hs; subst hs
            refine ⟨ht, hp, ?_, ?_, rfl, rfl, rfl, hnil⟩
            · simp only [Bool.false_eq_true, not_false_eq_true, and_self, ↓reduceIte]; exact hrt
            · simp only [↓reduceIte]; exact hrp
          · rename_i hz
            simp only [Option.some.injEq] at hs
            subst hs
            have hpos : 0 < t.refs := by have := ht.1; omega
            obtain ⟨hi, hsh⟩ := incRef_inv t ht hpos
            refine ⟨hi, hp, ?_, ?_, rfl, ?_, rfl, hnil⟩
            · simp only [Bool.false_eq_true, not_false_eq_true, and_self, ↓reduceIte]; rw [hrt]; omega
            · simp only [↓reduceIte]; exact hrp
            · simp [hsh]
  | passDone onPHook =>
    simp only [step] at hs
    cases onPHook with
    | false =>
      simp only [Bool.false_eq_true, ↓reduceIte] at hs
      split at hs
      · cases hs
      · rename_i hw
        simp only [Option.some.injEq] at hs
        subst hs
        obtain ⟨hi, _, _, _⟩ := passDone_inv t ht hw
        exact ⟨hi, hp, hrt, hrp, rfl, rfl, rfl, hnil⟩
    | true =>
      simp only [↓reduceIte] at hs
      split at hs
      · cases hs
      · rename_i hw
        simp only [Option.some.injEq] at hs
        subst hs
        obtain ⟨hi, _, _, _⟩ := passDone_inv p hp hw
        exact ⟨ht, hi, hrt, hrp, rfl, rfl, rfl, hnil⟩
  | hand =>
    simp [step] at hs
  | fulfill nl =>
    simp only [step] at hs
    exact inv_fulfill _ _ nl ⟨ht, hp, hrt, hrp, rfl, rfl, rfl, hnil⟩ hs
  | fulfillSelf =>
    simp only [step] at hs
    split at hs
    · cases hs
    · simp only [Bool.false_eq_true, ↓reduceIte] at hs
      exact inv_fulfill _ _ true ⟨ht, hp, hrt, hrp, rfl, rfl, rfl, hnil⟩ hs

theorem inv_run (s s' : St) (as : List Act) (h : Inv s) (hr : run false s as = some s') : Inv s' := by
  induction as generalizing s with
  | nil => simp [run] at hr; subst hr; exact h
  | cons a as ih =>
    simp only [run] at hr
    cases hst : step false s a with
    | none => simp [hst] at hr
    | some s1 => simp [hst] at hr; exact ih s1 (inv_step s s1 a h hst) hr

/-- **C10** (repaired code), for every interleaving of AddRef / Release / weak upgrades / calls / Fulfill (with a
    client, with nil, or with the promise's own client) over any number of client handles and threads:
    * each hook's `Shutdown` runs at most once;
    * when it runs, no strong reference remains and no call through the hook is in progress
      (for the target: no live handle on it, nor any handle of the resolved promise);
    * no call or new reference ever reaches a hook whose shutdown has started;
    * no channel is closed twice (no panic);
    * the promised client's references transfer to the capability it resolves to. -/
theorem shutdown_exactly_once (as : List Act) (s : St) (hr : run false init as = some s) :
    s.t.shut ≤ 1 ∧ s.p.shut ≤ 1 ∧
    (s.t.shut = 1 → s.t.refs = 0 ∧ s.t.calls = 0 ∧ s.onT = 0 ∧ (s.pResolved = true → s.toNil = false → s.onP = 0)) ∧
    (s.p.shut = 1 → s.p.refs = 0 ∧ s.p.calls = 0 ∧ (s.pResolved = false → s.onP = 0)) ∧
    s.useAfter = false ∧ s.bad = false ∧
    s.t.refs = (s.onT : Int) + (if s.pResolved ∧ ¬ s.toNil then (s.onP : Int) else 0) := by
  obtain ⟨ht, hp, hrt, hrp, hb, hu, _, _⟩ := inv_run init s as inv_init hr
  obtain ⟨t0, t1, t2, t3, t4, t5, t6⟩ := ht
  obtain ⟨p0, p1, p2, p3, p4, p5, p6⟩ := hp
  refine ⟨by omega, by omega, ?_, ?_, hu, hb, hrt⟩
  · intro hs
    have hd := t4 (t6 hs)
    refine ⟨hd.1, hd.2, ?_, ?_⟩
    · rw [hd.1] at hrt; split at hrt <;> omega
    · intro hres hnn
      rw [hd.1] at hrt
      simp only [hres, hnn, Bool.false_eq_true, not_false_eq_true, and_self, ↓reduceIte] at hrt
      omega
  · intro hs
    have hd := p4 (p6 hs)
    refine ⟨hd.1, hd.2, ?_⟩
    intro hres
    rw [hd.1] at hrp
    simp only [hres, Bool.false_eq_true, ↓reduceIte] at hrp
    omega

/-- **no operation blocks forever while calls can finish**: a thread waiting for a hook's `done` is released as
    soon as the hook's outstanding calls have finished — in every reachable state -/
theorem progress (as : List Act) (s : St) (hr : run false init as = some s) :
    (s.t.waiting = 1 → s.t.calls = 0 → (step false s (.passDone false)).isSome = true) ∧
    (s.p.waiting = 1 → s.p.calls = 0 → (step false s (.passDone true)).isSome = true) := by
  obtain ⟨ht, hp, _, _, _, _, _, _⟩ := inv_run init s as inv_init hr
  obtain ⟨t0, t1, t2, t3, t4, t5, t6⟩ := ht
  obtain ⟨p0, p1, p2, p3, p4, p5, p6⟩ := hp
  constructor
  · intro hw hc
    have hd : s.t.done = true := t5 (t2 (by omega)) hc
    simp [step, hw, hd]
  · intro hw hc
    have hd : s.p.done = true := p5 (p2 (by omega)) hc
    simp [step, hw, hd]

-- non-vacuity: a run that exercises AddRef, a call in flight across Fulfill, transfer of references, both shutdowns
example : (run false init [.addRef true, .startCall true, .fulfill false, .finishCall true, .passDone true,
    .release true, .release true, .release false, .passDone false]).map (fun s => (s.t.shut, s.p.shut, s.onT, s.onP)) =
    some (1, 1, 0, 0) := by decide

-- … and one through a self-fulfilment: the promise's hook is shut down once, the target is untouched
example : (run false init [.addRef true, .fulfillSelf, .passDone true, .release false, .passDone false]).map
    (fun s => (s.t.shut, s.p.shut, s.p.refs, s.pResolved)) = some (1, 1, 0, true) := by decide

end Capnp.Props.C10
