/-!
# Lock discipline of `rpc.Conn`: an abstract interpreter over control-flow skeletons

`Capnp/Gen/Locks.lean` is generated from `/repo/rpc/*.go` by `/verif/lockflow` on every run: for every function
that touches `Conn.mu` or the sender lock, its control-flow skeleton (sequence, branching, loops, returns, panics)
with only the lock operations and the calls to functions that have a lock contract left in.  The interpreter
below computes, for a set of possible lock states at a program point, the set after a statement — over *all*
paths at once (the state space has four elements, so this is exact and linear).  A function is *balanced* when,
started in its contract's entry state, every `return` and the fall-through end reach exactly the contract's
exit state, no lock is released that is not held, and none is acquired twice.

The lock primitives themselves (`tryLockSender`, `lockSender`, `unlockSender`, `sync.Mutex`) are trusted.
-/
namespace Capnp.Lock

/-- which of `Conn.mu` and the sender lock the running goroutine holds -/
structure L where
  mu : Bool
  snd : Bool
deriving Repr, DecidableEq

inductive Prog
  | skip
  | lockMu | unlockMu
  | lockSender | unlockSender           -- `lockSender()` / `unlockSender()`: the caller holds `mu`
  | tryLock (onErr onOk : Prog)         -- `if err := tryLockSender(ctx); err != nil { onErr }; onOk` (caller holds `mu`)
  | call (pre : L) (post : L)           -- a function with a lock contract: must be entered in `pre`, leaves `post`
  | seq (a b : Prog)
  | branch (alts : List Prog)           -- if / switch / select: any alternative
  | loop (body : Prog)                  -- zero or more iterations
  | ret                                  -- return
  | stop                                 -- panic / os.Exit / endless wait: the path ends, nothing to check
  | brk | cont                           -- break / continue of the innermost enclosing loop or switch
  | catchBrk (p : Prog)                  -- a switch / select: `break` inside ends it
  | needMuFree                           -- a call that may run application code or wait for other goroutines: `mu` must not be held
  | needSender                           -- a transport operation: the sender lock held, `mu` not
  | needMu                               -- a helper documented "the caller must be holding c.mu"
deriving Repr

/-- abstract result: lock states at the fall-through end, lock states at the returns, discipline violated -/
structure Res where
  fall : List L
  rets : List L
  bad : Bool
  brks : List L := []
  conts : List L := []
deriving Repr, DecidableEq

def ins (l : L) (s : List L) : List L := if s.contains l then s else l :: s
def union (a b : List L) : List L := a.foldl (fun acc x => ins x acc) b
def sameSet (a b : List L) : Bool := a.all b.contains && b.all a.contains

mutual
def exec : Prog → List L → Res
  | .skip, s => ⟨s, [], false, [], []⟩
  | .lockMu, s => ⟨s.foldl (fun acc l => ins { l with mu := true } acc) [], [], s.any (·.mu), [], []⟩
  | .unlockMu, s => ⟨s.foldl (fun acc l => ins { l with mu := false } acc) [], [], s.any (!·.mu), [], []⟩
  | .lockSender, s => ⟨s.foldl (fun acc l => ins { l with snd := true } acc) [], [], s.any (fun l => !l.mu || l.snd), [], []⟩
  | .unlockSender, s => ⟨s.foldl (fun acc l => ins { l with snd := false } acc) [], [], s.any (fun l => !l.mu || !l.snd), [], []⟩
  | .tryLock onErr onOk, s =>
    let bad := s.any (fun l => !l.mu || l.snd)
    let r1 := exec onErr s
    let r2 := exec onOk (union r1.fall (s.foldl (fun acc l => ins { l with snd := true } acc) []))
    -- (falling out of the error branch without a return would continue with the lock not held: the union above
    --  deliberately mixes both, so a missing return shows up as an imbalance)
    ⟨r2.fall, union r1.rets r2.rets, bad || r1.bad || r2.bad, union r1.brks r2.brks, union r1.conts r2.conts⟩
  | .call pre post, s => ⟨if s.isEmpty then [] else [post], [], s.any (· ≠ pre), [], []⟩
  | .seq a b, s =>
    let r1 := exec a s
    let r2 := exec b r1.fall
    ⟨r2.fall, union r1.rets r2.rets, r1.bad || r2.bad, union r1.brks r2.brks, union r1.conts r2.conts⟩
  | .branch alts, s => execAlts alts s
  | .loop body, s =>
    -- a loop body must bring every state back to itself (checked), so one pass covers any number of iterations
    let r := exec body s
    let back := union r.fall r.conts
    ⟨union s r.brks, r.rets, r.bad || !(back.all s.contains) || !(r.brks.all s.contains), [], []⟩
  | .ret, s => ⟨[], s, false, [], []⟩
  | .stop, _ => ⟨[], [], false, [], []⟩
  | .brk, s => ⟨[], [], false, s, []⟩
  | .cont, s => ⟨[], [], false, [], s⟩
  | .catchBrk p, s =>
    let r := exec p s
    ⟨union r.fall r.brks, r.rets, r.bad, [], r.conts⟩
  | .needMuFree, s => ⟨s, [], s.any (·.mu), [], []⟩
  | .needSender, s => ⟨s, [], s.any (fun l => l.mu || !l.snd), [], []⟩
  | .needMu, s => ⟨s, [], s.any (!·.mu), [], []⟩
def execAlts : List Prog → List L → Res
  | [], _ => ⟨[], [], false, [], []⟩
  | p :: ps, s =>
    let r1 := exec p s
    let r2 := execAlts ps s
    ⟨union r1.fall r2.fall, union r1.rets r2.rets, r1.bad || r2.bad, union r1.brks r2.brks, union r1.conts r2.conts⟩
end

/-- every way out of the function (return or falling off the end) is in `exit`, and the discipline is kept -/
def balanced (p : Prog) (entry exit : L) : Bool :=
  let r := exec p [entry]
  !r.bad && r.brks.isEmpty && r.conts.isEmpty && (union r.fall r.rets).all (· == exit)

end Capnp.Lock
