/-!
# Prelude: Go's sized integers as `Int` with explicit wrap-around

Go values of a sized integer type `T` are modelled as `Int` restricted to `T`'s range; every
operation that can leave the range is followed by the wrap function of its result type, so
overflow is modelled exactly (DESIGN.md 3.1 / 4.1).
-/
namespace Capnp.Prelude

/-- errors and panics are values -/
inductive Err
  | err (msg : String)
  | panic (msg : String)
deriving Repr, BEq, DecidableEq, Inhabited

/-- explicit bind of `Except Err` used by generated code for may-panic calls -/
@[inline] def Err.bind {α β : Type} (x : Except Err α) (f : α → Except Err β) : Except Err β :=
  match x with
  | .error e => .error e
  | .ok v => f v

def wrapU8  (x : Int) : Int := x % 256
def wrapU16 (x : Int) : Int := x % 65536
def wrapU32 (x : Int) : Int := x % 4294967296
def wrapU64 (x : Int) : Int := x % 18446744073709551616
def wrapI8  (x : Int) : Int := (x + 128) % 256 - 128
def wrapI16 (x : Int) : Int := (x + 32768) % 65536 - 32768
def wrapI32 (x : Int) : Int := (x + 2147483648) % 4294967296 - 2147483648
def wrapI64 (x : Int) : Int := (x + 9223372036854775808) % 18446744073709551616 - 9223372036854775808

/-- bitwise ops on non-negative values (unsigned Go types only) -/
def bor (a b : Int) : Int := Int.ofNat (a.toNat ||| b.toNat)
def band (a b : Int) : Int := Int.ofNat (a.toNat &&& b.toNat)
def bxor (a b : Int) : Int := Int.ofNat (a.toNat ^^^ b.toNat)
def bandnot (a b : Int) : Int := Int.ofNat (a.toNat &&& (a.toNat ^^^ (a.toNat &&& b.toNat)))

def InU8  (x : Int) : Prop := 0 ≤ x ∧ x < 256
def InU16 (x : Int) : Prop := 0 ≤ x ∧ x < 65536
def InU32 (x : Int) : Prop := 0 ≤ x ∧ x < 4294967296
def InU64 (x : Int) : Prop := 0 ≤ x ∧ x < 18446744073709551616
def InI32 (x : Int) : Prop := -2147483648 ≤ x ∧ x < 2147483648
def InI64 (x : Int) : Prop := -9223372036854775808 ≤ x ∧ x < 9223372036854775808

instance (x : Int) : Decidable (InU8 x) := by unfold InU8; infer_instance
instance (x : Int) : Decidable (InU16 x) := by unfold InU16; infer_instance
instance (x : Int) : Decidable (InU32 x) := by unfold InU32; infer_instance
instance (x : Int) : Decidable (InU64 x) := by unfold InU64; infer_instance
instance (x : Int) : Decidable (InI32 x) := by unfold InI32; infer_instance
instance (x : Int) : Decidable (InI64 x) := by unfold InI64; infer_instance

end Capnp.Prelude
