/-!
# `copyStruct` (struct.go): what `Struct.CopyFrom`, `List.SetStruct` and every cross-message `SetPtr` do to the
destination's memory.

A segment is a list of bytes; the destination struct's data section is the `n` bytes at `off` (`n` need not be a
multiple of 8: an element of a `List(UInt8/16/32)` viewed as a struct has a 1/2/4-byte data section).  The pointer
section is modelled by the same function over abstract slots (`copySlots`): the copied pointer, or null.
-/
namespace Capnp.Model.CopyStruct

/-- `copy(dstData, srcData)` followed by the zeroing loop: the first `min` bytes are the source's, the rest 0 -/
def copyData (src : List Nat) (n : Nat) : List Nat :=
  src.take n ++ List.replicate (n - src.length) 0

/-- the same shape for the pointer section: source slots (deep copies), then nulls -/
def copySlots {α : Type} (null : α) (src : List α) (n : Nat) : List α :=
  src.take n ++ List.replicate (n - src.length) null

/-- the segment after the copy: bytes `[off, off+n)` replaced, everything else as it was -/
def copyInto (mem : List Nat) (off n : Nat) (src : List Nat) : List Nat :=
  mem.take off ++ copyData src n ++ mem.drop (off + n)

/-- variant A (round-5 change C17-9): zeroing starts at the next word boundary after the copied bytes -/
def copyDataPadWord (old src : List Nat) (n : Nat) : List Nat :=
  let c := min src.length n
  (List.range n).map (fun j => if j < c then src.getD j 0 else if j < (c + 7) / 8 * 8 then old.getD j 0 else 0)

/-- variant B (round-5 change C16-8): the destination slice is rounded up to whole words -/
def copyIntoPadDst (mem : List Nat) (off n : Nat) (src : List Nat) : List Nat :=
  copyInto mem off ((n + 7) / 8 * 8) src

end Capnp.Model.CopyStruct
