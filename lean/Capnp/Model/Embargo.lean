/-!
# Model of call ordering across promise resolution (embargo): `rpc/rpc.go` `parseReturn` / `handleDisembargo`,
# `rpc/export.go` `embargo`, seen together with a protocol-conforming peer

The scenario of the property: the local vat passed one of its own capabilities `X` to the peer in a call `c0`; it
pipelines calls on the result of `c0` (they travel to the peer as Calls on a promised answer); the peer answers `c0`
with `X` itself (`receiverHosted`), forwards the pipelined calls it received back to `X` in the order it received
them, and echoes the `Disembargo` only after every call that preceded it on the wire.  After the Return the
application calls `X` directly.

Both directions of the connection are FIFO and the peer forwards in order, so the path "local vat -> peer -> local
vat" is one queue (`loop`).  Calls are numbered in the order the application makes them.
-/
namespace Capnp.Model.Embargo

inductive Msg
  | call (tag : Nat)
  | dis                 -- the Disembargo (senderLoopback on its way out, receiverLoopback on its way back)
deriving Repr, DecidableEq

inductive Act
  | pipe      -- the application makes a pipelined call on the result of c0 (before the Return has been handled)
  | ret       -- the receive loop handles the Return of c0
  | direct    -- the application calls the resolved capability
  | reflect   -- the next message of the loop is a forwarded call: the receive loop delivers it to X
  | echo      -- the next message of the loop is the Disembargo: the embargo is lifted
deriving Repr, DecidableEq

structure ES where
  next : Nat := 0            -- calls made so far: they carry the tags 0, 1, 2, …
  nPipe : Nat := 0           -- how many of them were pipelined
  returned : Bool := false
  embargoed : Bool := false
  loop : List Msg := []      -- local vat -> peer -> local vat, oldest first
  parked : List Nat := []    -- direct calls waiting inside `embargo.Send` for the embargo to lift
  delivered : List Nat := [] -- calls delivered to X, in order
deriving Repr, DecidableEq

/-- `embargoes = true`: the code as it is.  `embargoes = false`: a Conn that resolves the promise without an embargo (what the protocol forbids). -/
def step (embargoes : Bool) (s : ES) : Act → Option ES
  | .pipe =>
    if s.returned then none else
    some { s with next := s.next + 1, nPipe := s.nPipe + 1, loop := s.loop ++ [.call s.next] }
  | .ret =>
    if s.returned then none else
    -- `parseReturn`: the result capability is local and a call was pipelined on its path: embargo it, send Disembargo
    if s.nPipe = 0 ∨ !embargoes then some { s with returned := true }
    else some { s with returned := true, embargoed := true, loop := s.loop ++ [.dis] }
  | .direct =>
    if !s.returned then none else
    if s.embargoed then some { s with next := s.next + 1, parked := s.parked ++ [s.next] }
    else some { s with next := s.next + 1, delivered := s.delivered ++ [s.next] }
  | .reflect =>
    if !s.returned then none else
    match s.loop with
    | .call t :: rest => some { s with loop := rest, delivered := s.delivered ++ [t] }
    | _ => none
  | .echo =>
    match s.loop with
    | .dis :: rest => some { s with loop := rest, embargoed := false, delivered := s.delivered ++ s.parked, parked := [] }
    | _ => none

def run (embargoes : Bool) (s : ES) : List Act → Option ES
  | [] => some s
  | a :: as => (step embargoes s a).bind (fun s' => run embargoes s' as)

end Capnp.Model.Embargo
