/-!
# Model of `server/server.go` (`Server.start`, the implementation goroutine, `Shutdown`) and of
# `server/answer.go` (`answerQueue`)

Every action is one critical section under `srv.mu` (resp. `aq.mu`) or one blocking wait between two
of them.  Calls carry identities and logical timestamps (ghost state) so that ordering statements can
be made about them; the server's own fields are `starting` (the admission gate: the id of the call
whose `start()` holds it), `slots` (the occupied entries of `srv.ongoing`), `full`, `drain`.

`m` is `Policy.MaxConcurrentCalls` (after defaulting, so `m ≥ 1`).
-/
namespace Capnp.Model.Server

/-- where a call's `start()` is -/
inductive Ph
  | absent      -- not made yet
  | gateWait    -- about to run the gate loop's critical section
  | parked      -- blocked on the `starting` channel of the call that held the gate (`waitOn`)
  | slotWait    -- holds the gate, waits on `full`
  | holding     -- holds the gate, implementation launched, waits for `ack` or `done`
  | out         -- `start()` returned (after ack or return): `Send`/`Recv` has returned to the caller
  | rejected    -- `start()` rejected the call (shutdown or cancelled while waiting); never launched
deriving Repr, DecidableEq

inductive Impl | notStarted | running | returned
deriving Repr, DecidableEq

structure Call where
  ph : Ph := .absent
  impl : Impl := .notStarted
  acked : Bool := false
  waitOn : Nat := 0              -- while parked: whose `starting` channel it waits on
  cancelled : Bool := false      -- the call's context is cancelled (by its caller or by Shutdown)
  returns : Nat := 0             -- times `Returner.Return` / `Reject` ran for this call
  tArrive : Nat := 0             -- ghost timestamps; 0 = not yet
  tStart : Nat := 0
  tSendRet : Nat := 0
deriving Repr, DecidableEq

structure SS where
  n : Nat                        -- calls made so far: ids `0 … n-1`
  calls : Nat → Call
  starting : Option Nat          -- `srv.starting != nil`, and who set it
  slots : List Nat               -- ids occupying `srv.ongoing`
  full : Bool                    -- `srv.full != nil`
  drain : Nat                    -- 0: nil, 1: made, 2: closed
  tDrain : Nat                   -- when `Shutdown` made `drain`
  shutPending : Bool             -- `Shutdown` is between its critical section and the user's Shutdown
  userShutdowns : Nat
  clock : Nat
  panicked : Bool                -- `srv.ongoing[-1]`

inductive Act
  | arrive                       -- a caller invokes Send/Recv: `start()` begins
  | enter (k : Nat)              -- the gate loop's critical section
  | wakeGate (k : Nat)           -- `<-wait` fired: the holder it waited on released the gate
  | cancel (k : Nat)             -- the caller cancels the call's context
  | abortWait (k : Nat)          -- `<-ctx.Done()` while waiting for the gate or for a slot
  | slotWake (k : Nat)           -- `<-full` fired: the section after the slot wait
  | implAck (k : Nat)            -- the implementation calls `Ack`
  | implRet (k : Nat)            -- the implementation returned: Return, then the slot-freeing section
  | release (k : Nat)            -- `start()` saw `ack`/`done`: clears `starting`, returns
  | shutdown1                    -- `Shutdown`'s critical section
  | shutdown2                    -- `<-srv.drain`, then the user's `Shutdown`
deriving Repr, DecidableEq

def init : SS :=
  { n := 0, calls := fun _ => {}, starting := none, slots := [], full := false, drain := 0, tDrain := 0,
    shutPending := false, userShutdowns := 0, clock := 1, panicked := false }

def upd (f : Nat → Call) (k : Nat) (c : Call) : Nat → Call := fun x => if x = k then c else f x

/-- launch the implementation of `k` in a free slot -/
def launch (s : SS) (k : Nat) : SS :=
  let c := s.calls k
  { s with calls := upd s.calls k { c with ph := .holding, impl := .running, tStart := s.clock },
           slots := k :: s.slots, clock := s.clock + 1 }

def reject (s : SS) (k : Nat) : SS :=
  let c := s.calls k
  { s with calls := upd s.calls k { c with ph := .rejected, returns := c.returns + 1, tSendRet := s.clock },
           clock := s.clock + 1 }

def step (m : Nat) (s : SS) : Act → Option SS
  | .arrive =>
    some { s with n := s.n + 1, calls := upd s.calls s.n { ph := .gateWait, tArrive := s.clock }, clock := s.clock + 1 }
  | .enter k =>
    if (s.calls k).ph ≠ .gateWait then none else
    if s.drain ≠ 0 then some (reject s k) else
    match s.starting with
    | some h => some { s with calls := upd s.calls k { s.calls k with ph := .parked, waitOn := h } }   -- waits on `srv.starting`
    | none =>
    let s := { s with starting := some k }
    if s.slots.length < m then some (launch s k)
    else some { s with calls := upd s.calls k { s.calls k with ph := .slotWait }, full := true }
  | .wakeGate k =>
    if (s.calls k).ph ≠ .parked ∨ s.starting = some (s.calls k).waitOn then none else
    some { s with calls := upd s.calls k { s.calls k with ph := .gateWait } }
  | .cancel k =>
    if (s.calls k).ph = .absent then none else
    some { s with calls := upd s.calls k { s.calls k with cancelled := true } }
  | .abortWait k =>
    if !(s.calls k).cancelled then none else
    match (s.calls k).ph with
    | .parked => some (reject s k)
    | .slotWait => some (reject { s with starting := none, full := false } k)
    | _ => none
  | .slotWake k =>
    if (s.calls k).ph ≠ .slotWait ∨ s.full then none else    -- `full` was closed (and cleared) by a returning call
    if s.drain ≠ 0 then some (reject { s with starting := none } k) else
    if s.slots.length < m then some (launch s k)
    else some { s with panicked := true }                      -- `nextID() = -1` would index `ongoing[-1]`
  | .implAck k =>
    if (s.calls k).impl ≠ .running then none else
    some { s with calls := upd s.calls k { s.calls k with acked := true } }
  | .implRet k =>
    if (s.calls k).impl ≠ .running then none else
    let c := s.calls k
    let slots := s.slots.erase k
    some { s with calls := upd s.calls k { c with impl := .returned, returns := c.returns + 1 },
                  slots := slots, drain := if s.drain = 1 ∧ slots = [] then 2 else s.drain, full := false }
  | .release k =>
    let c := s.calls k
    if c.ph ≠ .holding ∨ !(c.acked || decide (c.impl = .returned)) then none else
    some { s with calls := upd s.calls k { c with ph := .out, tSendRet := s.clock }, starting := none,
                  clock := s.clock + 1 }
  | .shutdown1 =>
    if s.drain ≠ 0 then none else                              -- documented misuse: Shutdown only once
    some { s with drain := if s.slots = [] then 2 else 1, tDrain := s.clock, clock := s.clock + 1, shutPending := true,
                  calls := fun x => if x ∈ s.slots then { s.calls x with cancelled := true } else s.calls x }
  | .shutdown2 =>
    if s.drain ≠ 2 ∨ !s.shutPending then none else
    some { s with shutPending := false, userShutdowns := s.userShutdowns + 1 }

def run (m : Nat) (s : SS) : List Act → Option SS
  | [] => some s
  | a :: as => (step m s a).bind (fun s' => run m s' as)

/-! ## the answer queue of one call: pipelined calls made before the call returned -/

inductive QSt | queueing | draining | drained
deriving Repr, DecidableEq

structure AQ where
  st : QSt
  ok : Bool                      -- fulfill (true) or reject (false); meaningful once not queueing
  q : List Nat                   -- `aq.q`
  taken : List Nat               -- the local copy `q` that fulfill/reject is still walking through
  blocked : List Nat             -- callers waiting on `draining` / `ready`
  out : List Nat                 -- delivery log (or failure log when rejected), oldest first
  queuedLog : List Nat           -- ghost: every id ever appended to `aq.q`, in order
  next : Nat                     -- ghost: next pipelined call id
deriving Repr, DecidableEq

inductive QAct
  | pcall                        -- `queueCaller.PipelineRecv`, first section
  | begin (ok : Bool)            -- `fulfill` / `reject`: the section that takes the queue
  | deliverNext                  -- one iteration of the drain loop
  | finish                       -- `close(ready)` at the end of `fulfill`
  | wake (k : Nat)               -- a blocked caller proceeds
deriving Repr, DecidableEq

def qinit : AQ := { st := .queueing, ok := true, q := [], taken := [], blocked := [], out := [], queuedLog := [], next := 0 }

def qstep (cap : Nat) (s : AQ) : QAct → Option AQ
  | .pcall =>
    let k := s.next
    match s.st with
    | .queueing =>
      if s.q.length < cap then some { s with q := s.q ++ [k], queuedLog := s.queuedLog ++ [k], next := k + 1 }
      else some { s with blocked := k :: s.blocked, next := k + 1 }
    | .draining => some { s with blocked := k :: s.blocked, next := k + 1 }
    | .drained => some { s with out := s.out ++ [k], next := k + 1 }
  | .begin ok =>
    if s.st ≠ .queueing then none else
    some { s with st := .draining, ok := ok, taken := s.q, q := [] }
  | .deliverNext =>
    if s.st ≠ .draining then none else
    match s.taken with
    | [] => none
    | h :: t => some { s with taken := t, out := s.out ++ [h] }
  | .finish =>
    if s.st ≠ .draining ∨ s.taken ≠ [] then none else some { s with st := .drained }
  | .wake k =>
    -- `ready` is closed at the end of fulfill, but at once by reject
    if k ∉ s.blocked ∨ s.st = .queueing ∨ (s.st = .draining ∧ s.ok) then none else
    some { s with blocked := s.blocked.erase k, out := s.out ++ [k] }

def qrun (cap : Nat) (s : AQ) : List QAct → Option AQ
  | [] => some s
  | a :: as => (qstep cap s a).bind (fun s' => qrun cap s' as)

end Capnp.Model.Server
