import Capnp.Gen.Core
/-!
# Model of stream framing (`message.go`: `Marshal`, `Encoder.Encode`, `Decoder.Decode`, `Unmarshal`)

Bytes are `List Nat` (each < 256).  The header arithmetic (`streamHeaderSize`, the per-segment
`wordSize.times`) is the **generated** code of `Capnp.Gen.Core`; the control flow is transcribed by
hand and tied to the code by the `frame` correspondence stream.  A reader is modelled by the bytes it
will still deliver: `io.ReadFull` of `n > 0` bytes yields `io.EOF` when nothing is left,
`io.ErrUnexpectedEOF` when fewer than `n` are left.
-/
namespace Capnp.Model.Framing
open Capnp.Prelude Capnp.Gen

def le32 (b : List Nat) : Nat := b.getD 0 0 + 256 * b.getD 1 0 + 65536 * b.getD 2 0 + 16777216 * b.getD 3 0

def put32 (n : Nat) : List Nat := [n % 256, n / 256 % 256, n / 65536 % 256, n / 16777216 % 256]

/-- `Message.Marshal` / `Encoder.Encode` (unpacked): segment table, padding to a word, segments -/
def encodeFrame (segs : List (List Nat)) : List Nat :=
  let hdr := put32 (segs.length - 1) ++ segs.flatMap (fun s => put32 (s.length / 8))
  let hdr := if hdr.length % 8 = 0 then hdr else hdr ++ [0, 0, 0, 0]
  hdr ++ segs.flatten

inductive DRes
  | ok (segs : List (List Nat)) (rest : List Nat)     -- a message, and what the reader has left
  | eof                                                -- `io.EOF`: clean end of stream
  | err                                                -- any other error
deriving Repr, DecidableEq

def defaultDecodeLimit : Nat := 64 * 1024 * 1024

/-- segment sizes from the table: `streamHeader.segmentSize` for `i = 0..maxSeg`; `none` on overflow -/
def segSizes (tbl : List Nat) : Nat → Nat → Option (List Nat)
  | _, 0 => some []
  | i, n + 1 =>
    let s := le32 (tbl.drop (4 + 4 * i))
    let r := Size_times 8 (wrapI32 s)
    if !r.2 then none else (segSizes tbl (i + 1) n).map (fun rest => r.1.toNat :: rest)

/-- cut `data` into segments of the given sizes (`demuxArena`) -/
def demux : List Nat → List Nat → List (List Nat)
  | [], _ => []
  | sz :: szs, data => data.take sz :: demux szs (data.drop sz)

/-- `Decoder.Decode` on a reader that will deliver exactly `inp` -/
def decodeFrame (maxMessageSize : Nat) (inp : List Nat) : DRes :=
  if maxMessageSize ≠ 0 ∧ maxMessageSize < 8 then .err else
  let maxSize := if maxMessageSize = 0 then defaultDecodeLimit else maxMessageSize
  if inp.length = 0 then .eof else
  if inp.length < 8 then .err else
  let maxSeg := le32 inp
  if maxSeg > 512 then .err else
  let hdrSize := if maxSeg = 0 then 8 else (streamHeaderSize maxSeg).toNat
  if hdrSize > maxSize then .err else
  if inp.length < hdrSize then .err else
  match segSizes inp 0 (maxSeg + 1) with
  | none => .err
  | some sizes =>
    let total := sizes.foldl (· + ·) 0
    if total > maxSize - hdrSize then .err else
    let body := inp.drop hdrSize
    if body.length < total then .err else
    .ok (demux sizes body) (body.drop total)

/-- `Unmarshal(data)`: `none` = error; trailing bytes are ignored -/
def unmarshal (data : List Nat) : Option (List (List Nat)) :=
  if data.length = 0 then none else
  if data.length < 8 then none else
  let maxSeg := le32 data
  let hdrSize := (streamHeaderSize maxSeg).toNat
  if data.length < hdrSize then none else
  match segSizes data 0 (maxSeg + 1) with
  | none => none
  | some sizes =>
    let total := sizes.foldl (· + ·) 0
    let body := data.drop hdrSize
    if total > body.length then none else some (demux sizes body)

/-- decode until end of stream or error: the messages and whether the stream ended cleanly -/
def decodeAll (maxMessageSize : Nat) : Nat → List Nat → List (List (List Nat)) × Bool
  | 0, _ => ([], false)
  | fuel + 1, inp =>
    match decodeFrame maxMessageSize inp with
    | .eof => ([], true)
    | .err => ([], false)
    | .ok segs rest => let r := decodeAll maxMessageSize fuel rest; (segs :: r.1, r.2)

end Capnp.Model.Framing
