import Capnp.Spec.Packing
/-!
# Model of `internal/packed/packed.go`

Hand-written executable model of `Pack`, `Unpack` (both the ≥8-bytes fast path and the
byte-wise slow path of the word loop) and of the streaming `Reader.ReadWord` state machine.
Tied to the Go code by the correspondence stream `packed` of the harness.
-/
namespace Capnp.Model.Packed
open Capnp.Spec.Packing

abbrev Word := List UInt8

/-! ## Pack -/

/-- `hdr |= 1 << i` for every non-zero byte `i` -/
def tagOfBits : List Bool → Nat
  | [] => 0
  | b :: bs => (if b then 1 else 0) + 2 * tagOfBits bs

def tagOf (w : Word) : UInt8 := UInt8.ofNat (tagOfBits (w.map (· != 0)))

def isZeroWord (w : Word) : Bool := w.all (· == 0)

/-- `numZeroWords`: number of leading all-zero words -/
def numZeroWords : List Word → Nat
  | [] => 0
  | w :: ws => if isZeroWord w then 1 + numZeroWords ws else 0

def zerosIn (w : Word) : Nat := (w.filter (· == 0)).length

/-- the literal-run loop of `Pack`: words with at most one zero byte, at most `limit` of them -/
def literalRun : Nat → List Word → Nat
  | 0, _ => 0
  | _, [] => 0
  | k + 1, w :: ws => if zerosIn w > 1 then 0 else 1 + literalRun k ws

/-- `Pack` over a list of 8-byte words; fuel is the number of words (see `pack`). -/
def packFuel : Nat → List Word → List UInt8
  | _, [] => []
  | 0, _ :: _ => []
  | f + 1, w :: ws =>
    let hdr := tagOf w
    let nz := w.filter (· != 0)
    if hdr = 0 then
      let z := min (numZeroWords ws) 255
      hdr :: nz ++ [UInt8.ofNat z] ++ packFuel f (ws.drop z)
    else if hdr = 255 then
      let i := literalRun 255 ws
      hdr :: nz ++ [UInt8.ofNat i] ++ (ws.take i).flatten ++ packFuel f (ws.drop i)
    else hdr :: nz ++ packFuel f ws

def pack (ws : List Word) : List UInt8 := packFuel ws.length ws

/-- split a byte string whose length is a multiple of 8 into words -/
def toWords : Nat → List UInt8 → List Word
  | 0, _ => []
  | _, [] => []
  | f + 1, s => s.take 8 :: toWords f (s.drop 8)

/-! ## Unpack (one shot) -/

/-- the unrolled fast path: `p[k] = src[i] & -nz; i += nz` for k = 0..7; needs `src.length ≥ 8` -/
def fastWord : List Bool → List UInt8 → Nat → List UInt8 × Nat
  | [], _, i => ([], i)
  | b :: bs, src, i =>
    let p := if b then src.getD i 0 else 0
    let r := fastWord bs src (if b then i + 1 else i)
    (p :: r.1, r.2)

/-- the slow path: byte by byte; `none` = `io.ErrUnexpectedEOF` -/
def slowWord : List Bool → List UInt8 → Option (List UInt8 × List UInt8)
  | [], s => some ([], s)
  | false :: bs, s => (slowWord bs s).map (fun p => (0 :: p.1, p.2))
  | true :: _, [] => none
  | true :: bs, x :: s => (slowWord bs s).map (fun p => (x :: p.1, p.2))

/-- result of `Unpack`: the bytes appended to `dst`, and whether `err == nil` -/
def goUnpackFuel : Nat → List UInt8 → List UInt8 × Bool
  | _, [] => ([], true)
  | 0, _ :: _ => ([], false)
  | fuel + 1, tag :: src =>
    let wr : Option (List UInt8 × List UInt8) :=
      if src.length ≥ 8 then
        let r := fastWord (bitsOfTag tag) src 0
        some (r.1, src.drop r.2)
      else slowWord (bitsOfTag tag) src
    match wr with
    | none => (zeros 8, false)       -- dst already grown by one (partially filled) word
    | some (w, src) =>
      if tag = 0 then
        match src with
        | [] => (w, false)
        | n :: src =>
          let r := goUnpackFuel fuel src
          (w ++ zeros (8 * n.toNat) ++ r.1, r.2)
      else if tag = 255 then
        match src with
        | [] => (w, false)
        | n :: src =>
          let k := min (8 * n.toNat) src.length            -- `copy(dst[start:], src)`
          let lit := src.take k ++ zeros (8 * n.toNat - k)
          if k < 8 * n.toNat then (w ++ lit, false)        -- truncated literal run (fix D5a)
          else
            let r := goUnpackFuel fuel (src.drop k)
            (w ++ lit ++ r.1, r.2)
      else
        let r := goUnpackFuel fuel src
        (w ++ r.1, r.2)

def goUnpack (s : List UInt8) : List UInt8 × Bool := goUnpackFuel s.length s

/-! ## Streaming reader -/

inductive RErr | eof | unexpected
deriving Repr, DecidableEq

structure RState where
  rest    : List UInt8        -- what the underlying `bufio.Reader` will still deliver
  err     : Option RErr       -- deferred error
  zeroes  : Nat
  literal : Nat
deriving Repr

def RState.init (s : List UInt8) : RState := ⟨s, none, 0, 0⟩

/-- after the word: read the count byte of a `0x00` / `0xff` tag -/
def afterTag (tag : UInt8) (rest : List UInt8) : RState :=
  if tag = 0 then
    match rest with
    | [] => ⟨[], some .unexpected, 0, 0⟩
    | z :: r => ⟨r, none, z.toNat, 0⟩
  else if tag = 255 then
    match rest with
    | [] => ⟨[], some .unexpected, 0, 0⟩
    | l :: r => ⟨r, none, 0, l.toNat⟩
  else ⟨rest, none, 0, 0⟩

/-- `Reader.ReadWord`; `buffered` is what `r.rd.Buffered()` returns (environment oracle). -/
def readWord (st : RState) (buffered : Nat) : RState × Except RErr (List UInt8) :=
  match st.err with
  | some e => ({ st with err := none }, .error e)
  | none =>
    if st.zeroes > 0 then ({ st with zeroes := st.zeroes - 1 }, .ok (zeros 8))
    else if st.literal > 0 then
      -- io.ReadFull(r.rd, p); a literal run that ends early is never a clean EOF (fix D6)
      if st.rest.length ≥ 8 then
        ({ st with literal := st.literal - 1, rest := st.rest.drop 8 }, .ok (st.rest.take 8))
      else ({ st with literal := st.literal - 1, rest := [] }, .error .unexpected)
    else
      match st.rest with
      | [] => (st, .error .eof)
      | tag :: src =>
        if buffered ≥ 9 ∧ src.length ≥ 8 then
          let r := fastWord (bitsOfTag tag) src 0
          (afterTag tag (src.drop r.2), .ok r.1)
        else
          match slowWord (bitsOfTag tag) src with
          | none => (⟨[], none, 0, 0⟩, .error .unexpected)
          | some (w, src) => (afterTag tag src, .ok w)

/-- read words until an error; returns the bytes and whether the stream ended cleanly (`io.EOF`) -/
def readAll : Nat → RState → (Nat → Nat) → Nat → List UInt8 × Bool
  | 0, _, _, _ => ([], false)
  | fuel + 1, st, oracle, k =>
    match readWord st (oracle k) with
    | (_, .error .eof) => ([], true)
    | (_, .error .unexpected) => ([], false)
    | (st', .ok w) =>
      let r := readAll fuel st' oracle (k + 1)
      (w ++ r.1, r.2)

end Capnp.Model.Packed
