/-!
# `answer.Return` failing to complete a Return (rpc/answer.go), and who runs the Conn's shutdown

The goroutine of a call's implementation (`server.start`'s goroutine: the *handler*) calls `Returner.Return`; when the
Return cannot be completed the Conn is shut down.  `Conn.shutdown` releases the exported capabilities; releasing a
`server.Server` runs `Server.Shutdown`, which waits until none of its calls is ongoing — and the handler's call stays
ongoing until `Return` has come back to it.

`sync = true` is the pinned code (the handler itself runs `shutdown`), `sync = false` the repaired one (`go c.abort(err)`).
-/
namespace Capnp.Model.ReturnAbort

inductive Phase
  | inReturn        -- the handler is inside `Return`, about to abort the Conn
  | waitShutdown    -- (pinned) the handler is inside `shutdown`, which it called itself
  | afterReturn     -- `Return` has come back; the handler is about to mark its call finished
  | finished        -- the call is no longer ongoing
deriving DecidableEq, Repr

inductive Shut
  | notStarted | waitingForCalls | done
deriving DecidableEq, Repr

structure St where
  handler : Phase
  shut : Shut
deriving DecidableEq, Repr

def init : St := { handler := .inReturn, shut := .notStarted }

inductive Act
  | abort           -- the handler reaches the failure branch of `Return`
  | handlerReturns  -- `Return` comes back to `server.start`'s goroutine
  | handlerFinishes -- `srv.ongoing[id]` is cleared
  | shutdownPasses  -- `Server.Shutdown` finds no ongoing call and returns; `Conn.shutdown` goes on to send the Abort
deriving DecidableEq, Repr

def step (sync : Bool) (s : St) : Act → Option St
  | .abort =>
    if s.handler = .inReturn ∧ s.shut = .notStarted then
      some (if sync then { handler := .waitShutdown, shut := .waitingForCalls }   -- runs shutdown itself: comes back when it is done
            else { handler := .afterReturn, shut := .waitingForCalls })           -- another goroutine runs it; Return comes back
    else none
  | .handlerReturns =>
    if s.handler = .waitShutdown ∧ s.shut = .done then some { s with handler := .afterReturn } else none
  | .handlerFinishes =>
    if s.handler = .afterReturn then some { s with handler := .finished } else none
  | .shutdownPasses =>
    if s.shut = .waitingForCalls ∧ s.handler = .finished then some { s with shut := .done } else none

def run (sync : Bool) (s : St) : List Act → Option St
  | [] => some s
  | a :: as => match step sync s a with | some s' => run sync s' as | none => none

def finished (s : St) : Prop := s.handler = .finished ∧ s.shut = .done

end Capnp.Model.ReturnAbort
