import Capnp.Gen.Strquote
/-!
# Model of `internal/strquote.Append`

The per-byte decision `needsEscape` is the generated code; the loop (copy unescaped runs, emit the
escape for each byte that needs one) and `hexDigit` are transcribed by hand.
-/
namespace Capnp.Model.Quote
open Capnp.Gen.Strquote

def hexDigit (n : Nat) : Nat := if n < 10 then 48 + n else 87 + n     -- "0123456789abcdef"[n]

/-- what `Append` emits for one byte -/
def quoteByte (b : Nat) : List Nat :=
  if !needsEscape b then [b]
  else if b = 7 then [92, 97] else if b = 8 then [92, 98] else if b = 12 then [92, 102]
  else if b = 10 then [92, 110] else if b = 13 then [92, 114] else if b = 9 then [92, 116]
  else if b = 11 then [92, 118] else if b = 39 then [92, 39] else if b = 34 then [92, 34]
  else if b = 92 then [92, 92]
  else [92, 120, hexDigit (b / 16), hexDigit (b % 16)]

/-- `strquote.Append(nil, s)` -/
def quote (s : List Nat) : List Nat := 34 :: (s.flatMap quoteByte ++ [34])

end Capnp.Model.Quote
