/-!
# Model of joined promises and their pipelined clients (`answer.go`: `Promise.Join`, `Future.Client`,
# `Promise.Fulfill`, `Promise.ReleaseClients`), sequential

Promises are numbered.  Following `next` pointers from a promise ends at the promise that holds the chain's
pipelined-client table and `clientsRefs`; the model keeps that end point directly (`root`), updated at every join
the way the pointer chain changes.  One client path is modelled (the table row of that path); a second request
for the path returns the row's first client, as the code does.

`leafFlag = true` is a variant in which `ReleaseClients` marks the end of the chain instead of its receiver as
released (a plausible slip): the theorems below fail for it, as the witness shows.
-/
namespace Capnp.Model.JoinRefs

structure JS where
  n : Nat := 0                              -- promises created: ids 0 … n-1
  root : Nat → Nat := fun i => i            -- where the `next` chain from i ends
  joined : Nat → Bool := fun _ => false     -- i has been joined onto another promise (`next != nil`)
  resolved : Nat → Bool := fun _ => false   -- a chain end that has been fulfilled / rejected
  refs : Nat → Nat := fun _ => 1            -- `clientsRefs` (meaningful at chain ends; 0 once joined)
  released : Nat → Bool := fun _ => false   -- `releasedClients`
  row : Nat → List Nat := fun _ => []       -- the client table row of a chain end
  nextClient : Nat := 0
  -- ghost
  live : Nat → Bool := fun _ => false       -- client c has been handed out and not released
  drops : Nat → Nat := fun _ => 0           -- how often client c was released

inductive Op
  | new                      -- NewPromise
  | client (i : Nat)         -- promise i's Answer().Field(path).Client()
  | join (c p : Nat)         -- c.Join(p.Answer())
  | fulfill (i : Nat)
  | release (i : Nat)        -- i.ReleaseClients()
deriving Repr, DecidableEq

def setAt {α} (f : Nat → α) (k : Nat) (v : α) : Nat → α := fun x => if x = k then v else f x

/-- release every client of a row -/
def dropAll (s : JS) (cs : List Nat) : JS :=
  { s with live := fun c => if c ∈ cs then false else s.live c,
           drops := fun c => s.drops c + cs.count c }

/-- one operation; `none` = the operation is not allowed here (misuse, or it would block) -/
def step (leafFlag : Bool) (s : JS) : Op → Option JS
  | .new => some { s with n := s.n + 1 }
  | .client i =>
    if i ≥ s.n then none else
    let l := s.root i
    if s.resolved l then some s                       -- the client found in the result: not a pipelined client
    else match s.row l with
      | _ :: _ => some s                              -- the row's first client again
      | [] => some { s with row := setAt s.row l [s.nextClient], nextClient := s.nextClient + 1,
                             live := setAt s.live s.nextClient true }
  | .join c p =>
    -- c must be unresolved and not joined yet; joining a chain onto itself deadlocks (excluded)
    if c ≥ s.n ∨ p ≥ s.n ∨ s.joined c ∨ s.resolved c ∨ s.root p = c then none else
    let l := s.root p
    if s.resolved l then
      some { s with resolved := setAt s.resolved c true }         -- `p.resolve(parent's result)`
    else
      some { s with joined := setAt s.joined c true,
                    root := fun x => if s.root x = c then l else s.root x,
                    row := setAt (setAt s.row l (s.row l ++ s.row c)) c [],
                    refs := setAt (setAt s.refs l (s.refs l + s.refs c)) c 0 }
  | .fulfill i =>
    if i ≥ s.n ∨ s.joined i ∨ s.resolved i then none else
    some { s with resolved := setAt s.resolved i true }
  | .release i =>
    if i ≥ s.n then none else
    let l := s.root i
    if !s.resolved l then none else                     -- `<-p.resolved` blocks
    if s.released i then some s else                    -- repeated calls do nothing
    let mark := if leafFlag then l else i
    let s1 := { s with released := setAt s.released mark true, refs := setAt s.refs l (s.refs l - 1) }
    if s.refs l - 1 > 0 then some s1
    else some (dropAll { s1 with row := setAt s1.row l [] } (s.row l))

def run (leafFlag : Bool) (s : JS) : List Op → Option JS
  | [] => some s
  | o :: os => (step leafFlag s o).bind (fun s' => run leafFlag s' os)

end Capnp.Model.JoinRefs
