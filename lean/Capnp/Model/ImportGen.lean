/-!
# Model of the import generation race (`rpc/import.go`: `addImport`, `importClient.Shutdown`; `capability.go`: the
# last `Release` of a client)

One import id.  Actions are the critical sections under `Conn.mu`, plus the moment a client loses its last strong
reference (after which its `Shutdown` will run, but may have to wait for `Conn.mu` — any number of other actions can
come first).  Clients (`importClient` values) are numbered in creation order; each carries the generation it was
created with.

`fixed = false` is the code as pinned: a new table entry starts at generation 0 and re-creations count up from the
entry's own value, so a generation can recur.  `fixed = true` takes every generation from a per-connection counter.
-/
namespace Capnp.Model.ImportGen

structure Cl where
  gen : Nat := 0
  refs : Nat := 0            -- strong references (handles, capability tables)
  pending : Bool := false    -- the last reference is gone; `Shutdown` has not had `Conn.mu` yet
deriving Repr, DecidableEq

structure Entry where
  wireRefs : Nat
  gen : Nat
  cur : Nat                  -- the client the entry's weak reference points to
deriving Repr, DecidableEq

structure GS where
  entry : Option Entry := none
  counter : Nat := 0                     -- `Conn.importGeneration`
  n : Nat := 0                           -- clients created
  cl : Nat → Cl := fun _ => {}
  -- ghost
  received : Nat := 0                    -- descriptors received for the id
  released : Nat := 0                    -- sum of the counts of the Release messages sent

inductive Act
  | recv                 -- a descriptor for the id arrives: `addImport`
  | drop (k : Nat)       -- client k loses one strong reference
  | shutdown (k : Nat)   -- client k's `Shutdown` gets `Conn.mu`
deriving Repr, DecidableEq

def setCl (f : Nat → Cl) (k : Nat) (v : Cl) : Nat → Cl := fun x => if x = k then v else f x

def step (fixed : Bool) (s : GS) : Act → Option GS
  | .recv =>
    match s.entry with
    | none =>
      let g := if fixed then s.counter + 1 else 0
      some { s with entry := some { wireRefs := 1, gen := g, cur := s.n }, counter := s.counter + 1, n := s.n + 1,
                    cl := setCl s.cl s.n { gen := g, refs := 1 }, received := s.received + 1 }
    | some e =>
      if (s.cl e.cur).refs > 0 then
        -- the weak reference can be upgraded
        some { s with entry := some { e with wireRefs := e.wireRefs + 1 },
                      cl := setCl s.cl e.cur { s.cl e.cur with refs := (s.cl e.cur).refs + 1 }, received := s.received + 1 }
      else
        let g := if fixed then s.counter + 1 else e.gen + 1
        some { s with entry := some { wireRefs := e.wireRefs + 1, gen := g, cur := s.n }, counter := s.counter + 1, n := s.n + 1,
                      cl := setCl s.cl s.n { gen := g, refs := 1 }, received := s.received + 1 }
  | .drop k =>
    if k ≥ s.n ∨ (s.cl k).refs = 0 then none else
    let c := s.cl k
    some { s with cl := setCl s.cl k { c with refs := c.refs - 1, pending := decide (c.refs = 1) } }
  | .shutdown k =>
    if k ≥ s.n ∨ (s.cl k).pending = false then none else
    let s1 := { s with cl := setCl s.cl k { s.cl k with pending := false } }
    match s.entry with
    | some e => if e.gen = (s.cl k).gen then some { s1 with entry := none, released := s.released + e.wireRefs } else some s1
    | none => some s1

def run (fixed : Bool) (s : GS) : List Act → Option GS
  | [] => some s
  | a :: as => (step fixed s a).bind (fun s' => run fixed s' as)

end Capnp.Model.ImportGen
