import Capnp.Gen.Core
/-!
# Model of the read path (`segment.go`, `struct.go`, `list.go`, `pointer.go`, `message.go`)

Hand-written on top of the **generated** arithmetic of `Capnp.Gen.Core` (addresses, sizes, raw
pointer fields): every bounds computation below is the Go expression translated by `go2lean`,
so a change to `address.go` / `rawpointer.go` changes these definitions on the next run.
The control structure of `resolveFarPointer`, `readStructPtr`, `readListPtr`, `readPtr` and of the
accessors is transcribed by hand and tied to the code by the `read` correspondence stream.

Conventions (DESIGN.md 4): integers are `Int` in the range of their Go type; a Go panic
(explicit, or a slice/index fault with `cap == len`) is the value `.error (.panic _)`.
-/
namespace Capnp.Model.Read
open Capnp.Prelude Capnp.Gen

/-- a message as the reader sees it: the loaded segments' bytes -/
structure Msg where
  segs : Array ByteArray

def Msg.numSegs (m : Msg) : Int := m.segs.size
def Msg.seg (m : Msg) (id : Nat) : ByteArray := m.segs.getD id ByteArray.empty
def Msg.segLen (m : Msg) (id : Nat) : Int := (m.seg id).size

def byteAt (d : ByteArray) (i : Nat) : Nat := (d.get! i).toNat

/-- little-endian read of `n` bytes -/
def leRead (d : ByteArray) (a : Nat) : Nat → Nat
  | 0 => 0
  | n + 1 => byteAt d a + 256 * leRead d (a + 1) n

/-- `s.slice(base, sz)`: Go's `s.data[base : base.addSizeUnchecked(sz)]` with `cap == len` -/
def sliceOk (len base sz : Int) : Bool :=
  let e := address_addSizeUnchecked base sz
  decide (base ≤ e) && decide (e ≤ len)

/-- `readUintN` through `slice`; panics exactly where Go's slice expression does -/
def readUint (m : Msg) (seg : Nat) (addr : Int) (n : Nat) : Except Err Int :=
  if sliceOk (m.segLen seg) addr n then .ok (leRead (m.seg seg) addr.toNat n)
  else .error (.panic "slice bounds out of range")

def readRawPointer (m : Msg) (seg : Nat) (addr : Int) : Except Err Int := readUint m seg addr 8

/-- `Segment.regionInBounds` -/
def regionInBounds (m : Msg) (seg : Nat) (base sz : Int) : Bool :=
  let r := address_addSize base sz
  if !r.2 then false else decide (r.1 ≤ wrapU32 (m.segLen seg))

/-- `Segment.lookupSegment` / `Message.Segment`: ids beyond the arena are an error -/
def lookupSegment (m : Msg) (cur : Nat) (id : Int) : Except Err Nat :=
  if id = cur then .ok cur
  else if id ≥ m.numSegs then .error (.err "segment out of bounds")
  else .ok id.toNat

/-! ## objects handed out by the reader -/

structure StructP where
  seg : Nat
  off : Int
  size : ObjectSize
  depth : Int            -- `depthLimit uint`
  listMember : Bool
deriving Repr, BEq, DecidableEq, Inhabited

/-- list flags as in `list.go` -/
def isCompositeList : Int := 1
def isBitList : Int := 2

structure ListP where
  seg : Nat
  off : Int
  length : Int
  size : ObjectSize
  depth : Int
  flags : Int            -- 0, isCompositeList or isBitList
deriving Repr, BEq, DecidableEq, Inhabited

inductive Ptr
  | null
  | struct (s : StructP)
  | list (l : ListP)
  | cap (seg : Nat) (idx : Int)
deriving Repr, BEq, DecidableEq, Inhabited

/-- `Segment.resolveFarPointer`: destination segment, base address, resolved pointer word -/
def resolveFarPointer (m : Msg) (seg : Nat) (paddr : Int) : Except Err (Nat × Int × Int) :=
  Err.bind (readRawPointer m seg paddr) fun val =>
  if rawPointer_pointerType val = 6 then           -- doubleFarPointer
    Err.bind (lookupSegment m seg (rawPointer_farSegment val)) fun padSeg =>
    let padAddr := rawPointer_farAddress val
    if !regionInBounds m padSeg padAddr 16 then .error (.err "double-far pointer: address out of bounds") else
    Err.bind (readRawPointer m padSeg padAddr) fun far =>
    if rawPointer_pointerType far ≠ 2 then .error (.err "double-far pointer: first word in landing pad is not a far pointer") else
    let r := address_addSize padAddr 8
    if !r.2 then .error (.err "double-far pointer: landing pad address overflow") else
    Err.bind (readRawPointer m padSeg r.1) fun tag =>
    let pt := rawPointer_pointerType tag
    if (pt ≠ 0 ∧ pt ≠ 1) ∨ rawPointer_offset tag ≠ 0 then
      .error (.err "double-far pointer: second word is not a struct or list with zero offset") else
    Err.bind (lookupSegment m seg (rawPointer_farSegment far)) fun dst =>
    .ok (dst, 0, landingPadNearPointer far tag)
  else if rawPointer_pointerType val = 2 then      -- farPointer
    Err.bind (lookupSegment m seg (rawPointer_farSegment val)) fun dst =>
    let padAddr := rawPointer_farAddress val
    if !regionInBounds m dst padAddr 8 then .error (.err "far pointer: address out of bounds") else
    let r := address_addSize padAddr 8
    if !r.2 then .error (.err "far pointer: landing pad address overflow") else
    Err.bind (readRawPointer m dst padAddr) fun v => .ok (dst, r.1, v)
  else
    let r := address_addSize paddr 8
    if !r.2 then .error (.err "pointer base address overflow") else
    .ok (seg, r.1, val)

/-- `Segment.readStructPtr` (depth is filled in by `readPtr`) -/
def readStructPtr (m : Msg) (seg : Nat) (base val : Int) : Except Err StructP :=
  let r := pointerOffset_resolve (rawPointer_offset val) base
  if !r.2 then .error (.err "struct pointer: invalid address") else
  let sz := rawPointer_structSize val
  if !regionInBounds m seg r.1 (ObjectSize_totalSize sz) then .error (.err "struct pointer: invalid address") else
  .ok { seg := seg, off := r.1, size := sz, depth := 0, listMember := false }

/-- `Segment.readListPtr` -/
def readListPtr (m : Msg) (seg : Nat) (base val : Int) : Except Err ListP :=
  let r := pointerOffset_resolve (rawPointer_offset val) base
  if !r.2 then .error (.err "list pointer: invalid address") else
  let addr := r.1
  Err.bind (rawPointer_totalListSize val) fun ls =>
  if !ls.2 then .error (.err "list pointer: size overflow") else
  if !regionInBounds m seg addr ls.1 then .error (.err "list pointer: address out of bounds") else
  let lt := rawPointer_listType val
  if lt = 7 then
    Err.bind (readRawPointer m seg addr) fun hdr =>
    let r2 := address_addSize addr 8
    if !r2.2 then .error (.err "composite list pointer: content address overflow") else
    if rawPointer_pointerType hdr ≠ 0 then .error (.err "composite list pointer: tag word is not a struct") else
    let sz := rawPointer_structSize hdr
    let n := wrapI32 (rawPointer_offset hdr)
    if n < 0 then .error (.err "composite list pointer: negative element count") else   -- fix D5
    let ts := Size_times (ObjectSize_totalSize sz) n
    if !ts.2 then .error (.err "composite list pointer: size overflow") else
    if !regionInBounds m seg r2.1 ts.1 then .error (.err "composite list pointer: address out of bounds") else
    .ok { seg := seg, off := r2.1, length := n, size := sz, depth := 0, flags := isCompositeList }
  else if lt = 1 then
    .ok { seg := seg, off := addr, length := rawPointer_numListElements val, size := ⟨0, 0⟩, depth := 0, flags := isBitList }
  else
    Err.bind (rawPointer_elementSize val) fun es =>
    .ok { seg := seg, off := addr, length := rawPointer_numListElements val, size := es, depth := 0, flags := 0 }

def StructP.readSize (s : StructP) : Int := ObjectSize_totalSize s.size

/-- `List.readSize`: a zero-sized element counts as one word -/
def ListP.readSize (l : ListP) : Int :=
  let e := ObjectSize_totalSize l.size
  let e := if e = 0 then 8 else e
  let r := Size_times e l.length
  if !r.2 then 4294967288 else r.1

/-- sequential meaning of `Message.canRead`: new budget and whether the read is allowed -/
def canRead (rl sz : Int) : Int × Bool :=
  if rl ≥ sz then (rl - sz, true) else (0, false)

/-- `Segment.readPtr`, threading the traversal budget `rl`: the result and the new budget
    (a refused read zeroes the budget, as `canRead` does) -/
def readPtr (m : Msg) (seg : Nat) (paddr : Int) (depth : Int) (rl : Int) : Except Err Ptr × Int :=
  match resolveFarPointer m seg paddr with
  | .error e => (.error e, rl)
  | .ok (s, base, val) =>
    if val = 0 then (.ok .null, rl) else
    if depth = 0 then (.error (.err "read pointer: depth limit reached"), rl) else
    let pt := rawPointer_pointerType val
    if pt = 0 then
      match readStructPtr m s base val with
      | .error e => (.error e, rl)
      | .ok sp =>
        let c := canRead rl sp.readSize
        if !c.2 then (.error (.err "read pointer: read traversal limit reached"), c.1) else
        (.ok (.struct { sp with depth := wrapU64 (depth - 1) }), c.1)
    else if pt = 1 then
      match readListPtr m s base val with
      | .error e => (.error e, rl)
      | .ok lp =>
        let c := canRead rl lp.readSize
        if !c.2 then (.error (.err "read pointer: read traversal limit reached"), c.1) else
        (.ok (.list { lp with depth := wrapU64 (depth - 1) }), c.1)
    else if pt = 3 then
      if rawPointer_otherPointerType val ≠ 0 then (.error (.err "read pointer: unknown pointer type"), rl) else
      (.ok (.cap s (rawPointer_capabilityIndex val)), rl)
    else (.error (.err "read pointer: far pointer landing pad is a far pointer"), rl)

/-! ## accessors -/

/-- `Struct.pointerAddress` -/
def StructP.pointerAddress (s : StructP) (i : Int) : Int :=
  let ps := address_addSize s.off s.size.DataSize
  (address_element ps.1 (wrapI32 i) 8).1

/-- `Struct.Ptr(i)` -/
def StructP.ptr (m : Msg) (s : StructP) (i : Int) (rl : Int) : Except Err Ptr × Int :=
  if i ≥ s.size.PointerCount then (.ok .null, rl)
  else readPtr m s.seg (s.pointerAddress i) s.depth rl

/-- `Struct.HasPtr(i)` -/
def StructP.hasPtr (m : Msg) (s : StructP) (i : Int) : Except Err Bool :=
  if i ≥ s.size.PointerCount then .ok false
  else Err.bind (readRawPointer m s.seg (s.pointerAddress i)) fun v => .ok (decide (v ≠ 0))

/-- `Struct.dataAddress` + `Struct.UintN(off)`, N = 8·`w` -/
def StructP.uint (m : Msg) (s : StructP) (off : Int) (w : Nat) : Except Err Int :=
  if wrapU32 (off + w) > s.size.DataSize then .ok 0 else
  Err.bind (address_addOffset s.off off) fun addr => readUint m s.seg addr w

/-- `Struct.Bit(n)` -/
def StructP.bit (m : Msg) (s : StructP) (n : Int) : Except Err Bool :=
  if !(decide (n < wrapU32 (s.size.DataSize * 8))) then .ok false else
  Err.bind (address_addOffset s.off (BitOffset_offset n)) fun addr =>
  Err.bind (readUint m s.seg addr 1) fun b => .ok (decide ((b.toNat &&& (BitOffset_mask n).toNat) ≠ 0))

/-- `List.Struct(i)`; the caller guarantees `0 ≤ i < length` (documented programmer error otherwise).
    `none` is the zero `Struct{}`. -/
def ListP.structAt (l : ListP) (i : Int) : Option StructP :=
  if l.flags = isBitList then none else
  let r := address_element l.off (wrapI32 i) (ObjectSize_totalSize l.size)
  if !r.2 then none else
  some { seg := l.seg, off := r.1, size := l.size, listMember := true,
         depth := if l.depth = 0 then 0 else l.depth - 1 }      -- saturating (fix D4)

/-- `List.primitiveElem(i, expected)` for `0 ≤ i < length` -/
def ListP.primitiveElem (l : ListP) (i : Int) (exp : ObjectSize) : Except Err Int :=
  if l.flags = isBitList ∨ (l.flags ≠ isCompositeList ∧ l.size ≠ exp) ∨
     (l.flags = isCompositeList ∧ (l.size.DataSize < exp.DataSize ∨ l.size.PointerCount < exp.PointerCount)) then
    .error (.err "mismatched list element size")
  else
    let r := address_element l.off (wrapI32 i) (ObjectSize_totalSize l.size)
    if !r.2 then .error (.err "read list element: address overflow") else
    if l.flags = isCompositeList ∧ exp.PointerCount > 0 then
      -- a list of pointers upgraded to a struct list: the element's first pointer (fix D20)
      let r2 := address_addSize r.1 l.size.DataSize
      if !r2.2 then .error (.err "read list element: address overflow") else .ok r2.1
    else .ok r.1

/-- `PointerList.At(i)` -/
def ListP.ptrAt (m : Msg) (l : ListP) (i : Int) (rl : Int) : Except Err Ptr × Int :=
  match l.primitiveElem i ⟨0, 1⟩ with
  | .error e => (.error e, rl)
  | .ok addr => readPtr m l.seg addr l.depth rl

/-- `UInt8List.At` … `UInt64List.At` (`w` bytes): a mismatched list reads as 0 -/
def ListP.uintAt (m : Msg) (l : ListP) (i : Int) (w : Nat) : Except Err Int :=
  match l.primitiveElem i ⟨w, 0⟩ with
  | .error _ => .ok 0
  | .ok addr => readUint m l.seg addr w

/-- `BitList.At(i)` for `0 ≤ i < length` -/
def ListP.bitAt (m : Msg) (l : ListP) (i : Int) : Except Err Bool :=
  if l.flags ≠ isBitList then .ok false else
  let bit := wrapU32 i
  let addr := address_addSizeUnchecked l.off (wrapU32 (BitOffset_offset bit))      -- fix D3
  Err.bind (readUint m l.seg addr 1) fun b => .ok (decide ((b.toNat &&& (BitOffset_mask bit).toNat) ≠ 0))

/-- `Segment.root` + `Message.Root` -/
def root (m : Msg) (depthLimit : Int) (rl : Int) : Except Err Ptr × Int :=
  if m.numSegs < 1 then (.error (.err "segment 0: out of bounds"), rl) else
  if !regionInBounds m 0 0 8 then (.error (.err "read root: first segment too small"), rl) else
  let rootList : ListP := { seg := 0, off := 0, length := 1, size := ⟨0, 1⟩, depth := depthLimit, flags := 0 }
  rootList.ptrAt m 0 rl

end Capnp.Model.Read

namespace Capnp.Model.Read
open Capnp.Prelude Capnp.Gen

/-- `s.slice(off, n)` as a list of bytes -/
def sliceBytes (m : Msg) (seg : Nat) (off n : Int) : Except Err (List Nat) :=
  if sliceOk (m.segLen seg) off n then
    .ok ((List.range n.toNat).map (fun k => byteAt (m.seg seg) (off.toNat + k)))
  else .error (.panic "slice bounds out of range")

/-- `isOneByteList` on a list pointer -/
def ListP.isOneByte (l : ListP) : Bool :=
  ObjectSize_isOneByte l.size && decide (l.flags ≠ isCompositeList)

/-- `Ptr.text()`: `none` when not a NUL-terminated one-byte list -/
def ListP.text (m : Msg) (l : ListP) : Except Err (Option (List Nat)) :=
  if !l.isOneByte then .ok none else
  Err.bind (sliceBytes m l.seg l.off (wrapU32 l.length)) fun b =>
  if b.isEmpty ∨ b.getLast? ≠ some 0 then .ok none else .ok (some b.dropLast)

/-- `Ptr.Data()`: `none` = nil -/
def ListP.data (m : Msg) (l : ListP) : Except Err (Option (List Nat)) :=
  if !l.isOneByte then .ok none else
  Err.bind (sliceBytes m l.seg l.off (wrapU32 l.length)) fun b => .ok (some b)

end Capnp.Model.Read
