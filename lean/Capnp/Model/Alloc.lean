/-!
# `alloc` (message.go): carving an object out of a segment

A segment is its used bytes `data` (`len(s.data)`) followed by spare capacity whose content is whatever the arena's
buffer held before (`spare`; a recycled buffer is not zero).  `alloc` rounds the size up to whole words, takes the next
`sz` bytes of the spare capacity and zeroes them.  (When the capacity does not suffice the arena supplies a segment with
enough room; the bytes already used are preserved, so the model lets `spare` be as long as needed.)
-/
namespace Capnp.Model.Alloc

def padToWord (n : Nat) : Nat := (n + 7) / 8 * 8

structure Seg where
  data : List Nat     -- the bytes in use
  spare : List Nat    -- the rest of the buffer, in whatever state the arena left it
deriving Repr, DecidableEq

/-- `alloc`: the address of the new object and the segment afterwards -/
def alloc (s : Seg) (sz : Nat) : Nat × Seg :=
  (s.data.length, { data := s.data ++ List.replicate (padToWord sz) 0, spare := s.spare.drop (padToWord sz) })

/-- the variant that trusts the buffer to be zero already -/
def allocNoClear (s : Seg) (sz : Nat) : Nat × Seg :=
  (s.data.length, { data := s.data ++ (s.spare.take (padToWord sz) ++ List.replicate (padToWord sz - s.spare.length) 0),
                    spare := s.spare.drop (padToWord sz) })

/-- a run of allocations: the addresses handed out, in order -/
def allocs (s : Seg) : List Nat → List Nat × Seg
  | [] => ([], s)
  | sz :: rest =>
    let (a, s1) := alloc s sz
    let (as, s2) := allocs s1 rest
    (a :: as, s2)

/-- what the harness observes: every object `k` is filled with its number over its requested size -/
def fill (data : List Nat) (addr sz k : Nat) : List Nat :=
  data.take addr ++ List.replicate sz k ++ data.drop (addr + sz)

def allocFill (s : Seg) : List Nat → Nat → Seg
  | [], _ => s
  | sz :: rest, k =>
    let (a, s1) := alloc s sz
    allocFill { s1 with data := fill s1.data a sz k } rest (k + 1)

end Capnp.Model.Alloc
