import Capnp.Model.Rpc
/-!
# Model of the outbound half of one `rpc.Conn`: questions, imports, local calls
# (`rpc/question.go`, `rpc/import.go`, `rpc/rpc.go` `Bootstrap` / `handleReturn` / `parseReturn` / `recvCap`)

One event = one local API call (`Conn.Bootstrap`, a call on a handle, a pipelined call on the answer of an
earlier call, releasing a handle, cancelling a call, releasing a call's results, `Close`) or one `Return` the
receive loop handles, each run to quiescence.  Handles and local calls are numbered in creation order, as in
`harness/rpc.go`.  A `Return`'s payload is abstracted to: struct or bare capability, and the list of
capability descriptors (here only descriptors that do not name exports of this Conn: the loop-back cases
are `Model.Rpc`'s and the embargo oracle's).

Ghost counters record the history the theorems speak about: `Boot`/`Call` and `Finish` messages sent per
question id, resolutions per local call, descriptors received and references given back per import id.
-/
namespace Capnp.Model.RpcQ
open Capnp.Model.Rpc (IdGen Desc Imp lookup put del bump reset)

/-- why a call fails without (or instead of) an answer from the peer -/
inductive Why
  | exc | canceled | disconnected | err | null
deriving Repr, DecidableEq

def Why.str : Why → String
  | .exc => "exc" | .canceled => "canceled" | .disconnected => "disconnected" | .err => "err" | .null => "null"

/-- what a resolved client refers to -/
inductive Ref
  | imp (i : Nat)      -- an `importClient`
  | bad (w : Why)      -- a null client, an error client, the rejection of a bootstrap, a dead connection
deriving Repr, DecidableEq

inductive HS
  | pending (q : Nat)  -- the bootstrap promise of question q, unresolved
  | res (r : Ref)
  | released
deriving Repr, DecidableEq

inductive CS
  | pending (q : Nat)
  | ok (q : Nat) (isStruct : Bool) (caps : List Ref)   -- resolved by the Return of question q; `caps` = its capability table
  | failed (w : Why)
  | released
deriving Repr, DecidableEq

inductive QKind | boot (h : Nat) | call (c : Nat)
deriving Repr, DecidableEq

structure QE where
  kind : QKind
  canceled : Bool := false     -- `finished` was set by `handleCancel`: the Finish is out, the Return still to come
deriving Repr, DecidableEq

/-- messages sent and local resolutions -/
inductive Ev
  | boot (q : Nat)
  | call (q : Nat) (tgt : String) (m tag : Nat)
  | fin (q : Nat) (rel : Bool)
  | rel (id n : Nat)
  | abort
  | done
  | resolved (c : Nat) (r : String)
deriving Repr, DecidableEq

structure QS where
  questions : Nat → Option QE := fun _ => none
  qid : IdGen := {}
  imports : List (Nat × Imp) := []
  handles : List HS := []
  calls : List CS := []
  closed : Bool := false
  -- ghost history
  asked : Nat → Nat := fun _ => 0       -- Bootstrap / Call messages sent with question id q
  finished : Nat → Nat := fun _ => 0    -- Finish messages sent for question id q
  resolutions : Nat → Nat := fun _ => 0 -- how often local call c was resolved
  received : Nat → Nat := fun _ => 0    -- descriptors received naming import id (since its entry was created)
  doubleFree : Bool := false            -- a reference on an import was dropped that nobody held

def setAt {α} (l : List α) (k : Nat) (v : α) : List α := l.set k v

/-! ## references on imports -/

/-- `addImport`: one more descriptor for import id, one more local reference -/
def addImport (s : QS) (i : Nat) : QS :=
  match lookup s.imports i with
  | some e => { s with imports := put s.imports i { wireRefs := e.wireRefs + 1, refs := e.refs + 1 }, received := bump s.received i }
  | none => { s with imports := put s.imports i { wireRefs := 1, refs := 1 }, received := bump (reset s.received i) i }

/-- `recvCap` on a descriptor of a Return (descriptors naming this Conn's exports are outside this model) -/
def recvCap (s : QS) : Desc → QS × Ref
  | .senderHosted i => (addImport s i, .imp i)
  | .senderPromise i => (addImport s i, .imp i)
  | .none => (s, .bad .null)
  | .unknown => (s, .bad .err)
  | .receiverHosted _ => (s, .bad .err)

def recvCaps (s : QS) : List Desc → QS × List Ref
  | [] => (s, [])
  | d :: ds =>
    let a := recvCap s d
    let b := recvCaps a.1 ds
    (b.1, a.2 :: b.2)

def addRef (s : QS) : Ref → QS
  | .imp i => match lookup s.imports i with
    | some e => { s with imports := put s.imports i { e with refs := e.refs + 1 } }
    | none => s
  | .bad _ => s

/-- drop one local reference; the last one removes the entry and sends `Release` with every reference received -/
def dropRef (s : QS) : Ref → QS × List Ev
  | .imp i => match lookup s.imports i with
    | some e =>
      if e.refs = 0 then ({ s with doubleFree := true }, [])
      else if e.refs = 1 then ({ s with imports := del s.imports i }, if s.closed then [] else [.rel i e.wireRefs])
      else ({ s with imports := put s.imports i { e with refs := e.refs - 1 } }, [])
    | none => (s, [])    -- the client of a connection that has shut down
  | .bad _ => (s, [])

def dropRefs (s : QS) : List Ref → QS × List Ev
  | [] => (s, [])
  | r :: rs =>
    let a := dropRef s r
    let b := dropRefs a.1 rs
    (b.1, a.2 ++ b.2)

/-! ## questions -/

/-- `newQuestion` + the Bootstrap / Call message -/
def ask (s : QS) (k : QKind) : QS × Nat :=
  let q := s.qid.next.1
  let g := s.qid.next.2
  ({ s with qid := g, questions := fun x => if x = q then some { kind := k } else s.questions x, asked := bump s.asked q }, q)

def sendFinish (s : QS) (q : Nat) : QS := { s with finished := bump s.finished q }

def freeQ (s : QS) (q : Nat) : QS :=
  { s with questions := fun x => if x = q then none else s.questions x, qid := s.qid.remove q }

def resolveCall (s : QS) (c : Nat) (v : CS) : QS :=
  { s with calls := setAt s.calls c v, resolutions := bump s.resolutions c }

/-- a new local call that fails at once -/
def failCall (s : QS) (w : Why) : QS × List Ev :=
  ({ s with calls := s.calls ++ [.failed w], resolutions := bump s.resolutions s.calls.length }, [.resolved s.calls.length w.str])

/-- a new local call sent as a question -/
def askCall (s : QS) (tgt : String) (m : Nat) : QS × List Ev :=
  let c := s.calls.length
  let a := ask s (.call c)
  ({ a.1 with calls := s.calls ++ [.pending a.2] }, [.call a.2 tgt m (1000 + c)])

/-- a call through a resolved client: a new question on an import, an immediate failure otherwise -/
def callRef (s : QS) (r : Ref) (m : Nat) : QS × List Ev :=
  match r with
  | .imp i => if s.closed then failCall s .disconnected else askCall s ("e" ++ toString i) m
  | .bad w => failCall s w

/-- a call pipelined on question q (`question.PipelineSend`) -/
def callPipelined (s : QS) (q : Nat) (path : String) (m : Nat) : QS × List Ev :=
  askCall s ("a" ++ toString q ++ path) m

/-! ## events -/

inductive Op
  | bootstrap
  | call (h m : Nat)
  | pipe (c f m : Nat)
  | take (c f : Nat)            -- the capability in field f of call c's result as a new handle
  | release (h : Nat)
  | cancel (c : Nat)
  | releaseResults (c : Nat)
  | close
  | ret (q : Nat) (kind : Nat) (caps : List Desc)   -- kind 0 = struct results, 1 = a bare capability (a Bootstrap's result), 2 = exception
deriving Repr, DecidableEq

/-- `Conn.shutdown`: every pending call and bootstrap fails with "disconnected", the tables are cleared -/
def failPending (cs : List CS) (k : Nat) : List CS × List Ev :=
  match cs with
  | [] => ([], [])
  | .pending _ :: rest => let (r, o) := failPending rest (k + 1); (.failed .disconnected :: r, .resolved k "disconnected" :: o)
  | c :: rest => let (r, o) := failPending rest (k + 1); (c :: r, o)

def bumpPending (cs : List CS) (k : Nat) (f : Nat → Nat) : Nat → Nat :=
  match cs with
  | [] => f
  | .pending _ :: rest => bumpPending rest (k + 1) (bump f k)
  | _ :: rest => bumpPending rest (k + 1) f

def shutdown (s : QS) : QS × List Ev :=
  let (cs, o) := failPending s.calls 0
  ({ s with closed := true, calls := cs, resolutions := bumpPending s.calls 0 s.resolutions,
            handles := s.handles.map (fun h => match h with | .pending _ => .res (.bad .disconnected) | h => h),
            questions := fun _ => none, imports := [] },
   [.abort, .done] ++ o)

/-- the capability a transform `[f]` finds in a call's results -/
def resultCap (isStruct : Bool) (caps : List Ref) (f : Nat) : Option Ref :=
  if isStruct ∧ f = 0 then caps.head? else none

/-- one event; the string is the operation's own result as the harness prints it -/
def step (s : QS) : Op → QS × List Ev × String
  | .bootstrap =>
    let h := s.handles.length
    if s.closed then ({ s with handles := s.handles ++ [.res (.bad .disconnected)] }, [], "h" ++ toString h)
    else
      let a := ask s (.boot h)
      ({ a.1 with handles := s.handles ++ [.pending a.2] }, [.boot a.2], "h" ++ toString h)
  | .call h m =>
    match s.handles[h]? with
    | none | some .released => (s, [], "skip")
    | some (.pending q) =>
      -- (`startTask` fails on a connection that has shut down; no bootstrap is pending then, see `shutdown`)
      if s.closed then (let r := callRef s (.bad .disconnected) m; (r.1, r.2, "c" ++ toString s.calls.length)) else
      let r := callPipelined s q "" m; (r.1, r.2, "c" ++ toString s.calls.length)
    | some (.res r) => let r := callRef s r m; (r.1, r.2, "c" ++ toString s.calls.length)
  | .pipe c f m =>
    match s.calls[c]? with
    | none | some .released => (s, [], "skip")
    | some (.pending q) =>
      if s.closed then (let r := callRef s (.bad .disconnected) m; (r.1, r.2, "c" ++ toString s.calls.length)) else
      let r := callPipelined s q ("." ++ toString f) m; (r.1, r.2, "c" ++ toString s.calls.length)
    | some (.failed w) => let r := callRef s (.bad w) m; (r.1, r.2, "c" ++ toString s.calls.length)
    | some (.ok _ isStruct caps) =>
      let r := callRef s ((resultCap isStruct caps f).getD (.bad .null)) m; (r.1, r.2, "c" ++ toString s.calls.length)
  | .take c f =>
    match s.calls[c]? with
    | some (.ok _ true caps) =>
      if f = 0 then
        match caps.head? with
        | some r => ({ addRef s r with handles := (addRef s r).handles ++ [.res r] }, [], "h" ++ toString s.handles.length)
        | none => (s, [], "skip")
      else (s, [], "skip")
    | _ => (s, [], "skip")
  | .release h =>
    match s.handles[h]? with
    | none | some .released => (s, [], "skip")
    | some (.pending q) =>
      -- the last reference of a bootstrap promise: `bootstrapClient.Shutdown` cancels the question
      let s1 := { s with handles := setAt s.handles h .released }
      if s.closed then (s1, [], "-") else
      let s2 := sendFinish { s1 with questions := fun x => if x = q then (s1.questions q).map (fun e => { e with canceled := true }) else s1.questions x } q
      (s2, [.fin q true], "-")
    | some (.res r) =>
      let d := dropRef { s with handles := setAt s.handles h .released } r
      (d.1, d.2, "-")
  | .cancel c =>
    match s.calls[c]? with
    | none => (s, [], "skip")
    | some (.pending q) =>
      if s.closed then (s, [], "-") else
      let s1 := resolveCall s c (.failed .canceled)
      let s2 := sendFinish { s1 with questions := fun x => if x = q then (s1.questions q).map (fun e => { e with canceled := true }) else s1.questions x } q
      (s2, [.fin q true, .resolved c "canceled"], "-")
    | some _ => (s, [], "-")
  | .releaseResults c =>
    match s.calls[c]? with
    | none | some .released | some (.pending _) => (s, [], "skip")
    | some (.ok _ _ caps) =>
      let d := dropRefs { s with calls := setAt s.calls c .released } caps
      (d.1, d.2, "-")
    | some (.failed _) => ({ s with calls := setAt s.calls c .released }, [], "-")
  | .close =>
    if s.closed then (s, [], "-") else
    let d := shutdown s
    (d.1, d.2, "-")
  | .ret q kind descs =>
    if s.closed then (s, [], "-") else
    match s.questions q with
    | none => let d := shutdown s; (d.1, d.2, "-")       -- "question does not exist": the connection aborts
    | some e =>
      if e.canceled then (freeQ s q, [], "-") else          -- the Finish (releaseResultCaps) is out already: nothing is read
      if kind = 2 then
        -- exception
        let s1 := sendFinish (freeQ s q) q
        match e.kind with
        | .boot h => ({ s1 with handles := setAt s1.handles h (.res (.bad .exc)) }, [.fin q false], "-")
        | .call c => (resolveCall s1 c (.failed .exc), [.fin q false, .resolved c "exc"], "-")
      else
        let rc := recvCaps s descs
        let caps := rc.2
        let s2 := sendFinish (freeQ rc.1 q) q
        match e.kind with
        | .boot h =>
          -- the promise resolves to the capability the content points at (none when the content is a struct); its
          -- references move there, then the Return's capability table is cleared
          let r : Ref := if kind = 1 then caps.head?.getD (.bad .null) else .bad .err
          let s3 := addRef { s2 with handles := setAt s2.handles h (.res r) } r
          let d := dropRefs s3 caps
          (d.1, [.fin q false] ++ d.2, "-")
        | .call c =>
          (resolveCall s2 c (.ok q (kind = 0) caps), [.fin q false, .resolved c (if kind = 0 then "ok.t" ++ toString (100 + q) else "ok")], "-")

def run (s : QS) : List Op → QS
  | [] => s
  | o :: os => run (step s o).1 os

/-- everything sent and resolved during a history -/
def history (s : QS) : List Op → List Ev
  | [] => []
  | o :: os => (step s o).2.1 ++ history (step s o).1 os

end Capnp.Model.RpcQ
