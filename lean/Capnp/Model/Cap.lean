/-!
# Model of `capability.go`: clients sharing a capability, a promised client and its fulfilment

A labelled transition system whose actions are the **atomic sections** of the Go code (everything a
goroutine does while holding the mutex of the hook it is working on).  Two hooks are modelled: a
promise hook `p` (from `NewPromisedClient`) and an ordinary hook `t` that `p` may be fulfilled with;
any number of client handles, weak references and threads.  All interleavings = all action lists.

`windowed = true` is the code as pinned: `ClientPromise.Fulfill` marks `p` resolved and zeroes its
reference count under `p.mu`, releases `p.mu`, and only then locks the target hook to add the
references — in between, the references are counted nowhere.  `windowed = false` hands them over
while `p.mu` is still held (the repaired code).  The same flag selects the pinned / repaired treatment of a
promise fulfilled with (a client that leads back to) itself.
-/
namespace Capnp.Model.Cap

structure Hook where
  refs : Int          -- `h.refs` (Go `int`: can be driven negative)
  calls : Nat         -- `h.calls`
  done : Bool         -- `close(h.done)` happened
  waiting : Nat       -- threads that saw refs reach 0 (or the fulfiller) and wait on `<-h.done` to call Shutdown
  shut : Nat          -- `Shutdown()` invocations
deriving Repr, DecidableEq

structure St where
  t : Hook
  p : Hook
  pResolved : Bool    -- `close(p.resolved)` happened
  toNil : Bool        -- resolved to a nil client
  onT : Nat           -- live client handles whose `c.h` is `t`
  onP : Nat           -- live client handles whose `c.h` is (still) `p`
  parked : Nat        -- references taken from `p` by Fulfill and not yet added to `t` (the window)
  bad : Bool          -- a Go panic: close of a closed channel
  useAfter : Bool     -- a call or AddRef reached a hook whose Shutdown had started
deriving Repr, DecidableEq

inductive Act
  | addRef (viaP : Bool)       -- `Client.AddRef` on a handle whose `c.h` is p / t
  | release (viaP : Bool)      -- `Client.Release`, up to and including the critical section
  | startCall (viaP : Bool)    -- `startCall`: calls++ (the hook's Send/Recv then runs outside the lock)
  | finishCall (onPHook : Bool)-- the `finish` closure
  | weakAdd (viaP : Bool)      -- `WeakClient.AddRef`
  | passDone (onPHook : Bool)  -- a waiter gets past `<-h.done` and calls `h.Shutdown()`
  | fulfill (nil : Bool)       -- `ClientPromise.Fulfill`, first critical section (under `p.mu`)
  | hand                       -- Fulfill's second critical section (under the target's mutex)
  | fulfillSelf                -- `p.Fulfill(c)` where `c` is a live handle on `p` itself (directly, or through a chain of resolved promises)
deriving Repr, DecidableEq

def init : St :=
  { t := ⟨1, 0, false, 0, 0⟩, p := ⟨1, 0, false, 0, 0⟩, pResolved := false, toNil := false,
    onT := 1, onP := 1, parked := 0, bad := false, useAfter := false }

/-- `refs--`; `if refs > 0 return`; `if calls == 0 close(done)`; then wait for done -/
def Hook.dec (h : Hook) : Hook × Bool :=
  let r := h.refs - 1
  if r > 0 then ({ h with refs := r }, false)
  else if h.calls = 0 then ({ h with refs := r, done := true, waiting := h.waiting + 1 }, h.done)
  else ({ h with refs := r, waiting := h.waiting + 1 }, false)

/-- where a handle whose `c.h` is p ends up after `resolveHook`: p itself, t, or nothing -/
inductive Target | p | t | none
deriving DecidableEq

def St.via (s : St) (viaP : Bool) : Target :=
  if viaP then (if s.pResolved then (if s.toNil then .none else .t) else .p) else .t

/-- `ClientPromise.Fulfill`, first critical section (under `p.mu`) -/
def fulfillStep (windowed : Bool) (s : St) (nil : Bool) : Option St :=
  -- requires an unresolved promise; fulfilling with a client needs that client to be live (a handle on t)
  if s.pResolved then none else
  if !nil ∧ s.onT = 0 then none else
  let n := s.p.refs
  let p0 : Hook := { s.p with refs := 0 }
  if n = 0 then some { s with p := p0, pResolved := true, toNil := nil }
  else
    let p1 : Hook := if s.p.calls = 0 then { p0 with done := true, waiting := p0.waiting + 1 } else { p0 with waiting := p0.waiting + 1 }
    let s1 := { s with p := p1, pResolved := true, toNil := nil, bad := s.bad || (decide (s.p.calls = 0) && s.p.done) }
    if nil then some s1
    else if windowed then some { s1 with parked := n.toNat }
    else some { s1 with t := { s1.t with refs := s1.t.refs + n } }

def step (windowed : Bool) (s : St) : Act → Option St
  | .addRef viaP =>
    if (if viaP then s.onP else s.onT) = 0 then none else
    match s.via viaP with
    | .none => some { s with onP := s.onP - 1 }                       -- c.h := nil; returns nil
    | .p => some { s with p := { s.p with refs := s.p.refs + 1 }, onP := s.onP + 1, useAfter := s.useAfter || decide (s.p.shut > 0) }
    | .t =>
      let s := { s with t := { s.t with refs := s.t.refs + 1 }, useAfter := s.useAfter || decide (s.t.shut > 0) }
      if viaP then some { s with onP := s.onP - 1, onT := s.onT + 2 } else some { s with onT := s.onT + 1 }
  | .release viaP =>
    if (if viaP then s.onP else s.onT) = 0 then none else
    match s.via viaP with
    | .none => some { s with onP := s.onP - 1 }
    | .p => let r := s.p.dec; some { s with p := r.1, onP := s.onP - 1, bad := s.bad || r.2 }
    | .t =>
      let r := s.t.dec
      if viaP then some { s with t := r.1, onP := s.onP - 1, bad := s.bad || r.2 }
      else some { s with t := r.1, onT := s.onT - 1, bad := s.bad || r.2 }
  | .startCall viaP =>
    if (if viaP then s.onP else s.onT) = 0 then none else
    match s.via viaP with
    | .none => some { s with onP := s.onP - 1 }                       -- error answer "call on null client"
    | .p => some { s with p := { s.p with calls := s.p.calls + 1 }, useAfter := s.useAfter || decide (s.p.shut > 0) }
    | .t =>
      let s := { s with t := { s.t with calls := s.t.calls + 1 }, useAfter := s.useAfter || decide (s.t.shut > 0) }
      if viaP then some { s with onP := s.onP - 1, onT := s.onT + 1 } else some s
  | .finishCall onPHook =>
    let h := if onPHook then s.p else s.t
    if h.calls = 0 then none else
    let c := h.calls - 1
    let h' : Hook := if h.refs = 0 ∧ c = 0 then { h with calls := c, done := true } else { h with calls := c }
    let bad := s.bad || (decide (h.refs = 0 ∧ c = 0) && h.done)
    if onPHook then some { s with p := h', bad := bad } else some { s with t := h', bad := bad }
  | .weakAdd viaP =>
    match s.via viaP with
    | .none => some s
    | .p => if s.p.refs = 0 then some s else
        some { s with p := { s.p with refs := s.p.refs + 1 }, onP := s.onP + 1, useAfter := s.useAfter || decide (s.p.shut > 0) }
    | .t => if s.t.refs = 0 then some s else
        some { s with t := { s.t with refs := s.t.refs + 1 }, onT := s.onT + 1, useAfter := s.useAfter || decide (s.t.shut > 0) }
  | .passDone onPHook =>
    let h := if onPHook then s.p else s.t
    if h.waiting = 0 ∨ h.done = false then none else
    let h' := { h with waiting := h.waiting - 1, shut := h.shut + 1 }
    if onPHook then some { s with p := h' } else some { s with t := h' }
  | .fulfill nil => fulfillStep windowed s nil
  | .hand =>
    if s.parked = 0 then none else
    some { s with t := { s.t with refs := s.t.refs + s.parked }, parked := 0 }
  | .fulfillSelf =>
    if s.pResolved ∨ s.onP = 0 then none else
    if windowed then
      -- as pinned: `resolvedHook = p`, the hook keeps counting its references (handles still reach `p`), yet
      -- `done` is closed and the fulfiller goes on to `Shutdown`
      let p1 : Hook := if s.p.calls = 0 then { s.p with done := true, waiting := s.p.waiting + 1 } else { s.p with waiting := s.p.waiting + 1 }
      some { s with p := p1, bad := s.bad || (decide (s.p.calls = 0) && s.p.done) }
    else
      -- repaired: the cycle is detected and the promise resolves to an error client, a capability outside this
      -- model: from `p`'s and `t`'s point of view the same as resolving to nothing
      fulfillStep false s true

def run (windowed : Bool) (s : St) : List Act → Option St
  | [] => some s
  | a :: as => (step windowed s a).bind (fun s' => run windowed s' as)

end Capnp.Model.Cap
