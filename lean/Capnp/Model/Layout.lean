/-!
# Layout of generated accessors (`capnpc-go`): what the emitted getters / setters / Has / New do to a struct

A struct's data section is a map from byte addresses to bytes, its pointer section a map from slot numbers to
"is set".  `Capnp.Struct.UintN(off)` / `SetUintN(off, v)` / `Bit` / `SetBit` are the little-endian field
primitives (their own safety and value semantics are C01/C03/C04's subject).

A field of the schema is described the way a `schema.capnp` Field does it: kind, slot offset (in units of the
field's own size), default value (as the bit pattern the generator XORs in), and — for members of a union —
the discriminant value; the enclosing node gives the discriminant's offset (in 16-bit units).
-/
namespace Capnp.Model.Layout

abbrev Bytes := Nat → Nat

/-- little-endian read of `w` bytes at `off` -/
def getU (b : Bytes) (off : Nat) : Nat → Nat
  | 0 => 0
  | w + 1 => b off % 256 + 256 * getU b (off + 1) w

/-- little-endian write of the low `w` bytes of `v` at `off` -/
def setU (b : Bytes) (off : Nat) : Nat → Nat → Bytes
  | 0, _ => b
  | w + 1, v => fun a => if a = off then v % 256 else setU b (off + 1) w (v / 256) a

def getBit (b : Bytes) (bit : Nat) : Bool := (b (bit / 8) % 256 / 2 ^ (bit % 8)) % 2 = 1

def setBit (b : Bytes) (bit : Nat) (v : Bool) : Bytes := fun a =>
  if a = bit / 8 then
    let old := b a % 256
    let cleared := old - (if getBit b bit then 2 ^ (bit % 8) else 0)
    cleared + (if v then 2 ^ (bit % 8) else 0)
  else b a

inductive Kind
  | void | bool
  | int (bytes : Nat)      -- Int8…Int64, UInt8…UInt64, enums (2), Float32/64 (4 / 8): same accessor shape
  | ptr                     -- text, data, struct, list, interface, anyPointer
deriving Repr, DecidableEq

structure Field where
  kind : Kind
  offset : Nat              -- `slot.offset`
  mask : Nat                -- the default value's bit pattern (0: none; for bool: 1 = default true)
  disc : Option Nat         -- discriminant value, for union members
deriving Repr, DecidableEq

structure Node where
  dataWords : Nat
  ptrs : Nat
  discOffset : Nat          -- in 16-bit units
deriving Repr, DecidableEq

/-- byte range of a data field -/
def Field.byteOff (f : Field) : Nat := match f.kind with | .int w => f.offset * w | _ => 0
def tagOff (n : Node) : Nat := n.discOffset * 2

/-- what the generated setter does to the data section: `_settag`, then the field write with the default XORed in -/
def setTag (n : Node) (f : Field) (b : Bytes) : Bytes :=
  match f.disc with | some d => setU b (tagOff n) 2 d | none => b

def setInt (n : Node) (f : Field) (w : Nat) (b : Bytes) (v : Nat) : Bytes :=
  setU (setTag n f b) (f.offset * w) w (v ^^^ f.mask)

def setBool (n : Node) (f : Field) (b : Bytes) (v : Bool) : Bytes :=
  setBit (setTag n f b) f.offset (if f.mask = 1 then !v else v)

/-- `_checktag`: the getter panics unless the discriminant names this member -/
def tagOk (n : Node) (f : Field) (b : Bytes) : Bool :=
  match f.disc with | some d => getU b (tagOff n) 2 = d | none => true

def getInt (n : Node) (f : Field) (w : Nat) (b : Bytes) : Option Nat :=
  if tagOk n f b then some (getU b (f.offset * w) w ^^^ f.mask) else none

def getBool (n : Node) (f : Field) (b : Bytes) : Option Bool :=
  if tagOk n f b then some (if f.mask = 1 then !getBit b f.offset else getBit b f.offset) else none

/-- `HasX` of a pointer field: false for a non-active union member, else whether the slot is set -/
def hasPtr (n : Node) (f : Field) (b : Bytes) (slots : Nat → Bool) : Bool :=
  tagOk n f b && slots f.offset

/-! pointer fields holding text: the slot is `none` for a null pointer -/
abbrev TextSlot := Option (List Nat)

/-- `Struct.SetText`: the empty string is stored as a null pointer -/
def structSetText (v : List Nat) : TextSlot := if v = [] then none else some v
/-- `Struct.SetNewText`: always allocates, also for the empty string -/
def structSetNewText (v : List Nat) : TextSlot := some v
/-- `Ptr.TextDefault`: a null pointer reads as the default -/
def textDefault (p : TextSlot) (d : List Nat) : List Nat := match p with | none => d | some s => s

/-- the generated setter and getter of a Text field whose schema default is `d` (`[]`: no default) -/
def genSetText (d v : List Nat) : TextSlot := if d = [] then structSetText v else structSetNewText v
def genGetText (d : List Nat) (p : TextSlot) : List Nat := textDefault p d

/-- the generated setter of an interface-typed field: `_settag`, then null for an invalid client (early return), else the
    capability; `setIfaceLate` is the variant that stores the discriminant only on the non-null path -/
def setIface (n : Node) (f : Field) (b : Bytes) (c : Option Nat) : Bytes × Option Nat := (setTag n f b, c)
def setIfaceLate (n : Node) (f : Field) (b : Bytes) (c : Option Nat) : Bytes × Option Nat :=
  match c with | none => (b, none) | some k => (setTag n f b, some k)

/-- `NewT` allocates exactly what the node declares -/
def objectSize (n : Node) : Nat × Nat := (n.dataWords * 8, n.ptrs)

end Capnp.Model.Layout
