/-!
# Model of the tables of one `rpc.Conn` (`rpc/rpc.go`, `answer.go`, `question.go`, `export.go`, `import.go`,
# `idgen.go`)

One event = one message handled by the receive loop (atomic: there is a single receive goroutine), or one
application return, or one local API call, each run to quiescence.  The payload of a call or a return is
abstracted to a tag and a list of capability descriptors; local capabilities are numbers, their behaviour is
fixed by the method number as in the harness (`harness/rpc.go`).

Go failure modes are explicit: `panicked` records a nil-function call / `Annotate(nil)`; `fixed = false`
replays the code as pinned (D10, D11), `fixed = true` the repaired code.
-/
namespace Capnp.Model.Rpc

/-- a capability descriptor on the wire, as the *peer* wrote it -/
inductive Desc
  | none | senderHosted (id : Nat) | senderPromise (id : Nat) | receiverHosted (id : Nat) | unknown
deriving Repr, DecidableEq

/-- what a pointer in a local message's capability table refers to -/
inductive CapV
  | null
  | loc (k : Nat)        -- a local capability
  | imp (i : Nat)        -- an import (`importClient`)
  | err                  -- an error client
deriving Repr, DecidableEq

inductive Tgt
  | exp (id : Nat)
  | ans (q : Nat) (path : List Nat)
  | unknown
deriving Repr, DecidableEq

/-- messages the Conn puts on the wire (canonical form of `harness/rpc.go`) -/
inductive Out
  | ret (a : Nat) (tag : Option Nat) (caps : List String)   -- tag none = the bootstrap interface
  | retExc (a : Nat)
  | fin (q : Nat) (rel : Bool)
  | rel (id n : Nat)
  | boot (q : Nat)
  | call (q : Nat) (tgt : String) (m tag : Nat) (caps : List String)
  | abort
  | deliver (k m tag : Nat)       -- a call reached local capability k
  | cancelled (tag : Nat)
  | sd (k : Nat)                  -- local capability k was shut down (last reference gone)
  | done                          -- the Conn shut down
deriving Repr, DecidableEq

structure PCall where
  q : Nat
  path : List Nat
  m : Nat
deriving Repr, DecidableEq

structure Ans where
  returnSent : Bool := false
  finishReceived : Bool := false
  resultsReady : Bool := false
  relCaps : Bool := false
  isErr : Bool := false
  hasMsg : Bool := true                 -- `releaseMsg != nil`
  isBoot : Bool := false                -- the result content is the capability itself
  big : Bool := false                   -- the result struct has 301 pointers: capability 0 at pointer 300, capability 1 at pointer 44
  resultCaps : List CapV := []          -- `resultCapTable`: references the answer holds
  exportRefs : List (Nat × Nat) := []   -- export id ↦ references added by this Return
  held : Bool := false                  -- the application has not returned yet (method 1)
  heldOn : Nat := 0                     -- … on which local capability
  queued : List PCall := []             -- calls pipelined on this answer while it was held, oldest first
  paramImps : List Nat := []            -- imports referenced by the call's parameters (released when it returns)
deriving Repr, DecidableEq

structure Exp where
  cap : CapV
  wireRefs : Nat
deriving Repr, DecidableEq

structure Imp where
  wireRefs : Nat
  refs : Nat                            -- live local references on the import's client
deriving Repr, DecidableEq

structure IdGen where
  i : Nat := 0
  free : List Nat := []
deriving Repr, DecidableEq

def IdGen.next (g : IdGen) : Nat × IdGen :=
  match g.free.min? with
  | some m => (m, { g with free := g.free.erase m })
  | none => (g.i, { g with i := g.i + 1 })

def IdGen.remove (g : IdGen) (x : Nat) : IdGen := if x ∈ g.free then g else { g with free := x :: g.free }

structure RS where
  answers : List (Nat × Ans) := []
  exports : Nat → Option Exp := fun _ => none   -- `c.exports[id]`; ids below `exportID.i`
  exportID : IdGen := {}
  imports : List (Nat × Imp) := []
  nCaps : Nat := 1                      -- local capabilities created so far (0 = the bootstrap capability)
  refs : List (Nat × Nat) := [(0, 1)]   -- references the Conn (and messages in its hands) hold on local capability k
  hasBoot : Bool := true
  closed : Bool := false
  panicked : Bool := false
  doubleFree : Bool := false            -- a reference was released that the Conn did not hold
  -- ghost history
  accepted : Nat → Nat := fun _ => 0    -- Bootstraps / Calls accepted per answer id
  returned : Nat → Nat := fun _ => 0    -- Returns sent per answer id
  sent : Nat → Nat := fun _ => 0        -- descriptors sent naming export id (since the entry was created)
  released : Nat → Nat := fun _ => 0    -- references given back for export id (since the entry was created)

def lookup {α} (l : List (Nat × α)) (k : Nat) : Option α := (l.find? (·.1 = k)).map (·.2)
def del {α} (l : List (Nat × α)) (k : Nat) : List (Nat × α) := l.filter (·.1 ≠ k)
def put {α} (l : List (Nat × α)) (k : Nat) (v : α) : List (Nat × α) := (k, v) :: del l k

def bump (f : Nat → Nat) (k : Nat) (n : Nat := 1) : Nat → Nat := fun x => if x = k then f x + n else f x
def reset (f : Nat → Nat) (k : Nat) : Nat → Nat := fun x => if x = k then 0 else f x

def refsOf (s : RS) (k : Nat) : Nat := (lookup s.refs k).getD 0

/-- the Conn takes one more reference on a client -/
def addRef (s : RS) : CapV → RS
  | .loc k => { s with refs := put s.refs k (refsOf s k + 1) }
  | .imp i => match lookup s.imports i with
    | some e => { s with imports := put s.imports i { e with refs := e.refs + 1 } }
    | none => s
  | _ => s

/-- the Conn drops one reference on a client; the last reference of an import sends `Release`, the last
    reference of a local capability the Conn created for a result shuts it down -/
def dropRef (s : RS) : CapV → RS × List Out
  | .loc k =>
    let n := refsOf s k
    if n = 0 then ({ s with doubleFree := true }, [])
    else if n = 1 then ({ s with refs := del s.refs k }, [.sd k])
    else ({ s with refs := put s.refs k (n - 1) }, [])
  | .imp i => match lookup s.imports i with
    | some e =>
      if e.refs = 0 then ({ s with doubleFree := true }, [])
      else if e.refs = 1 then ({ s with imports := del s.imports i }, if s.closed then [] else [.rel i e.wireRefs])
      else ({ s with imports := put s.imports i { e with refs := e.refs - 1 } }, [])
    | none => ({ s with doubleFree := true }, [])
  | _ => (s, [])

def dropRefs (s : RS) (cs : List CapV) : RS × List Out :=
  cs.foldl (fun (acc : RS × List Out) c => let (s', o) := dropRef acc.1 c; (s', acc.2 ++ o)) (s, [])

/-- `releaseExport`: error (protocol violation) | new state + outputs -/
def setExp (f : Nat → Option Exp) (id : Nat) (v : Option Exp) : Nat → Option Exp := fun x => if x = id then v else f x

def exportIds (s : RS) : List Nat := (List.range s.exportID.i).filter (fun id => (s.exports id).isSome)

def releaseExport (s : RS) (id n : Nat) : Option (RS × List Out) :=
  match s.exports id with
  | none => none
  | some e =>
    if n = e.wireRefs then
      let s := { s with exports := setExp s.exports id none, exportID := s.exportID.remove id, released := bump s.released id n }
      some (dropRef s e.cap)
    else if n > e.wireRefs then none
    else some ({ s with exports := setExp s.exports id (some { e with wireRefs := e.wireRefs - n }), released := bump s.released id n }, [])

/-- `sendCap`: descriptor text and the export reference added, if any -/
def sendCap (s : RS) (c : CapV) : RS × String × Option Nat :=
  match c with
  | .null => (s, "n", none)
  | .imp i => (s, "r" ++ toString i, none)
  | .err | .loc _ =>
    match (exportIds s).find? (fun id => match s.exports id with | some e => e.cap = c ∧ c ≠ .err | none => false) with
    | some id =>
      match s.exports id with
      | some e =>
        ({ s with exports := setExp s.exports id (some { e with wireRefs := e.wireRefs + 1 }), sent := bump s.sent id }, "s" ++ toString id, some id)
      | none => (s, "n", none)      -- unreachable: `find?` returned an id with an entry
    | none =>
      let (id, g) := s.exportID.next
      let s := addRef { s with exportID := g } c
      ({ s with exports := setExp s.exports id (some { cap := c, wireRefs := 1 }), sent := bump (reset s.sent id) id, released := reset s.released id },
        "s" ++ toString id, some id)

def addExportRef (l : List (Nat × Nat)) (id : Nat) : List (Nat × Nat) := put l id ((lookup l id).getD 0 + 1)

def fillCaps (s : RS) (cs : List CapV) : RS × List String × List (Nat × Nat) :=
  cs.foldl (fun (acc : RS × List String × List (Nat × Nat)) c =>
    let (s, ds, refs) := acc
    let (s', d, e) := sendCap s c
    (s', ds ++ [d], match e with | some id => addExportRef refs id | none => refs)) (s, [], [])

/-- `answer.destroy` after Return sent and Finish received -/
def destroy (s : RS) (id : Nat) (a : Ans) : RS × List Out × Bool :=
  let s := { s with answers := del s.answers id }
  let (s, o) := dropRefs s a.resultCaps
  if a.relCaps then
    a.exportRefs.foldl (fun (acc : RS × List Out × Bool) (e : Nat × Nat) =>
      let (s, o, ok) := acc
      match releaseExport s e.1 e.2 with
      | some (s', o') => (s', o ++ o', ok)
      | none => (s, o, false)) (s, o, true)
  else (s, o, true)

/-- shutdown: abort message, release everything the Conn holds -/
def shutdown (fixed : Bool) (s : RS) (sendAbort : Bool) : RS × List Out :=
  if s.closed then (s, []) else
  let pan := !fixed && s.answers.any (fun a => !a.2.hasMsg)       -- D11: `a.releaseMsg()` on a nil func
  let s := { s with closed := true, panicked := s.panicked || pan }
  let held := s.answers.filter (·.2.held)
  let canc : List Out := held.map (fun a => Out.cancelled a.1)
  let (s, o0) := if s.hasBoot then dropRef { s with hasBoot := false } (.loc 0) else (s, [])
  let (s, o1) := dropRefs s ((exportIds s).filterMap (fun id => (s.exports id).map (·.cap)))
  let (s, o2) := dropRefs s (s.answers.flatMap (·.2.resultCaps))
  let (s, o3) := dropRefs s ((s.answers.flatMap (·.2.paramImps)).map CapV.imp)
  let s := { s with answers := [], exports := fun _ => none, imports := [] }
  (s, canc ++ (if sendAbort then [Out.abort] else []) ++ [Out.done] ++ o0 ++ o1 ++ o2 ++ o3)

/-- the capability a path selects in a ready answer's results (`handleCall`, results-ready branch) -/
def resolveTarget (a : Ans) (path : List Nat) : CapV :=
  if a.isBoot then (if path = [] then a.resultCaps.headD .null else .null)
  else match path with
    | [] => .err                          -- the content is a struct: "not a capability"
    | [f] =>
      if a.big then (if f = 300 then a.resultCaps.getD 0 .null else if f = 44 then a.resultCaps.getD 1 .null else .null)
      else a.resultCaps.getD f .null      -- result pointer i is interface #i of the table, when there is one
    | _ => .null

mutual
/-- a call reaches local capability `k`: the fixed behaviours of the harness's capabilities -/
def deliver (fixed : Bool) (fuel : Nat) (s : RS) (q k m : Nat) (tag : Nat) (a : Ans) : RS × List Out :=
  match fuel with
  | 0 => (s, [])
  | fuel + 1 =>
  let o := [Out.deliver k m tag]
  match m with
  | 1 =>
    if a.finishReceived then
      -- the Finish arrived while the call was still queued: its context is already cancelled
      let (s, o') := appReturn fixed fuel { s with answers := put s.answers q { a with held := true, heldOn := k } } q none
      (s, o ++ [Out.cancelled tag] ++ o')
    else ({ s with answers := put s.answers q { a with held := true, heldOn := k } }, o)
  | 0 => let (s, o') := appReturn fixed fuel (s := { s with answers := put s.answers q a }) q (some []) ; (s, o ++ o')
  | 2 =>
    let k' := s.nCaps
    -- the new capability's only reference travels in the result message
    let s := { s with nCaps := k' + 1, refs := put s.refs k' 1, answers := put s.answers q a }
    let (s, o') := appReturn fixed fuel s q (some [.loc k']); (s, o ++ o')
  | 3 => let (s, o') := appReturn fixed fuel { s with answers := put s.answers q a } q none; (s, o ++ o')
  | 4 =>
    let s := addRef { s with answers := put s.answers q a } (.loc 0)
    let (s, o') := appReturn fixed fuel s q (some [.loc 0]); (s, o ++ o')
  | 6 =>
    let k' := s.nCaps
    let s := addRef { s with nCaps := k' + 1, refs := put s.refs k' 1, answers := put s.answers q { a with big := true } } (.loc 0)
    let (s, o') := appReturn fixed fuel s q (some [.loc k', .loc 0]); (s, o ++ o')
  | 7 =>
    let k' := s.nCaps
    let s := { s with nCaps := k' + 1, refs := put s.refs k' 2, answers := put s.answers q a }
    let (s, o') := appReturn fixed fuel s q (some [.loc k', .loc k']); (s, o ++ o')
  | _ => let (s, o') := appReturn fixed fuel { s with answers := put s.answers q a } q none; (s, o ++ o')

/-- dispatch a call to a capability value (`RecvCall` on export / result capability) -/
def callCap (fixed : Bool) (fuel : Nat) (s : RS) (q m : Nat) (a : Ans) : CapV → RS × List Out
  | .loc k => deliver fixed fuel s q k m q a
  | _ =>
    match fuel with
    | 0 => (s, [])
    | fuel + 1 => appReturn fixed fuel { s with answers := put s.answers q a } q none   -- null / error client: exception

/-- `answer.Return`: the application returned `some caps` (a result whose table holds `caps`) or `none` (an error) -/
def appReturn (fixed : Bool) (fuel : Nat) (s : RS) (q : Nat) (res : Option (List CapV)) : RS × List Out :=
  match fuel with
  | 0 => (s, [])
  | fuel + 1 =>
  match lookup s.answers q with
  | none => (s, [])
  | some a =>
    if a.returnSent then (s, []) else       -- `Returner.Return` is called once per call (the Returner contract)
    -- the call's parameters are released when the implementation returns
    let (s, op) := dropRefs s (a.paramImps.map CapV.imp)
    let a := { a with held := false, paramImps := [] }
    let (s, out, a) :=
      match res with
      | none =>
        ({ s with returned := bump s.returned q }, [Out.retExc q], { a with isErr := true, resultsReady := true, returnSent := true })
      | some caps =>
        let (s, ds, refs) := fillCaps s caps
        ({ s with returned := bump s.returned q }, [Out.ret q (some q) ds],
         { a with resultsReady := true, returnSent := true, resultCaps := caps, exportRefs := refs })
    let queued := a.queued
    let a := { a with queued := [] }
    let (s, o2) :=
      if a.finishReceived then
        let (s, o, _) := destroy s q a; (s, o)
      else ({ s with answers := put s.answers q a }, [])
    -- calls pipelined on this answer while it was held are delivered now, in order
    let (s, o3) := queued.foldl (fun (acc : RS × List Out) p =>
      let (s, o) := acc
      match lookup s.answers p.q with
      | none => (s, o)
      | some pa =>
        let tgt := if a.isErr then CapV.err else resolveTarget a p.path
        let (s', o') := callCap fixed fuel s p.q p.m pa tgt
        (s', o ++ o')) (s, [])
    (s, op ++ out ++ o2 ++ o3)
end

def fuelOf0 (s : RS) : Nat := 4 * s.answers.length + 8

/-- shutting down a local capability cancels the calls still running on it (`server.Server.Shutdown` cancels and
    waits for them); each returns its context's error, which may release further capabilities -/
def cancelHeld (fixed : Bool) : Nat → RS → List Out → List Nat → RS × List Out
  | 0, s, acc, _ => (s, acc)
  | _ + 1, s, acc, [] => (s, acc)
  | n + 1, s, acc, k :: ks =>
    let qs := (s.answers.filter (fun a => a.2.held ∧ a.2.heldOn = k)).map (·.1)
    let r := qs.foldl (fun (st : RS × List Out) q =>
      let r2 := appReturn fixed (fuelOf0 st.1) st.1 q none
      (r2.1, st.2 ++ [Out.cancelled q] ++ r2.2)) (s, [])
    let more := r.2.filterMap (fun o => match o with | .sd k' => some k' | _ => none)
    cancelHeld fixed n r.1 (acc ++ r.2) (ks ++ more)

def sdsOf (os : List Out) : List Nat := os.filterMap (fun o => match o with | .sd k' => some k' | _ => none)

inductive Ev
  | bootstrap (q : Nat)
  | call (q : Nat) (tgt : Tgt) (m : Nat) (caps : List Desc)
  | finish (q : Nat) (rel : Bool)
  | release (id n : Nat)
  | appRet (q : Nat) (kind : Nat)        -- a held call returns: 0 ok, 1 exception, 2 a new capability, 3 capability 0,
                                         -- 4 a 301-pointer struct (new capability at 300, capability 0 at 44), 5 a new capability twice
  | close
deriving Repr, DecidableEq

def fuelOf (s : RS) : Nat := fuelOf0 s

def abortWith (fixed : Bool) (s : RS) : RS × List Out := shutdown fixed s true

/-- `recvCap` for the parameters of a call: imports are created; a `receiverHosted` must name an export.
    Result: state, imports created so far, and whether every descriptor was acceptable -/
def recvParams (s : RS) (ds : List Desc) : RS × List Nat × Bool :=
  ds.foldl (fun (acc : RS × List Nat × Bool) d =>
    let (s, imps, ok) := acc
    if !ok then acc else
    match d with
    | .senderHosted i | .senderPromise i =>
      let e := (lookup s.imports i).getD { wireRefs := 0, refs := 0 }
      ({ s with imports := put s.imports i { wireRefs := e.wireRefs + 1, refs := e.refs + 1 } }, imps ++ [i], true)
    | .receiverHosted id => if (s.exports id).isSome then (s, imps, true) else (s, imps, false)
    | _ => (s, imps, true)) (s, [], true)

/-- a protocol violation found after the parameters were received: they are released first, then abort -/
def abortCall (fixed : Bool) (s : RS) (q : Nat) (imps : List Nat) : RS × List Out :=
  let (s, o) := dropRefs s (imps.map CapV.imp)
  let (s, o') := shutdown fixed { s with answers := put s.answers q { hasMsg := false } } true
  (s, o ++ o')

def step (fixed : Bool) (s : RS) (e : Ev) : RS × List Out :=
  if s.closed then (s, []) else
  let fuel := fuelOf s
  match e with
  | .bootstrap q =>
    if (lookup s.answers q).isSome then abortWith fixed s else
    let s := { s with accepted := bump s.accepted q }
    if !s.hasBoot then
      let a : Ans := { isErr := true, resultsReady := true, returnSent := true }
      ({ s with answers := put s.answers q a, returned := bump s.returned q }, [.retExc q])
    else
    let s := addRef s (.loc 0)
    let (s, ds, refs) := fillCaps s [.loc 0]
    let a : Ans := { isBoot := true, resultsReady := true, returnSent := true, resultCaps := [.loc 0], exportRefs := refs }
    ({ s with answers := put s.answers q a, returned := bump s.returned q }, [.ret q none ds])
  | .call q tgt m caps =>
    if (lookup s.answers q).isSome then abortWith fixed s else
    match recvParams s caps with
    | (s, imps, false) =>
      -- parse error: exception Return (D10: the pinned code panics in `annotate(nil)`); what was received is released
      if !fixed then ({ s with panicked := true }, []) else
      let a : Ans := { isErr := true, resultsReady := true, returnSent := true }
      let s := { s with answers := put s.answers q a, accepted := bump s.accepted q, returned := bump s.returned q }
      let (s, o) := dropRefs s (imps.map CapV.imp)
      (s, [.retExc q] ++ o)
    | (s, imps, true) =>
      let a : Ans := { paramImps := imps }
      match tgt with
      | .exp id =>
        match s.exports id with
        | none => abortCall fixed s q imps      -- unknown export: the answer entry stays, stripped of its message
        | some ex => callCap fixed fuel { s with accepted := bump s.accepted q, answers := put s.answers q a } q m a ex.cap
      | .ans tq path =>
        match lookup s.answers tq with
        | none => abortCall fixed s q imps
        | some ta =>
          if ta.finishReceived ∨ tq = q then abortCall fixed s q imps else
          let s := { s with accepted := bump s.accepted q, answers := put s.answers q a }
          if ta.resultsReady then
            if ta.isErr then appReturn fixed fuel s q none
            else callCap fixed fuel s q m a (resolveTarget ta path)
          else
            -- not ready: queued on the held call (the server's answer queue)
            ({ s with answers := put s.answers tq { ta with queued := ta.queued ++ [{ q := q, path := path, m := m }] } }, [])
      | .unknown =>
        if !fixed then ({ s with panicked := true }, []) else
        let a : Ans := { isErr := true, resultsReady := true, returnSent := true }
        let s := { s with answers := put s.answers q a, accepted := bump s.accepted q, returned := bump s.returned q }
        let (s, o) := dropRefs s (imps.map CapV.imp)
        (s, [.retExc q] ++ o)
  | .finish q rel =>
    match lookup s.answers q with
    | none => abortWith fixed s
    | some a =>
      if a.finishReceived then abortWith fixed s else
      let a := { a with finishReceived := true, relCaps := rel }
      if !a.returnSent then
        -- cancels the call: a held implementation returns its context's error
        let s := { s with answers := put s.answers q a }
        if a.held ∧ a.queued = [] ∧ !(s.answers.any (fun x => x.2.queued.any (·.q = q))) then
          let (s, o) := appReturn fixed fuel s q none
          (s, [.cancelled q] ++ o)
        else if a.held ∧ !(s.answers.any (fun x => x.2.queued.any (·.q = q))) then
          let (s, o) := appReturn fixed fuel s q none
          (s, [.cancelled q] ++ o)
        else (s, [])
      else
        let (s, o, ok) := destroy s q a
        if ok then (s, o) else
        -- the answer's clients are released (which may shut capabilities down and cancel the calls on them) before
        -- handleFinish reports the violation
        let r := cancelHeld fixed (2 * s.nCaps + 4) s o (sdsOf o)
        let (s, o') := abortWith fixed r.1; (s, r.2 ++ o')
  | .release id n =>
    match releaseExport s id n with
    | some r => r
    | none => abortWith fixed s
  | .appRet q kind =>
    match lookup s.answers q with
    | none => (s, [])
    | some a =>
      if !a.held ∨ s.answers.any (fun x => x.2.queued.any (·.q = q)) then (s, []) else
      match kind with
      | 0 => appReturn fixed fuel s q (some [])
      | 1 => appReturn fixed fuel s q none
      | 2 =>
        let k' := s.nCaps
        appReturn fixed fuel { s with nCaps := k' + 1, refs := put s.refs k' 1 } q (some [.loc k'])
      | 3 => appReturn fixed fuel (addRef s (.loc 0)) q (some [.loc 0])
      | 4 =>
        let k' := s.nCaps
        appReturn fixed fuel (addRef { s with nCaps := k' + 1, refs := put s.refs k' 1, answers := put s.answers q { a with big := true } } (.loc 0)) q
          (some [.loc k', .loc 0])
      | _ =>
        let k' := s.nCaps
        appReturn fixed fuel { s with nCaps := k' + 1, refs := put s.refs k' 2 } q (some [.loc k', .loc k'])
  | .close => shutdown fixed s true

/-- one event, run to quiescence -/
def stepTop (fixed : Bool) (s : RS) (e : Ev) : RS × List Out :=
  let r := step fixed s e
  if r.1.closed then r else
  cancelHeld fixed (2 * r.1.nCaps + 4) r.1 r.2 (r.2.filterMap (fun o => match o with | .sd k' => some k' | _ => none))

end Capnp.Model.Rpc
