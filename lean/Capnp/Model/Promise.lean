/-!
# Model of `answer.go`: one `Promise`, its pipelined calls and pipelined clients

Actions are the critical sections under `p.mu` (and the blocking waits between them).  `p.mu` is an
explicit field, so a section that forgets to unlock leaves a state in which no further section of
`p` is enabled — a deadlock is a reachable stuck state, not something the model assumes away.

`leaky = true` is the code as pinned: `Future.Client` returns the already-created pipelined client of
a path **without unlocking** `p.mu`.  `leaky = false` is the repaired code.
-/
namespace Capnp.Model.Promise

inductive Phase | unresolved | pending | resolved
deriving Repr, DecidableEq

structure PS where
  mu : Bool                    -- `p.mu` is held (between actions only if some section leaked it)
  phase : Phase
  ongoing : Nat                -- `p.ongoingCalls`
  callsStopped : Option Bool   -- none: nil; some false: made; some true: closed
  proxyA : Bool                -- a pipelined client exists for path A (`p.clients[A]`)
  proxyB : Bool
  fulfilledA : Nat             -- times path A's ClientPromise was fulfilled
  fulfilledB : Nat
  signals : Nat                -- times `p.resolved` was closed
  started : Nat                -- pipelined calls issued (ghost)
  waiting : Nat                -- pipelined calls blocked until resolution
  toCaller : Nat               -- calls delivered to the PipelineCaller (ghost)
  toResult : Nat               -- calls delivered to the capability in the result (ghost)
  resolverBusy : Bool          -- Fulfill/Reject is between its two critical sections
  released : Bool              -- ReleaseClients ran its critical section
  releasedA : Nat              -- times path A's proxy client was released
  releasedB : Nat
  panicked : Bool              -- a Go panic (close of closed channel, Fulfill twice)
deriving Repr, DecidableEq

inductive Act
  | client (pathA : Bool)      -- `Future.Client()` for one of two paths
  | callStart                  -- `PipelineSend/Recv`: first critical section
  | callEnd                    -- … the section after `caller.Pipeline…` returned
  | callWake                   -- a call blocked in the pending state proceeds after resolution
  | resolve1                   -- `Fulfill`/`Reject`: first section of `resolve`
  | fulfillProxy (pathA : Bool)-- `row[i].promise.Fulfill(…)`, outside the lock
  | resolve2                   -- last section of `resolve` (after proxies fulfilled and calls stopped)
  | release                    -- `ReleaseClients`, after `<-p.resolved`
deriving Repr, DecidableEq

def init : PS :=
  { mu := false, phase := .unresolved, ongoing := 0, callsStopped := none, proxyA := false, proxyB := false,
    fulfilledA := 0, fulfilledB := 0, signals := 0, started := 0, waiting := 0, toCaller := 0, toResult := 0,
    resolverBusy := false, released := false, releasedA := 0, releasedB := 0, panicked := false }

def step (leaky : Bool) (s : PS) : Act → Option PS
  | .client a =>
    if s.mu then none else                               -- cannot take the lock
    match s.phase with
    | .unresolved =>
      if (if a then s.proxyA else s.proxyB) then
        some { s with mu := leaky }                        -- existing row: pinned code returns holding the lock
      else if a then some { s with proxyA := true } else some { s with proxyB := true }
    | .pending => none                                    -- waits for resolution
    | .resolved => some s                                 -- the result's own client
  | .callStart =>
    if s.mu then none else
    match s.phase with
    | .unresolved => some { s with ongoing := s.ongoing + 1, started := s.started + 1 }
    | .pending => some { s with waiting := s.waiting + 1, started := s.started + 1 }
    | .resolved => some { s with toResult := s.toResult + 1, started := s.started + 1 }
  | .callEnd =>
    if s.mu ∨ s.ongoing = 0 then none else
    let o := s.ongoing - 1
    match s.callsStopped with
    | some false => if o = 0 then some { s with ongoing := o, toCaller := s.toCaller + 1, callsStopped := some true }
                    else some { s with ongoing := o, toCaller := s.toCaller + 1 }
    | some true => some { s with ongoing := o, toCaller := s.toCaller + 1, panicked := s.panicked || decide (o = 0) }
    | none => some { s with ongoing := o, toCaller := s.toCaller + 1 }
  | .callWake =>
    if s.mu ∨ s.waiting = 0 ∨ s.phase ≠ .resolved then none else
    some { s with waiting := s.waiting - 1, toResult := s.toResult + 1 }
  | .resolve1 =>
    if s.mu then none else
    if s.phase ≠ .unresolved then none else            -- documented misuse: only one of Fulfill / Reject / Join, once
    if s.proxyA ∨ s.proxyB ∨ s.ongoing > 0 then
      some { s with phase := .pending, resolverBusy := true, callsStopped := if s.ongoing > 0 then some false else none }
    else some { s with phase := .resolved, signals := s.signals + 1 }
  | .fulfillProxy a =>
    if !s.resolverBusy then none else
    if a then (if s.proxyA ∧ s.fulfilledA = 0 then some { s with fulfilledA := 1 } else none)
    else (if s.proxyB ∧ s.fulfilledB = 0 then some { s with fulfilledB := 1 } else none)
  | .resolve2 =>
    if s.mu ∨ !s.resolverBusy then none else
    if (s.proxyA ∧ s.fulfilledA = 0) ∨ (s.proxyB ∧ s.fulfilledB = 0) then none else   -- still fulfilling proxies
    if s.callsStopped = some false then none else                                       -- `<-p.callsStopped`
    some { s with phase := .resolved, resolverBusy := false, callsStopped := none, signals := s.signals + 1 }
  | .release =>
    if s.mu ∨ s.phase ≠ .resolved then none else
    if s.released then some s else
    some { s with released := true, releasedA := s.releasedA + (if s.proxyA then 1 else 0),
                  releasedB := s.releasedB + (if s.proxyB then 1 else 0) }

def run (leaky : Bool) (s : PS) : List Act → Option PS
  | [] => some s
  | a :: as => (step leaky s a).bind (fun s' => run leaky s' as)

end Capnp.Model.Promise
