/-!
# Model of the stream transport's write side (`rpc/transport.go`: `transport.send`, `streamCodec.Encode`,
# `ctxWriteCloser.Write`; `Encoder.Encode` writing the header and then each segment)

A frame is written as a sequence of `Write` calls, one per buffer (header, then each segment).  The outcome of
each `Write` is chosen by the environment: all of the buffer, a proper non-empty part of it, or nothing — the
last two together with an error.  The model records, per frame, how much of it reached the stream.

`fixed = false` is the code as pinned: the stream is marked broken only when the error returned by
`Encoder.Encode` *is* a `partialWriteError`; `Encode` wraps every error (`errorf("encode: %v", err)`), so the
assertion never holds and the stream is never marked.  `fixed = true` is the repaired code: any error after
the first byte of a frame marks the stream broken.
-/
namespace Capnp.Model.Transport

/-- outcome of one `Write` -/
inductive W | full | part | zero
deriving Repr, DecidableEq

/-- what reached the stream of one frame -/
inductive Sent
  | whole            -- every buffer completely
  | torn             -- at least one byte, not all
deriving Repr, DecidableEq

structure TS where
  broken : Bool := false
  log : List Sent := []        -- one entry per frame that put at least one byte on the stream (ghost), oldest first
deriving Repr, DecidableEq

/-- writes of one frame: returns (bytes of this frame on the stream?, all written?, error?) -/
def writeFrame : List W → Bool → Bool × Bool      -- outcomes, wroteSomething ↦ (wroteSomething, failed)
  | [], wrote => (wrote, false)
  | .full :: rest, _ => writeFrame rest true
  | .part :: _, _ => (true, true)
  | .zero :: _, wrote => (wrote, true)

/-- `send()` of one frame with the given `Write` outcomes: result `true` = no error -/
def send (fixed : Bool) (s : TS) (outcomes : List W) : TS × Bool :=
  if s.broken then (s, false) else                       -- "stream error?" check: nothing is written
  let (wrote, failed) := writeFrame outcomes false
  if !failed then ({ s with log := s.log ++ [.whole] }, true)
  else if wrote then ({ broken := fixed, log := s.log ++ [.torn] }, false)
  else (s, false)

def run (fixed : Bool) (s : TS) : List (List W) → TS
  | [] => s
  | f :: fs => run fixed (send fixed s f).1 fs

/-- the stream is a sequence of whole frames, followed by at most one torn frame, followed by nothing -/
def wellFormed : List Sent → Bool
  | [] => true
  | [.torn] => true
  | .whole :: rest => wellFormed rest
  | _ => false

abbrev WellFormed (l : List Sent) : Prop := wellFormed l = true

end Capnp.Model.Transport
