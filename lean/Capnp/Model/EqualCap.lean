/-!
# `Equal`, interface case (pointer.go): two capability pointers

Within one message the pointers are compared through the capability table: the same index is the same capability; two
different indices are equal only if both lie inside the table and hold the same client (two null entries count as the
same).  Across messages only the clients are compared.  `tab k` is the client stored at entry `k` (`none`: a null entry).
-/
namespace Capnp.Model.EqualCap

/-- `Interface.Client()`: nothing for an index outside the table or a null entry -/
def clientAt (ntab : Nat) (tab : Nat → Option Nat) (i : Nat) : Option Nat := if i < ntab then tab i else none

/-- both pointers in the same message -/
def eqSameMsg (ntab : Nat) (tab : Nat → Option Nat) (i j : Nat) : Bool :=
  if i = j then true
  else if ntab ≤ i ∨ ntab ≤ j then false
  else clientAt ntab tab i == clientAt ntab tab j

/-- pointers of two messages -/
def eqAcross (n1 : Nat) (t1 : Nat → Option Nat) (n2 : Nat) (t2 : Nat → Option Nat) (i j : Nat) : Bool :=
  clientAt n1 t1 i == clientAt n2 t2 j

/-- the round-5 variant C17-8: pointers of one message that sit in different segments are compared like pointers of two
    messages -/
def eqSameMsgBySegment (sameSeg : Bool) (ntab : Nat) (tab : Nat → Option Nat) (i j : Nat) : Bool :=
  if sameSeg then eqSameMsg ntab tab i j else eqAcross ntab tab ntab tab i j

end Capnp.Model.EqualCap
