import Capnp.Model.Layout
/-!
# Model of `pogs` for the data section (`pogs/insert.go` insertStruct / insertField, `pogs/extract.go`)

`Insert` stores the Go struct's `Which` in the discriminant (once, per struct), then walks the schema's fields in
order: a member of the union whose discriminant value is not `Which` is skipped; every other field's Go value is
stored XOR its schema default.  `Extract` does the converse, leaving the Go fields of non-active members alone.
Pointer-typed fields (text, data, lists, structs, capabilities) go through the builder / reader API and are
covered by the value stream, not by this model.
-/
namespace Capnp.Model.Pogs
open Capnp.Model.Layout

def active (which : Option Nat) (f : Field) : Bool :=
  match f.disc with | none => true | some d => which = some d

def insertField (f : Field) (v : Nat) (b : Bytes) : Bytes :=
  match f.kind with
  | .int w => setU b (f.offset * w) w (v ^^^ f.mask)
  | .bool => setBit b f.offset ((v = 1) != (f.mask = 1))
  | _ => b

def extractField (f : Field) (b : Bytes) : Nat :=
  match f.kind with
  | .int w => getU b (f.offset * w) w ^^^ f.mask
  | .bool => if getBit b f.offset != (f.mask = 1) then 1 else 0
  | _ => 0

/-- `Insert` into a struct whose data section is `b` -/
def insertStruct (n : Node) (which : Option Nat) (fs : List (Field × Nat)) (b : Bytes) : Bytes :=
  let b := match which with | some d => setU b (tagOff n) 2 d | none => b
  fs.foldl (fun b fv => if active which fv.1 then insertField fv.1 fv.2 b else b) b

/-- `Extract`: the discriminant read back, and every field's Go value (0 for a non-active member: left untouched) -/
def extractStruct (n : Node) (hasUnion : Bool) (fs : List Field) (b : Bytes) : Option Nat × List Nat :=
  let which := if hasUnion then some (getU b (tagOff n) 2) else none
  (which, fs.map (fun f => if active which f then extractField f b else 0))

end Capnp.Model.Pogs
