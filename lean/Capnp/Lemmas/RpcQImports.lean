import Capnp.Lemmas.RpcQ
import Capnp.Lemmas.RpcAns
/-! Invariant of the import table of the outbound half (`Model.RpcQ`): local references, wire references, Releases. -/
namespace Capnp.Lemmas.RpcQImports
open Capnp.Model.RpcQ Capnp.Lemmas.RpcQ
open Capnp.Model.Rpc (IdGen bump reset lookup put del Imp)
open Capnp.Lemmas.RpcAns (lookup_put_self lookup_put_ne lookup_del_self lookup_del_ne)

/-- references on import i held by a local call's results -/
def capsOf : CS → List Ref
  | .ok _ _ caps => caps
  | _ => []

def refOfH : HS → List Ref
  | .res r => [r]
  | _ => []

def heldH (hs : List HS) (i : Nat) : Nat := (hs.map (fun h => (refOfH h).count (.imp i))).sum
def heldC (cs : List CS) (i : Nat) : Nat := (cs.map (fun c => (capsOf c).count (.imp i))).sum

/-- local references on import i: handles that refer to it, entries of the capability tables of results not yet released -/
def held (s : QS) (i : Nat) : Nat := heldH s.handles i + heldC s.calls i

/-- the import table against the references the application holds (`t`: references in the hands of the step in
    progress) -/
def MInvT (s : QS) (t : List Ref) : Prop :=
  s.closed = false →
    s.doubleFree = false ∧
    ∀ i, match lookup s.imports i with
      | some e => e.refs = held s i + t.count (.imp i) ∧ 0 < e.refs ∧ e.wireRefs = s.received i ∧ 0 < e.wireRefs
      | none => held s i + t.count (.imp i) = 0

theorem addImport_MInvT (s : QS) (i : Nat) (t : List Ref) (h : MInvT s t) : MInvT (addImport s i) (.imp i :: t) := by
  intro hc
  have hc' : s.closed = false := by
    unfold addImport at hc; split at hc <;> exact hc
  obtain ⟨hd, hi⟩ := h hc'
  unfold addImport
  cases hl : lookup s.imports i with
  | some e =>
    simp only
    refine ⟨hd, ?_⟩
    intro j
    have hj := hi j
    by_cases hji : j = i
    · subst hji
      rw [hl] at hj
      simp only [lookup_put_self, held, bump, ↓reduceIte, List.count_cons_self] at *
      omega
    · have hne : Ref.imp i ≠ Ref.imp j := fun e => hji (by cases e; rfl)
      simp only [lookup_put_ne _ _ _ _ hji, held, bump, hji, ↓reduceIte, List.count_cons_of_ne hne] at *
      exact hj
  | none =>
    simp only
    refine ⟨hd, ?_⟩
    intro j
    have hj := hi j
    by_cases hji : j = i
    · subst hji
      rw [hl] at hj
      simp only [lookup_put_self, held, bump, reset, ↓reduceIte, List.count_cons_self] at *
      exact ⟨by omega, by omega, trivial, by omega⟩
    · have hne : Ref.imp i ≠ Ref.imp j := fun e => hji (by cases e; rfl)
      simp only [lookup_put_ne _ _ _ _ hji, held, bump, reset, hji, ↓reduceIte, List.count_cons_of_ne hne] at *
      exact hj

theorem MInvT_perm (s : QS) (t t' : List Ref) (hp : ∀ i, t'.count (.imp i) = t.count (.imp i)) (h : MInvT s t) : MInvT s t' := by
  intro hc
  obtain ⟨hd, hi⟩ := h hc
  refine ⟨hd, fun i => ?_⟩
  have := hi i
  rw [hp i]; exact this

theorem count_bad (w : Why) (t : List Ref) (i : Nat) : (Ref.bad w :: t).count (.imp i) = t.count (.imp i) :=
  List.count_cons_of_ne (by intro e; cases e)

theorem recvCap_MInvT (s : QS) (d : Capnp.Model.Rpc.Desc) (t : List Ref) (h : MInvT s t) :
    MInvT (recvCap s d).1 ((recvCap s d).2 :: t) := by
  cases d with
  | senderHosted i => exact addImport_MInvT s i t h
  | senderPromise i => exact addImport_MInvT s i t h
  | none => exact MInvT_perm s t _ (fun i => count_bad _ t i) h
  | unknown => exact MInvT_perm s t _ (fun i => count_bad _ t i) h
  | receiverHosted _ => exact MInvT_perm s t _ (fun i => count_bad _ t i) h

theorem recvCaps_MInvT (s : QS) (ds : List Capnp.Model.Rpc.Desc) (t : List Ref) (h : MInvT s t) :
    MInvT (recvCaps s ds).1 ((recvCaps s ds).2 ++ t) := by
  induction ds generalizing s t with
  | nil => exact h
  | cons d ds ih =>
    simp only [recvCaps]
    have := ih (recvCap s d).1 ((recvCap s d).2 :: t) (recvCap_MInvT s d t h)
    refine MInvT_perm _ _ _ ?_ this
    intro i
    simp only [List.count_append, List.count_cons, List.cons_append]
    omega

theorem addRef_MInvT (s : QS) (r : Ref) (t : List Ref) (h : MInvT s t)
    (hex : s.closed = false → ∀ i, r = .imp i → 0 < held s i + t.count (.imp i)) : MInvT (addRef s r) (r :: t) := by
  cases r with
  | bad w => exact MInvT_perm s t _ (fun i => count_bad _ t i) h
  | imp i =>
    cases hl : lookup s.imports i with
    | none =>
      intro hc
      simp only [addRef, hl] at hc
      obtain ⟨hd, hi⟩ := h hc
      have hpos := hex hc i rfl
      have := hi i; rw [hl] at this; simp only at this; omega
    | some e =>
      intro hc
      simp only [addRef, hl] at hc ⊢
      obtain ⟨hd, hi⟩ := h hc
      refine ⟨hd, ?_⟩
      intro j
      have hj := hi j
      by_cases hji : j = i
      · subst hji
        rw [hl] at hj
        simp only [lookup_put_self, held, List.count_cons_self] at *
        exact ⟨by omega, by omega, hj.2.2.1, hj.2.2.2⟩
      · have hne : Ref.imp i ≠ Ref.imp j := fun e => hji (by cases e; rfl)
        simp only [lookup_put_ne _ _ _ _ hji, held, List.count_cons_of_ne hne] at *
        exact hj

/-- what dropping references may do to the table: only entries of dropped imports go, each with a Release that
    carries every reference received; nothing is created -/
def DropSpec (s s' : QS) (o : List Ev) : Prop :=
  s'.closed = s.closed ∧ s'.received = s.received ∧ s'.handles = s.handles ∧ s'.calls = s.calls ∧
  (∀ i, lookup s.imports i = none → lookup s'.imports i = none) ∧
  (∀ i n, Ev.rel i n ∈ o → n = s.received i ∧ lookup s'.imports i = none ∧ s.closed = false) ∧
  (∀ i, lookup s.imports i ≠ none → lookup s'.imports i = none → s.closed = false → ∃ n, Ev.rel i n ∈ o)

theorem dropRef_MInvT (s : QS) (r : Ref) (t : List Ref) (h : MInvT s (r :: t)) :
    MInvT (dropRef s r).1 t ∧ DropSpec s (dropRef s r).1 (dropRef s r).2 := by
  cases r with
  | bad w =>
    refine ⟨MInvT_perm s _ t (fun i => (count_bad w t i).symm) h, rfl, rfl, rfl, rfl, fun _ h => h, ?_, ?_⟩
    · intro i n hm; cases hm
    · intro i h1 h2; exact absurd h2 h1
  | imp i =>
    cases hl : lookup s.imports i with
    | none =>
      simp only [dropRef, hl]
      refine ⟨?_, rfl, rfl, rfl, rfl, fun _ h => h, ?_, ?_⟩
      · intro hc
        obtain ⟨hd, hi⟩ := h hc
        have := hi i; rw [hl] at this; simp only [List.count_cons_self] at this; omega
      · intro j n hm; cases hm
      · intro j h1 h2; exact absurd h2 h1
    | some e =>
      simp only [dropRef, hl]
      by_cases hc : s.closed = false
      · obtain ⟨hd, hi⟩ := h hc
        have hii := hi i
        rw [hl] at hii
        simp only [List.count_cons_self] at hii
        have h0 : ¬ e.refs = 0 := by omega
        simp only [h0, ↓reduceIte]
        by_cases h1 : e.refs = 1
        · simp only [h1, ↓reduceIte]
          have hif : (if s.closed = true then ([] : List Ev) else [Ev.rel i e.wireRefs]) = [Ev.rel i e.wireRefs] := by simp [hc]
          rw [hif]
          refine ⟨?_, rfl, rfl, rfl, rfl, ?_, ?_, ?_⟩
          · intro _
            refine ⟨hd, fun j => ?_⟩
            have hj := hi j
            by_cases hji : j = i
            · subst hji; simp only [lookup_del_self, held] at *; omega
            · have hne : Ref.imp i ≠ Ref.imp j := fun e => hji (by cases e; rfl)
              simp only [lookup_del_ne _ _ _ hji, held, List.count_cons_of_ne hne] at *; exact hj
          · intro j hj
            by_cases hji : j = i
            · subst hji; exact lookup_del_self _ _
            · rw [lookup_del_ne _ _ _ hji]; exact hj
          · intro j n hm
            simp only [List.mem_singleton, Ev.rel.injEq] at hm
            obtain ⟨rfl, rfl⟩ := hm
            exact ⟨hii.2.2.1, lookup_del_self _ _, hc⟩
          · intro j hj1 hj2 _
            by_cases hji : j = i
            · subst hji; exact ⟨_, List.mem_singleton.mpr rfl⟩
            · rw [lookup_del_ne _ _ _ hji] at hj2
              exact absurd hj2 hj1
        · simp only [h1, ↓reduceIte]
          refine ⟨?_, rfl, rfl, rfl, rfl, ?_, ?_, ?_⟩
          · intro _
            refine ⟨hd, fun j => ?_⟩
            have hj := hi j
            by_cases hji : j = i
            · subst hji; simp only [lookup_put_self, held] at *
              exact ⟨by omega, by omega, hii.2.2.1, hii.2.2.2⟩
            · have hne : Ref.imp i ≠ Ref.imp j := fun e => hji (by cases e; rfl)
              simp only [lookup_put_ne _ _ _ _ hji, held, List.count_cons_of_ne hne] at *; exact hj
          · intro j hj
            by_cases hji : j = i
            · subst hji; rw [hl] at hj; cases hj
            · rw [lookup_put_ne _ _ _ _ hji]; exact hj
          · intro j n hm; cases hm
          · intro j hj1 hj2 _
            by_cases hji : j = i
            · subst hji; rw [lookup_put_self] at hj2; cases hj2
            · rw [lookup_put_ne _ _ _ _ hji] at hj2
              exact absurd hj2 hj1
      · -- a connection that has shut down: nothing is claimed
        have hct : s.closed = true := by simpa using hc
        have hnc : ∀ s' : QS, s'.closed = s.closed → MInvT s' t := fun s' h' hc' => by rw [h', hct] at hc'; cases hc'
        have hif : ∀ l : List Ev, (if s.closed = true then ([] : List Ev) else l) = [] := fun l => by simp [hct]
        simp only [hif]
        split
        · refine ⟨hnc _ rfl, ⟨rfl, rfl, rfl, rfl, fun _ h => h, ?_, ?_⟩⟩
          · intro j n hm; cases hm
          · intro j _ _ hc'; exact absurd hc' hc
        · split
          · refine ⟨hnc _ rfl, ⟨rfl, rfl, rfl, rfl, ?_, ?_, ?_⟩⟩
            · intro j hj
              by_cases hji : j = i
              · subst hji; exact lookup_del_self _ _
              · rw [lookup_del_ne _ _ _ hji]; exact hj
            · intro j n hm; cases hm
            · intro j _ _ hc'; exact absurd hc' hc
          · refine ⟨hnc _ rfl, ⟨rfl, rfl, rfl, rfl, ?_, ?_, ?_⟩⟩
            · intro j hj
              by_cases hji : j = i
              · subst hji; rw [hl] at hj; cases hj
              · rw [lookup_put_ne _ _ _ _ hji]; exact hj
            · intro j n hm; cases hm
            · intro j _ _ hc'; exact absurd hc' hc

theorem DropSpec_refl (s : QS) : DropSpec s s [] :=
  ⟨rfl, rfl, rfl, rfl, fun _ h => h, fun _ _ hm => (by cases hm), fun _ h1 h2 _ => absurd h2 h1⟩

theorem DropSpec_trans (s a b : QS) (o1 o2 : List Ev) (h1 : DropSpec s a o1) (h2 : DropSpec a b o2) : DropSpec s b (o1 ++ o2) := by
  obtain ⟨c1, r1, hh1, cc1, n1, e1, d1⟩ := h1
  obtain ⟨c2, r2, hh2, cc2, n2, e2, d2⟩ := h2
  refine ⟨c2.trans c1, r2.trans r1, hh2.trans hh1, cc2.trans cc1, fun i h => n2 i (n1 i h), ?_, ?_⟩
  · intro i n hm
    rcases List.mem_append.mp hm with hm | hm
    · obtain ⟨x, y, z⟩ := e1 i n hm
      exact ⟨x, n2 i y, z⟩
    · obtain ⟨x, y, z⟩ := e2 i n hm
      exact ⟨by rw [x, r1], y, by rw [← c1]; exact z⟩
  · intro i hs hb hc
    by_cases ha : lookup a.imports i = none
    · obtain ⟨n, hn⟩ := d1 i hs ha hc
      exact ⟨n, List.mem_append.mpr (Or.inl hn)⟩
    · obtain ⟨n, hn⟩ := d2 i ha hb (by rw [c1]; exact hc)
      exact ⟨n, List.mem_append.mpr (Or.inr hn)⟩

theorem dropRefs_MInvT (s : QS) (rs t : List Ref) (h : MInvT s (rs ++ t)) :
    MInvT (dropRefs s rs).1 t ∧ DropSpec s (dropRefs s rs).1 (dropRefs s rs).2 := by
  induction rs generalizing s with
  | nil => exact ⟨h, DropSpec_refl s⟩
  | cons r rs ih =>
    simp only [dropRefs]
    obtain ⟨ha, sa⟩ := dropRef_MInvT s r (rs ++ t) h
    obtain ⟨hb, sb⟩ := ih _ ha
    exact ⟨hb, DropSpec_trans _ _ _ _ _ sa sb⟩

theorem sum_map_set {α} (l : List α) (f : α → Nat) (k : Nat) (v old : α) (h : l[k]? = some old) :
    ((setAt l k v).map f).sum + f old = (l.map f).sum + f v := by
  induction l generalizing k with
  | nil => simp at h
  | cons x xs ih =>
    cases k with
    | zero =>
      simp only [List.getElem?_cons_zero, Option.some.injEq] at h
      subst h
      simp only [setAt, List.set_cons_zero, List.map_cons, List.sum_cons]; omega
    | succ k =>
      simp only [List.getElem?_cons_succ] at h
      have := ih k h
      simp only [setAt, List.set_cons_succ, List.map_cons, List.sum_cons] at *
      omega

theorem sum_map_push {α} (l : List α) (f : α → Nat) (v : α) : ((l ++ [v]).map f).sum = (l.map f).sum + f v := by
  simp

theorem heldH_set (hs : List HS) (hd : Nat) (v old : HS) (h : hs[hd]? = some old) (i : Nat) :
    heldH (setAt hs hd v) i + (refOfH old).count (.imp i) = heldH hs i + (refOfH v).count (.imp i) :=
  sum_map_set hs _ hd v old h

theorem heldC_set (cs : List CS) (c : Nat) (v old : CS) (h : cs[c]? = some old) (i : Nat) :
    heldC (setAt cs c v) i + (capsOf old).count (.imp i) = heldC cs i + (capsOf v).count (.imp i) :=
  sum_map_set cs _ c v old h

theorem heldH_push (hs : List HS) (v : HS) (i : Nat) : heldH (hs ++ [v]) i = heldH hs i + (refOfH v).count (.imp i) :=
  sum_map_push hs _ v

theorem heldC_push (cs : List CS) (v : CS) (i : Nat) : heldC (cs ++ [v]) i = heldC cs i + (capsOf v).count (.imp i) :=
  sum_map_push cs _ v

/-- the invariant only reads the import table, the handles, the calls, the flags and the received counters -/
def mcore (s : QS) : List (Nat × Imp) × List HS × List CS × Bool × Bool × (Nat → Nat) :=
  (s.imports, s.handles, s.calls, s.closed, s.doubleFree, s.received)

theorem MInvT_congr (s s' : QS) (t : List Ref) (h : mcore s' = mcore s) (hi : MInvT s t) : MInvT s' t := by
  simp only [mcore, Prod.mk.injEq] at h
  obtain ⟨h1, h2, h3, h4, h5, h6⟩ := h
  unfold MInvT held at *
  rw [h1, h2, h3, h4, h5, h6]; exact hi

/-- references move between the step's hands and the handles / results (or nothing moves): the table is untouched -/
theorem MInvT_move (s s' : QS) (t t' : List Ref) (hi : MInvT s t)
    (him : s'.imports = s.imports) (hc : s'.closed = s.closed) (hd : s'.doubleFree = s.doubleFree) (hr : s'.received = s.received)
    (hm : ∀ i, held s' i + t'.count (.imp i) = held s i + t.count (.imp i)) : MInvT s' t' := by
  intro hcl
  rw [hc] at hcl
  obtain ⟨h1, h2⟩ := hi hcl
  refine ⟨by rw [hd]; exact h1, fun i => ?_⟩
  have := h2 i
  rw [him, hr, hm i]; exact this

theorem failCall_MInv (s : QS) (w : Why) (h : MInvT s []) : MInvT (failCall s w).1 [] :=
  MInvT_move s _ [] [] h rfl rfl rfl rfl (fun i => by simp [failCall, held, heldC_push, capsOf])

theorem askCall_MInv (s : QS) (tgt : String) (m : Nat) (h : MInvT s []) : MInvT (askCall s tgt m).1 [] :=
  MInvT_move s _ [] [] h rfl rfl rfl rfl (fun i => by simp [askCall, ask, held, heldC_push, capsOf])

theorem callRef_MInv (s : QS) (r : Ref) (m : Nat) (h : MInvT s []) : MInvT (callRef s r m).1 [] := by
  unfold callRef
  cases r with
  | imp i => simp only; split; exact failCall_MInv s _ h; exact askCall_MInv s _ m h
  | bad w => exact failCall_MInv s w h

theorem shutdown_MInv (s : QS) (t : List Ref) : MInvT (shutdown s).1 t := by
  intro hc; simp [shutdown] at hc

theorem le_sum_map {α} (l : List α) (f : α → Nat) (k : Nat) (v : α) (h : l[k]? = some v) : f v ≤ (l.map f).sum := by
  induction l generalizing k with
  | nil => simp at h
  | cons x xs ih =>
    cases k with
    | zero => simp only [List.getElem?_cons_zero, Option.some.injEq] at h; subst h; simp
    | succ k => simp only [List.getElem?_cons_succ] at h; have := ih k h; simp only [List.map_cons, List.sum_cons]; omega

theorem heldC_ge (cs : List CS) (c : Nat) (v : CS) (h : cs[c]? = some v) (i : Nat) : (capsOf v).count (.imp i) ≤ heldC cs i :=
  le_sum_map cs (fun c => (capsOf c).count (.imp i)) c v h

theorem addRef_setHandles_mcore (s : QS) (H : List HS) (r : Ref) :
    mcore (addRef { s with handles := H } r) = mcore { addRef s r with handles := H } := by
  cases r with
  | bad w => rfl
  | imp i => simp only [addRef]; split <;> rfl

theorem head_count_pos (caps : List Ref) (i : Nat) (h : caps.head? = some (.imp i)) : 0 < caps.count (.imp i) := by
  cases caps with
  | nil => cases h
  | cons x xs => simp only [List.head?_cons, Option.some.injEq] at h; subst h; simp

/-- what a step may do to the import table, as seen on the wire: a `Release` carries every reference received for
    its import and the entry is gone; an entry goes (while the connection is up) only with such a `Release` -/
def RelSpec (s s' : QS) (o : List Ev) : Prop :=
  (∀ i n, Ev.rel i n ∈ o → n = s'.received i ∧ lookup s'.imports i = none ∧ s'.closed = false) ∧
  (∀ i, lookup s.imports i ≠ none → lookup s'.imports i = none → s'.closed = false → ∃ n, Ev.rel i n ∈ o)

theorem relspec_same (s s' : QS) (o : List Ev) (him : s'.imports = s.imports) (hno : ∀ i n, Ev.rel i n ∉ o) : RelSpec s s' o :=
  ⟨fun i n hm => absurd hm (hno i n), fun i h1 h2 _ => by rw [him] at h2; exact absurd h2 h1⟩

theorem relspec_closed (s s' : QS) (o : List Ev) (hc : s'.closed = true) (hno : ∀ i n, Ev.rel i n ∉ o) : RelSpec s s' o :=
  ⟨fun i n hm => absurd hm (hno i n), fun i _ _ h3 => by rw [hc] at h3; cases h3⟩

theorem relspec_of_drop (s0 s s' : QS) (o : List Ev) (h : DropSpec s s' o)
    (hk : ∀ i, lookup s0.imports i ≠ none → lookup s.imports i ≠ none) : RelSpec s0 s' o := by
  obtain ⟨c, r, _, _, _, e, d⟩ := h
  refine ⟨fun i n hm => ?_, fun i h1 h2 h3 => ?_⟩
  · obtain ⟨x, y, z⟩ := e i n hm
    exact ⟨by rw [r]; exact x, y, by rw [c]; exact z⟩
  · exact d i (hk i h1) h2 (by rw [← c]; exact h3)

theorem failPending_norel (cs : List CS) (k : Nat) : ∀ i n, Ev.rel i n ∉ (failPending cs k).2 := by
  induction cs generalizing k with
  | nil => intro i n hm; cases hm
  | cons c cs ih =>
    intro i n hm
    cases c <;> simp only [failPending, List.mem_cons] at hm
    · rcases hm with hm | hm
      · cases hm
      · exact ih _ i n hm
    all_goals exact ih _ i n hm

theorem shutdown_relspec (s0 s : QS) : RelSpec s0 (shutdown s).1 (shutdown s).2 := by
  apply relspec_closed _ _ _ rfl
  intro i n hm
  simp only [shutdown, List.mem_append, List.mem_cons, List.not_mem_nil, or_false] at hm
  rcases hm with (hm | hm) | hm
  · cases hm
  · cases hm
  · exact failPending_norel _ _ i n hm

theorem addImport_keeps (s : QS) (j i : Nat) (h : lookup s.imports i ≠ none) : lookup (addImport s j).imports i ≠ none := by
  unfold addImport
  split
  · by_cases hij : i = j
    · subst hij; simp [lookup_put_self]
    · simp only [lookup_put_ne _ _ _ _ hij]; exact h
  · by_cases hij : i = j
    · subst hij; simp [lookup_put_self]
    · simp only [lookup_put_ne _ _ _ _ hij]; exact h

theorem recvCaps_keeps (s : QS) (ds : List Capnp.Model.Rpc.Desc) (i : Nat) (h : lookup s.imports i ≠ none) :
    lookup (recvCaps s ds).1.imports i ≠ none := by
  induction ds generalizing s with
  | nil => exact h
  | cons d ds ih =>
    simp only [recvCaps]
    apply ih
    cases d <;> simp only [recvCap] <;> first | exact h | exact addImport_keeps s _ i h

theorem addRef_keeps (s : QS) (r : Ref) (i : Nat) (h : lookup s.imports i ≠ none) : lookup (addRef s r).imports i ≠ none := by
  cases r with
  | bad w => exact h
  | imp j =>
    simp only [addRef]
    split
    · by_cases hij : i = j
      · subst hij; simp [lookup_put_self]
      · simp only [lookup_put_ne _ _ _ _ hij]; exact h
    · exact h

theorem bootRet_pre (s : QS) (q hd kind : Nat) (descs : List Capnp.Model.Rpc.Desc) (r : Ref) (hI : Inv s) (h : MInvT s [])
    (hq : s.questions q = some ⟨.boot hd, false⟩)
    (hr : (if kind = 1 then (recvCaps s descs).2.head?.getD (Ref.bad Why.null) else Ref.bad Why.err) = r) :
    MInvT (addRef { sendFinish (freeQ (recvCaps s descs).1 q) q with
                    handles := setAt (sendFinish (freeQ (recvCaps s descs).1 q) q).handles hd (.res r) } r) ((recvCaps s descs).2 ++ []) := by
  have hrc := recvCaps_MInvT s descs [] h
  have hic := recvCaps_icore s descs
  simp only [icore, Prod.mk.injEq] at hic
  obtain ⟨_, _, _, _, _, hhs, hcs, _⟩ := hic
  have hh := hI.l.qh q hd hq
  -- the capability the bootstrap resolves to
  have h2 : MInvT (sendFinish (freeQ (recvCaps s descs).1 q) q) ((recvCaps s descs).2 ++ []) := MInvT_congr _ _ _ rfl hrc
  have h3 : MInvT (addRef (sendFinish (freeQ (recvCaps s descs).1 q) q) r) (r :: ((recvCaps s descs).2 ++ [])) := by
    apply addRef_MInvT _ r _ h2
    intro _ i hri
    subst hri
    have hk : kind = 1 := by
      by_cases hk : kind = 1
      · exact hk
      · simp [hk] at hr
    simp only [hk, ↓reduceIte] at hr
    have hhead : (recvCaps s descs).2.head? = some (.imp i) := by
      cases hx : (recvCaps s descs).2.head? with
      | none => simp [hx] at hr
      | some x => simp only [hx, Option.getD_some] at hr; rw [hr]
    have := head_count_pos _ i hhead
    simp only [List.append_nil]; omega
  have hah : (addRef (sendFinish (freeQ (recvCaps s descs).1 q) q) r).handles = s.handles := by
    have := addRef_icore (sendFinish (freeQ (recvCaps s descs).1 q) q) r
    simp only [icore, Prod.mk.injEq] at this
    rw [this.2.2.2.2.2.1]; exact hhs
  have h4 : MInvT { addRef (sendFinish (freeQ (recvCaps s descs).1 q) q) r with
                    handles := setAt (sendFinish (freeQ (recvCaps s descs).1 q) q).handles hd (.res r) } ((recvCaps s descs).2 ++ []) := by
    refine MInvT_move _ _ _ _ h3 rfl rfl rfl rfl (fun i => ?_)
    have hh' : (addRef (sendFinish (freeQ (recvCaps s descs).1 q) q) r).handles[hd]? = some (.pending q) := by rw [hah]; exact hh
    have hset := heldH_set _ hd (.res r) _ hh' i
    have hsame : (sendFinish (freeQ (recvCaps s descs).1 q) q).handles = (addRef (sendFinish (freeQ (recvCaps s descs).1 q) q) r).handles := by
      rw [hah]; exact hhs
    simp only [held, refOfH, List.count_nil, List.count_cons, hsame] at *
    omega
  have h5 := MInvT_congr _ _ _ (addRef_setHandles_mcore (sendFinish (freeQ (recvCaps s descs).1 q) q) _ r) h4
  exact h5

theorem step_MInv (s : QS) (op : Op) (hI : Inv s) (h : MInvT s []) : MInvT (step s op).1 [] := by
  cases op with
  | bootstrap =>
    simp only [step]
    split
    · exact MInvT_move s _ [] [] h rfl rfl rfl rfl (fun i => by simp [held, heldH_push, refOfH])
    · exact MInvT_move s _ [] [] h rfl rfl rfl rfl (fun i => by simp [ask, held, heldH_push, refOfH])
  | call hd m =>
    simp only [step]
    split
    · exact h
    · exact h
    · split
      · exact callRef_MInv s _ m h
      · dsimp only; exact askCall_MInv s _ m h
    · exact callRef_MInv s _ m h
  | pipe c f m =>
    simp only [step]
    split
    · exact h
    · exact h
    · split
      · exact callRef_MInv s _ m h
      · dsimp only; exact askCall_MInv s _ m h
    · exact callRef_MInv s _ m h
    · exact callRef_MInv s _ m h
  | take c f =>
    simp only [step]
    split
    · rename_i q caps hcc
      split
      · split
        · rename_i r hr
          have h1 : MInvT (addRef s r) [r] := by
            apply addRef_MInvT s r [] h
            intro _ i hri
            subst hri
            have := heldC_ge s.calls c _ hcc i
            have := head_count_pos caps i hr
            simp only [held, capsOf] at *
            omega
          refine MInvT_move _ _ [r] [] h1 rfl rfl rfl rfl (fun i => ?_)
          simp only [held, heldH_push, refOfH, List.count_nil]; omega
        · exact h
      · exact h
    · exact h
  | release hd =>
    simp only [step]
    split
    · exact h
    · exact h
    · rename_i q hq
      split
      · rename_i hc; intro hc'; simp only at hc'; rw [hc] at hc'; cases hc'
      · refine MInvT_move s _ [] [] h rfl rfl rfl rfl (fun i => ?_)
        have := heldH_set s.handles hd .released _ hq i
        simp only [sendFinish, held, refOfH, List.count_nil] at *; omega
    · rename_i r hr
      dsimp only
      have h1 : MInvT { s with handles := setAt s.handles hd .released } (r :: []) := by
        refine MInvT_move s _ [] _ h rfl rfl rfl rfl (fun i => ?_)
        have := heldH_set s.handles hd .released _ hr i
        simp only [held, refOfH, List.count_nil] at *; omega
      exact (dropRef_MInvT _ r [] h1).1
  | cancel c =>
    simp only [step]
    split
    · exact h
    · rename_i q hq
      split
      · exact h
      · refine MInvT_move s _ [] [] h rfl rfl rfl rfl (fun i => ?_)
        have := heldC_set s.calls c (.failed .canceled) _ hq i
        simp only [sendFinish, resolveCall, held, capsOf, List.count_nil] at *; omega
    · exact h
  | releaseResults c =>
    simp only [step]
    split
    · exact h
    · exact h
    · exact h
    · rename_i q b caps hcc
      dsimp only
      have h1 : MInvT { s with calls := setAt s.calls c .released } (caps ++ []) := by
        refine MInvT_move s _ [] _ h rfl rfl rfl rfl (fun i => ?_)
        have := heldC_set s.calls c .released _ hcc i
        simp only [held, capsOf, List.count_nil, List.append_nil] at *; omega
      exact (dropRefs_MInvT _ caps [] h1).1
    · rename_i w hcc
      refine MInvT_move s _ [] [] h rfl rfl rfl rfl (fun i => ?_)
      have := heldC_set s.calls c .released _ hcc i
      simp only [held, capsOf, List.count_nil] at *; omega
  | close =>
    simp only [step]
    split
    · exact h
    · exact shutdown_MInv s []
  | ret q kind descs =>
    simp only [step]
    split
    · exact h
    · rename_i hc
      split
      · exact shutdown_MInv s []
      · rename_i e hq
        split
        · exact MInvT_congr s _ [] rfl h
        · rename_i he
          have he' : e.canceled = false := by simpa using he
          obtain ⟨k, cn⟩ := e
          simp only at he'
          subst he'
          split
          · cases k with
            | boot hd =>
              have hh := hI.l.qh q hd hq
              refine MInvT_move s _ [] [] h rfl rfl rfl rfl (fun i => ?_)
              have := heldH_set s.handles hd (.res (.bad .exc)) _ hh i
              simp only [sendFinish, freeQ, held, refOfH, List.count_nil] at *
              rw [count_bad] at this; simp only [List.count_nil] at this; omega
            | call c =>
              have hh := hI.l.qc q c hq
              refine MInvT_move s _ [] [] h rfl rfl rfl rfl (fun i => ?_)
              have := heldC_set s.calls c (.failed .exc) _ hh i
              simp only [sendFinish, freeQ, resolveCall, held, capsOf, List.count_nil] at *; omega
          · have hrc := recvCaps_MInvT s descs [] h
            have hic := recvCaps_icore s descs
            simp only [icore, Prod.mk.injEq] at hic
            obtain ⟨_, _, _, _, _, hhs, hcs, _⟩ := hic
            cases k with
            | boot hd =>
              dsimp only
              generalize hr : (if kind = 1 then (recvCaps s descs).2.head?.getD (Ref.bad Why.null) else Ref.bad Why.err) = r
              exact (dropRefs_MInvT _ _ [] (bootRet_pre s q hd kind descs r hI h hq hr)).1
            | call c =>
              have hh := hI.l.qc q c hq
              rw [← hcs] at hh
              refine MInvT_move _ _ _ [] hrc rfl rfl rfl rfl (fun i => ?_)
              have := heldC_set _ c (.ok q (kind = 0) (recvCaps s descs).2) _ hh i
              simp only [sendFinish, freeQ, resolveCall, held, capsOf, List.count_nil, List.append_nil] at *; omega


theorem relspec_cons_fin (s s' : QS) (o : List Ev) (q : Nat) (b : Bool) (h : RelSpec s s' o) : RelSpec s s' ([.fin q b] ++ o) := by
  refine ⟨fun i n hm => ?_, fun i h1 h2 h3 => ?_⟩
  · simp only [List.cons_append, List.nil_append, List.mem_cons] at hm
    rcases hm with hm | hm
    · cases hm
    · exact h.1 i n hm
  · obtain ⟨n, hn⟩ := h.2 i h1 h2 h3
    exact ⟨n, by simp [hn]⟩

theorem failCall_norel (s : QS) (w : Why) : ∀ i n, Ev.rel i n ∉ (failCall s w).2 := by
  intro i n hm; simp [failCall] at hm

theorem askCall_norel (s : QS) (tgt : String) (m : Nat) : ∀ i n, Ev.rel i n ∉ (askCall s tgt m).2 := by
  intro i n hm; simp [askCall] at hm

theorem callRef_relspec (s : QS) (r : Ref) (m : Nat) : RelSpec s (callRef s r m).1 (callRef s r m).2 := by
  unfold callRef
  cases r with
  | imp i =>
    simp only; split
    · exact relspec_same _ _ _ rfl (failCall_norel s _)
    · exact relspec_same _ _ _ rfl (askCall_norel s _ m)
  | bad w => exact relspec_same _ _ _ rfl (failCall_norel s w)

theorem step_RelSpec (s : QS) (op : Op) (hI : Inv s) (h : MInvT s []) : RelSpec s (step s op).1 (step s op).2.1 := by
  have nil0 : ∀ i n, Ev.rel i n ∉ ([] : List Ev) := fun i n hm => by cases hm
  cases op with
  | bootstrap =>
    simp only [step]
    split
    · exact relspec_same _ _ _ rfl nil0
    · exact relspec_same _ _ _ rfl (fun i n hm => by simp at hm)
  | call hd m =>
    simp only [step]
    split
    · exact relspec_same _ _ _ rfl nil0
    · exact relspec_same _ _ _ rfl nil0
    · split
      · exact callRef_relspec s _ m
      · dsimp only; exact relspec_same _ _ _ rfl (askCall_norel s _ m)
    · exact callRef_relspec s _ m
  | pipe c f m =>
    simp only [step]
    split
    · exact relspec_same _ _ _ rfl nil0
    · exact relspec_same _ _ _ rfl nil0
    · split
      · exact callRef_relspec s _ m
      · dsimp only; exact relspec_same _ _ _ rfl (askCall_norel s _ m)
    · exact callRef_relspec s _ m
    · exact callRef_relspec s _ m
  | take c f =>
    simp only [step]
    split
    · split
      · split
        · rename_i r _
          exact ⟨fun i n hm => absurd hm (nil0 i n), fun i h1 h2 _ => absurd h2 (addRef_keeps s r i h1)⟩
        · exact relspec_same _ _ _ rfl nil0
      · exact relspec_same _ _ _ rfl nil0
    · exact relspec_same _ _ _ rfl nil0
  | release hd =>
    simp only [step]
    split
    · exact relspec_same _ _ _ rfl nil0
    · exact relspec_same _ _ _ rfl nil0
    · split
      · exact relspec_same _ _ _ rfl nil0
      · exact relspec_same _ _ _ rfl (fun i n hm => by simp at hm)
    · rename_i r hr
      dsimp only
      have h1 : MInvT { s with handles := setAt s.handles hd .released } (r :: []) := by
        refine MInvT_move s _ [] _ h rfl rfl rfl rfl (fun i => ?_)
        have := heldH_set s.handles hd .released _ hr i
        simp only [held, refOfH, List.count_nil] at *; omega
      exact relspec_of_drop s _ _ _ (dropRef_MInvT _ r [] h1).2 (fun i hi => hi)
  | cancel c =>
    simp only [step]
    split
    · exact relspec_same _ _ _ rfl nil0
    · split
      · exact relspec_same _ _ _ rfl nil0
      · exact relspec_same _ _ _ rfl (fun i n hm => by simp at hm)
    · exact relspec_same _ _ _ rfl nil0
  | releaseResults c =>
    simp only [step]
    split
    · exact relspec_same _ _ _ rfl nil0
    · exact relspec_same _ _ _ rfl nil0
    · exact relspec_same _ _ _ rfl nil0
    · rename_i q b caps hcc
      dsimp only
      have h1 : MInvT { s with calls := setAt s.calls c .released } (caps ++ []) := by
        refine MInvT_move s _ [] _ h rfl rfl rfl rfl (fun i => ?_)
        have := heldC_set s.calls c .released _ hcc i
        simp only [held, capsOf, List.count_nil, List.append_nil] at *; omega
      exact relspec_of_drop s _ _ _ (dropRefs_MInvT _ caps [] h1).2 (fun i hi => hi)
    · exact relspec_same _ _ _ rfl nil0
  | close =>
    simp only [step]
    split
    · exact relspec_same _ _ _ rfl nil0
    · exact shutdown_relspec s s
  | ret q kind descs =>
    simp only [step]
    split
    · exact relspec_same _ _ _ rfl nil0
    · rename_i hc
      split
      · exact shutdown_relspec s s
      · rename_i e hq
        split
        · exact relspec_same _ _ _ rfl nil0
        · rename_i he
          have he' : e.canceled = false := by simpa using he
          obtain ⟨k, cn⟩ := e
          simp only at he'
          subst he'
          split
          · cases k with
            | boot hd => exact relspec_same _ _ _ rfl (fun i n hm => by simp at hm)
            | call c => exact relspec_same _ _ _ rfl (fun i n hm => by simp at hm)
          · have hrc := recvCaps_MInvT s descs [] h
            have hic := recvCaps_icore s descs
            simp only [icore, Prod.mk.injEq] at hic
            obtain ⟨_, _, _, _, _, hhs, hcs, _⟩ := hic
            cases k with
            | boot hd =>
              dsimp only
              generalize hr : (if kind = 1 then (recvCaps s descs).2.head?.getD (Ref.bad Why.null) else Ref.bad Why.err) = r
              have h5 := bootRet_pre s q hd kind descs r hI h hq hr
              apply relspec_cons_fin
              apply relspec_of_drop s _ _ _ (dropRefs_MInvT _ _ [] h5).2
              intro i hi
              have h1 := recvCaps_keeps s descs i hi
              have h2 : lookup ({ sendFinish (freeQ (recvCaps s descs).1 q) q with
                    handles := setAt (sendFinish (freeQ (recvCaps s descs).1 q) q).handles hd (.res r) } : QS).imports i ≠ none := h1
              exact addRef_keeps _ r i h2
            | call c =>
              exact ⟨fun i n hm => by simp at hm, fun i h1 h2 _ => absurd h2 (recvCaps_keeps s descs i h1)⟩

end Capnp.Lemmas.RpcQImports
