import Capnp.Gen.Core
/-!
# `_spec` lemmas for the generated arithmetic (`Capnp.Gen.Core`)

Each lemma rewrites a generated definition (Go arithmetic with explicit wrap-around) into its
ideal mathematical meaning under the range hypotheses its callers guarantee.  Because the
definitions are regenerated from `/repo` on every run, these lemmas are re-proved against the
current source: a changed comparison, constant, shift or mask in `address.go` / `rawpointer.go`
breaks them.
-/
namespace Capnp.Lemmas.Arith
open Capnp.Prelude Capnp.Gen

theorem wrapI64_id (x : Int) (h : -9223372036854775808 ≤ x ∧ x < 9223372036854775808) : wrapI64 x = x := by
  unfold wrapI64; omega
theorem wrapU32_id (x : Int) (h : 0 ≤ x ∧ x < 4294967296) : wrapU32 x = x := by
  unfold wrapU32; omega
theorem wrapI32_id (x : Int) (h : -2147483648 ≤ x ∧ x < 2147483648) : wrapI32 x = x := by
  unfold wrapI32; omega
theorem wrapU64_id (x : Int) (h : 0 ≤ x ∧ x < 18446744073709551616) : wrapU64 x = x := by
  unfold wrapU64; omega

theorem mul_bounds (a b A B : Int) (ha : 0 ≤ a ∧ a ≤ A) (hb : -B ≤ b ∧ b ≤ B) (hB : 0 ≤ B) :
    -(A*B) ≤ a*b ∧ a*b ≤ A*B := by
  have hA : 0 ≤ A := by omega
  constructor
  · have h1 : a * (-B) ≤ a * b := Int.mul_le_mul_of_nonneg_left hb.1 ha.1
    have h2 : A * (-B) ≤ a * (-B) := Int.mul_le_mul_of_nonpos_right ha.2 (by omega)
    have e1 : A * (-B) = -(A*B) := by rw [Int.mul_neg]
    omega
  · have h1 : a * b ≤ a * B := Int.mul_le_mul_of_nonneg_left hb.2 ha.1
    have h2 : a * B ≤ A * B := Int.mul_le_mul_of_nonneg_right ha.2 hB
    omega

/-- `address.addSize`: exact sum, refused iff it exceeds `maxSegmentSize` -/
theorem addSize_spec (a sz : Int) (ha : InU32 a) (hs : InU32 sz) :
    address_addSize a sz = if a + sz > 4294967288 then (4294967295, false) else (a + sz, true) := by
  unfold InU32 at *
  unfold address_addSize
  rw [wrapI64_id a (by omega), wrapI64_id sz (by omega), wrapI64_id (a+sz) (by omega)]
  simp only [decide_eq_true_eq]
  split
  · rfl
  · rw [wrapU32_id _ (by omega)]

/-- `Size.times` -/
theorem times_spec (sz n : Int) (hs : 0 ≤ sz ∧ sz ≤ 1048576) (hn : -2147483648 ≤ n ∧ n ≤ 2147483648) :
    Size_times sz n = if sz * n > 4294967288 ∨ sz * n < 0 then (4294967295, false) else (sz * n, true) := by
  have hb := mul_bounds sz n 1048576 2147483648 hs hn (by omega)
  generalize hp : sz * n = p at *
  unfold Size_times
  rw [wrapI64_id sz (by omega), wrapI64_id n (by omega), hp, wrapI64_id p (by omega)]
  simp only [Bool.or_eq_true, decide_eq_true_eq]
  split
  · rfl
  · rw [wrapU32_id _ (by omega)]

/-- `address.element` -/
theorem element_spec (a i sz : Int) (ha : InU32 a) (hs : 0 ≤ sz ∧ sz ≤ 1048576) (hi : -2147483648 ≤ i ∧ i ≤ 2147483648) :
    address_element a i sz = if a + i * sz > 4294967288 ∨ a + i * sz < 0 then (4294967295, false) else (a + i * sz, true) := by
  unfold InU32 at *
  have hb := mul_bounds sz i 1048576 2147483648 hs hi (by omega)
  rw [Int.mul_comm sz i] at hb
  generalize hp : i * sz = p at *
  unfold address_element
  rw [wrapI64_id sz (by omega), wrapI64_id i (by omega), wrapI64_id a (by omega), hp, wrapI64_id p (by omega),
      wrapI64_id (a + p) (by omega)]
  simp only [Bool.or_eq_true, decide_eq_true_eq]
  split
  · rfl
  · rw [wrapU32_id _ (by omega)]

theorem offset_range (p : Int) : -536870912 ≤ rawPointer_offset p ∧ rawPointer_offset p < 536870912 := by
  unfold rawPointer_offset wrapI32; omega

theorem numElems_range (p : Int) (hp : InU64 p) :
    0 ≤ rawPointer_numListElements p ∧ rawPointer_numListElements p < 536870912 := by
  unfold InU64 at hp; unfold rawPointer_numListElements wrapI32; omega

theorem listType_range (p : Int) (hp : InU64 p) : 0 ≤ rawPointer_listType p ∧ rawPointer_listType p < 8 := by
  unfold InU64 at hp; unfold rawPointer_listType wrapI64; omega

theorem pointerType_range (p : Int) (hp : InU64 p) :
    rawPointer_pointerType p = 0 ∨ rawPointer_pointerType p = 1 ∨ rawPointer_pointerType p = 2 ∨
    rawPointer_pointerType p = 3 ∨ rawPointer_pointerType p = 6 := by
  unfold InU64 at hp; unfold rawPointer_pointerType wrapI64
  simp only [decide_eq_true_eq]
  split <;> omega

theorem structSize_range (p : Int) :
    0 ≤ (rawPointer_structSize p).DataSize ∧ (rawPointer_structSize p).DataSize ≤ 524280 ∧
    (rawPointer_structSize p).DataSize % 8 = 0 ∧
    0 ≤ (rawPointer_structSize p).PointerCount ∧ (rawPointer_structSize p).PointerCount ≤ 65535 := by
  unfold rawPointer_structSize Size_timesUnchecked wrapU16 wrapU32 wrapI32; simp only; omega

theorem totalSize_spec (sz : ObjectSize) (h1 : 0 ≤ sz.DataSize ∧ sz.DataSize ≤ 524280)
    (h2 : 0 ≤ sz.PointerCount ∧ sz.PointerCount ≤ 65535) :
    ObjectSize_totalSize sz = sz.DataSize + 8 * sz.PointerCount := by
  unfold ObjectSize_totalSize ObjectSize_pointerSize wrapU32; omega

theorem bitListSize_spec (n : Int) (hn : 0 ≤ n ∧ n < 536870912) : bitListSize n = (n + 7) / 8 := by
  unfold bitListSize wrapU32 wrapI32
  have : Int.tdiv ((n + 7 + 2147483648) % 4294967296 - 2147483648) 8 = (n + 7) / 8 := by
    rw [show (n + 7 + 2147483648) % 4294967296 - 2147483648 = n + 7 by omega]
    exact Int.tdiv_eq_ediv_of_nonneg (by omega)
  rw [this]; omega

theorem timesUnchecked_spec (a n : Int) (ha : 0 ≤ a ∧ a ≤ 8) (hn : 0 ≤ n ∧ n < 536870912) :
    Size_timesUnchecked a n = a * n := by
  have hb := mul_bounds a n 8 536870911 ha (by omega) (by omega)
  have hnn : 0 ≤ a * n := Int.mul_nonneg ha.1 hn.1
  unfold Size_timesUnchecked wrapU32
  rw [show n % 4294967296 = n by omega]
  generalize a * n = p at *
  omega

theorem farAddress_range (p : Int) : 0 ≤ rawPointer_farAddress p ∧ rawPointer_farAddress p ≤ 4294967288 ∧
    rawPointer_farAddress p % 8 = 0 := by
  unfold rawPointer_farAddress wrapU32; omega

theorem farSegment_range (p : Int) (hp : InU64 p) : 0 ≤ rawPointer_farSegment p ∧ rawPointer_farSegment p < 4294967296 := by
  unfold rawPointer_farSegment wrapU32; omega

theorem bor_nonneg (a b : Int) : 0 ≤ bor a b := by
  unfold bor; exact Int.natCast_nonneg _

theorem bor_lt_u64 (a b : Int) (ha : a < 18446744073709551616) (hb : b < 18446744073709551616) :
    bor a b < 18446744073709551616 := by
  unfold bor
  have h1 : a.toNat < 2 ^ 64 := by omega
  have h2 : b.toNat < 2 ^ 64 := by omega
  have := Nat.or_lt_two_pow h1 h2
  have e : (2 : Nat) ^ 64 = 18446744073709551616 := by decide
  simp only [Int.ofNat_eq_natCast]
  omega

theorem bor_u64 (a b : Int) (ha : a < 18446744073709551616) (hb : b < 18446744073709551616) : InU64 (bor a b) :=
  ⟨bor_nonneg a b, bor_lt_u64 a b ha hb⟩

end Capnp.Lemmas.Arith
