import Capnp.Model.Packed
/-! Helper lemmas for C13 (kept apart from the property theorems). -/
namespace Capnp.Lemmas.Packed
open Capnp.Spec.Packing Capnp.Model.Packed

theorem bits_tag (b0 b1 b2 b3 b4 b5 b6 b7 : Bool) :
    bitsOfTag (UInt8.ofNat (tagOfBits [b0,b1,b2,b3,b4,b5,b6,b7])) = [b0,b1,b2,b3,b4,b5,b6,b7] := by
  revert b0 b1 b2 b3 b4 b5 b6 b7; decide

theorem len8 {α} (w : List α) (h : w.length = 8) : ∃ a b c d e f g i, w = [a,b,c,d,e,f,g,i] := by
  match w, h with
  | [a,b,c,d,e,f,g,i], _ => exact ⟨a,b,c,d,e,f,g,i,rfl⟩

theorem bitsOfTag_tagOf (w : Word) (h : w.length = 8) : bitsOfTag (tagOf w) = w.map (· != 0) := by
  obtain ⟨a,b,c,d,e,f,g,i,rfl⟩ := len8 w h
  simp only [tagOf, List.map]
  exact bits_tag _ _ _ _ _ _ _ _

theorem unpackWord_pack (w rest : List UInt8) :
    unpackWord (w.map (· != 0)) (w.filter (· != 0) ++ rest) = some (w, rest) := by
  induction w with
  | nil => simp [unpackWord]
  | cons x xs ih =>
    by_cases hx : x = 0
    · subst hx; simp [unpackWord, ih]
    · have : (x != 0) = true := by simp [hx]
      simp [unpackWord, this, ih]

theorem unpackFuel_mono (f1 f2 : Nat) (s : List UInt8) (h1 : s.length ≤ f1) (h2 : s.length ≤ f2) :
    unpackFuel f1 s = unpackFuel f2 s := by
  induction f1 generalizing f2 s with
  | zero =>
    cases s with
    | nil => cases f2 <;> simp [unpackFuel]
    | cons a s => simp at h1
  | succ f1 ih =>
    cases s with
    | nil => cases f2 <;> simp [unpackFuel]
    | cons tag s =>
      cases f2 with
      | zero => simp at h2
      | succ f2 =>
        simp only [List.length_cons, Nat.add_le_add_iff_right] at h1 h2
        simp only [unpackFuel]
        cases hw : unpackWord (bitsOfTag tag) s with
        | none => rfl
        | some p =>
          obtain ⟨w, s'⟩ := p
          have hl := (unpackWord_length _ _ _ _ hw).1
          simp only
          split
          · cases s' with
            | nil => rfl
            | cons n s'' =>
              simp only [List.length_cons] at hl
              simp only
              rw [ih f2 s'' (by omega) (by omega)]
          · split
            · cases s' with
              | nil => rfl
              | cons n s'' =>
                simp only [List.length_cons] at hl
                simp only
                split
                · rfl
                · rw [ih f2 _ (by simp; omega) (by simp; omega)]
            · rw [ih f2 s' (by omega) (by omega)]

theorem unpackStrict_nil : unpackStrict [] = some [] := by simp [unpackStrict, unpackFuel]

/-- unfolding equation of the strict decoder, fuel-free -/
theorem unpackStrict_cons (tag : UInt8) (s : List UInt8) :
    unpackStrict (tag :: s) =
      match unpackWord (bitsOfTag tag) s with
      | none => none
      | some (w, s') =>
        if tag = 0 then
          match s' with
          | [] => none
          | n :: s'' => (unpackStrict s'').map (fun r => w ++ zeros (8 * n.toNat) ++ r)
        else if tag = 255 then
          match s' with
          | [] => none
          | n :: s'' =>
            if s''.length < 8 * n.toNat then none
            else (unpackStrict (s''.drop (8 * n.toNat))).map (fun r => w ++ s''.take (8 * n.toNat) ++ r)
        else (unpackStrict s').map (fun r => w ++ r) := by
  simp only [unpackStrict, List.length_cons, unpackFuel]
  cases hw : unpackWord (bitsOfTag tag) s with
  | none => rfl
  | some p =>
    obtain ⟨w, s'⟩ := p
    have hl := (unpackWord_length _ _ _ _ hw).1
    simp only
    split
    · cases s' with
      | nil => rfl
      | cons n s'' =>
        simp only [List.length_cons] at hl
        simp only
        rw [unpackFuel_mono s.length s''.length s'' (by omega) (by omega)]
    · split
      · cases s' with
        | nil => rfl
        | cons n s'' =>
          simp only [List.length_cons] at hl
          simp only
          split
          · rfl
          · rw [unpackFuel_mono s.length _ _ (by simp; omega) (Nat.le_refl _)]
      · rw [unpackFuel_mono s.length s'.length s' (by omega) (by omega)]

end Capnp.Lemmas.Packed

namespace Capnp.Lemmas.Packed
open Capnp.Spec.Packing Capnp.Model.Packed

theorem bitsOfTag_zero : bitsOfTag 0 = [false,false,false,false,false,false,false,false] := by decide
theorem bitsOfTag_ff : bitsOfTag 255 = [true,true,true,true,true,true,true,true] := by decide

theorem unpackWord_tagOf (w rest : List UInt8) (h : w.length = 8) :
    unpackWord (bitsOfTag (tagOf w)) (w.filter (· != 0) ++ rest) = some (w, rest) := by
  rw [bitsOfTag_tagOf w h]; exact unpackWord_pack w rest

theorem zero_of_tag_zero (w : Word) (h : w.length = 8) (ht : tagOf w = 0) :
    w = zeros 8 ∧ w.filter (· != 0) = [] := by
  have hb := bitsOfTag_tagOf w h
  rw [ht, bitsOfTag_zero] at hb
  obtain ⟨a,b,c,d,e,f,g,i,rfl⟩ := len8 w h
  simp only [List.map_cons, List.map_nil, List.cons.injEq, and_true] at hb
  simp only [bne_eq_false_iff_eq, Bool.false_eq] at hb
  obtain ⟨h1,h2,h3,h4,h5,h6,h7,h8⟩ := hb
  subst h1 h2 h3 h4 h5 h6 h7 h8
  simp [zeros, List.replicate]

theorem full_of_tag_ff (w : Word) (h : w.length = 8) (ht : tagOf w = 255) :
    w.filter (· != 0) = w := by
  have hb := bitsOfTag_tagOf w h
  rw [ht, bitsOfTag_ff] at hb
  obtain ⟨a,b,c,d,e,f,g,i,rfl⟩ := len8 w h
  simp only [List.map_cons, List.map_nil, List.cons.injEq, and_true] at hb
  obtain ⟨h1,h2,h3,h4,h5,h6,h7,h8⟩ := hb
  simp [← h1, ← h2, ← h3, ← h4, ← h5, ← h6, ← h7, ← h8]

theorem zeroWord_eq (w : Word) (h : w.length = 8) (hz : isZeroWord w = true) : w = zeros 8 := by
  obtain ⟨a,b,c,d,e,f,g,i,rfl⟩ := len8 w h
  simp [isZeroWord] at hz
  obtain ⟨h1,h2,h3,h4,h5,h6,h7,h8⟩ := hz
  subst h1 h2 h3 h4 h5 h6 h7 h8
  simp [zeros, List.replicate]

theorem zeros_add (a b : Nat) : zeros (a + b) = zeros a ++ zeros b := by
  simp [zeros]

theorem take_zero_words (ws : List Word) (z : Nat) (hw : ∀ w ∈ ws, w.length = 8) (hz : z ≤ numZeroWords ws) :
    (ws.take z).flatten = zeros (8 * z) := by
  induction ws generalizing z with
  | nil => simp [numZeroWords] at hz; subst hz; simp [zeros]
  | cons w ws ih =>
    cases z with
    | zero => simp [zeros]
    | succ z =>
      simp only [numZeroWords] at hz
      split at hz
      · rename_i hzw
        have := zeroWord_eq w (hw w (by simp)) hzw
        simp only [List.take_succ_cons, List.flatten_cons]
        rw [ih z (fun w' h' => hw w' (by simp [h'])) (by omega), this]
        rw [show 8 * (z + 1) = 8 + 8 * z by omega, zeros_add]
      · omega

theorem literalRun_le (k : Nat) (ws : List Word) : literalRun k ws ≤ k ∧ literalRun k ws ≤ ws.length := by
  induction k generalizing ws with
  | zero => simp [literalRun]
  | succ k ih =>
    cases ws with
    | nil => simp [literalRun]
    | cons w ws =>
      simp only [literalRun]
      split
      · simp
      · have := ih ws; simp only [List.length_cons]; omega

theorem numZeroWords_le (ws : List Word) : numZeroWords ws ≤ ws.length := by
  induction ws with
  | nil => simp [numZeroWords]
  | cons w ws ih => simp only [numZeroWords]; split <;> simp <;> omega

theorem flatten_length8 (ws : List Word) (hw : ∀ w ∈ ws, w.length = 8) : ws.flatten.length = 8 * ws.length := by
  induction ws with
  | nil => simp
  | cons w ws ih =>
    simp only [List.flatten_cons, List.length_append, List.length_cons]
    rw [ih (fun w' h' => hw w' (by simp [h'])), hw w (by simp)]; omega

end Capnp.Lemmas.Packed
