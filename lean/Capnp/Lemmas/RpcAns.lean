import Capnp.Lemmas.Rpc
namespace Capnp.Lemmas.RpcAns
open Capnp.Model.Rpc Capnp.Lemmas.Rpc

theorem lookup_put_self {α} (l : List (Nat × α)) (k : Nat) (v : α) : lookup (put l k v) k = some v := by
  simp [lookup, put]

theorem lookup_del_ne {α} (l : List (Nat × α)) (k x : Nat) (h : x ≠ k) : lookup (del l k) x = lookup l x := by
  unfold lookup del
  induction l with
  | nil => rfl
  | cons a t ih =>
    by_cases ha : a.1 = k
    · have hax : ¬ a.1 = x := by intro h2; exact h (h2 ▸ ha)
      simp only [List.filter_cons, ha, ne_eq, not_true_eq_false, decide_false, Bool.false_eq_true, ↓reduceIte]
      rw [ih]; simp [hax]
    · simp only [List.filter_cons, ne_eq, ha, not_false_eq_true, decide_true, ↓reduceIte, List.find?_cons]
      by_cases hax : a.1 = x
      · simp [hax]
      · simp only [hax, decide_false]; exact ih

theorem lookup_del_self {α} (l : List (Nat × α)) (k : Nat) : lookup (del l k) k = none := by
  unfold lookup del
  induction l with
  | nil => rfl
  | cons a t ih =>
    by_cases ha : a.1 = k
    · simp only [List.filter_cons, ha, ne_eq, not_true_eq_false, decide_false, Bool.false_eq_true, ↓reduceIte]; exact ih
    · simp only [List.filter_cons, ne_eq, ha, not_false_eq_true, decide_true, ↓reduceIte, List.find?_cons, decide_false]
      exact ih

theorem lookup_put_ne {α} (l : List (Nat × α)) (k x : Nat) (v : α) (h : x ≠ k) : lookup (put l k v) x = lookup l x := by
  have hk : ¬ k = x := fun h2 => h h2.symm
  unfold put
  have := lookup_del_ne l k x h
  unfold lookup at *
  simp only [List.find?_cons, hk, decide_false]
  exact this


/-- the part of the state the answer invariant talks about -/
def acore (s : RS) : List (Nat × Ans) × (Nat → Nat) × (Nat → Nat) × Bool :=
  (s.answers, s.accepted, s.returned, s.closed)

/-- the entry of answer id `id` agrees with the history: Returns sent = calls accepted once the entry says the
    Return was sent (or the entry is gone), one less while it has not -/
def AOk (s : RS) (id : Nat) : Option Ans → Prop
  | none => s.returned id = s.accepted id
  | some a => (a.returnSent = true → s.returned id = s.accepted id) ∧ (a.returnSent = false → s.returned id + 1 = s.accepted id)

def AInv (s : RS) : Prop := s.closed = false → ∀ id, AOk s id (lookup s.answers id)

theorem AInv_congr (s s' : RS) (h : acore s' = acore s) (hi : AInv s) : AInv s' := by
  unfold acore at h
  simp only [Prod.mk.injEq] at h
  obtain ⟨h1, h2, h3, h4⟩ := h
  intro hc id
  rw [h4] at hc
  have := hi hc id
  rw [h1]
  cases hl : lookup s.answers id with
  | none => rw [hl] at this; unfold AOk at *; rw [h2, h3]; exact this
  | some a => rw [hl] at this; unfold AOk at *; rw [h2, h3]; exact this

/-! ## frame -/

theorem addRef_acore (s : RS) (c : CapV) : acore (addRef s c) = acore s := by
  cases c <;> simp only [addRef] <;> try rfl
  split <;> rfl

theorem dropRef_acore (s : RS) (c : CapV) : acore (dropRef s c).1 = acore s := by
  cases c <;> simp only [dropRef] <;> try rfl
  · split
    · rfl
    · split <;> rfl
  · split
    · split
      · rfl
      · split <;> rfl
    · rfl

theorem dropRefs_acore (s : RS) (cs : List CapV) : acore (dropRefs s cs).1 = acore s := by
  unfold dropRefs
  apply foldl_inv (fun (acc : RS × List Out) => acore acc.1 = acore s)
  · rfl
  · intro acc c hacc
    rw [← hacc]; exact dropRef_acore acc.1 c

theorem sendCap_acore (s : RS) (c : CapV) : acore (sendCap s c).1 = acore s := by
  have key : ∀ c', (c' = CapV.err ∨ ∃ k, c' = CapV.loc k) → acore (sendCap s c').1 = acore s := by
    intro c' hc'
    have hsc : sendCap s c' =
        (match (exportIds s).find? (fun id => match s.exports id with | some e => e.cap = c' ∧ c' ≠ .err | none => false) with
        | some id =>
          match s.exports id with
          | some e =>
            ({ s with exports := setExp s.exports id (some { e with wireRefs := e.wireRefs + 1 }), sent := bump s.sent id }, "s" ++ toString id, some id)
          | none => (s, "n", none)
        | none =>
          let (id, g) := s.exportID.next
          let s := addRef { s with exportID := g } c'
          ({ s with exports := setExp s.exports id (some { cap := c', wireRefs := 1 }), sent := bump (reset s.sent id) id, released := reset s.released id },
            "s" ++ toString id, some id)) := by
      rcases hc' with rfl | ⟨k, rfl⟩ <;> rfl
    rw [hsc]
    split
    · split <;> rfl
    · exact addRef_acore { s with exportID := (s.exportID.next).2 } c'
  cases c with
  | null => rfl
  | imp i => rfl
  | err => exact key _ (Or.inl rfl)
  | loc k => exact key _ (Or.inr ⟨k, rfl⟩)

theorem fillCaps_acore (s : RS) (cs : List CapV) : acore (fillCaps s cs).1 = acore s := by
  unfold fillCaps
  apply foldl_inv (fun (acc : RS × List String × List (Nat × Nat)) => acore acc.1 = acore s)
  · rfl
  · intro acc c hacc
    rw [← hacc]; exact sendCap_acore acc.1 c

theorem releaseExport_acore (s : RS) (id n : Nat) (r : RS × List Out) (hr : releaseExport s id n = some r) :
    acore r.1 = acore s := by
  unfold releaseExport at hr
  split at hr
  · cases hr
  · split at hr
    · simp only [Option.some.injEq] at hr; subst hr
      exact dropRef_acore _ _
    · split at hr
      · cases hr
      · simp only [Option.some.injEq] at hr; subst hr; rfl

theorem recvParams_acore (s : RS) (ds : List Desc) : acore (recvParams s ds).1 = acore s := by
  unfold recvParams
  apply foldl_inv (fun (acc : RS × List Nat × Bool) => acore acc.1 = acore s)
  · rfl
  · intro acc d hacc
    obtain ⟨s1, imps, ok⟩ := acc
    simp only at hacc ⊢
    split
    · exact hacc
    · split
      · exact hacc
      · exact hacc
      · split <;> exact hacc
      · exact hacc

/-! ## updates of one entry -/

/-- writing entry `q` (whose `returnSent` agrees with the history) keeps the invariant -/
theorem put_AInv (s : RS) (q : Nat) (a : Ans) (h : AInv s) (hq : s.closed = false → AOk s q (some a)) :
    AInv { s with answers := put s.answers q a } := by
  intro hc id
  by_cases hid : id = q
  · subst hid; simp only [lookup_put_self]; exact hq hc
  · simp only [lookup_put_ne _ _ _ _ hid]
    have := h hc id
    cases hl : lookup s.answers id <;> rw [hl] at this <;> exact this

theorem del_AInv (s : RS) (q : Nat) (h : AInv s) (hq : s.closed = false → s.returned q = s.accepted q) :
    AInv { s with answers := del s.answers q } := by
  intro hc id
  by_cases hid : id = q
  · subst hid; simp only [lookup_del_self]; exact hq hc
  · simp only [lookup_del_ne _ _ _ hid]
    have := h hc id
    cases hl : lookup s.answers id <;> rw [hl] at this <;> exact this

theorem destroy_acore_answers (s : RS) (id : Nat) (a : Ans) :
    acore (destroy s id a).1 = acore { s with answers := del s.answers id } := by
  unfold destroy
  simp only
  split
  · apply foldl_inv (fun (acc : RS × List Out × Bool) => acore acc.1 = acore { s with answers := del s.answers id })
    · exact dropRefs_acore _ _
    · intro acc e hacc
      split
      · rename_i s' o' hre
        rw [← hacc]; exact releaseExport_acore acc.1 e.1 e.2 (s', o') hre
      · exact hacc
  · exact dropRefs_acore _ _

theorem destroy_AInv (s : RS) (id : Nat) (a : Ans) (h : AInv s) (hq : s.closed = false → s.returned id = s.accepted id) :
    AInv (destroy s id a).1 :=
  AInv_congr _ _ (destroy_acore_answers s id a) (del_AInv s id h hq)

theorem shutdown_closed (fixed : Bool) (s : RS) (b : Bool) : (shutdown fixed s b).1.closed = true := by
  unfold shutdown
  split
  · rename_i h; exact h
  · have hp : ∀ (t : RS) (cs : List CapV), (dropRefs t cs).1.closed = t.closed := by
      intro t cs; have := dropRefs_acore t cs; simp only [acore, Prod.mk.injEq] at this; exact this.2.2.2
    have hp1 : ∀ (t : RS) (c : CapV), (dropRef t c).1.closed = t.closed := by
      intro t c; have := dropRef_acore t c; simp only [acore, Prod.mk.injEq] at this; exact this.2.2.2
    simp only
    split <;> simp only [hp, hp1]

theorem shutdown_AInv (fixed : Bool) (s : RS) (b : Bool) (h : AInv s) : AInv (shutdown fixed s b).1 := by
  unfold shutdown
  split
  · exact h
  · intro hc
    -- `closed` was set; the releases do not touch it
    have hp : ∀ (t : RS) (cs : List CapV), (dropRefs t cs).1.closed = t.closed := by
      intro t cs; have := dropRefs_acore t cs; simp only [acore, Prod.mk.injEq] at this; exact this.2.2.2
    have hp1 : ∀ (t : RS) (c : CapV), (dropRef t c).1.closed = t.closed := by
      intro t c; have := dropRef_acore t c; simp only [acore, Prod.mk.injEq] at this; exact this.2.2.2
    exfalso
    revert hc
    simp only
    split <;> simp only [hp, hp1] <;> simp

/-! ## the Return itself, and the recursion -/

theorem ret_put_AInv (s s1 : RS) (q : Nat) (a a' : Ans) (h : AInv s) (hs1 : acore s1 = acore s)
    (ha : lookup s.answers q = some a) (hr : a.returnSent = false) (hr' : a'.returnSent = true) :
    AInv { s1 with returned := bump s1.returned q, answers := put s1.answers q a' } := by
  simp only [acore, Prod.mk.injEq] at hs1
  obtain ⟨h1, h2, h3, h4⟩ := hs1
  intro hc id
  simp only at hc
  rw [h4] at hc
  have hq := h hc q
  rw [ha] at hq
  by_cases hid : id = q
  · subst hid
    simp only [lookup_put_self]
    refine ⟨fun _ => ?_, fun hf => ?_⟩
    · simp only [bump, ↓reduceIte]; rw [h2, h3]; exact hq.2 hr
    · rw [hr'] at hf; cases hf
  · simp only [lookup_put_ne _ _ _ _ hid]
    have := h hc id
    rw [h1]
    cases hl : lookup s.answers id <;> rw [hl] at this <;> unfold AOk at * <;> simp only [bump, hid, ↓reduceIte] <;> rw [h2, h3] <;> exact this

theorem ret_del_AInv (s s1 : RS) (q : Nat) (a : Ans) (h : AInv s) (hs1 : acore s1 = acore s)
    (ha : lookup s.answers q = some a) (hr : a.returnSent = false) :
    AInv { s1 with returned := bump s1.returned q, answers := del s1.answers q } := by
  simp only [acore, Prod.mk.injEq] at hs1
  obtain ⟨h1, h2, h3, h4⟩ := hs1
  intro hc id
  simp only at hc
  rw [h4] at hc
  have hq := h hc q
  rw [ha] at hq
  by_cases hid : id = q
  · subst hid
    simp only [lookup_del_self]
    unfold AOk
    simp only [bump, ↓reduceIte]; rw [h2, h3]; exact hq.2 hr
  · simp only [lookup_del_ne _ _ _ hid]
    have := h hc id
    rw [h1]
    cases hl : lookup s.answers id <;> rw [hl] at this <;> unfold AOk at * <;> simp only [bump, hid, ↓reduceIte] <;> rw [h2, h3] <;> exact this

theorem recursive_AInv (fuel : Nat) :
    (∀ s q res, AInv s → AInv (appReturn true fuel s q res).1) ∧
    (∀ s q k m tag a, AInv s → (s.closed = false → AOk s q (some a)) → AInv (deliver true fuel s q k m tag a).1) ∧
    (∀ s q m a c, AInv s → (s.closed = false → AOk s q (some a)) → AInv (callCap true fuel s q m a c).1) := by
  induction fuel with
  | zero =>
    refine ⟨?_, ?_, ?_⟩
    · intro s q res h; unfold appReturn; exact h
    · intro s q k m tag a h _; unfold deliver; exact h
    · intro s q m a c h _
      cases c <;> unfold callCap <;> first | exact h | (unfold deliver; exact h)
  | succ fuel ih =>
    obtain ⟨ihR, ihD, ihC⟩ := ih
    have hR : ∀ s q res, AInv s → AInv (appReturn true (fuel + 1) s q res).1 := by
      intro s q res h
      unfold appReturn
      simp only
      split
      · exact h
      · rename_i a ha
        split
        · exact h
        · rename_i hrs
          simp only [Bool.not_eq_true] at hrs
          have hs1 : acore (dropRefs s (a.paramImps.map CapV.imp)).1 = acore s := dropRefs_acore _ _
          apply foldl_inv (fun (acc : RS × List Out) => AInv acc.1)
          · cases res with
            | none =>
              simp only
              split
              · apply AInv_congr _ _ (destroy_acore_answers _ q _)
                exact ret_del_AInv s _ q a h hs1 ha hrs
              · exact ret_put_AInv s _ q a _ h hs1 ha hrs rfl
            | some caps =>
              simp only
              have hs2 : acore (fillCaps (dropRefs s (a.paramImps.map CapV.imp)).1 caps).1 = acore s := by
                rw [fillCaps_acore]; exact hs1
              split
              · apply AInv_congr _ _ (destroy_acore_answers _ q _)
                exact ret_del_AInv s _ q a h hs2 ha hrs
              · exact ret_put_AInv s _ q a _ h hs2 ha hrs rfl
          · intro acc p hacc
            split
            · exact hacc
            · rename_i pa hpa
              apply ihC acc.1 p.q p.m pa _ hacc
              intro hc
              have := hacc hc p.q
              rw [hpa] at this; exact this
    have hD : ∀ s q k m tag a, AInv s → (s.closed = false → AOk s q (some a)) → AInv (deliver true (fuel + 1) s q k m tag a).1 := by
      intro s q k m tag a h hq
      unfold deliver
      simp only
      split
      · split
        · exact ihR _ q none (put_AInv s q _ h hq)
        · exact put_AInv s q _ h hq
      · exact ihR _ q _ (put_AInv s q _ h hq)
      · exact ihR _ q _ (AInv_congr _ _ rfl (put_AInv s q a h hq))
      · exact ihR _ q _ (put_AInv s q _ h hq)
      · exact ihR _ q _ (AInv_congr _ _ (addRef_acore _ _) (put_AInv s q a h hq))
      · exact ihR _ q _ (AInv_congr _ _ (addRef_acore _ _) (AInv_congr _ _ rfl (put_AInv s q { a with big := true } h hq)))
      · exact ihR _ q _ (AInv_congr _ _ rfl (put_AInv s q a h hq))
      · exact ihR _ q _ (put_AInv s q _ h hq)
    refine ⟨hR, hD, ?_⟩
    intro s q m a c h hq
    cases c with
    | loc k => unfold callCap; exact hD s q k m q a h hq
    | null => unfold callCap; exact ihR _ q none (put_AInv s q a h hq)
    | imp i => unfold callCap; exact ihR _ q none (put_AInv s q a h hq)
    | err => unfold callCap; exact ihR _ q none (put_AInv s q a h hq)

theorem cancelHeld_AInv (n : Nat) (s : RS) (acc : List Out) (ks : List Nat) (h : AInv s) :
    AInv (cancelHeld true n s acc ks).1 := by
  induction n generalizing s acc ks with
  | zero => unfold cancelHeld; exact h
  | succ n ih =>
    cases ks with
    | nil => unfold cancelHeld; exact h
    | cons k ks =>
      unfold cancelHeld
      simp only
      apply ih
      apply foldl_inv (fun (st : RS × List Out) => AInv st.1)
      · exact h
      · intro st q hst
        exact (recursive_AInv (fuelOf0 st.1)).1 st.1 q none hst


/-! ## one event -/

theorem abortCall_AInv (s : RS) (q : Nat) (imps : List Nat) : AInv (abortCall true s q imps).1 := by
  unfold abortCall
  simp only
  intro hc
  exfalso
  revert hc
  unfold shutdown
  simp only
  split
  · rename_i h1; simp [h1]
  · have hp : ∀ (t : RS) (cs : List CapV), (dropRefs t cs).1.closed = t.closed := by
      intro t cs; have := dropRefs_acore t cs; simp only [acore, Prod.mk.injEq] at this; exact this.2.2.2
    have hp1 : ∀ (t : RS) (c : CapV), (dropRef t c).1.closed = t.closed := by
      intro t c; have := dropRef_acore t c; simp only [acore, Prod.mk.injEq] at this; exact this.2.2.2
    split <;> simp only [hp, hp1] <;> simp

/-- a fresh entry for an id that had none: the call is counted as accepted, and as returned iff the entry says so -/
theorem entry_AInv (s s' : RS) (q : Nat) (a : Ans) (h : AInv s) (hn : lookup s.answers q = none)
    (hans : s'.answers = put s.answers q a) (hacc : s'.accepted = bump s.accepted q)
    (hret : s'.returned = if a.returnSent then bump s.returned q else s.returned) (hcl : s'.closed = s.closed) : AInv s' := by
  intro hc id
  rw [hcl] at hc
  have hq := h hc q
  rw [hn] at hq
  unfold AOk at hq
  simp only at hq
  rw [hans]
  by_cases hid : id = q
  · subst hid
    simp only [lookup_put_self]
    unfold AOk
    rw [hacc, hret]
    cases hr : a.returnSent <;> simp [bump, hr] <;> omega
  · simp only [lookup_put_ne _ _ _ _ hid]
    have := h hc id
    cases hl : lookup s.answers id <;> rw [hl] at this <;> unfold AOk at * <;> rw [hacc, hret] <;>
      cases hr : a.returnSent <;> simp [bump, hid] <;> simpa using this

def excAns : Ans := { isErr := true, resultsReady := true, returnSent := true }

theorem step_AInv (s : RS) (e : Ev) (h : AInv s) : AInv (step true s e).1 := by
  obtain ⟨hR, hD, hC⟩ := recursive_AInv (fuelOf s)
  unfold step
  split
  · exact h
  · cases e with
    | bootstrap q =>
      simp only
      split
      · exact shutdown_AInv true s true h
      · rename_i hnone
        have hn : lookup s.answers q = none := by
          cases hl : lookup s.answers q with
          | none => rfl
          | some a => rw [hl] at hnone; simp at hnone
        split
        · exact entry_AInv s _ q { isErr := true, resultsReady := true, returnSent := true } h hn rfl rfl rfl rfl
        · have hs2 : acore (fillCaps (addRef { s with accepted := bump s.accepted q } (.loc 0)) [.loc 0]).1 =
              acore { s with accepted := bump s.accepted q } := by rw [fillCaps_acore, addRef_acore]
          simp only [acore, Prod.mk.injEq] at hs2
          obtain ⟨e1, e2, e3, e4⟩ := hs2
          refine entry_AInv s _ q { isBoot := true, resultsReady := true, returnSent := true, resultCaps := [.loc 0], exportRefs := (fillCaps (addRef { s with accepted := bump s.accepted q } (.loc 0)) [.loc 0]).2.2 } h hn ?_ ?_ ?_ ?_
          · simp only; rw [e1]
          · simp only; rw [e2]
          · simp only [↓reduceIte]; rw [e3]
          · simp only; rw [e4]
    | call q tgt m caps =>
      simp only
      split
      · exact shutdown_AInv true s true h
      · rename_i hnone
        have hn : lookup s.answers q = none := by
          cases hl : lookup s.answers q with
          | none => rfl
          | some a => rw [hl] at hnone; simp at hnone
        have hp := recvParams_acore s caps
        generalize recvParams s caps = rp at hp
        obtain ⟨s1, imps, ok⟩ := rp
        simp only [acore, Prod.mk.injEq] at hp
        obtain ⟨e1, e2, e3, e4⟩ := hp
        have hn1 : lookup s1.answers q = none := by rw [e1]; exact hn
        have h1 : AInv s1 := AInv_congr _ _ (by simp only [acore, e1, e2, e3, e4]) h
        -- an entry answered on the spot with an exception, after whatever was received is released
        have hexc : AInv (dropRefs { s1 with answers := put s1.answers q excAns, accepted := bump s1.accepted q, returned := bump s1.returned q } (imps.map CapV.imp)).1 := by
          apply AInv_congr _ _ (dropRefs_acore _ _)
          exact entry_AInv s1 _ q excAns h1 hn1 rfl rfl rfl rfl
        -- the entry of an accepted call
        let pa : Ans := { paramImps := imps }
        have hacc : AInv { s1 with accepted := bump s1.accepted q, answers := put s1.answers q pa } :=
          entry_AInv s1 _ q pa h1 hn1 rfl rfl rfl rfl
        have hok : ({ s1 with accepted := bump s1.accepted q, answers := put s1.answers q pa } : RS).closed = false →
            AOk { s1 with accepted := bump s1.accepted q, answers := put s1.answers q pa } q (some pa) := by
          intro hc
          have := hacc hc q
          simp only [lookup_put_self] at this
          exact this
        cases ok with
        | false =>
          simp only [Bool.not_true, Bool.false_eq_true, ↓reduceIte]
          exact hexc
        | true =>
          simp only
          cases tgt with
          | exp id =>
            simp only
            split
            · exact abortCall_AInv s1 q imps
            · exact hC _ q m _ _ hacc hok
          | ans tq path =>
            simp only
            split
            · exact abortCall_AInv s1 q imps
            · rename_i ta hta
              split
              · exact abortCall_AInv s1 q imps
              · rename_i hne
                simp only [not_or] at hne
                split
                · split
                  · exact hR _ q none hacc
                  · exact hC _ q m _ _ hacc hok
                · -- queued: the target's entry is rewritten with the same `returnSent`
                  apply put_AInv _ tq _ hacc
                  intro hc
                  have := hacc hc tq
                  simp only [lookup_put_ne _ _ _ _ hne.2, hta] at this
                  exact this
          | unknown =>
            simp only [Bool.not_true, Bool.false_eq_true, ↓reduceIte]
            exact hexc
    | finish q rel =>
      simp only
      split
      · exact shutdown_AInv true s true h
      · rename_i a ha
        split
        · exact shutdown_AInv true s true h
        · have hput : AInv { s with answers := put s.answers q { a with finishReceived := true, relCaps := rel } } := by
            apply put_AInv s q _ h
            intro hc
            have := h hc q
            rw [ha] at this; exact this
          split
          · split
            · exact hR _ q none hput
            · split
              · exact hR _ q none hput
              · exact hput
          · rename_i hrs
            simp only [Bool.not_eq_true, Bool.not_eq_false'] at hrs
            have hd : AInv (destroy s q { a with finishReceived := true, relCaps := rel }).1 := by
              apply destroy_AInv s q _ h
              intro hc
              have := h hc q
              rw [ha] at this
              exact this.1 hrs
            split
            · exact hd
            · exact shutdown_AInv true _ true (cancelHeld_AInv _ _ _ _ hd)
    | release id n =>
      simp only
      split
      · rename_i r hr; exact AInv_congr _ _ (releaseExport_acore s id n r hr) h
      · exact shutdown_AInv true s true h
    | appRet q kind =>
      simp only
      split
      · exact h
      · split
        · exact h
        · split
          · exact hR _ q _ h
          · exact hR _ q _ h
          · exact hR _ q _ (AInv_congr _ _ rfl h)
          · exact hR _ q _ (AInv_congr _ _ (addRef_acore _ _) h)
          · rename_i a ha _ _
            apply hR
            apply AInv_congr _ _ (addRef_acore _ _)
            apply AInv_congr _ _ rfl (put_AInv s q { a with big := true } h ?_)
            intro hc
            have := h hc q
            rw [ha] at this; exact this
          · exact hR _ q _ (AInv_congr _ _ rfl h)
    | close => exact shutdown_AInv true s true h

theorem stepTop_AInv (s : RS) (e : Ev) (h : AInv s) : AInv (stepTop true s e).1 := by
  unfold stepTop
  simp only
  split
  · exact step_AInv s e h
  · exact cancelHeld_AInv _ _ _ _ (step_AInv s e h)

end Capnp.Lemmas.RpcAns
