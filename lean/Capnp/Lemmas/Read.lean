import Capnp.Lemmas.Arith
import Capnp.Model.Read
/-! Helper lemmas about the read-path model (well-formedness predicates, memory reads). -/
namespace Capnp.Lemmas.Read
open Capnp.Prelude Capnp.Gen Capnp.Model.Read Capnp.Lemmas.Arith

/-- every segment is shorter than 4 GiB (what the arenas and the stream decoder hand out) -/
def MsgOK (m : Msg) : Prop := ∀ id, m.segLen id < 4294967296

theorem segLen_nonneg (m : Msg) (id : Nat) : 0 ≤ m.segLen id := by
  unfold Msg.segLen; omega

def SizeOK (sz : ObjectSize) : Prop :=
  0 ≤ sz.DataSize ∧ sz.DataSize ≤ 524280 ∧ 0 ≤ sz.PointerCount ∧ sz.PointerCount ≤ 65535

/-- a struct handed out by the reader lies inside its segment -/
def StructWF (m : Msg) (s : StructP) : Prop :=
  SizeOK s.size ∧ 0 ≤ s.off ∧ s.off + s.size.DataSize + 8 * s.size.PointerCount ≤ m.segLen s.seg ∧
  s.off + s.size.DataSize + 8 * s.size.PointerCount ≤ 4294967288

/-- bytes occupied by a list's content -/
def contentBytes (l : ListP) : Int :=
  if l.flags = isBitList then (l.length + 7) / 8 else (l.size.DataSize + 8 * l.size.PointerCount) * l.length

/-- a list handed out by the reader: sane length, content inside its segment -/
def ListWF (m : Msg) (l : ListP) : Prop :=
  SizeOK l.size ∧ 0 ≤ l.off ∧ 0 ≤ l.length ∧ l.length < 536870912 ∧
  l.off + contentBytes l ≤ m.segLen l.seg ∧ l.off + contentBytes l ≤ 4294967288 ∧
  (l.flags = 0 ∨ l.flags = isCompositeList ∨ l.flags = isBitList) ∧
  (l.flags = isBitList → l.size.DataSize = 0)

def PtrWF (m : Msg) : Ptr → Prop
  | .null => True
  | .cap _ idx => 0 ≤ idx ∧ idx < 4294967296
  | .struct s => StructWF m s
  | .list l => ListWF m l

theorem regionInBounds_spec (m : Msg) (seg : Nat) (b sz : Int) (hm : MsgOK m) (hb : InU32 b) (hs : InU32 sz) :
    regionInBounds m seg b sz = true ↔ (b + sz ≤ 4294967288 ∧ b + sz ≤ m.segLen seg) := by
  unfold regionInBounds
  rw [addSize_spec b sz hb hs]
  have h1 := hm seg
  have h0 := segLen_nonneg m seg
  unfold InU32 at *
  rw [wrapU32_id (m.segLen seg) (by omega)]
  by_cases h : b + sz > 4294967288
  · simp [h]; omega
  · simp [h]; omega

theorem leRead_lt (d : ByteArray) (a n : Nat) : leRead d a n < 256 ^ n := by
  induction n generalizing a with
  | zero => simp [leRead]
  | succ n ih =>
    simp only [leRead, Nat.pow_succ]
    have h1 : byteAt d a < 256 := by unfold byteAt; exact (d.get! a).toNat_lt
    have h2 := ih (a + 1)
    omega

/-- an in-bounds read never faults and yields a value of the right width -/
theorem readUint_ok (m : Msg) (seg : Nat) (addr : Int) (n : Nat) (hm : MsgOK m)
    (ha : 0 ≤ addr) (hn : n ≤ 8) (hb : addr + n ≤ m.segLen seg) :
    ∃ v : Nat, readUint m seg addr n = .ok (v : Int) ∧ v < 256 ^ n := by
  have h1 := hm seg
  unfold readUint sliceOk address_addSizeUnchecked
  have e : wrapU32 (addr + wrapU32 ↑n) = addr + n := by
    rw [wrapU32_id (↑n) (by omega), wrapU32_id _ (by omega)]
  rw [e]
  have : (decide (addr ≤ addr + ↑n) && decide (addr + ↑n ≤ m.segLen seg)) = true := by
    simp only [Bool.and_eq_true, decide_eq_true_eq]; omega
  rw [if_pos this]
  exact ⟨_, rfl, leRead_lt (m.seg seg) addr.toNat n⟩

theorem readRawPointer_ok (m : Msg) (seg : Nat) (addr : Int) (hm : MsgOK m)
    (ha : 0 ≤ addr) (hb : addr + 8 ≤ m.segLen seg) :
    ∃ v, readRawPointer m seg addr = .ok v ∧ InU64 v := by
  obtain ⟨v, h1, h3⟩ := readUint_ok m seg addr 8 hm ha (by omega) (by exact_mod_cast hb)
  have e : (256 : Nat) ^ 8 = 18446744073709551616 := by decide
  rw [e] at h3
  refine ⟨v, h1, ?_⟩
  unfold InU64; omega

end Capnp.Lemmas.Read
