import Capnp.Model.RpcQ
/-! Invariants of the outbound half (`Model.RpcQ`): question ids, resolutions of local calls. -/
namespace Capnp.Lemmas.RpcQ
open Capnp.Model.RpcQ
open Capnp.Model.Rpc (IdGen bump reset)

/-! ## the id generator never hands out a live id -/

/-- ids on the free list are not live and below the counter, ids from the counter up are not live, the free list
    has no duplicates -/
def IdOk (g : IdGen) (live : Nat → Prop) : Prop :=
  (∀ id ∈ g.free, ¬ live id ∧ id < g.i) ∧ (∀ id, g.i ≤ id → ¬ live id) ∧ g.free.Nodup

theorem next_fresh (g : IdGen) (live : Nat → Prop) (h : IdOk g live) : ¬ live g.next.1 := by
  unfold IdGen.next
  split
  · rename_i m hm
    exact (h.1 m (List.min?_mem hm)).1
  · exact h.2.1 _ (Nat.le_refl _)

/-- after `next`, the id handed out may become live -/
theorem next_ok (g : IdGen) (live live' : Nat → Prop) (h : IdOk g live)
    (hl : ∀ x, x ≠ g.next.1 → (live' x → live x)) : IdOk g.next.2 live' := by
  unfold IdGen.next at *
  split
  · rename_i m hm
    simp only [hm] at hl
    have hmem := List.min?_mem hm
    refine ⟨?_, ?_, h.2.2.erase m⟩
    · intro x hx
      have hxm : x ≠ m := fun e => by rw [e] at hx; exact (List.Nodup.not_mem_erase h.2.2) hx
      have hx' := List.mem_of_mem_erase hx
      exact ⟨fun hl' => (h.1 x hx').1 (hl x hxm hl'), (h.1 x hx').2⟩
    · intro x hx hl'
      simp only at hx
      have hxm : x ≠ m := fun e => by have := (h.1 m hmem).2; omega
      exact h.2.1 x hx (hl x hxm hl')
  · rename_i hn
    simp only [hn] at hl
    refine ⟨?_, ?_, h.2.2⟩
    · intro x hx
      have := h.1 x hx
      have hxi : x ≠ g.i := by omega
      exact ⟨fun hl' => this.1 (hl x hxi hl'), by simp only; omega⟩
    · intro x hx hl'
      simp only at hx
      have hxi : x ≠ g.i := by omega
      exact h.2.1 x (by omega) (hl x hxi hl')

/-- `remove` of an id that was live and no longer is -/
theorem remove_ok (g : IdGen) (live live' : Nat → Prop) (q : Nat) (h : IdOk g live) (hq : live q)
    (hl : ∀ x, live' x → live x) (hq' : ¬ live' q) : IdOk (g.remove q) live' := by
  have hqi : q < g.i := by
    by_cases hlt : q < g.i
    · exact hlt
    · exact absurd hq (h.2.1 q (by omega))
  have hqf : q ∉ g.free := fun hm => (h.1 q hm).1 hq
  unfold IdGen.remove
  simp only [hqf, ↓reduceIte]
  refine ⟨?_, ?_, ?_⟩
  · intro x hx
    simp only [List.mem_cons] at hx
    rcases hx with rfl | hx
    · exact ⟨hq', hqi⟩
    · exact ⟨fun hl' => (h.1 x hx).1 (hl x hl'), (h.1 x hx).2⟩
  · intro x hx hl'
    exact h.2.1 x hx (hl x hl')
  · exact List.nodup_cons.mpr ⟨hqf, h.2.2⟩

/-- weakening: fewer live ids -/
theorem idOk_mono (g : IdGen) (live live' : Nat → Prop) (h : IdOk g live) (hl : ∀ x, live' x → live x) : IdOk g live' :=
  ⟨fun x hx => ⟨fun hl' => (h.1 x hx).1 (hl x hl'), (h.1 x hx).2⟩, fun x hx hl' => h.2.1 x hx (hl x hl'), h.2.2⟩

/-! ## question ids: one Finish per question, no id re-issued before it -/

def live (s : QS) (q : Nat) : Prop := (s.questions q).isSome = true

/-- the ghost counters against the question table -/
def QInv (s : QS) : Prop :=
  IdOk s.qid (live s) ∧
  (∀ q, s.asked q ≤ s.finished q + 1) ∧
  (s.closed = false → ∀ q, s.questions q = none → s.asked q = s.finished q) ∧
  (∀ q e, s.questions q = some e → s.asked q = s.finished q + (if e.canceled then 0 else 1)) ∧
  (∀ q, s.finished q ≤ s.asked q)

theorem init_QInv : QInv {} := by
  refine ⟨⟨?_, ?_, ?_⟩, ?_, ?_, ?_, ?_⟩ <;> simp [live]

/-- the part of the state `QInv` reads -/
def qcore (s : QS) : (Nat → Option QE) × IdGen × Bool × (Nat → Nat) × (Nat → Nat) :=
  (s.questions, s.qid, s.closed, s.asked, s.finished)

theorem QInv_congr (s s' : QS) (h : qcore s' = qcore s) (hi : QInv s) : QInv s' := by
  unfold qcore at h
  simp only [Prod.mk.injEq] at h
  obtain ⟨h1, h2, h3, h4, h5⟩ := h
  unfold QInv live at *
  rw [h1, h2, h3, h4, h5]; exact hi

/-- `ask` on an open connection: the new question's id was not outstanding, and the invariant is kept -/
theorem ask_QInv (s : QS) (k : QKind) (h : QInv s) (hc : s.closed = false) :
    QInv (ask s k).1 ∧ s.asked (ask s k).2 = s.finished (ask s k).2 ∧ s.questions (ask s k).2 = none := by
  obtain ⟨hid, hle, hnone, hsome, hfle⟩ := h
  have hfresh : s.questions s.qid.next.1 = none := by
    have := next_fresh s.qid (live s) hid
    unfold live at this
    cases hq : s.questions s.qid.next.1 with
    | none => rfl
    | some e => simp [hq] at this
  have heq := hnone hc _ hfresh
  refine ⟨?_, heq, hfresh⟩
  unfold ask
  simp only
  refine ⟨?_, ?_, ?_, ?_, fun x => by simp only [bump]; split <;> have := hfle x <;> omega⟩
  · apply next_ok s.qid (live s) _ hid
    intro x hx hl
    unfold live at *
    simp only [hx, ↓reduceIte] at hl
    exact hl
  · intro q
    simp only [bump]
    split
    · rename_i hq; subst hq; omega
    · exact hle q
  · intro _ q hq
    simp only at hq
    split at hq
    · cases hq
    · rename_i hne
      simp only [bump, hne, ↓reduceIte]
      exact hnone hc q hq
  · intro q e hq
    simp only at hq
    split at hq
    · rename_i heq'
      cases hq
      subst heq'
      simp only [bump, ↓reduceIte, Bool.false_eq_true]
      omega
    · rename_i hne
      simp only [bump, hne, ↓reduceIte]
      exact hsome q e hq

/-- the Return of a live, un-cancelled question: Finish goes out, the id is freed -/
theorem finish_free_QInv (s : QS) (q : Nat) (e : QE) (h : QInv s) (hq : s.questions q = some e) (hc : e.canceled = false) :
    QInv (sendFinish (freeQ s q) q) := by
  obtain ⟨hid, hle, hnone, hsome, hfle⟩ := h
  have hqe := hsome q e hq
  simp only [hc, Bool.false_eq_true, ↓reduceIte] at hqe
  unfold sendFinish freeQ
  refine ⟨?_, ?_, ?_, ?_, fun x => by simp only [bump]; split <;> have := hfle x <;> (try subst x) <;> omega⟩
  · apply remove_ok s.qid (live s) _ q hid
    · unfold live; simp [hq]
    · intro x hl; unfold live at *; simp only at hl; split at hl
      · simp at hl
      · exact hl
    · unfold live; simp
  · intro x; simp only [bump]; split
    · rename_i hx; subst hx; omega
    · exact hle x
  · intro hcl x hx
    simp only at hx hcl
    simp only [bump]
    split
    · rename_i hxq; subst hxq; omega
    · rename_i hxq
      simp only [hxq, ↓reduceIte] at hx
      exact hnone hcl x hx
  · intro x e' hx
    simp only at hx
    split at hx
    · cases hx
    · rename_i hxq
      simp only [bump, hxq, ↓reduceIte]
      exact hsome x e' hx

/-- the Return of a cancelled question: its Finish went out at the cancellation; the id is freed -/
theorem free_QInv (s : QS) (q : Nat) (e : QE) (h : QInv s) (hq : s.questions q = some e) (hc : e.canceled = true) :
    QInv (freeQ s q) := by
  obtain ⟨hid, hle, hnone, hsome, hfle⟩ := h
  have hqe := hsome q e hq
  simp only [hc, ↓reduceIte] at hqe
  unfold freeQ
  refine ⟨?_, hle, ?_, ?_, hfle⟩
  · apply remove_ok s.qid (live s) _ q hid
    · unfold live; simp [hq]
    · intro x hl; unfold live at *; simp only at hl; split at hl
      · simp at hl
      · exact hl
    · unfold live; simp
  · intro hcl x hx
    simp only at hx hcl
    split at hx
    · rename_i hxq; subst hxq; omega
    · exact hnone hcl x hx
  · intro x e' hx
    simp only at hx
    split at hx
    · cases hx
    · exact hsome x e' hx

/-- cancellation of a live, un-cancelled question: the Finish goes out now, the entry stays until the Return -/
theorem cancel_QInv (s : QS) (q : Nat) (e : QE) (h : QInv s) (hq : s.questions q = some e) (hc : e.canceled = false) :
    QInv (sendFinish { s with questions := fun x => if x = q then (s.questions q).map (fun e => { e with canceled := true }) else s.questions x } q) := by
  obtain ⟨hid, hle, hnone, hsome, hfle⟩ := h
  have hqe := hsome q e hq
  simp only [hc, Bool.false_eq_true, ↓reduceIte] at hqe
  unfold sendFinish
  refine ⟨?_, ?_, ?_, ?_, fun x => by simp only [bump]; split <;> have := hfle x <;> (try subst x) <;> omega⟩
  · apply idOk_mono s.qid (live s) _ hid
    intro x hl; unfold live at *; simp only at hl; split at hl
    · rename_i hx; subst hx; simp [hq]
    · exact hl
  · intro x; simp only [bump]; split
    · rename_i hx; subst hx; omega
    · exact hle x
  · intro hcl x hx
    simp only at hx hcl
    split at hx
    · simp [hq] at hx
    · rename_i hxq
      simp only [bump, hxq, ↓reduceIte]
      exact hnone hcl x hx
  · intro x e' hx
    simp only at hx
    split at hx
    · rename_i hxq
      subst hxq
      simp only [hq, Option.map_some, Option.some.injEq] at hx
      subst hx
      simp only [bump, ↓reduceIte]
      omega
    · rename_i hxq
      simp only [bump, hxq, ↓reduceIte]
      exact hsome x e' hx

/-- `Conn.shutdown` -/
theorem shutdown_QInv (s : QS) (h : QInv s) : QInv (shutdown s).1 := by
  obtain ⟨hid, hle, _, _, hfle⟩ := h
  unfold shutdown
  refine ⟨?_, hle, ?_, ?_, hfle⟩
  · apply idOk_mono s.qid (live s) _ hid
    intro x hl; unfold live at hl; simp at hl
  · intro hcl; simp at hcl
  · intro q e hq; simp at hq

/-! ### the helpers that do not touch the question table -/

theorem addImport_qcore (s : QS) (i : Nat) : qcore (addImport s i) = qcore s := by
  unfold addImport; split <;> rfl

theorem recvCap_qcore (s : QS) (d : Capnp.Model.Rpc.Desc) : qcore (recvCap s d).1 = qcore s := by
  cases d <;> simp only [recvCap, addImport_qcore]

theorem recvCaps_qcore (s : QS) (ds : List Capnp.Model.Rpc.Desc) : qcore (recvCaps s ds).1 = qcore s := by
  induction ds generalizing s with
  | nil => rfl
  | cons d ds ih => simp only [recvCaps]; rw [ih, recvCap_qcore]

theorem addRef_qcore (s : QS) (r : Ref) : qcore (addRef s r) = qcore s := by
  cases r with
  | imp i => simp only [addRef]; split <;> rfl
  | bad w => rfl

theorem dropRef_qcore (s : QS) (r : Ref) : qcore (dropRef s r).1 = qcore s := by
  cases r with
  | imp i =>
    simp only [dropRef]
    split
    · split
      · rfl
      · split <;> rfl
    · rfl
  | bad w => rfl

theorem dropRefs_qcore (s : QS) (rs : List Ref) : qcore (dropRefs s rs).1 = qcore s := by
  induction rs generalizing s with
  | nil => rfl
  | cons r rs ih => simp only [dropRefs]; rw [ih, dropRef_qcore]

/-- events of dropping references: only `Release` messages -/
def onlyRel (o : List Ev) : Prop := ∀ e ∈ o, ∃ i n, e = Ev.rel i n

theorem dropRef_onlyRel (s : QS) (r : Ref) : onlyRel (dropRef s r).2 := by
  cases r with
  | imp i =>
    simp only [dropRef]
    split
    · split
      · intro e he; cases he
      · split
        · split
          · intro e he; cases he
          · intro e he; simp only [List.mem_singleton] at he; exact ⟨_, _, he⟩
        · intro e he; cases he
    · intro e he; cases he
  | bad w => intro e he; cases he

theorem dropRefs_onlyRel (s : QS) (rs : List Ref) : onlyRel (dropRefs s rs).2 := by
  induction rs generalizing s with
  | nil => intro e he; cases he
  | cons r rs ih =>
    simp only [dropRefs]
    intro e he
    simp only [List.mem_append] at he
    rcases he with he | he
    · exact dropRef_onlyRel s r e he
    · exact ih _ e he

/-! ### the question table against the handles and local calls that wait for it -/

structure Link (s : QS) : Prop where
  hq : s.closed = false → ∀ h q, s.handles[h]? = some (.pending q) → s.questions q = some ⟨.boot h, false⟩
  cq : s.closed = false → ∀ c q, s.calls[c]? = some (.pending q) → s.questions q = some ⟨.call c, false⟩
  qh : ∀ q h, s.questions q = some ⟨.boot h, false⟩ → s.handles[h]? = some (.pending q)
  qc : ∀ q c, s.questions q = some ⟨.call c, false⟩ → s.calls[c]? = some (.pending q)

/-- how often a local call in this state has been resolved -/
def resOf : Option CS → Nat
  | some (.pending _) => 0
  | none => 0
  | some _ => 1

structure Inv (s : QS) : Prop where
  q : QInv s
  l : Link s
  r : ∀ c, s.resolutions c = resOf s.calls[c]?
  n : s.closed = true → ∀ q, s.questions q = none

theorem getElem?_setAt {α} (l : List α) (k j : Nat) (v : α) :
    (setAt l k v)[j]? = if k = j then (if k < l.length then some v else none) else l[j]? := by
  unfold setAt; exact List.getElem?_set

theorem getElem?_push {α} (l : List α) (a : α) (j : Nat) :
    (l ++ [a])[j]? = if j < l.length then l[j]? else if j = l.length then some a else none := by
  rw [List.getElem?_append]
  split
  · rfl
  · rename_i h
    split
    · rename_i h2; subst h2; simp
    · rename_i h2
      have : j - l.length ≠ 0 := by omega
      cases hk : j - l.length with
      | zero => omega
      | succ n => simp

theorem init_Inv : Inv {} := by
  refine ⟨init_QInv, ⟨?_, ?_, ?_, ?_⟩, ?_, ?_⟩ <;> simp [resOf]

theorem failCall_Inv (s : QS) (w : Why) (h : Inv s) : Inv (failCall s w).1 := by
  obtain ⟨hq, ⟨h1, h2, h3, h4⟩, hr, hn⟩ := h
  unfold failCall
  refine ⟨QInv_congr s _ rfl hq, ⟨?_, ?_, ?_, ?_⟩, ?_, hn⟩
  · intro hc hd q hh; exact h1 hc hd q hh
  · intro hc c q hh
    simp only [getElem?_push] at hh
    have := h2 hc c q
    grind
  · intro q hd hh; exact h3 q hd hh
  · intro q c hh
    simp only [getElem?_push]
    have := h4 q c hh
    grind
  · intro c
    simp only [getElem?_push, bump]
    have := hr c
    have := hr s.calls.length
    grind [resOf]

theorem askCall_Inv (s : QS) (tgt : String) (m : Nat) (h : Inv s) (hc : s.closed = false) : Inv (askCall s tgt m).1 := by
  obtain ⟨hq, ⟨h1, h2, h3, h4⟩, hr, hn⟩ := h
  obtain ⟨hq', _, hfresh⟩ := ask_QInv s (.call s.calls.length) hq hc
  unfold askCall
  refine ⟨QInv_congr _ _ rfl hq', ⟨?_, ?_, ?_, ?_⟩, ?_, fun hcl => by simp [ask, hc] at hcl⟩
  · intro hcl hd q hh
    have := h1 hc hd q hh
    simp only [ask] at *
    grind
  · intro hcl c q hh
    simp only [getElem?_push] at hh
    have := h2 hc c q
    simp only [ask] at *
    grind
  · intro q hd hh
    have := h3 q hd
    simp only [ask] at *
    grind
  · intro q c hh
    simp only [getElem?_push]
    have := h4 q c
    simp only [ask] at *
    grind
  · intro c
    simp only [getElem?_push, ask]
    have := hr c
    have := hr s.calls.length
    grind [resOf]

theorem callRef_Inv (s : QS) (r : Ref) (m : Nat) (h : Inv s) : Inv (callRef s r m).1 := by
  unfold callRef
  cases r with
  | imp i =>
    simp only
    split
    · exact failCall_Inv s _ h
    · rename_i hc; exact askCall_Inv s _ m h (by simpa using hc)
  | bad w => exact failCall_Inv s w h

/-- the invariant does not read the import table, the double-free flag or the received counters -/
def icore (s : QS) : (Nat → Option QE) × IdGen × Bool × (Nat → Nat) × (Nat → Nat) × List HS × List CS × (Nat → Nat) :=
  (s.questions, s.qid, s.closed, s.asked, s.finished, s.handles, s.calls, s.resolutions)

theorem Inv_congr (s s' : QS) (h : icore s' = icore s) (hi : Inv s) : Inv s' := by
  unfold icore at h
  simp only [Prod.mk.injEq] at h
  obtain ⟨h1, h2, h3, h4, h5, h6, h7, h8⟩ := h
  obtain ⟨hq, ⟨l1, l2, l3, l4⟩, hr, hn⟩ := hi
  refine ⟨QInv_congr s s' (by simp only [qcore, h1, h2, h3, h4, h5]) hq, ⟨?_, ?_, ?_, ?_⟩, ?_, by rw [h1, h3]; exact hn⟩
  · rw [h1, h3, h6]; exact l1
  · rw [h1, h3, h7]; exact l2
  · rw [h1, h6]; exact l3
  · rw [h1, h7]; exact l4
  · rw [h7, h8]; exact hr

theorem addImport_icore (s : QS) (i : Nat) : icore (addImport s i) = icore s := by
  unfold addImport; split <;> rfl

theorem recvCap_icore (s : QS) (d : Capnp.Model.Rpc.Desc) : icore (recvCap s d).1 = icore s := by
  cases d <;> simp only [recvCap, addImport_icore]

theorem recvCaps_icore (s : QS) (ds : List Capnp.Model.Rpc.Desc) : icore (recvCaps s ds).1 = icore s := by
  induction ds generalizing s with
  | nil => rfl
  | cons d ds ih => simp only [recvCaps]; rw [ih, recvCap_icore]

theorem addRef_icore (s : QS) (r : Ref) : icore (addRef s r) = icore s := by
  cases r with
  | imp i => simp only [addRef]; split <;> rfl
  | bad w => rfl

theorem dropRef_icore (s : QS) (r : Ref) : icore (dropRef s r).1 = icore s := by
  cases r with
  | imp i =>
    simp only [dropRef]
    split
    · split
      · rfl
      · split <;> rfl
    · rfl
  | bad w => rfl

theorem dropRefs_icore (s : QS) (rs : List Ref) : icore (dropRefs s rs).1 = icore s := by
  induction rs generalizing s with
  | nil => rfl
  | cons r rs ih => simp only [dropRefs]; rw [ih, dropRef_icore]

def unpend : CS → CS
  | .pending _ => .failed .disconnected
  | c => c

theorem failPending_get (cs : List CS) (k j : Nat) : (failPending cs k).1[j]? = (cs[j]?).map unpend := by
  induction cs generalizing k j with
  | nil => simp [failPending]
  | cons c cs ih =>
    cases c with
    | pending q =>
      simp only [failPending]
      cases j with
      | zero => simp [unpend]
      | succ j => simp [ih]
    | ok q b caps =>
      simp only [failPending]
      cases j with
      | zero => simp [unpend]
      | succ j => simp [ih]
    | failed w =>
      simp only [failPending]
      cases j with
      | zero => simp [unpend]
      | succ j => simp [ih]
    | released =>
      simp only [failPending]
      cases j with
      | zero => simp [unpend]
      | succ j => simp [ih]

def pend1 : Option CS → Nat
  | some (.pending _) => 1
  | _ => 0

theorem bumpPending_get (cs : List CS) (k : Nat) (f : Nat → Nat) (c : Nat) :
    bumpPending cs k f c = f c + (if k ≤ c then pend1 cs[c - k]? else 0) := by
  induction cs generalizing k f with
  | nil => simp [bumpPending, pend1]
  | cons x cs ih =>
    have hstep : ∀ g : Nat → Nat, (∀ y, g y = f y + (if y = k then pend1 (some x) else 0)) →
        bumpPending cs (k + 1) g c = f c + (if k ≤ c then pend1 (x :: cs)[c - k]? else 0) := by
      intro g hg
      rw [ih (k + 1) g, hg c]
      by_cases hck : c = k
      · subst hck; simp; omega
      · by_cases hlt : k ≤ c
        · have h1 : k + 1 ≤ c := by omega
          have h2 : c - k = (c - (k + 1)) + 1 := by omega
          simp only [hck, ↓reduceIte, h1, hlt, h2, List.getElem?_cons_succ]; omega
        · have h1 : ¬ (k + 1 ≤ c) := by omega
          simp only [hck, ↓reduceIte, h1, hlt]
    cases x with
    | pending q =>
      simp only [bumpPending]
      apply hstep
      intro y; simp only [bump, pend1]; split <;> rfl
    | ok q b caps =>
      simp only [bumpPending]
      apply hstep
      intro y; simp [pend1]
    | failed w =>
      simp only [bumpPending]
      apply hstep
      intro y; simp [pend1]
    | released =>
      simp only [bumpPending]
      apply hstep
      intro y; simp [pend1]

theorem shutdown_Inv (s : QS) (h : Inv s) : Inv (shutdown s).1 := by
  obtain ⟨hq, _, hr, hn⟩ := h
  refine ⟨shutdown_QInv s hq, ⟨?_, ?_, ?_, ?_⟩, ?_, fun _ q => by simp [shutdown]⟩
  · intro hc; simp [shutdown] at hc
  · intro hc; simp [shutdown] at hc
  · intro q hd hh; simp [shutdown] at hh
  · intro q c hh; simp [shutdown] at hh
  · intro c
    simp only [shutdown, failPending_get, bumpPending_get, Nat.zero_le, ↓reduceIte, Nat.sub_zero]
    rw [hr c]
    cases hc : s.calls[c]? with
    | none => simp [resOf, pend1]
    | some x => cases x <;> simp [resOf, pend1, unpend]

theorem resOf_np (x : Option CS) (h1 : x ≠ none) (h2 : ∀ q, x ≠ some (.pending q)) : resOf x = 1 := by
  cases x with
  | none => exact absurd rfl h1
  | some c => cases c with
    | pending q => exact absurd rfl (h2 q)
    | ok q b caps => rfl
    | failed w => rfl
    | released => rfl

/-- a new handle that is not pending -/
theorem pushHandle_Inv (s : QS) (r : Ref) (h : Inv s) : Inv { s with handles := s.handles ++ [.res r] } := by
  obtain ⟨hq, ⟨h1, h2, h3, h4⟩, hr, hn⟩ := h
  refine ⟨QInv_congr s _ rfl hq, ⟨?_, h2, ?_, h4⟩, hr, hn⟩
  · intro hc hd q hh
    simp only [getElem?_push] at hh
    have := h1 hc hd q
    grind
  · intro q hd hh
    simp only [getElem?_push]
    have := h3 q hd hh
    grind

/-- a handle that is not pending is overwritten by one that is not pending -/
theorem setHandle_Inv (s : QS) (hd : Nat) (v : HS) (h : Inv s) (hold : ∀ q, s.handles[hd]? ≠ some (.pending q))
    (hv : ∀ q, v ≠ .pending q) : Inv { s with handles := setAt s.handles hd v } := by
  obtain ⟨hq, ⟨h1, h2, h3, h4⟩, hr, hn⟩ := h
  refine ⟨QInv_congr s _ rfl hq, ⟨?_, h2, ?_, h4⟩, hr, hn⟩
  · intro hc hd' q hh
    simp only [getElem?_setAt] at hh
    have := h1 hc hd' q
    grind
  · intro q hd' hh
    simp only [getElem?_setAt]
    have := h3 q hd' hh
    grind

/-- a local call that is not pending is overwritten by one that is not pending -/
theorem setCall_Inv (s : QS) (c : Nat) (v : CS) (h : Inv s) (hold : ∀ q, s.calls[c]? ≠ some (.pending q)) (hsome : s.calls[c]? ≠ none)
    (hv : ∀ q, v ≠ .pending q) : Inv { s with calls := setAt s.calls c v } := by
  obtain ⟨hq, ⟨h1, h2, h3, h4⟩, hr, hn⟩ := h
  refine ⟨QInv_congr s _ rfl hq, ⟨h1, ?_, h3, ?_⟩, ?_, hn⟩
  · intro hc c' q hh
    simp only [getElem?_setAt] at hh
    have := h2 hc c' q
    grind
  · intro q c' hh
    simp only [getElem?_setAt]
    have := h4 q c' hh
    grind
  · intro c'
    simp only [getElem?_setAt]
    have hlt : c < s.calls.length := by
      cases hh : s.calls[c]? with
      | none => exact absurd hh hsome
      | some x => exact (List.getElem?_eq_some_iff.mp hh).1
    by_cases hcc : c = c'
    · subst hcc
      simp only [↓reduceIte, hlt]
      rw [hr c, resOf_np _ hsome hold, resOf_np (some v) (by simp) (by intro q hq; exact hv q (Option.some.inj hq))]
    · simp only [hcc, ↓reduceIte]; exact hr c'

/-- on a connection that has shut down no handle is tied to a question any more -/
theorem closedSetHandle_Inv (s : QS) (hd : Nat) (v : HS) (h : Inv s) (hc : s.closed = true) :
    Inv { s with handles := setAt s.handles hd v } := by
  obtain ⟨hq, ⟨h1, h2, h3, h4⟩, hr, hn⟩ := h
  refine ⟨QInv_congr s _ rfl hq, ⟨?_, h2, ?_, h4⟩, hr, hn⟩
  · intro hcl; simp [hc] at hcl
  · intro q hd' hh; simp [hn hc q] at hh

/-- a question of an open connection is cancelled: the bootstrap handle released / the call's context cancelled -/
theorem cancelBoot_Inv (s : QS) (hd q : Nat) (h : Inv s) (hc : s.closed = false) (hh : s.handles[hd]? = some (.pending q)) :
    Inv (sendFinish { s with handles := setAt s.handles hd .released,
                             questions := fun x => if x = q then (s.questions q).map (fun e => { e with canceled := true }) else s.questions x } q) := by
  obtain ⟨hq, ⟨h1, h2, h3, h4⟩, hr, hn⟩ := h
  have hqq := h1 hc hd q hh
  have := cancel_QInv s q _ hq hqq rfl
  refine ⟨QInv_congr _ _ rfl this, ⟨?_, ?_, ?_, ?_⟩, hr, fun hcl => by simp [sendFinish, hc] at hcl⟩
  · intro hcl h' q' hh'
    simp only [sendFinish, getElem?_setAt] at *
    grind
  · intro hcl c q' hh'
    simp only [sendFinish] at *
    grind
  · intro q' h' hh'
    simp only [sendFinish, getElem?_setAt] at *
    grind
  · intro q' c hh'
    simp only [sendFinish] at *
    grind

theorem cancelCall_Inv (s : QS) (c q : Nat) (h : Inv s) (hc : s.closed = false) (hh : s.calls[c]? = some (.pending q)) :
    Inv (sendFinish { resolveCall s c (.failed .canceled) with
          questions := fun x => if x = q then ((resolveCall s c (.failed .canceled)).questions q).map (fun e => { e with canceled := true })
                                else (resolveCall s c (.failed .canceled)).questions x } q) := by
  obtain ⟨hq, ⟨h1, h2, h3, h4⟩, hr, hn⟩ := h
  have hqq := h2 hc c q hh
  have := cancel_QInv s q _ hq hqq rfl
  have hlt : c < s.calls.length := (List.getElem?_eq_some_iff.mp hh).1
  refine ⟨QInv_congr _ _ rfl this, ⟨?_, ?_, ?_, ?_⟩, ?_, fun hcl => by simp [sendFinish, resolveCall, hc] at hcl⟩
  · intro hcl h' q' hh'
    simp only [sendFinish, resolveCall] at *
    grind
  · intro hcl c' q' hh'
    simp only [sendFinish, resolveCall, getElem?_setAt] at *
    grind
  · intro q' h' hh'
    simp only [sendFinish, resolveCall] at *
    grind
  · intro q' c' hh'
    simp only [sendFinish, resolveCall, getElem?_setAt] at *
    grind
  · intro c'
    simp only [sendFinish, resolveCall, getElem?_setAt, bump]
    have := hr c'
    grind [resOf]

/-- the Return of a bootstrap question: the handle resolves -/
theorem retBoot_Inv (s : QS) (q hd : Nat) (r : Ref) (h : Inv s) (hc : s.closed = false)
    (hq : s.questions q = some ⟨.boot hd, false⟩) :
    Inv { sendFinish (freeQ s q) q with handles := setAt (sendFinish (freeQ s q) q).handles hd (.res r) } := by
  obtain ⟨hqi, ⟨h1, h2, h3, h4⟩, hr, hn⟩ := h
  have := finish_free_QInv s q _ hqi hq rfl
  have hhd := h3 q hd hq
  refine ⟨QInv_congr _ _ rfl this, ⟨?_, ?_, ?_, ?_⟩, hr, fun hcl => by simp [sendFinish, freeQ, hc] at hcl⟩
  · intro hcl h' q' hh'
    simp only [sendFinish, freeQ, getElem?_setAt] at *
    grind
  · intro hcl c q' hh'
    simp only [sendFinish, freeQ] at *
    grind
  · intro q' h' hh'
    simp only [sendFinish, freeQ, getElem?_setAt] at *
    grind
  · intro q' c hh'
    simp only [sendFinish, freeQ] at *
    grind

/-- the Return of a call's question: the call resolves -/
theorem retCall_Inv (s : QS) (q c : Nat) (v : CS) (h : Inv s) (hc : s.closed = false)
    (hq : s.questions q = some ⟨.call c, false⟩) (hv : ∀ q', v ≠ .pending q') :
    Inv (resolveCall (sendFinish (freeQ s q) q) c v) := by
  obtain ⟨hqi, ⟨h1, h2, h3, h4⟩, hr, hn⟩ := h
  have := finish_free_QInv s q _ hqi hq rfl
  have hcc := h4 q c hq
  have hlt : c < s.calls.length := (List.getElem?_eq_some_iff.mp hcc).1
  refine ⟨QInv_congr _ _ rfl this, ⟨?_, ?_, ?_, ?_⟩, ?_, fun hcl => by simp [sendFinish, freeQ, resolveCall, hc] at hcl⟩
  · intro hcl h' q' hh'
    simp only [sendFinish, freeQ, resolveCall] at *
    grind
  · intro hcl c' q' hh'
    simp only [sendFinish, freeQ, resolveCall, getElem?_setAt] at *
    grind
  · intro q' h' hh'
    simp only [sendFinish, freeQ, resolveCall] at *
    grind
  · intro q' c' hh'
    simp only [sendFinish, freeQ, resolveCall, getElem?_setAt] at *
    grind
  · intro c'
    simp only [sendFinish, freeQ, resolveCall, getElem?_setAt, bump]
    by_cases hcc' : c = c'
    · subst hcc'
      simp only [↓reduceIte, hlt]
      rw [hr c, hcc, resOf_np (some v) (by simp) (by intro q' hq'; exact hv q' (Option.some.inj hq'))]
      rfl
    · have : c' ≠ c := fun e => hcc' e.symm
      simp only [hcc', this, ↓reduceIte]; exact hr c'

/-- the Return of a cancelled question -/
theorem retCanceled_Inv (s : QS) (q : Nat) (e : QE) (h : Inv s) (hq : s.questions q = some e) (he : e.canceled = true) :
    Inv (freeQ s q) := by
  obtain ⟨hqi, ⟨h1, h2, h3, h4⟩, hr, hn⟩ := h
  have := free_QInv s q e hqi hq he
  refine ⟨this, ⟨?_, ?_, ?_, ?_⟩, hr, fun hcl x => by simp only [freeQ]; split <;> first | rfl | exact hn hcl x⟩
  · intro hcl h' q' hh'
    simp only [freeQ] at *
    have := h1 hcl h' q' hh'
    grind
  · intro hcl c q' hh'
    simp only [freeQ] at *
    have := h2 hcl c q' hh'
    grind
  · intro q' h' hh'
    simp only [freeQ] at *
    grind
  · intro q' c hh'
    simp only [freeQ] at *
    grind

theorem bootstrap_Inv (s : QS) (h : Inv s) (hc : s.closed = false) :
    Inv { (ask s (.boot s.handles.length)).1 with handles := s.handles ++ [.pending (ask s (.boot s.handles.length)).2] } := by
  obtain ⟨hq, ⟨h1, h2, h3, h4⟩, hr, hn⟩ := h
  obtain ⟨hq', _, hfresh⟩ := ask_QInv s (.boot s.handles.length) hq hc
  refine ⟨QInv_congr _ _ rfl hq', ⟨?_, ?_, ?_, ?_⟩, hr, fun hcl => by simp [ask, hc] at hcl⟩
  · intro hcl hd q hh
    simp only [getElem?_push] at hh
    have := h1 hc hd q
    simp only [ask] at *
    grind
  · intro hcl c q hh
    have := h2 hc c q hh
    simp only [ask] at *
    grind
  · intro q hd hh
    simp only [getElem?_push]
    have := h3 q hd
    simp only [ask] at *
    grind
  · intro q c hh
    have := h4 q c
    simp only [ask] at *
    grind

theorem callPipelined_Inv (s : QS) (q : Nat) (path : String) (m : Nat) (h : Inv s) (hc : s.closed = false) :
    Inv (callPipelined s q path m).1 := askCall_Inv s _ m h hc

theorem step_Inv (s : QS) (op : Op) (h : Inv s) : Inv (step s op).1 := by
  cases op with
  | bootstrap =>
    simp only [step]
    split
    · exact pushHandle_Inv s _ h
    · rename_i hc; exact bootstrap_Inv s h (by simpa using hc)
  | call hd m =>
    simp only [step]
    split
    · exact h
    · exact h
    · split
      · exact callRef_Inv s _ m h
      · rename_i hc; dsimp only; exact callPipelined_Inv s _ _ m h (by simpa using hc)
    · exact callRef_Inv s _ m h
  | pipe c f m =>
    simp only [step]
    split
    · exact h
    · exact h
    · split
      · exact callRef_Inv s _ m h
      · rename_i hc; dsimp only; exact callPipelined_Inv s _ _ m h (by simpa using hc)
    · exact callRef_Inv s _ m h
    · exact callRef_Inv s _ m h
  | take c f =>
    simp only [step]
    split
    · split
      · split
        · rename_i r _
          exact pushHandle_Inv _ r (Inv_congr s _ (addRef_icore s r) h)
        · exact h
      · exact h
    · exact h
  | release hd =>
    simp only [step]
    split
    · exact h
    · exact h
    · rename_i q hq
      split
      · rename_i hc; exact closedSetHandle_Inv s hd .released h hc
      · rename_i hc; exact cancelBoot_Inv s hd q h (by simpa using hc) hq
    · rename_i r hr
      exact Inv_congr _ _ (dropRef_icore _ r) (setHandle_Inv s hd .released h (by intro q; rw [hr]; simp) (by intro q; simp))
  | cancel c =>
    simp only [step]
    split
    · exact h
    · rename_i q hq
      split
      · exact h
      · rename_i hc; exact cancelCall_Inv s c q h (by simpa using hc) hq
    · exact h
  | releaseResults c =>
    simp only [step]
    split
    · exact h
    · exact h
    · exact h
    · rename_i q b caps hcc
      exact Inv_congr _ _ (dropRefs_icore _ caps) (setCall_Inv s c .released h (by intro q; rw [hcc]; simp) (by rw [hcc]; simp) (by intro q; simp))
    · rename_i w hcc
      exact setCall_Inv s c .released h (by intro q; rw [hcc]; simp) (by rw [hcc]; simp) (by intro q; simp)
  | close =>
    simp only [step]
    split
    · exact h
    · exact shutdown_Inv s h
  | ret q kind descs =>
    simp only [step]
    split
    · exact h
    · rename_i hc
      have hc' : s.closed = false := by simpa using hc
      split
      · exact shutdown_Inv s h
      · rename_i e hq
        split
        · rename_i he; exact retCanceled_Inv s q e h hq he
        · rename_i he
          have he' : e.canceled = false := by simpa using he
          obtain ⟨k, cn⟩ := e
          simp only at he'
          subst he'
          split
          · -- exception
            cases k with
            | boot hd => exact retBoot_Inv s q hd _ h hc' hq
            | call c => exact retCall_Inv s q c _ h hc' hq (by intro q'; simp)
          · -- results: the descriptors are read first (the import table is outside this invariant)
            have hrc : Inv (recvCaps s descs).1 := Inv_congr s _ (recvCaps_icore s descs) h
            have hcl : (recvCaps s descs).1.closed = false := by
              have := recvCaps_icore s descs; simp only [icore, Prod.mk.injEq] at this; rw [this.2.2.1]; exact hc'
            have hqq : (recvCaps s descs).1.questions q = some ⟨k, false⟩ := by
              have := recvCaps_icore s descs; simp only [icore, Prod.mk.injEq] at this; rw [this.1]; exact hq
            cases k with
            | boot hd =>
              dsimp only
              exact Inv_congr _ _ (by rw [dropRefs_icore, addRef_icore]) (retBoot_Inv _ q hd _ hrc hcl hqq)
            | call c => exact retCall_Inv _ q c _ hrc hcl hqq (by intro q'; simp)

/-! ## the ghost counters count the events -/

/-- Bootstrap / Call messages with question id q among the events -/
def askedIn (o : List Ev) (q : Nat) : Nat :=
  o.countP (fun e => match e with | .boot q' => q' = q | .call q' _ _ _ => q' = q | _ => false)

def finishedIn (o : List Ev) (q : Nat) : Nat :=
  o.countP (fun e => match e with | .fin q' _ => q' = q | _ => false)

def resolvedIn (o : List Ev) (c : Nat) : Nat :=
  o.countP (fun e => match e with | .resolved c' _ => c' = c | _ => false)

theorem onlyRel_counts (o : List Ev) (h : onlyRel o) (x : Nat) : askedIn o x = 0 ∧ finishedIn o x = 0 ∧ resolvedIn o x = 0 := by
  induction o with
  | nil => simp [askedIn, finishedIn, resolvedIn]
  | cons e o ih =>
    have he := h e (by simp)
    obtain ⟨i, n, rfl⟩ := he
    have := ih (fun e he => h e (by simp [he]))
    simp only [askedIn, finishedIn, resolvedIn, List.countP_cons] at *
    simp [this]

theorem failPending_counts (cs : List CS) (k x : Nat) :
    askedIn (failPending cs k).2 x = 0 ∧ finishedIn (failPending cs k).2 x = 0 ∧
    resolvedIn (failPending cs k).2 x = (if k ≤ x then pend1 cs[x - k]? else 0) := by
  induction cs generalizing k with
  | nil => simp [failPending, askedIn, finishedIn, resolvedIn, pend1]
  | cons c cs ih =>
    have := ih (k + 1)
    cases c with
    | pending q =>
      simp only [failPending, askedIn, finishedIn, resolvedIn, List.countP_cons] at *
      refine ⟨by simp [this.1], by simp [this.2.1], ?_⟩
      rw [this.2.2]
      by_cases hxk : x = k
      · subst hxk; simp [pend1]; omega
      · by_cases hlt : k ≤ x
        · have h1 : k + 1 ≤ x := by omega
          have h2 : x - k = (x - (k + 1)) + 1 := by omega
          have h3 : k ≠ x := fun e => hxk e.symm
          simp only [h1, hlt, ↓reduceIte, h2, List.getElem?_cons_succ, h3, decide_false]; simp
        · have h1 : ¬ (k + 1 ≤ x) := by omega
          have h3 : k ≠ x := fun e => hxk e.symm
          simp [h1, hlt, h3]
    | ok q b caps =>
      simp only [failPending, askedIn, finishedIn, resolvedIn] at *
      refine ⟨this.1, this.2.1, ?_⟩
      rw [this.2.2]
      by_cases hxk : x = k
      · subst hxk; simp [pend1]; omega
      · by_cases hlt : k ≤ x
        · have h1 : k + 1 ≤ x := by omega
          have h2 : x - k = (x - (k + 1)) + 1 := by omega
          simp only [h1, hlt, ↓reduceIte, h2, List.getElem?_cons_succ]
        · have h1 : ¬ (k + 1 ≤ x) := by omega
          simp [h1, hlt]
    | failed w =>
      simp only [failPending, askedIn, finishedIn, resolvedIn] at *
      refine ⟨this.1, this.2.1, ?_⟩
      rw [this.2.2]
      by_cases hxk : x = k
      · subst hxk; simp [pend1]; omega
      · by_cases hlt : k ≤ x
        · have h1 : k + 1 ≤ x := by omega
          have h2 : x - k = (x - (k + 1)) + 1 := by omega
          simp only [h1, hlt, ↓reduceIte, h2, List.getElem?_cons_succ]
        · have h1 : ¬ (k + 1 ≤ x) := by omega
          simp [h1, hlt]
    | released =>
      simp only [failPending, askedIn, finishedIn, resolvedIn] at *
      refine ⟨this.1, this.2.1, ?_⟩
      rw [this.2.2]
      by_cases hxk : x = k
      · subst hxk; simp [pend1]; omega
      · by_cases hlt : k ≤ x
        · have h1 : k + 1 ≤ x := by omega
          have h2 : x - k = (x - (k + 1)) + 1 := by omega
          simp only [h1, hlt, ↓reduceIte, h2, List.getElem?_cons_succ]
        · have h1 : ¬ (k + 1 ≤ x) := by omega
          simp [h1, hlt]

/-- the three ghost counters of a state -/
def ghosts (s : QS) (x : Nat) : Nat × Nat × Nat := (s.asked x, s.finished x, s.resolutions x)

/-- "the counters of `s'` are those of `s` plus what the events `o` show" -/
def Counts (s s' : QS) (o : List Ev) : Prop :=
  ∀ x, s'.asked x = s.asked x + askedIn o x ∧ s'.finished x = s.finished x + finishedIn o x ∧
       s'.resolutions x = s.resolutions x + resolvedIn o x

/-- the ghost counters -/
def gcore (s : QS) : (Nat → Nat) × (Nat → Nat) × (Nat → Nat) := (s.asked, s.finished, s.resolutions)

theorem gcore_of_icore (a b : QS) (h : icore a = icore b) : gcore a = gcore b := by
  simp only [icore, Prod.mk.injEq] at h
  simp only [gcore, h.2.2.2.1, h.2.2.2.2.1, h.2.2.2.2.2.2.2]

theorem counts_of_gcore (s s' : QS) (o : List Ev) (h : gcore s' = gcore s) (ho : onlyRel o) : Counts s s' o := by
  intro x
  simp only [gcore, Prod.mk.injEq] at h
  obtain ⟨h4, h5, h8⟩ := h
  obtain ⟨a, b, c⟩ := onlyRel_counts o ho x
  rw [h4, h5, h8, a, b, c]; simp

theorem counts_trans (s s1 s2 : QS) (o1 o2 : List Ev) (h1 : Counts s s1 o1) (h2 : Counts s1 s2 o2) : Counts s s2 (o1 ++ o2) := by
  intro x
  obtain ⟨a1, b1, c1⟩ := h1 x
  obtain ⟨a2, b2, c2⟩ := h2 x
  simp only [askedIn, finishedIn, resolvedIn, List.countP_append] at *
  omega

theorem onlyRel_nil : onlyRel [] := fun e he => by cases he

theorem failCall_counts (s : QS) (w : Why) : Counts s (failCall s w).1 (failCall s w).2 := by
  intro x
  simp only [failCall, askedIn, finishedIn, resolvedIn, bump, List.countP_cons, List.countP_nil]
  by_cases h : x = s.calls.length
  · subst h; simp
  · have : s.calls.length ≠ x := fun e => h e.symm
    simp [h, this]

theorem askCall_counts (s : QS) (tgt : String) (m : Nat) : Counts s (askCall s tgt m).1 (askCall s tgt m).2 := by
  intro x
  simp only [askCall, ask, askedIn, finishedIn, resolvedIn, bump, List.countP_cons, List.countP_nil]
  by_cases h : x = s.qid.next.1
  · subst h; simp
  · have : s.qid.next.1 ≠ x := fun e => h e.symm
    simp [h, this]

theorem callRef_counts (s : QS) (r : Ref) (m : Nat) : Counts s (callRef s r m).1 (callRef s r m).2 := by
  unfold callRef
  cases r with
  | imp i =>
    simp only
    split
    · exact failCall_counts s _
    · exact askCall_counts s _ m
  | bad w => exact failCall_counts s w

theorem shutdown_counts (s : QS) : Counts s (shutdown s).1 (shutdown s).2 := by
  intro x
  obtain ⟨a, b, c⟩ := failPending_counts s.calls 0 x
  simp only [shutdown, askedIn, finishedIn, resolvedIn, List.countP_append, List.countP_cons, List.countP_nil] at *
  rw [a, b, c, bumpPending_get]
  simp

theorem counts_congr (s s1 s2 : QS) (o : List Ev) (h : Counts s s1 o) (hg : gcore s2 = gcore s1) : Counts s s2 o := by
  intro x
  simp only [gcore, Prod.mk.injEq] at hg
  rw [hg.1, hg.2.1, hg.2.2]; exact h x

theorem counts_congr_left (s s' t : QS) (o : List Ev) (h : Counts s' t o) (hg : gcore s' = gcore s) : Counts s t o := by
  intro x
  simp only [gcore, Prod.mk.injEq] at hg
  rw [← hg.1, ← hg.2.1, ← hg.2.2]; exact h x

theorem finishQ_counts (s : QS) (q : Nat) (b : Bool) : Counts s (sendFinish (freeQ s q) q) [.fin q b] := by
  intro x
  simp only [sendFinish, freeQ, askedIn, finishedIn, resolvedIn, bump, List.countP_cons, List.countP_nil]
  by_cases h : x = q
  · subst h; simp
  · have : q ≠ x := fun e => h e.symm
    simp [h, this]

theorem resolve_counts (s : QS) (c : Nat) (v : CS) (str : String) : Counts s (resolveCall s c v) [.resolved c str] := by
  intro x
  simp only [resolveCall, askedIn, finishedIn, resolvedIn, bump, List.countP_cons, List.countP_nil]
  by_cases h : x = c
  · subst h; simp
  · have : c ≠ x := fun e => h e.symm
    simp [h, this]

theorem step_counts (s : QS) (op : Op) : Counts s (step s op).1 (step s op).2.1 := by
  have refl0 : ∀ s : QS, Counts s s [] := fun s => counts_of_gcore s s [] rfl onlyRel_nil
  cases op with
  | bootstrap =>
    simp only [step]
    split
    · intro x; simp [askedIn, finishedIn, resolvedIn]
    · intro x
      simp only [ask, askedIn, finishedIn, resolvedIn, bump, List.countP_cons, List.countP_nil]
      by_cases h : x = s.qid.next.1
      · subst h; simp
      · have : s.qid.next.1 ≠ x := fun e => h e.symm
        simp [h, this]
  | call hd m =>
    simp only [step]
    split
    · exact refl0 s
    · exact refl0 s
    · split
      · exact callRef_counts s _ m
      · dsimp only; exact askCall_counts s _ m
    · exact callRef_counts s _ m
  | pipe c f m =>
    simp only [step]
    split
    · exact refl0 s
    · exact refl0 s
    · split
      · exact callRef_counts s _ m
      · dsimp only; exact askCall_counts s _ m
    · exact callRef_counts s _ m
    · exact callRef_counts s _ m
  | take c f =>
    simp only [step]
    split
    · split
      · split
        · rename_i r _
          dsimp only
          exact counts_of_gcore _ _ _ (by rw [← gcore_of_icore _ _ (addRef_icore s r)]; rfl) onlyRel_nil
        · exact refl0 s
      · exact refl0 s
    · exact refl0 s
  | release hd =>
    simp only [step]
    split
    · exact refl0 s
    · exact refl0 s
    · split
      · intro x; simp [askedIn, finishedIn, resolvedIn]
      · rename_i q _ _
        intro x
        simp only [sendFinish, askedIn, finishedIn, resolvedIn, bump, List.countP_cons, List.countP_nil]
        by_cases h : x = q
        · subst h; simp
        · have : q ≠ x := fun e => h e.symm
          simp [h, this]
    · rename_i r _
      dsimp only
      exact counts_of_gcore _ _ _ (by rw [gcore_of_icore _ _ (dropRef_icore _ r)]; rfl) (dropRef_onlyRel _ r)
  | cancel c =>
    simp only [step]
    split
    · exact refl0 s
    · rename_i q _
      split
      · exact refl0 s
      · intro x
        simp only [sendFinish, resolveCall, askedIn, finishedIn, resolvedIn, bump, List.countP_cons, List.countP_nil]
        by_cases h : x = q
        · by_cases h' : x = c
          · subst h; subst h'; simp
          · have : c ≠ x := fun e => h' e.symm
            subst h; simp [h', this]
        · have hq : q ≠ x := fun e => h e.symm
          by_cases h' : x = c
          · subst h'; simp [h, hq]
          · have : c ≠ x := fun e => h' e.symm
            simp [h, hq, h', this]
    · exact refl0 s
  | releaseResults c =>
    simp only [step]
    split
    · exact refl0 s
    · exact refl0 s
    · exact refl0 s
    · rename_i q b caps _
      dsimp only
      exact counts_of_gcore _ _ _ (by rw [gcore_of_icore _ _ (dropRefs_icore _ caps)]; rfl) (dropRefs_onlyRel _ caps)
    · exact counts_of_gcore _ _ _ rfl onlyRel_nil
  | close =>
    simp only [step]
    split
    · exact refl0 s
    · exact shutdown_counts s
  | ret q kind descs =>
    simp only [step]
    split
    · exact refl0 s
    · split
      · exact shutdown_counts s
      · rename_i e _
        split
        · exact counts_of_gcore _ _ _ rfl onlyRel_nil
        · split
          · -- exception
            cases e.kind with
            | boot hd => exact counts_congr _ _ _ _ (finishQ_counts s q false) rfl
            | call c => exact counts_trans _ _ _ [_] [_] (finishQ_counts s q false) (resolve_counts _ c _ _)
          · have hrc : gcore (recvCaps s descs).1 = gcore s := gcore_of_icore _ _ (recvCaps_icore s descs)
            cases e.kind with
            | boot hd =>
              dsimp only
              refine counts_trans _ _ _ [_] _ (counts_congr_left _ _ _ _ (finishQ_counts (recvCaps s descs).1 q false) hrc) ?_
              exact counts_of_gcore _ _ _ (by rw [gcore_of_icore _ _ (dropRefs_icore _ _), gcore_of_icore _ _ (addRef_icore _ _)]; rfl) (dropRefs_onlyRel _ _)
            | call c =>
              exact counts_trans _ _ _ [_] [_] (counts_congr_left _ _ _ _ (finishQ_counts (recvCaps s descs).1 q false) hrc) (resolve_counts _ c _ _)

/-- an event list in which a Finish and a Bootstrap/Call never name the same id -/
def AskXorFin (o : List Ev) : Prop := ∀ q, 0 < askedIn o q → finishedIn o q = 0

theorem axf_of_noask (o : List Ev) (h : ∀ q, askedIn o q = 0) : AskXorFin o := by
  intro q hq; rw [h q] at hq; cases hq

theorem failCall_axf (s : QS) (w : Why) : AskXorFin (failCall s w).2 :=
  axf_of_noask _ (fun q => by simp [failCall, askedIn])

theorem askCall_axf (s : QS) (tgt : String) (m : Nat) : AskXorFin (askCall s tgt m).2 := by
  intro q _; simp [askCall, finishedIn]

theorem callRef_axf (s : QS) (r : Ref) (m : Nat) : AskXorFin (callRef s r m).2 := by
  unfold callRef
  cases r with
  | imp i => simp only; split; exact failCall_axf s _; exact askCall_axf s _ m
  | bad w => exact failCall_axf s w

theorem axf_fin_append_rel (q0 : Nat) (b : Bool) (o : List Ev) (h : onlyRel o) : AskXorFin ([.fin q0 b] ++ o) :=
  axf_of_noask _ (fun q => by
    have := (onlyRel_counts o h q).1
    simp only [askedIn, List.countP_append, List.countP_cons, List.countP_nil] at *
    simp [this])

theorem step_axf (s : QS) (op : Op) : AskXorFin (step s op).2.1 := by
  have nil0 : AskXorFin [] := axf_of_noask _ (fun q => by simp [askedIn])
  cases op with
  | bootstrap =>
    simp only [step]; split
    · exact nil0
    · intro q _; simp [finishedIn]
  | call hd m =>
    simp only [step]; split
    · exact nil0
    · exact nil0
    · split
      · exact callRef_axf s _ m
      · dsimp only; exact askCall_axf s _ m
    · exact callRef_axf s _ m
  | pipe c f m =>
    simp only [step]; split
    · exact nil0
    · exact nil0
    · split
      · exact callRef_axf s _ m
      · dsimp only; exact askCall_axf s _ m
    · exact callRef_axf s _ m
    · exact callRef_axf s _ m
  | take c f =>
    simp only [step]; split
    · split
      · split <;> exact nil0
      · exact nil0
    · exact nil0
  | release hd =>
    simp only [step]; split
    · exact nil0
    · exact nil0
    · split
      · exact nil0
      · exact axf_of_noask _ (fun q => by simp [askedIn])
    · exact axf_of_noask _ (fun q => (onlyRel_counts _ (dropRef_onlyRel _ _) q).1)
  | cancel c =>
    simp only [step]; split
    · exact nil0
    · split
      · exact nil0
      · exact axf_of_noask _ (fun q => by simp [askedIn])
    · exact nil0
  | releaseResults c =>
    simp only [step]; split
    · exact nil0
    · exact nil0
    · exact nil0
    · exact axf_of_noask _ (fun q => (onlyRel_counts _ (dropRefs_onlyRel _ _) q).1)
    · exact nil0
  | close =>
    simp only [step]; split
    · exact nil0
    · exact axf_of_noask _ (fun q => by
        have := (failPending_counts s.calls 0 q).1
        simp only [shutdown, askedIn, List.countP_append, List.countP_cons, List.countP_nil] at *
        simp [this])
  | ret q kind descs =>
    simp only [step]; split
    · exact nil0
    · split
      · exact axf_of_noask _ (fun q => by
          have := (failPending_counts s.calls 0 q).1
          simp only [shutdown, askedIn, List.countP_append, List.countP_cons, List.countP_nil] at *
          simp [this])
      · rename_i e _
        split
        · exact nil0
        · split
          · cases e.kind <;> exact axf_of_noask _ (fun q => by simp [askedIn])
          · cases e.kind with
            | boot hd =>
              dsimp only
              exact axf_fin_append_rel _ _ _ (dropRefs_onlyRel _ _)
            | call c => exact axf_of_noask _ (fun q => by simp [askedIn])

end Capnp.Lemmas.RpcQ
