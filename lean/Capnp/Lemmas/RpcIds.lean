import Capnp.Lemmas.Rpc
/-! The export id generator (`idgen.go`) never hands out the id of a live export: invariant and preservation. -/
namespace Capnp.Lemmas.RpcIds
open Capnp.Model.Rpc Capnp.Lemmas.Rpc

/-- ids on the free list have no entry and are below the counter, ids from the counter up were never used, the
    free list has no duplicates -/
def XInv (s : RS) : Prop :=
  (∀ id ∈ s.exportID.free, s.exports id = none ∧ id < s.exportID.i) ∧
  (∀ id, s.exportID.i ≤ id → s.exports id = none) ∧
  s.exportID.free.Nodup

theorem XInv_congr (s s' : RS) (h : core s' = core s) (hi : XInv s) : XInv s' := by
  unfold core at h
  simp only [Prod.mk.injEq] at h
  obtain ⟨h1, _, _, _, h5⟩ := h
  unfold XInv at *
  rw [h1, h5]; exact hi

/-- **the id a new export gets is not in use** -/
theorem next_fresh (s : RS) (h : XInv s) : s.exports (s.exportID.next).1 = none := by
  unfold IdGen.next
  split
  · rename_i m hm
    exact (h.1 m (List.min?_mem hm)).1
  · exact h.2.1 _ (Nat.le_refl _)

theorem sendCap_XInv (s : RS) (c : CapV) (h : XInv s) : XInv (sendCap s c).1 := by
  have key : ∀ c', (c' = CapV.err ∨ ∃ k, c' = CapV.loc k) → XInv (sendCap s c').1 := by
    intro c' hc'
    have hsc : sendCap s c' =
        (match (exportIds s).find? (fun id => match s.exports id with | some e => e.cap = c' ∧ c' ≠ .err | none => false) with
        | some id =>
          match s.exports id with
          | some e =>
            ({ s with exports := setExp s.exports id (some { e with wireRefs := e.wireRefs + 1 }), sent := bump s.sent id }, "s" ++ toString id, some id)
          | none => (s, "n", none)
        | none =>
          let (id, g) := s.exportID.next
          let s := addRef { s with exportID := g } c'
          ({ s with exports := setExp s.exports id (some { cap := c', wireRefs := 1 }), sent := bump (reset s.sent id) id, released := reset s.released id },
            "s" ++ toString id, some id)) := by
      rcases hc' with rfl | ⟨k, rfl⟩ <;> rfl
    rw [hsc]
    split
    · rename_i id hf
      split
      · rename_i e he
        -- an existing entry is rewritten: it is neither free nor beyond the counter
        refine ⟨?_, ?_, h.2.2⟩
        · intro x hx
          have := h.1 x hx
          refine ⟨?_, this.2⟩
          simp only [setExp]
          by_cases hxi : x = id
          · subst hxi; rw [he] at this; cases this.1
          · simp only [hxi, ↓reduceIte]; exact this.1
        · intro x hx
          simp only [setExp]
          by_cases hxi : x = id
          · subst hxi; have := h.2.1 x hx; rw [he] at this; cases this
          · simp only [hxi, ↓reduceIte]; exact h.2.1 x hx
      · exact h
    · -- a new entry under the id the generator hands out
      have hc := addRef_core { s with exportID := (s.exportID.next).2 } c'
      simp only [core, Prod.mk.injEq] at hc
      obtain ⟨e1, _, _, _, e5⟩ := hc
      simp only
      unfold XInv
      simp only
      rw [e1, e5]
      unfold IdGen.next
      split
      · rename_i m hm
        have hmem := List.min?_mem hm
        have hnd := h.2.2
        simp only
        refine ⟨?_, ?_, List.Nodup.erase m hnd⟩
        · intro x hx
          have hx' := (List.Nodup.mem_erase_iff hnd).mp hx
          have := h.1 x hx'.2
          refine ⟨?_, this.2⟩
          simp only [setExp, hx'.1, ↓reduceIte]; exact this.1
        · intro x hx
          have hmi := (h.1 m hmem).2
          simp only [setExp]
          rw [if_neg (by omega)]
          exact h.2.1 x hx
      · rename_i hnone
        simp only
        have hfree : s.exportID.free = [] := by
          cases hf : s.exportID.free with
          | nil => rfl
          | cons a t =>
            rw [hf] at hnone
            simp at hnone
        refine ⟨?_, ?_, h.2.2⟩
        · intro x hx; rw [hfree] at hx; cases hx
        · intro x hx
          simp only [setExp]
          rw [if_neg (by omega)]
          exact h.2.1 x (by omega)
  cases c with
  | null => exact h
  | imp i => exact h
  | err => exact key _ (Or.inl rfl)
  | loc k => exact key _ (Or.inr ⟨k, rfl⟩)

theorem releaseExport_XInv (s : RS) (id n : Nat) (r : RS × List Out) (h : XInv s)
    (hr : releaseExport s id n = some r) : XInv r.1 := by
  unfold releaseExport at hr
  split at hr
  · cases hr
  · rename_i e he
    have hlt : id < s.exportID.i := by
      apply Classical.byContradiction; intro hge
      have := h.2.1 id (by omega); rw [he] at this; cases this
    have hnf : id ∉ s.exportID.free := by
      intro hin; have := (h.1 id hin).1; rw [he] at this; cases this
    split at hr
    · simp only [Option.some.injEq] at hr
      subst hr
      apply XInv_congr _ _ (dropRef_core _ _)
      unfold XInv IdGen.remove
      simp only [hnf, ↓reduceIte]
      refine ⟨?_, ?_, List.nodup_cons.mpr ⟨hnf, h.2.2⟩⟩
      · intro x hx
        simp only [setExp]
        rcases List.mem_cons.mp hx with rfl | hx'
        · simp [hlt]
        · have := h.1 x hx'
          by_cases hxi : x = id
          · simp [hxi, hlt]
          · simp only [hxi, ↓reduceIte]; exact this
      · intro x hx
        simp only [setExp]
        by_cases hxi : x = id
        · simp [hxi]
        · simp only [hxi, ↓reduceIte]; exact h.2.1 x hx
    · split at hr
      · cases hr
      · simp only [Option.some.injEq] at hr
        subst hr
        refine ⟨?_, ?_, h.2.2⟩
        · intro x hx
          have := h.1 x hx
          refine ⟨?_, this.2⟩
          simp only [setExp]
          have hxi : x ≠ id := fun h2 => hnf (h2 ▸ hx)
          simp only [hxi, ↓reduceIte]; exact this.1
        · intro x hx
          have hx2 : s.exportID.i ≤ x := hx
          simp only [setExp]
          rw [if_neg (by omega)]
          exact h.2.1 x hx2

theorem shutdown_XInv (s : RS) (b : Bool) (h : XInv s) : XInv (shutdown true s b).1 := by
  unfold shutdown
  split
  · exact h
  · have hx : ∀ (t : RS) (cs : List CapV), (dropRefs t cs).1.exportID = t.exportID := by
      intro t cs; have := dropRefs_core t cs; simp only [core, Prod.mk.injEq] at this; exact this.2.2.2.2
    have hx1 : ∀ (t : RS) (c : CapV), (dropRef t c).1.exportID = t.exportID := by
      intro t c; have := dropRef_core t c; simp only [core, Prod.mk.injEq] at this; exact this.2.2.2.2
    unfold XInv
    simp only
    split <;> simp only [hx, hx1] <;>
      exact ⟨fun x hx' => ⟨trivial, (h.1 x hx').2⟩, fun _ _ => trivial, h.2.2⟩

theorem XInv_pres : Pres XInv :=
  ⟨XInv_congr, sendCap_XInv, fun s id n r h hr => releaseExport_XInv s id n r h hr, shutdown_XInv⟩

theorem stepTop_XInv (s : RS) (e : Ev) (h : XInv s) : XInv (stepTop true s e).1 := stepTop_pres XInv XInv_pres s e h

theorem init_XInv : XInv {} := by
  refine ⟨?_, ?_, ?_⟩
  · intro id h; cases h
  · intro id _; rfl
  · exact List.nodup_nil

end Capnp.Lemmas.RpcIds
