import Capnp.Model.JoinRefs
/-! Invariant of joined promise chains (`Model.JoinRefs`): `clientsRefs` counts the promises that still owe a release. -/
namespace Capnp.Lemmas.JoinRefs
open Capnp.Model.JoinRefs

/-- 1 if promise a belongs to the chain ending at y and has not released its clients -/
def ind (r : Nat → Nat) (d : Nat → Bool) (y a : Nat) : Nat := if r a = y ∧ d a = false then 1 else 0

/-- promises of the chain ending at y that have not released their clients yet -/
def owingIn (L : List Nat) (r : Nat → Nat) (d : Nat → Bool) (y : Nat) : Nat := (L.map (ind r d y)).sum

def owing (s : JS) (l : Nat) : Nat := owingIn (List.range s.n) s.root s.released l

theorem sum_map_congr (L : List Nat) (f g : Nat → Nat) (h : ∀ a ∈ L, f a = g a) : (L.map f).sum = (L.map g).sum := by
  induction L with
  | nil => rfl
  | cons a L ih =>
    simp only [List.map_cons, List.sum_cons]
    rw [h a (by simp), ih (fun x hx => h x (by simp [hx]))]

theorem sum_map_add (L : List Nat) (f g : Nat → Nat) : (L.map (fun a => f a + g a)).sum = (L.map f).sum + (L.map g).sum := by
  induction L with
  | nil => rfl
  | cons a L ih => simp only [List.map_cons, List.sum_cons, ih]; omega

theorem sum_map_zero (L : List Nat) (f : Nat → Nat) (h : ∀ a ∈ L, f a = 0) : (L.map f).sum = 0 := by
  induction L with
  | nil => rfl
  | cons a L ih =>
    simp only [List.map_cons, List.sum_cons]
    rw [h a (by simp), ih (fun x hx => h x (by simp [hx]))]

/-- a join moves the whole chain of c under l -/
theorem owingIn_join (L : List Nat) (r : Nat → Nat) (d : Nat → Bool) (c l y : Nat) (hcl : c ≠ l) :
    owingIn L (fun x => if r x = c then l else r x) d y =
      if y = l then owingIn L r d l + owingIn L r d c else if y = c then 0 else owingIn L r d y := by
  unfold owingIn
  by_cases hyl : y = l
  · subst hyl
    simp only [↓reduceIte]
    rw [← sum_map_add]
    apply sum_map_congr
    intro a _
    simp only [ind]
    by_cases hra : r a = c
    · have : ¬ c = y := hcl
      cases d a <;> simp [hra, this]
    · have hyc : ¬ y = c := fun e => hcl e.symm
      by_cases hry : r a = y <;> cases d a <;> simp [hra, hry, hyc]
  · simp only [hyl, ↓reduceIte]
    by_cases hyc : y = c
    · subst hyc
      simp only [↓reduceIte]
      apply sum_map_zero
      intro a _
      simp only [ind]
      by_cases hra : r a = y
      · have : ¬ l = y := fun e => hyl e.symm
        simp [hra, this]
      · simp [hra]
    · simp only [hyc, ↓reduceIte]
      apply sum_map_congr
      intro a _
      simp only [ind]
      by_cases hra : r a = c
      · have h1 : ¬ l = y := fun e => hyl e.symm
        have h2 : ¬ c = y := fun e => hyc e.symm
        simp [hra, h1, h2]
      · simp [hra]

/-- marking one promise of the list (which had not released) lowers its chain's count by one -/
theorem owingIn_mark (L : List Nat) (hL : L.Nodup) (r : Nat → Nat) (d : Nat → Bool) (i y : Nat) (hi : i ∈ L) (hd : d i = false) :
    owingIn L r (fun x => if x = i then true else d x) y + (if y = r i then 1 else 0) = owingIn L r d y := by
  unfold owingIn
  induction L with
  | nil => cases hi
  | cons a L ih =>
    have hnd := List.nodup_cons.mp hL
    simp only [List.map_cons, List.sum_cons]
    by_cases hai : a = i
    · subst hai
      have hrest : (L.map (ind r (fun x => if x = a then true else d x) y)).sum = (L.map (ind r d y)).sum := by
        apply sum_map_congr
        intro x hx
        have : x ≠ a := fun e => hnd.1 (e ▸ hx)
        simp [ind, this]
      rw [hrest]
      simp only [ind, ↓reduceIte, hd]
      by_cases hy : y = r a
      · subst hy; simp; omega
      · have : ¬ r a = y := fun e => hy e.symm
        simp [hy, this]
    · have hi' : i ∈ L := by
        cases hi with
        | head => exact absurd rfl hai
        | tail _ h => exact h
      have := ih hnd.2 hi'
      have hia : ind r (fun x => if x = i then true else d x) y a = ind r d y a := by simp [ind, hai]
      rw [hia]
      omega

theorem owingIn_none (L : List Nat) (r : Nat → Nat) (d : Nat → Bool) (y : Nat) (h : ∀ i ∈ L, r i ≠ y) : owingIn L r d y = 0 := by
  unfold owingIn
  apply sum_map_zero
  intro a ha
  simp [ind, h a ha]

theorem owingIn_congr (L : List Nat) (r r' : Nat → Nat) (d d' : Nat → Bool) (y : Nat)
    (h : ∀ i ∈ L, r' i = r i ∧ d' i = d i) : owingIn L r' d' y = owingIn L r d y := by
  unfold owingIn
  apply sum_map_congr
  intro a ha
  simp [ind, (h a ha).1, (h a ha).2]

theorem owingIn_push (L : List Nat) (r : Nat → Nat) (d : Nat → Bool) (y a : Nat) :
    owingIn (L ++ [a]) r d y = owingIn L r d y + ind r d y a := by
  simp [owingIn]

theorem ind_le_owingIn (L : List Nat) (r : Nat → Nat) (d : Nat → Bool) (y a : Nat) (ha : a ∈ L) : ind r d y a ≤ owingIn L r d y := by
  unfold owingIn
  induction L with
  | nil => cases ha
  | cons x L ih =>
    simp only [List.map_cons, List.sum_cons]
    cases ha with
    | head => omega
    | tail _ h => have := ih h; omega

structure JInv (s : JS) : Prop where
  rootlt : ∀ i, i < s.n → s.root i < s.n
  fresh : ∀ i, s.n ≤ i → s.root i = i ∧ s.joined i = false ∧ s.resolved i = false ∧ s.released i = false ∧ s.row i = [] ∧ s.refs i = 1
  rootend : ∀ i, s.joined (s.root i) = false
  selfroot : ∀ i, s.joined i = false → s.root i = i
  refs : ∀ l, l < s.n → s.joined l = false → s.refs l = owing s l
  joinedRow : ∀ i, s.joined i = true → s.row i = []
  relres : ∀ i, s.released i = true → s.resolved (s.root i) = true
  resroot : ∀ i, s.resolved i = true → s.joined i = false
  rowlive : ∀ l c, c ∈ s.row l → s.live c = true ∧ s.drops c = 0 ∧ c < s.nextClient
  liverow : ∀ c, s.live c = true → ∃ l, c ∈ s.row l
  rownodup : ∀ l, (s.row l).Nodup
  rowdisj : ∀ l l' c, c ∈ s.row l → c ∈ s.row l' → l = l'
  drops1 : ∀ c, s.drops c ≤ 1
  freshc : ∀ c, s.nextClient ≤ c → s.live c = false ∧ s.drops c = 0
  rowowed : ∀ l, s.row l ≠ [] → 0 < owing s l

theorem init_JInv : JInv {} := by
  refine { rootlt := ?_, fresh := ?_, rootend := ?_, selfroot := ?_, refs := ?_, joinedRow := ?_, relres := ?_, resroot := ?_,
           rowlive := ?_, liverow := ?_, rownodup := ?_, rowdisj := ?_, drops1 := ?_, freshc := ?_, rowowed := ?_ } <;> simp

/-- a chain whose end is not resolved has no member that released; its end itself is a member that owes -/
theorem owing_pos_unresolved (s : JS) (h : JInv s) (l : Nat) (hl : l < s.n) (hj : s.joined l = false) (hr : s.resolved l = false) :
    0 < owing s l := by
  have hroot := h.selfroot l hj
  have hrel : s.released l = false := by
    cases hx : s.released l with
    | false => rfl
    | true => have := h.relres l hx; rw [hroot, hr] at this; cases this
  have := ind_le_owingIn (List.range s.n) s.root s.released l l (List.mem_range.mpr hl)
  unfold owing
  simp only [ind, hroot, hrel, and_self, ↓reduceIte] at this
  omega

theorem owing_congr (s s' : JS) (hn : s'.n = s.n) (hr : s'.root = s.root) (hd : s'.released = s.released) (l : Nat) :
    owing s' l = owing s l := by
  unfold owing; rw [hn, hr, hd]

theorem new_JInv (s : JS) (h : JInv s) : JInv { s with n := s.n + 1 } := by
  have hown : ∀ l, owing { s with n := s.n + 1 } l = owing s l + (if l = s.n then 1 else 0) := by
    intro l
    unfold owing
    simp only [List.range_succ, owingIn_push, ind]
    have hf := h.fresh s.n (Nat.le_refl _)
    rw [hf.1, hf.2.2.2.1]
    by_cases hl : l = s.n
    · subst hl; simp
    · have : ¬ s.n = l := fun e => hl e.symm
      simp [hl, this]
  refine { rootlt := ?_, fresh := ?_, rootend := h.rootend, selfroot := h.selfroot, refs := ?_, joinedRow := h.joinedRow,
           relres := h.relres, resroot := h.resroot, rowlive := h.rowlive, liverow := h.liverow, rownodup := h.rownodup,
           rowdisj := h.rowdisj, drops1 := h.drops1, freshc := h.freshc, rowowed := ?_ }
  · intro i hi
    simp only at hi ⊢
    by_cases hlt : i < s.n
    · have := h.rootlt i hlt; omega
    · have : i = s.n := by omega
      subst this
      rw [(h.fresh s.n (Nat.le_refl _)).1]; omega
  · intro i hi
    simp only at hi
    exact h.fresh i (by omega)
  · intro l hl hj
    simp only at hl hj ⊢
    rw [hown l]
    by_cases hlt : l < s.n
    · have : ¬ l = s.n := by omega
      simp only [this, ↓reduceIte, Nat.add_zero]; exact h.refs l hlt hj
    · have : l = s.n := by omega
      subst this
      have hf := h.fresh s.n (Nat.le_refl _)
      have h0 : owing s s.n = 0 := by
        unfold owing
        apply owingIn_none
        intro i hi
        have := h.rootlt i (List.mem_range.mp hi); omega
      simp only [↓reduceIte, h0, hf.2.2.2.2.2]
  · intro l hl
    simp only at hl
    rw [hown l]
    have := h.rowowed l hl; omega

theorem fulfill_JInv (s : JS) (i : Nat) (h : JInv s) (hi : i < s.n) (hj : s.joined i = false) :
    JInv { s with resolved := setAt s.resolved i true } := by
  refine { rootlt := h.rootlt, fresh := ?_, rootend := h.rootend, selfroot := h.selfroot, refs := ?_, joinedRow := h.joinedRow,
           relres := ?_, resroot := ?_, rowlive := h.rowlive, liverow := h.liverow, rownodup := h.rownodup,
           rowdisj := h.rowdisj, drops1 := h.drops1, freshc := h.freshc, rowowed := ?_ }
  · intro x hx
    simp only at hx
    have := h.fresh x hx
    have hxi : ¬ x = i := by omega
    simp only [setAt, hxi, ↓reduceIte]
    exact this
  · intro l hl hjl; exact h.refs l hl hjl
  · intro x hx
    simp only [setAt] at hx ⊢
    split
    · rfl
    · exact h.relres x hx
  · intro x hx
    simp only [setAt] at hx
    split at hx
    · rename_i hxi; subst hxi; exact hj
    · exact h.resroot x hx
  · intro l hl; exact h.rowowed l hl

theorem client_JInv (s : JS) (l : Nat) (h : JInv s) (hl : l < s.n) (hj : s.joined l = false) (hr : s.resolved l = false)
    (hrow : s.row l = []) :
    JInv { s with row := setAt s.row l [s.nextClient], nextClient := s.nextClient + 1, live := setAt s.live s.nextClient true } := by
  have hfc := h.freshc s.nextClient (Nat.le_refl _)
  have hnotin : ∀ l', s.nextClient ∉ s.row l' := fun l' hm => by have := (h.rowlive l' _ hm).2.2; omega
  refine { rootlt := h.rootlt, fresh := ?_, rootend := h.rootend, selfroot := h.selfroot, refs := h.refs, joinedRow := ?_,
           relres := h.relres, resroot := h.resroot, rowlive := ?_, liverow := ?_, rownodup := ?_,
           rowdisj := ?_, drops1 := h.drops1, freshc := ?_, rowowed := ?_ }
  · intro x hx
    simp only at hx
    have := h.fresh x hx
    have hxl : ¬ x = l := by omega
    simp only [setAt, hxl, ↓reduceIte]; exact this
  · intro x hx
    simp only [setAt]
    split
    · rename_i hxl; subst hxl; rw [hj] at hx; cases hx
    · exact h.joinedRow x hx
  · intro l' c hc
    simp only [setAt] at hc ⊢
    split at hc
    · simp only [List.mem_singleton] at hc; subst hc
      simp only [↓reduceIte]; exact ⟨trivial, hfc.2, by omega⟩
    · have := h.rowlive l' c hc
      have hne : ¬ c = s.nextClient := by omega
      simp only [hne, ↓reduceIte]; exact ⟨this.1, this.2.1, by omega⟩
  · intro c hc
    simp only [setAt] at hc ⊢
    by_cases hcn : c = s.nextClient
    · exact ⟨l, by simp [hcn]⟩
    · simp only [hcn, ↓reduceIte] at hc
      obtain ⟨l', hl'⟩ := h.liverow c hc
      refine ⟨l', ?_⟩
      have : ¬ l' = l := fun e => by rw [e, hrow] at hl'; cases hl'
      simp only [this, ↓reduceIte]; exact hl'
  · intro l'
    simp only [setAt]
    split
    · simp
    · exact h.rownodup l'
  · intro l1 l2 c h1 h2
    simp only [setAt] at h1 h2
    by_cases e1 : l1 = l <;> by_cases e2 : l2 = l
    · rw [e1, e2]
    · simp only [e1, ↓reduceIte, List.mem_singleton, e2] at h1 h2; subst h1; exact absurd h2 (hnotin l2)
    · simp only [e1, ↓reduceIte, List.mem_singleton, e2] at h1 h2; subst h2; exact absurd h1 (hnotin l1)
    · simp only [e1, ↓reduceIte, e2] at h1 h2; exact h.rowdisj l1 l2 c h1 h2
  · intro c hc
    simp only at hc
    have := h.freshc c (by omega)
    have hne : ¬ c = s.nextClient := by omega
    simp only [setAt, hne, ↓reduceIte]; exact this
  · intro l' hl'
    simp only [setAt] at hl'
    have hown : owing { s with row := setAt s.row l [s.nextClient], nextClient := s.nextClient + 1, live := setAt s.live s.nextClient true } l' = owing s l' := rfl
    rw [hown]
    by_cases e : l' = l
    · subst e; exact owing_pos_unresolved s h l' hl hj hr
    · simp only [e, ↓reduceIte] at hl'; exact h.rowowed l' hl'

/-- the state after `c.Join` onto the unresolved chain end l -/
def joinState (s : JS) (c l : Nat) : JS :=
  { s with joined := setAt s.joined c true,
           root := fun x => if s.root x = c then l else s.root x,
           row := setAt (setAt s.row l (s.row l ++ s.row c)) c [],
           refs := setAt (setAt s.refs l (s.refs l + s.refs c)) c 0 }

theorem join_JInv (s : JS) (c l : Nat) (h : JInv s) (hc : c < s.n) (hl : l < s.n) (hcl : c ≠ l)
    (hjc : s.joined c = false) (hrc : s.resolved c = false) (hjl : s.joined l = false) (hrl : s.resolved l = false) :
    JInv (joinState s c l) := by
  have hown : ∀ y, owing (joinState s c l) y =
      if y = l then owing s l + owing s c else if y = c then 0 else owing s y := by
    intro y; exact owingIn_join (List.range s.n) s.root s.released c l y hcl
  unfold joinState
  unfold joinState at hown
  have hlc : ¬ l = c := fun e => hcl e.symm
  have hrowdisj : ∀ x, x ∈ s.row l → x ∉ s.row c := fun x h1 h2 => hcl (h.rowdisj c l x h2 h1)
  refine { rootlt := ?_, fresh := ?_, rootend := ?_, selfroot := ?_, refs := ?_, joinedRow := ?_,
           relres := ?_, resroot := ?_, rowlive := ?_, liverow := ?_, rownodup := ?_,
           rowdisj := ?_, drops1 := h.drops1, freshc := h.freshc, rowowed := ?_ }
  · intro i hi
    simp only at hi ⊢
    split
    · exact hl
    · exact h.rootlt i hi
  · intro x hx
    simp only at hx
    have hf := h.fresh x hx
    have hxc : ¬ x = c := by omega
    have hxl : ¬ x = l := by omega
    simp only [setAt, hf.1, hxc, hxl, ↓reduceIte]
    exact ⟨trivial, hf.2.1, hf.2.2.1, hf.2.2.2.1, hf.2.2.2.2.1, hf.2.2.2.2.2⟩
  · intro i
    simp only [setAt]
    by_cases hri : s.root i = c
    · simp only [hri, ↓reduceIte, hlc]; exact hjl
    · simp only [hri, ↓reduceIte]; exact h.rootend i
  · intro i hi
    simp only [setAt] at hi ⊢
    have hic : ¬ i = c := by
      intro e; subst e; simp at hi
    simp only [hic, ↓reduceIte] at hi
    have := h.selfroot i hi
    rw [this]; simp only [hic, ↓reduceIte]
  · intro y hy hjy
    simp only [setAt] at hy hjy ⊢
    have hyc : ¬ y = c := by
      intro e; subst e; simp at hjy
    simp only [hyc, ↓reduceIte] at hjy ⊢
    rw [hown y]
    by_cases hyl : y = l
    · subst hyl
      simp only [↓reduceIte]
      rw [h.refs y hl hjl, h.refs c hc hjc]
    · simp only [hyl, ↓reduceIte, hyc]
      exact h.refs y hy hjy
  · intro i hi
    simp only [setAt] at hi ⊢
    by_cases hic : i = c
    · simp [hic]
    · simp only [hic, ↓reduceIte] at hi ⊢
      have hil : ¬ i = l := fun e => by rw [e, hjl] at hi; cases hi
      simp only [hil, ↓reduceIte]; exact h.joinedRow i hi
  · intro i hi
    simp only at hi ⊢
    have := h.relres i hi
    split
    · rename_i hrc'; rw [hrc', hrc] at this; cases this
    · exact this
  · intro i hi
    simp only [setAt] at hi ⊢
    have hic : ¬ i = c := fun e => by rw [e, hrc] at hi; cases hi
    simp only [hic, ↓reduceIte]; exact h.resroot i hi
  · intro l' x hx
    simp only [setAt] at hx
    by_cases e1 : l' = c
    · simp [e1] at hx
    · simp only [e1, ↓reduceIte] at hx
      by_cases e2 : l' = l
      · simp only [e2, ↓reduceIte, List.mem_append] at hx
        rcases hx with hx | hx
        · exact h.rowlive l x hx
        · exact h.rowlive c x hx
      · simp only [e2, ↓reduceIte] at hx; exact h.rowlive l' x hx
  · intro x hx
    obtain ⟨l', hl'⟩ := h.liverow x hx
    simp only [setAt]
    by_cases e1 : l' = c
    · exact ⟨l, by simp only [hlc, ↓reduceIte, List.mem_append]; right; rw [← e1]; exact hl'⟩
    · by_cases e2 : l' = l
      · exact ⟨l, by simp only [hlc, ↓reduceIte, List.mem_append]; left; rw [← e2]; exact hl'⟩
      · exact ⟨l', by simp only [e1, e2, ↓reduceIte]; exact hl'⟩
  · intro l'
    simp only [setAt]
    by_cases e1 : l' = c
    · simp [e1]
    · simp only [e1, ↓reduceIte]
      by_cases e2 : l' = l
      · simp only [e2, ↓reduceIte]
        exact List.nodup_append.mpr ⟨h.rownodup l, h.rownodup c, fun a ha b hb hab => hrowdisj a ha (hab ▸ hb)⟩
      · simp only [e2, ↓reduceIte]; exact h.rownodup l'
  · intro l1 l2 x h1 h2
    simp only [setAt] at h1 h2
    have key : ∀ l', x ∈ (if l' = c then [] else if l' = l then s.row l ++ s.row c else s.row l') →
        l' ≠ c ∧ ((l' = l ∧ (x ∈ s.row l ∨ x ∈ s.row c)) ∨ (l' ≠ l ∧ x ∈ s.row l')) := by
      intro l' hm
      by_cases e1 : l' = c
      · simp [e1] at hm
      · simp only [e1, ↓reduceIte] at hm
        by_cases e2 : l' = l
        · simp only [e2, ↓reduceIte, List.mem_append] at hm; exact ⟨e1, Or.inl ⟨e2, hm⟩⟩
        · simp only [e2, ↓reduceIte] at hm; exact ⟨e1, Or.inr ⟨e2, hm⟩⟩
    obtain ⟨n1, k1⟩ := key l1 h1
    obtain ⟨n2, k2⟩ := key l2 h2
    rcases k1 with ⟨e1, m1⟩ | ⟨e1, m1⟩ <;> rcases k2 with ⟨e2, m2⟩ | ⟨e2, m2⟩
    · rw [e1, e2]
    · rcases m1 with m1 | m1
      · exact absurd (h.rowdisj l l2 x m1 m2) (fun e => e2 e.symm)
      · exact absurd (h.rowdisj c l2 x m1 m2) (fun e => n2 e.symm)
    · rcases m2 with m2 | m2
      · exact absurd (h.rowdisj l1 l x m1 m2) e1
      · exact absurd (h.rowdisj l1 c x m1 m2) n1
    · exact h.rowdisj l1 l2 x m1 m2
  · intro l' hl'
    simp only [setAt] at hl'
    rw [hown l']
    by_cases e1 : l' = c
    · simp [e1] at hl'
    · simp only [e1, ↓reduceIte] at hl'
      by_cases e2 : l' = l
      · simp only [e2, ↓reduceIte] at hl' ⊢
        by_cases hrl' : s.row l = []
        · have : s.row c ≠ [] := fun e => hl' (by rw [hrl', e]; rfl)
          have := h.rowowed c this; omega
        · have := h.rowowed l hrl'; omega
      · simp only [e2, ↓reduceIte, e1] at hl' ⊢; exact h.rowowed l' hl'

/-- `ReleaseClients` on i (chain end l), first part: the receiver is marked, the chain's count drops -/
def relState (s : JS) (i l : Nat) : JS :=
  { s with released := setAt s.released i true, refs := setAt s.refs l (s.refs l - 1) }

theorem owing_rel (s : JS) (i l y : Nat) (hi : i < s.n) (hd : s.released i = false) :
    owing (relState s i l) y + (if y = s.root i then 1 else 0) = owing s y := by
  have := owingIn_mark (List.range s.n) List.nodup_range s.root s.released i y (List.mem_range.mpr hi) hd
  unfold owing relState setAt
  exact this

theorem rel_JInv (s : JS) (i : Nat) (h : JInv s) (hi : i < s.n) (hd : s.released i = false)
    (hres : s.resolved (s.root i) = true) (hpos : s.refs (s.root i) - 1 > 0) : JInv (relState s i (s.root i)) := by
  have hown := fun y => owing_rel s i (s.root i) y hi hd
  have hl := h.rootlt i hi
  have hjl := h.rootend i
  unfold relState at *
  refine { rootlt := h.rootlt, fresh := ?_, rootend := h.rootend, selfroot := h.selfroot, refs := ?_, joinedRow := h.joinedRow,
           relres := ?_, resroot := h.resroot, rowlive := h.rowlive, liverow := h.liverow, rownodup := h.rownodup,
           rowdisj := h.rowdisj, drops1 := h.drops1, freshc := h.freshc, rowowed := ?_ }
  · intro x hx
    simp only at hx
    have hf := h.fresh x hx
    have hxi : ¬ x = i := by omega
    have hxl : ¬ x = s.root i := by omega
    simp only [setAt, hxi, hxl, ↓reduceIte]; exact hf
  · intro y hy hjy
    have := hown y
    simp only [setAt] at this ⊢
    by_cases e : y = s.root i
    · simp only [e, ↓reduceIte] at this ⊢
      have := h.refs (s.root i) hl hjl; omega
    · simp only [e, ↓reduceIte, Nat.add_zero] at this ⊢
      rw [this]; exact h.refs y hy hjy
  · intro x hx
    simp only [setAt] at hx ⊢
    split at hx
    · rename_i e; rw [e]; exact hres
    · exact h.relres x hx
  · intro y hy
    have := hown y
    by_cases e : y = s.root i
    · simp only [e, ↓reduceIte] at this
      have hr := h.refs (s.root i) hl hjl
      rw [e]; omega
    · simp only [e, ↓reduceIte, Nat.add_zero] at this
      rw [this]; exact h.rowowed y hy

/-- … second part, when the count reached zero: the chain's clients are released -/
def dropState (s : JS) (i l : Nat) : JS :=
  { s with released := setAt s.released i true, refs := setAt s.refs l (s.refs l - 1), row := setAt s.row l [],
           live := fun c => if c ∈ s.row l then false else s.live c,
           drops := fun c => s.drops c + (s.row l).count c }

theorem dropState_eq (s : JS) (i l : Nat) :
    dropAll { relState s i l with row := setAt (relState s i l).row l [] } (s.row l) = dropState s i l := rfl

theorem drop_JInv (s : JS) (i : Nat) (h : JInv s) (hi : i < s.n) (hd : s.released i = false)
    (hres : s.resolved (s.root i) = true) (hzero : ¬ (s.refs (s.root i) - 1 > 0)) : JInv (dropState s i (s.root i)) := by
  have hown : ∀ y, owingIn (List.range s.n) s.root (setAt s.released i true) y + (if y = s.root i then 1 else 0) = owing s y :=
    fun y => owing_rel s i (s.root i) y hi hd
  have hl := h.rootlt i hi
  have hjl := h.rootend i
  have hcount : ∀ c, c ∈ s.row (s.root i) → (s.row (s.root i)).count c = 1 := fun c hc =>
    by rw [(h.rownodup _).count]; simp [hc]
  unfold dropState
  refine { rootlt := h.rootlt, fresh := ?_, rootend := h.rootend, selfroot := h.selfroot, refs := ?_, joinedRow := ?_,
           relres := ?_, resroot := h.resroot, rowlive := ?_, liverow := ?_, rownodup := ?_,
           rowdisj := ?_, drops1 := ?_, freshc := ?_, rowowed := ?_ }
  · intro x hx
    simp only at hx
    have hf := h.fresh x hx
    have hxi : ¬ x = i := by omega
    have hxl : ¬ x = s.root i := by omega
    simp only [setAt, hxi, hxl, ↓reduceIte]; exact hf
  · intro y hy hjy
    have := hown y
    simp only [owing] at this ⊢
    simp only [setAt] at this ⊢
    by_cases e : y = s.root i
    · simp only [e, ↓reduceIte] at this ⊢
      have hr := h.refs (s.root i) hl hjl
      simp only [owing] at hr
      omega
    · simp only [e, ↓reduceIte, Nat.add_zero] at this ⊢
      rw [this]; exact h.refs y hy hjy
  · intro x hx
    simp only [setAt]
    split
    · rfl
    · exact h.joinedRow x hx
  · intro x hx
    simp only [setAt] at hx ⊢
    split at hx
    · rename_i e; rw [e]; exact hres
    · exact h.relres x hx
  · intro l' c hc
    simp only [setAt] at hc ⊢
    by_cases e : l' = s.root i
    · simp [e] at hc
    · simp only [e, ↓reduceIte] at hc
      have hnot : c ∉ s.row (s.root i) := fun hm => e (h.rowdisj l' (s.root i) c hc hm)
      have := h.rowlive l' c hc
      simp only [hnot, ↓reduceIte, List.count_eq_zero_of_not_mem hnot, Nat.add_zero]
      exact this
  · intro c hc
    simp only [setAt] at hc ⊢
    by_cases hm : c ∈ s.row (s.root i)
    · simp [hm] at hc
    · simp only [hm, ↓reduceIte] at hc
      obtain ⟨l', hl'⟩ := h.liverow c hc
      have e : ¬ l' = s.root i := fun e => hm (e ▸ hl')
      exact ⟨l', by simp only [e, ↓reduceIte]; exact hl'⟩
  · intro l'
    simp only [setAt]
    split
    · simp
    · exact h.rownodup l'
  · intro l1 l2 c h1 h2
    simp only [setAt] at h1 h2
    by_cases e1 : l1 = s.root i
    · simp [e1] at h1
    · by_cases e2 : l2 = s.root i
      · simp [e2] at h2
      · simp only [e1, e2, ↓reduceIte] at h1 h2; exact h.rowdisj l1 l2 c h1 h2
  · intro c
    simp only
    by_cases hm : c ∈ s.row (s.root i)
    · rw [hcount c hm, (h.rowlive _ c hm).2.1]; omega
    · rw [List.count_eq_zero_of_not_mem hm]; exact h.drops1 c
  · intro c hc
    simp only at hc
    have hm : c ∉ s.row (s.root i) := fun hm => by have := (h.rowlive _ c hm).2.2; omega
    simp only [hm, ↓reduceIte, List.count_eq_zero_of_not_mem hm, Nat.add_zero]
    exact h.freshc c hc
  · intro y hy
    simp only [setAt] at hy
    have := hown y
    simp only [owing] at this ⊢
    by_cases e : y = s.root i
    · simp [e] at hy
    · simp only [e, ↓reduceIte, Nat.add_zero] at this hy
      rw [this]; exact h.rowowed y hy

theorem step_JInv (s s' : JS) (o : Op) (h : JInv s) (hs : step false s o = some s') : JInv s' := by
  cases o with
  | new =>
    simp only [step, Option.some.injEq] at hs; subst hs; exact new_JInv s h
  | client i =>
    simp only [step] at hs
    split at hs
    · cases hs
    · rename_i hi
      have hi' : i < s.n := by omega
      split at hs
      · simp only [Option.some.injEq] at hs; subst hs; exact h
      · rename_i hr
        split at hs
        · simp only [Option.some.injEq] at hs; subst hs; exact h
        · rename_i hrow
          simp only [Option.some.injEq] at hs; subst hs
          exact client_JInv s (s.root i) h (h.rootlt i hi') (h.rootend i) (by simpa using hr) hrow
  | join c p =>
    simp only [step] at hs
    split at hs
    · cases hs
    · rename_i hg
      simp only [not_or, Nat.not_le, Bool.not_eq_true] at hg
      obtain ⟨hc, hp, hjc, hrc, hne⟩ := hg
      split at hs
      · simp only [Option.some.injEq] at hs; subst hs
        exact fulfill_JInv s c h hc hjc
      · rename_i hrl
        simp only [Option.some.injEq] at hs; subst hs
        exact join_JInv s c (s.root p) h hc (h.rootlt p hp) (fun e => hne e.symm) hjc hrc (h.rootend p) (by simpa using hrl)
  | fulfill i =>
    simp only [step] at hs
    split at hs
    · cases hs
    · rename_i hg
      simp only [not_or, Nat.not_le, Bool.not_eq_true] at hg
      simp only [Option.some.injEq] at hs; subst hs
      exact fulfill_JInv s i h hg.1 hg.2.1
  | release i =>
    simp only [step] at hs
    split at hs
    · cases hs
    · rename_i hi
      have hi' : i < s.n := by omega
      split at hs
      · cases hs
      · rename_i hres
        have hres' : s.resolved (s.root i) = true := by simpa using hres
        split at hs
        · simp only [Option.some.injEq] at hs; subst hs; exact h
        · rename_i hd
          have hd' : s.released i = false := by simpa using hd
          simp only [Bool.false_eq_true, ↓reduceIte] at hs
          split at hs
          · rename_i hpos
            simp only [Option.some.injEq] at hs; subst hs
            exact rel_JInv s i h hi' hd' hres' hpos
          · rename_i hzero
            simp only [Option.some.injEq] at hs; subst hs
            exact drop_JInv s i h hi' hd' hres' hzero

end Capnp.Lemmas.JoinRefs
