import Capnp.Model.Server
/-! Inductive invariant of the server model (`Capnp.Model.Server`) and its preservation by every action. -/
namespace Capnp.Lemmas.Server
open Capnp.Model.Server

/-- per-call part of the invariant -/
def PC (m : Nat) (s : SS) (k : Nat) : Prop :=
  (k ≥ s.n → s.calls k = {}) ∧
  (s.calls k).tArrive < s.clock ∧ (s.calls k).tStart < s.clock ∧ (s.calls k).tSendRet < s.clock ∧
  ((s.calls k).ph ≠ .absent → 0 < (s.calls k).tArrive) ∧
  (((s.calls k).ph = .slotWait ∨ (s.calls k).ph = .holding) ↔ s.starting = some k) ∧
  (k ∈ s.slots ↔ (s.calls k).impl = .running) ∧
  ((s.calls k).impl = .notStarted → (s.calls k).tStart = 0 ∧ (s.calls k).acked = false) ∧
  ((s.calls k).ph = .absent ∨ (s.calls k).ph = .gateWait ∨ (s.calls k).ph = .parked ∨ (s.calls k).ph = .slotWait ∨ (s.calls k).ph = .rejected →
      (s.calls k).impl = .notStarted) ∧
  ((s.calls k).ph = .absent ∨ (s.calls k).ph = .gateWait ∨ (s.calls k).ph = .parked ∨ (s.calls k).ph = .slotWait ∨ (s.calls k).ph = .holding →
      (s.calls k).tSendRet = 0) ∧
  ((s.calls k).ph = .holding ∨ (s.calls k).ph = .out → (s.calls k).impl ≠ .notStarted) ∧
  ((s.calls k).impl = .running ∧ (s.calls k).acked = false → (s.calls k).ph = .holding) ∧
  ((s.calls k).ph = .out → ((s.calls k).acked = true ∨ (s.calls k).impl = .returned) ∧ (s.calls k).tStart < (s.calls k).tSendRet) ∧
  ((s.calls k).ph = .rejected → 0 < (s.calls k).tSendRet) ∧
  ((s.calls k).impl ≠ .notStarted → (s.calls k).tArrive < (s.calls k).tStart ∧ (s.drain ≠ 0 → (s.calls k).tStart < s.tDrain)) ∧
  (s.calls k).returns = (if (s.calls k).impl = .returned ∨ (s.calls k).ph = .rejected then 1 else 0) ∧
  (s.drain ≠ 0 ∧ (s.calls k).impl = .running → (s.calls k).cancelled = true) ∧
  ((s.calls k).ph = .slotWait → (s.full = false → s.slots.length < m) ∧ (s.full = true → s.slots.length = m))

/-- server-wide part of the invariant -/
def GI (m : Nat) (s : SS) : Prop :=
  0 < s.clock ∧ s.slots.Nodup ∧ s.slots.length ≤ m ∧ s.panicked = false ∧
  (s.drain = 0 ↔ s.tDrain = 0) ∧ s.tDrain < s.clock ∧ s.drain ≤ 2 ∧
  (s.drain = 2 → s.slots = []) ∧ (s.drain = 1 → s.slots ≠ []) ∧
  s.userShutdowns ≤ 1 ∧ (s.shutPending = true → s.drain ≠ 0 ∧ s.userShutdowns = 0) ∧
  (s.userShutdowns = 1 → s.drain = 2) ∧ (s.drain ≠ 0 ∧ s.shutPending = false → s.userShutdowns = 1) ∧
  (s.drain = 0 → s.userShutdowns = 0 ∧ s.shutPending = false)

def Inv (m : Nat) (s : SS) : Prop := GI m s ∧ ∀ k, PC m s k

theorem inv_init (m : Nat) : Inv m init := by
  refine ⟨by simp [GI, init], fun k => ?_⟩
  simp [PC, init]


theorem arrive_inv (m : Nat) (s s' : SS) (h : Inv m s) (hs : step m s .arrive = some s') : Inv m s' := by
  obtain ⟨hg, hp⟩ := h
  simp only [step, Option.some.injEq] at hs
  subst hs
  refine ⟨?_, fun x => ?_⟩
  · unfold GI at *; grind
  · have hx := hp x
    have hn := hp s.n
    clear hp
    unfold PC at *
    unfold GI at hg
    simp only [upd]
    by_cases hxn : x = s.n
    · subst hxn; simp only [if_pos]; grind
    · simp only [if_neg hxn]; grind


theorem enter_inv (m : Nat) (s s' : SS) (k : Nat) (h : Inv m s) (hs : step m s (.enter k) = some s') : Inv m s' := by
  obtain ⟨hg, hp⟩ := h
  simp only [step] at hs
  split at hs
  · cases hs
  · rename_i hph
    split at hs
    · -- rejected: shutdown
      simp only [Option.some.injEq] at hs; subst hs
      refine ⟨?_, fun x => ?_⟩
      · unfold GI at *; simp only [reject]; grind
      · have hx := hp x; have hk := hp k; clear hp
        unfold PC at *; unfold GI at hg
        simp only [reject, upd]
        by_cases hxk : x = k
        · subst hxk; simp only [if_pos]; grind
        · simp only [if_neg hxk]; grind
    · rename_i hd
      split at hs
      · -- gate busy: park
        rename_i h0 hst
        simp only [Option.some.injEq] at hs; subst hs
        refine ⟨?_, fun x => ?_⟩
        · unfold GI at *; grind
        · have hx := hp x; have hk := hp k; clear hp
          unfold PC at *; unfold GI at hg
          simp only [upd]
          by_cases hxk : x = k
          · subst hxk; simp only [if_pos]; grind
          · simp only [if_neg hxk]; grind
      · rename_i hst
        split at hs
        · simp only [Option.some.injEq] at hs; subst hs
          refine ⟨?_, fun x => ?_⟩
          · have hk := hp k
            unfold GI at *; unfold PC at hk; simp only [launch, List.nodup_cons, List.length_cons]; grind
          · have hx := hp x; have hk := hp k; clear hp
            unfold PC at *; unfold GI at hg
            simp only [launch, upd, List.mem_cons, List.length_cons]
            by_cases hxk : x = k
            · subst hxk; simp only [if_pos]; grind
            · simp only [if_neg hxk]; grind
        · simp only [Option.some.injEq] at hs; subst hs
          refine ⟨?_, fun x => ?_⟩
          · unfold GI at *; grind
          · have hx := hp x; have hk := hp k; clear hp
            unfold PC at *; unfold GI at hg
            simp only [upd]
            by_cases hxk : x = k
            · subst hxk; simp only [if_pos]; grind
            · simp only [if_neg hxk]; grind

theorem wakeGate_inv (m : Nat) (s s' : SS) (k : Nat) (h : Inv m s) (hs : step m s (.wakeGate k) = some s') : Inv m s' := by
  obtain ⟨hg, hp⟩ := h
  simp only [step] at hs
  split at hs
  · cases hs
  · simp only [Option.some.injEq] at hs; subst hs
    refine ⟨?_, fun x => ?_⟩
    · unfold GI at *; grind
    · have hx := hp x; have hk := hp k; clear hp
      unfold PC at *; unfold GI at hg
      simp only [upd]
      by_cases hxk : x = k
      · subst hxk; simp only [if_pos]; grind
      · simp only [if_neg hxk]; grind

theorem cancel_inv (m : Nat) (s s' : SS) (k : Nat) (h : Inv m s) (hs : step m s (.cancel k) = some s') : Inv m s' := by
  obtain ⟨hg, hp⟩ := h
  simp only [step] at hs
  split at hs
  · cases hs
  · simp only [Option.some.injEq] at hs; subst hs
    refine ⟨?_, fun x => ?_⟩
    · unfold GI at *; grind
    · have hx := hp x; have hk := hp k; clear hp
      unfold PC at *; unfold GI at hg
      simp only [upd]
      by_cases hxk : x = k
      · subst hxk; simp only [if_pos]; grind
      · simp only [if_neg hxk]; grind

theorem abortWait_inv (m : Nat) (s s' : SS) (k : Nat) (h : Inv m s) (hs : step m s (.abortWait k) = some s') : Inv m s' := by
  obtain ⟨hg, hp⟩ := h
  simp only [step] at hs
  split at hs
  · cases hs
  · split at hs
    · rename_i hph
      simp only [Option.some.injEq] at hs; subst hs
      refine ⟨?_, fun x => ?_⟩
      · unfold GI at *; simp only [reject]; grind
      · have hx := hp x; have hk := hp k; clear hp
        unfold PC at *; unfold GI at hg
        simp only [reject, upd]
        by_cases hxk : x = k
        · subst hxk; simp only [if_pos]; grind
        · simp only [if_neg hxk]; grind
    · rename_i hph
      simp only [Option.some.injEq] at hs; subst hs
      refine ⟨?_, fun x => ?_⟩
      · unfold GI at *; simp only [reject]; grind
      · have hx := hp x; have hk := hp k; clear hp
        unfold PC at *; unfold GI at hg
        simp only [reject, upd]
        by_cases hxk : x = k
        · subst hxk; simp only [if_pos]; grind
        · simp only [if_neg hxk]; grind
    · cases hs

theorem slotWake_inv (m : Nat) (s s' : SS) (k : Nat) (h : Inv m s) (hs : step m s (.slotWake k) = some s') : Inv m s' := by
  obtain ⟨hg, hp⟩ := h
  simp only [step] at hs
  split at hs
  · cases hs
  · rename_i hc
    split at hs
    · simp only [Option.some.injEq] at hs; subst hs
      refine ⟨?_, fun x => ?_⟩
      · unfold GI at *; simp only [reject]; grind
      · have hx := hp x; have hk := hp k; clear hp
        unfold PC at *; unfold GI at hg
        simp only [reject, upd]
        by_cases hxk : x = k
        · subst hxk; simp only [if_pos]; grind
        · simp only [if_neg hxk]; grind
    · split at hs
      · simp only [Option.some.injEq] at hs; subst hs
        refine ⟨?_, fun x => ?_⟩
        · have hk := hp k
          unfold GI at *; unfold PC at hk; simp only [launch, List.nodup_cons, List.length_cons]; grind
        · have hx := hp x; have hk := hp k; clear hp
          unfold PC at *; unfold GI at hg
          simp only [launch, upd, List.mem_cons, List.length_cons]
          by_cases hxk : x = k
          · subst hxk; simp only [if_pos]; grind
          · simp only [if_neg hxk]; grind
      · exfalso
        have hk := hp k
        unfold PC at hk
        grind

theorem implAck_inv (m : Nat) (s s' : SS) (k : Nat) (h : Inv m s) (hs : step m s (.implAck k) = some s') : Inv m s' := by
  obtain ⟨hg, hp⟩ := h
  simp only [step] at hs
  split at hs
  · cases hs
  · simp only [Option.some.injEq] at hs; subst hs
    refine ⟨?_, fun x => ?_⟩
    · unfold GI at *; grind
    · have hx := hp x; have hk := hp k; clear hp
      unfold PC at *; unfold GI at hg
      simp only [upd]
      by_cases hxk : x = k
      · subst hxk; simp only [if_pos]; grind
      · simp only [if_neg hxk]; grind

theorem mem_erase_iff' (l : List Nat) (h : l.Nodup) (x k : Nat) : x ∈ l.erase k ↔ x ≠ k ∧ x ∈ l :=
  List.Nodup.mem_erase_iff h

theorem implRet_inv (m : Nat) (s s' : SS) (k : Nat) (h : Inv m s) (hs : step m s (.implRet k) = some s') : Inv m s' := by
  obtain ⟨hg, hp⟩ := h
  simp only [step] at hs
  split at hs
  · cases hs
  · rename_i hrun
    simp only [Classical.not_not] at hrun
    simp only [Option.some.injEq] at hs; subst hs
    have hk := hp k
    have hmem : k ∈ s.slots := by unfold PC at hk; grind
    have hnd : s.slots.Nodup := hg.2.1
    have hlen := List.length_erase_of_mem hmem
    have hnd' := List.Nodup.erase k hnd
    have hme := fun x => mem_erase_iff' s.slots hnd x k
    have hpos : 0 < s.slots.length := List.length_pos_of_mem hmem
    have hnil : s.slots.erase k = [] ↔ s.slots.length = 1 := by
      rw [← List.length_eq_zero_iff]; omega
    have hne : s.slots ≠ [] := List.ne_nil_of_mem hmem
    generalize s.slots.erase k = e at *
    refine ⟨?_, fun x => ?_⟩
    · unfold GI at *; grind
    · have hx := hp x; clear hp
      unfold PC at *; unfold GI at hg
      simp only [upd]
      by_cases hxk : x = k
      · subst hxk; simp only [if_pos]; grind
      · simp only [if_neg hxk]; grind

theorem release_inv (m : Nat) (s s' : SS) (k : Nat) (h : Inv m s) (hs : step m s (.release k) = some s') : Inv m s' := by
  obtain ⟨hg, hp⟩ := h
  simp only [step] at hs
  split at hs
  · cases hs
  · rename_i hc
    simp only [Option.some.injEq] at hs; subst hs
    refine ⟨?_, fun x => ?_⟩
    · unfold GI at *; grind
    · have hx := hp x; have hk := hp k; clear hp
      unfold PC at *; unfold GI at hg
      simp only [upd]
      by_cases hxk : x = k
      · subst hxk; simp only [if_pos]; grind
      · simp only [if_neg hxk]; grind

theorem shutdown1_inv (m : Nat) (s s' : SS) (h : Inv m s) (hs : step m s .shutdown1 = some s') : Inv m s' := by
  obtain ⟨hg, hp⟩ := h
  simp only [step] at hs
  split at hs
  · cases hs
  · rename_i hd
    simp only [Option.some.injEq] at hs; subst hs
    refine ⟨?_, fun x => ?_⟩
    · unfold GI at *; grind
    · have hx := hp x; clear hp
      unfold PC at *; unfold GI at hg
      by_cases hxs : x ∈ s.slots
      · simp only [if_pos hxs]; grind
      · simp only [if_neg hxs]; grind

theorem shutdown2_inv (m : Nat) (s s' : SS) (h : Inv m s) (hs : step m s .shutdown2 = some s') : Inv m s' := by
  obtain ⟨hg, hp⟩ := h
  simp only [step] at hs
  split at hs
  · cases hs
  · rename_i hd
    simp only [Option.some.injEq] at hs; subst hs
    refine ⟨?_, fun x => ?_⟩
    · unfold GI at *; grind
    · have hx := hp x; clear hp
      unfold PC at *; unfold GI at hg
      grind

theorem inv_step (m : Nat) (s s' : SS) (a : Act) (h : Inv m s) (hs : step m s a = some s') : Inv m s' := by
  cases a with
  | arrive => exact arrive_inv m s s' h hs
  | enter k => exact enter_inv m s s' k h hs
  | wakeGate k => exact wakeGate_inv m s s' k h hs
  | cancel k => exact cancel_inv m s s' k h hs
  | abortWait k => exact abortWait_inv m s s' k h hs
  | slotWake k => exact slotWake_inv m s s' k h hs
  | implAck k => exact implAck_inv m s s' k h hs
  | implRet k => exact implRet_inv m s s' k h hs
  | release k => exact release_inv m s s' k h hs
  | shutdown1 => exact shutdown1_inv m s s' h hs
  | shutdown2 => exact shutdown2_inv m s s' h hs

theorem inv_run (m : Nat) (s s' : SS) (as : List Act) (h : Inv m s) (hr : run m s as = some s') : Inv m s' := by
  induction as generalizing s with
  | nil => simp [run] at hr; subst hr; exact h
  | cons a as ih =>
    simp only [run] at hr
    cases hst : step m s a with
    | none => simp [hst] at hr
    | some s1 => simp [hst] at hr; exact ih s1 (inv_step m s s1 a h hst) hr

end Capnp.Lemmas.Server
