import Capnp.Model.Rpc
/-! Invariants of the Conn table model that concern the export table and the failure flag, and their
    preservation by every function of `Capnp.Model.Rpc` (repaired code, `fixed = true`). -/
namespace Capnp.Lemmas.Rpc
open Capnp.Model.Rpc

/-- the part of the state the export invariant talks about -/
def core (s : RS) : (Nat → Option Exp) × (Nat → Nat) × (Nat → Nat) × Bool × IdGen :=
  (s.exports, s.sent, s.released, s.panicked, s.exportID)

/-- **export reference accounting**: for every entry of the export table, the references the peer holds are
    the descriptors sent naming it minus the references given back (since the entry was created), and an entry
    exists only while that number is positive; nothing has panicked -/
def EInv (s : RS) : Prop :=
  (∀ id e, s.exports id = some e → e.wireRefs + s.released id = s.sent id ∧ 0 < e.wireRefs) ∧
  s.panicked = false

theorem EInv_congr (s s' : RS) (h : core s' = core s) (hi : EInv s) : EInv s' := by
  unfold core at h
  simp only [Prod.mk.injEq] at h
  obtain ⟨h1, h3, h4, h5, _⟩ := h
  unfold EInv at *
  rw [h1, h3, h4, h5]; exact hi

theorem foldl_inv {α β} (P : β → Prop) (f : β → α → β) (l : List α) (b : β) (hb : P b)
    (hf : ∀ b a, P b → P (f b a)) : P (l.foldl f b) := by
  induction l generalizing b with
  | nil => exact hb
  | cons a l ih => exact ih _ (hf b a hb)

/-! ## frame lemmas: functions that do not touch the export table -/

theorem addRef_core (s : RS) (c : CapV) : core (addRef s c) = core s := by
  cases c <;> simp only [addRef] <;> try rfl
  split <;> rfl

theorem dropRef_core (s : RS) (c : CapV) : core (dropRef s c).1 = core s := by
  cases c <;> simp only [dropRef] <;> try rfl
  · split
    · rfl
    · split <;> rfl
  · split
    · split
      · rfl
      · split <;> rfl
    · rfl

theorem dropRefs_core (s : RS) (cs : List CapV) : core (dropRefs s cs).1 = core s := by
  unfold dropRefs
  suffices h : ∀ (acc : RS × List Out), core (cs.foldl (fun (acc : RS × List Out) c =>
      let (s', o) := dropRef acc.1 c; (s', acc.2 ++ o)) acc).1 = core acc.1 from h (s, [])
  induction cs with
  | nil => intro acc; rfl
  | cons c cs ih =>
    intro acc
    simp only [List.foldl_cons]
    rw [ih]
    exact dropRef_core acc.1 c

/-! ## the two functions that do -/

theorem sendCap_EInv (s : RS) (c : CapV) (h : EInv s) : EInv (sendCap s c).1 := by
  have key : ∀ c', (c' = CapV.err ∨ ∃ k, c' = CapV.loc k) → EInv (sendCap s c').1 := by
    intro c' hc'
    have hsc : sendCap s c' =
        (match (exportIds s).find? (fun id => match s.exports id with | some e => e.cap = c' ∧ c' ≠ .err | none => false) with
        | some id =>
          match s.exports id with
          | some e =>
            ({ s with exports := setExp s.exports id (some { e with wireRefs := e.wireRefs + 1 }), sent := bump s.sent id }, "s" ++ toString id, some id)
          | none => (s, "n", none)
        | none =>
          let (id, g) := s.exportID.next
          let s := addRef { s with exportID := g } c'
          ({ s with exports := setExp s.exports id (some { cap := c', wireRefs := 1 }), sent := bump (reset s.sent id) id, released := reset s.released id },
            "s" ++ toString id, some id)) := by
      rcases hc' with rfl | ⟨k, rfl⟩ <;> rfl
    rw [hsc]
    split
    · rename_i id hf
      split
      · rename_i e he
        refine ⟨?_, h.2⟩
        intro x ex hx
        simp only [setExp] at hx
        by_cases hxi : x = id
        · subst hxi
          simp only [↓reduceIte, Option.some.injEq] at hx
          subst hx
          have := h.1 x e he
          simp only [bump, ↓reduceIte]
          omega
        · simp only [hxi, ↓reduceIte] at hx
          have := h.1 x ex hx
          simp only [bump, hxi, ↓reduceIte]
          exact this
      · exact h
    · have hc := addRef_core { s with exportID := (s.exportID.next).2 } c'
      simp only [core, Prod.mk.injEq] at hc
      refine ⟨?_, ?_⟩
      · intro x ex hx
        simp only [setExp] at hx
        by_cases hxi : x = (s.exportID.next).1
        · subst hxi
          simp only [↓reduceIte, Option.some.injEq] at hx
          subst hx
          simp [bump, reset]
        · simp only [hxi, ↓reduceIte] at hx
          rw [hc.1] at hx
          have := h.1 x ex hx
          simp only [bump, reset, hxi, ↓reduceIte]
          rw [hc.2.1, hc.2.2.1]; exact this
      · simp only; rw [hc.2.2.2.1]; exact h.2
  cases c with
  | null => exact h
  | imp i => exact h
  | err => exact key _ (Or.inl rfl)
  | loc k => exact key _ (Or.inr ⟨k, rfl⟩)

theorem releaseExport_EInv (s : RS) (id n : Nat) (r : RS × List Out) (h : EInv s)
    (hr : releaseExport s id n = some r) : EInv r.1 := by
  unfold releaseExport at hr
  split at hr
  · cases hr
  · rename_i e he
    split at hr
    · rename_i hn
      simp only [Option.some.injEq] at hr
      subst hr
      apply EInv_congr _ _ (dropRef_core _ _)
      refine ⟨?_, h.2⟩
      intro x ex hx
      simp only [setExp] at hx
      by_cases hxi : x = id
      · simp [hxi] at hx
      · simp only [hxi, ↓reduceIte] at hx
        have := h.1 x ex hx
        simp only [bump, hxi, ↓reduceIte]; exact this
    · split at hr
      · cases hr
      · rename_i hn1 hn2
        simp only [Option.some.injEq] at hr
        subst hr
        refine ⟨?_, h.2⟩
        intro x ex hx
        simp only [setExp] at hx
        by_cases hxi : x = id
        · subst hxi
          simp only [↓reduceIte, Option.some.injEq] at hx
          subst hx
          have := h.1 x e he
          simp only [bump, ↓reduceIte]
          omega
        · simp only [hxi, ↓reduceIte] at hx
          have := h.1 x ex hx
          simp only [bump, hxi, ↓reduceIte]; exact this

/-- what `releaseExport` does to the count, stated on its own: exactly `n` references are given back, the
    entry disappears exactly when that was all of them, and giving back more than are held is refused -/
theorem releaseExport_spec (s : RS) (id n : Nat) (e : Exp) (he : s.exports id = some e) :
    (n > e.wireRefs → releaseExport s id n = none) ∧
    (n = e.wireRefs → ∃ r, releaseExport s id n = some r ∧ r.1.exports id = none) ∧
    (n < e.wireRefs → ∃ r, releaseExport s id n = some r ∧ r.1.exports id = some { e with wireRefs := e.wireRefs - n }) := by
  refine ⟨?_, ?_, ?_⟩
  · intro h
    unfold releaseExport; rw [he]
    simp only
    rw [if_neg (by omega), if_pos h]
  · intro h
    unfold releaseExport; rw [he]
    simp only
    rw [if_pos h]
    refine ⟨_, rfl, ?_⟩
    have := dropRef_core { s with exports := setExp s.exports id none, exportID := s.exportID.remove id, released := bump s.released id n } e.cap
    simp only [core, Prod.mk.injEq] at this
    rw [this.1]; simp [setExp]
  · intro h
    unfold releaseExport; rw [he]
    simp only
    rw [if_neg (by omega), if_neg (by omega)]
    exact ⟨_, rfl, by simp [setExp]⟩

theorem shutdown_EInv (s : RS) (b : Bool) (h : EInv s) : EInv (shutdown true s b).1 := by
  unfold shutdown
  split
  · exact h
  · refine ⟨?_, ?_⟩
    · intro id e he; simp at he
    · simp only [Bool.not_true, Bool.false_and, Bool.or_false]
      -- `panicked` is untouched by the releases
      have hp : ∀ (t : RS) (cs : List CapV), (dropRefs t cs).1.panicked = t.panicked := by
        intro t cs; have := dropRefs_core t cs; simp only [core, Prod.mk.injEq] at this; exact this.2.2.2.1
      have hp1 : ∀ (t : RS) (c : CapV), (dropRef t c).1.panicked = t.panicked := by
        intro t c; have := dropRef_core t c; simp only [core, Prod.mk.injEq] at this; exact this.2.2.2.1
      split <;> simp only [hp, hp1] <;> exact h.2

theorem pcongr {P : RS → Prop} (hc : ∀ s s', core s' = core s → P s → P s') {s s' : RS} (hi : P s) (h : core s' = core s) : P s' :=
  hc s s' h hi

/-- what an invariant needs in order to be carried through every function of the model: it only looks at the
    export-side core of the state, and the two functions that change that core preserve it -/
structure Pres (P : RS → Prop) : Prop where
  congr : ∀ s s', core s' = core s → P s → P s'
  send : ∀ s c, P s → P (sendCap s c).1
  rel : ∀ s id n r, P s → releaseExport s id n = some r → P r.1
  shut : ∀ s b, P s → P (shutdown true s b).1

theorem fillCaps_pres (P : RS → Prop) (HP : Pres P) (s : RS) (cs : List CapV) (h : P s) : P (fillCaps s cs).1 := by
  unfold fillCaps
  apply foldl_inv (fun (acc : RS × List String × List (Nat × Nat)) => P acc.1)
  · exact h
  · intro acc c hacc
    exact HP.send acc.1 c hacc

theorem destroy_pres (P : RS → Prop) (HP : Pres P) (s : RS) (id : Nat) (a : Ans) (h : P s) : P (destroy s id a).1 := by
  have h1 : P (dropRefs { s with answers := del s.answers id } a.resultCaps).1 :=
    pcongr HP.congr h (by rw [dropRefs_core]; rfl)
  unfold destroy
  simp only
  split
  · apply foldl_inv (fun (acc : RS × List Out × Bool) => P acc.1)
    · exact h1
    · intro acc e hacc
      split
      · rename_i s' o' hre
        exact HP.rel acc.1 e.1 e.2 (s', o') hacc hre
      · exact hacc
  · exact h1

/-! ## the recursive part -/

theorem recursive_pres (P : RS → Prop) (HP : Pres P) (fuel : Nat) :
    (∀ s q res, P s → P (appReturn true fuel s q res).1) ∧
    (∀ s q k m tag a, P s → P (deliver true fuel s q k m tag a).1) ∧
    (∀ s q m a c, P s → P (callCap true fuel s q m a c).1) := by
  induction fuel with
  | zero =>
    refine ⟨?_, ?_, ?_⟩
    · intro s q res h; unfold appReturn; exact h
    · intro s q k m tag a h; unfold deliver; exact h
    · intro s q m a c h
      cases c <;> unfold callCap <;> first | exact h | (unfold deliver; exact h)
  | succ fuel ih =>
    obtain ⟨ihR, ihD, ihC⟩ := ih
    have hR : ∀ s q res, P s → P (appReturn true (fuel + 1) s q res).1 := by
      intro s q res h
      unfold appReturn
      simp only
      split
      · exact h
      · rename_i a ha
        have h1 : P (dropRefs s (a.paramImps.map CapV.imp)).1 := pcongr HP.congr h (dropRefs_core _ _)
        split
        · exact h
        apply foldl_inv (fun (acc : RS × List Out) => P acc.1)
        · -- the Return itself, then destroy-or-store
          cases res with
          | none =>
            simp only
            split
            · exact destroy_pres P HP _ q _ (pcongr HP.congr h1 rfl)
            · exact pcongr HP.congr h1 rfl
          | some caps =>
            simp only
            have h2 := fillCaps_pres P HP _ caps h1
            split
            · exact destroy_pres P HP _ q _ (pcongr HP.congr h2 rfl)
            · exact pcongr HP.congr h2 rfl
        · intro acc p hacc
          split
          · exact hacc
          · rename_i pa hpa
            exact ihC acc.1 p.q p.m pa _ hacc
    have hD : ∀ s q k m tag a, P s → P (deliver true (fuel + 1) s q k m tag a).1 := by
      intro s q k m tag a h
      unfold deliver
      simp only
      split
      · split
        · exact ihR _ q none (pcongr HP.congr h rfl)
        · exact pcongr HP.congr h rfl
      · exact ihR _ q _ (pcongr HP.congr h rfl)
      · exact ihR _ q _ (pcongr HP.congr h rfl)
      · exact ihR _ q _ (pcongr HP.congr h rfl)
      · exact ihR _ q _ (pcongr HP.congr h (addRef_core _ _))
      · exact ihR _ q _ (pcongr HP.congr h (addRef_core _ _))
      · exact ihR _ q _ (pcongr HP.congr h rfl)
      · exact ihR _ q _ (pcongr HP.congr h rfl)
    refine ⟨hR, hD, ?_⟩
    intro s q m a c h
    cases c with
    | loc k => unfold callCap; exact hD s q k m q a h
    | null => unfold callCap; exact ihR _ q none (pcongr HP.congr h rfl)
    | imp i => unfold callCap; exact ihR _ q none (pcongr HP.congr h rfl)
    | err => unfold callCap; exact ihR _ q none (pcongr HP.congr h rfl)

theorem cancelHeld_pres (P : RS → Prop) (HP : Pres P) (n : Nat) (s : RS) (acc : List Out) (ks : List Nat) (h : P s) :
    P (cancelHeld true n s acc ks).1 := by
  induction n generalizing s acc ks with
  | zero => unfold cancelHeld; exact h
  | succ n ih =>
    cases ks with
    | nil => unfold cancelHeld; exact h
    | cons k ks =>
      unfold cancelHeld
      simp only
      apply ih
      apply foldl_inv (fun (st : RS × List Out) => P st.1)
      · exact h
      · intro st q hst
        exact (recursive_pres P HP (fuelOf0 st.1)).1 st.1 q none hst


/-! ## one event -/

theorem recvParams_core (s : RS) (ds : List Desc) : core (recvParams s ds).1 = core s := by
  unfold recvParams
  apply foldl_inv (fun (acc : RS × List Nat × Bool) => core acc.1 = core s)
  · rfl
  · intro acc d hacc
    obtain ⟨s1, imps, ok⟩ := acc
    simp only at hacc ⊢
    split
    · exact hacc
    · split
      · exact hacc
      · exact hacc
      · split <;> exact hacc
      · exact hacc

theorem abortCall_pres (P : RS → Prop) (HP : Pres P) (s : RS) (q : Nat) (imps : List Nat) (h : P s) : P (abortCall true s q imps).1 := by
  unfold abortCall
  simp only
  apply HP.shut
  exact pcongr HP.congr h (dropRefs_core s _)

theorem step_pres (P : RS → Prop) (HP : Pres P) (s : RS) (e : Ev) (h : P s) : P (step true s e).1 := by
  obtain ⟨hR, hD, hC⟩ := recursive_pres P HP (fuelOf s)
  unfold step
  split
  · exact h
  · cases e with
    | bootstrap q =>
      simp only
      split
      · exact HP.shut s true h
      · split
        · exact pcongr HP.congr h rfl
        · have h1 : P (addRef { s with accepted := bump s.accepted q } (.loc 0)) := pcongr HP.congr h (addRef_core _ _)
          have h2 := fillCaps_pres P HP _ [.loc 0] h1
          exact pcongr HP.congr h2 rfl
    | call q tgt m caps =>
      simp only
      split
      · exact HP.shut s true h
      · have hp : P (recvParams s caps).1 := pcongr HP.congr h (recvParams_core s caps)
        generalize recvParams s caps = rp at hp
        obtain ⟨s1, imps, ok⟩ := rp
        simp only at hp
        cases ok with
        | false =>
          simp only [Bool.not_true, Bool.false_eq_true, ↓reduceIte]
          exact pcongr HP.congr hp (dropRefs_core _ _)
        | true =>
          simp only
          cases tgt with
          | exp id =>
            simp only
            split
            · exact abortCall_pres P HP s1 q imps hp
            · exact hC _ q m _ _ (pcongr HP.congr hp rfl)
          | ans tq path =>
            simp only
            split
            · exact abortCall_pres P HP s1 q imps hp
            · split
              · exact abortCall_pres P HP s1 q imps hp
              · split
                · split
                  · exact hR _ q none (pcongr HP.congr hp rfl)
                  · exact hC _ q m _ _ (pcongr HP.congr hp rfl)
                · exact pcongr HP.congr hp rfl
          | unknown =>
            simp only [Bool.not_true, Bool.false_eq_true, ↓reduceIte]
            exact pcongr HP.congr hp (dropRefs_core _ _)
    | finish q rel =>
      simp only
      split
      · exact HP.shut s true h
      · split
        · exact HP.shut s true h
        · split
          · split
            · exact hR _ q none (pcongr HP.congr h rfl)
            · split
              · exact hR _ q none (pcongr HP.congr h rfl)
              · exact pcongr HP.congr h rfl
          · split
            · exact destroy_pres P HP s q _ h
            · exact HP.shut _ true (cancelHeld_pres P HP _ _ _ _ (destroy_pres P HP s q _ h))
    | release id n =>
      simp only
      split
      · rename_i r hr; exact HP.rel s id n r h hr
      · exact HP.shut s true h
    | appRet q kind =>
      simp only
      split
      · exact h
      · split
        · exact h
        · split
          · exact hR _ q _ h
          · exact hR _ q _ h
          · exact hR _ q _ (pcongr HP.congr h rfl)
          · exact hR _ q _ (pcongr HP.congr h (addRef_core _ _))
          · exact hR _ q _ (pcongr HP.congr h (addRef_core _ _))
          · exact hR _ q _ (pcongr HP.congr h rfl)
    | close => exact HP.shut s true h

theorem stepTop_pres (P : RS → Prop) (HP : Pres P) (s : RS) (e : Ev) (h : P s) : P (stepTop true s e).1 := by
  unfold stepTop
  simp only
  split
  · exact step_pres P HP s e h
  · exact cancelHeld_pres P HP _ _ _ _ (step_pres P HP s e h)



/-! ## the export accounting invariant is carried by every event -/

theorem EInv_pres : Pres EInv :=
  ⟨EInv_congr, sendCap_EInv, fun s id n r h hr => releaseExport_EInv s id n r h hr, shutdown_EInv⟩

theorem step_EInv (s : RS) (e : Ev) (h : EInv s) : EInv (step true s e).1 := step_pres EInv EInv_pres s e h
theorem stepTop_EInv (s : RS) (e : Ev) (h : EInv s) : EInv (stepTop true s e).1 := stepTop_pres EInv EInv_pres s e h

end Capnp.Lemmas.Rpc
