import Capnp.Model.Rpc
/-! Invariants of the Conn table model that concern the export table and the failure flag, and their
    preservation by every function of `Capnp.Model.Rpc` (repaired code, `fixed = true`). -/
namespace Capnp.Lemmas.Rpc
open Capnp.Model.Rpc

/-- the part of the state the export invariant talks about -/
def core (s : RS) : (Nat → Option Exp) × (Nat → Nat) × (Nat → Nat) × Bool :=
  (s.exports, s.sent, s.released, s.panicked)

/-- **export reference accounting**: for every entry of the export table, the references the peer holds are
    the descriptors sent naming it minus the references given back (since the entry was created), and an entry
    exists only while that number is positive; nothing has panicked -/
def EInv (s : RS) : Prop :=
  (∀ id e, s.exports id = some e → e.wireRefs + s.released id = s.sent id ∧ 0 < e.wireRefs) ∧
  s.panicked = false

theorem EInv_congr (s s' : RS) (h : core s' = core s) (hi : EInv s) : EInv s' := by
  unfold core at h
  simp only [Prod.mk.injEq] at h
  obtain ⟨h1, h3, h4, h5⟩ := h
  unfold EInv at *
  rw [h1, h3, h4, h5]; exact hi

theorem foldl_inv {α β} (P : β → Prop) (f : β → α → β) (l : List α) (b : β) (hb : P b)
    (hf : ∀ b a, P b → P (f b a)) : P (l.foldl f b) := by
  induction l generalizing b with
  | nil => exact hb
  | cons a l ih => exact ih _ (hf b a hb)

/-! ## frame lemmas: functions that do not touch the export table -/

theorem addRef_core (s : RS) (c : CapV) : core (addRef s c) = core s := by
  cases c <;> simp only [addRef] <;> try rfl
  split <;> rfl

theorem dropRef_core (s : RS) (c : CapV) : core (dropRef s c).1 = core s := by
  cases c <;> simp only [dropRef] <;> try rfl
  · split
    · rfl
    · split <;> rfl
  · split
    · split
      · rfl
      · split <;> rfl
    · rfl

theorem dropRefs_core (s : RS) (cs : List CapV) : core (dropRefs s cs).1 = core s := by
  unfold dropRefs
  suffices h : ∀ (acc : RS × List Out), core (cs.foldl (fun (acc : RS × List Out) c =>
      let (s', o) := dropRef acc.1 c; (s', acc.2 ++ o)) acc).1 = core acc.1 from h (s, [])
  induction cs with
  | nil => intro acc; rfl
  | cons c cs ih =>
    intro acc
    simp only [List.foldl_cons]
    rw [ih]
    exact dropRef_core acc.1 c

/-! ## the two functions that do -/

theorem sendCap_EInv (s : RS) (c : CapV) (h : EInv s) : EInv (sendCap s c).1 := by
  have key : ∀ c', (c' = CapV.err ∨ ∃ k, c' = CapV.loc k) → EInv (sendCap s c').1 := by
    intro c' hc'
    have hsc : sendCap s c' =
        (match (exportIds s).find? (fun id => match s.exports id with | some e => e.cap = c' ∧ c' ≠ .err | none => false) with
        | some id =>
          match s.exports id with
          | some e =>
            ({ s with exports := setExp s.exports id (some { e with wireRefs := e.wireRefs + 1 }), sent := bump s.sent id }, "s" ++ toString id, some id)
          | none => (s, "n", none)
        | none =>
          let (id, g) := s.exportID.next
          let s := addRef { s with exportID := g } c'
          ({ s with exports := setExp s.exports id (some { cap := c', wireRefs := 1 }), sent := bump (reset s.sent id) id, released := reset s.released id },
            "s" ++ toString id, some id)) := by
      rcases hc' with rfl | ⟨k, rfl⟩ <;> rfl
    rw [hsc]
    split
    · rename_i id hf
      split
      · rename_i e he
        refine ⟨?_, h.2⟩
        intro x ex hx
        simp only [setExp] at hx
        by_cases hxi : x = id
        · subst hxi
          simp only [↓reduceIte, Option.some.injEq] at hx
          subst hx
          have := h.1 x e he
          simp only [bump, ↓reduceIte]
          omega
        · simp only [hxi, ↓reduceIte] at hx
          have := h.1 x ex hx
          simp only [bump, hxi, ↓reduceIte]
          exact this
      · exact h
    · have hc := addRef_core { s with exportID := (s.exportID.next).2 } c'
      simp only [core, Prod.mk.injEq] at hc
      refine ⟨?_, ?_⟩
      · intro x ex hx
        simp only [setExp] at hx
        by_cases hxi : x = (s.exportID.next).1
        · subst hxi
          simp only [↓reduceIte, Option.some.injEq] at hx
          subst hx
          simp [bump, reset]
        · simp only [hxi, ↓reduceIte] at hx
          rw [hc.1] at hx
          have := h.1 x ex hx
          simp only [bump, reset, hxi, ↓reduceIte]
          rw [hc.2.1, hc.2.2.1]; exact this
      · simp only; rw [hc.2.2.2]; exact h.2
  cases c with
  | null => exact h
  | imp i => exact h
  | err => exact key _ (Or.inl rfl)
  | loc k => exact key _ (Or.inr ⟨k, rfl⟩)

theorem releaseExport_EInv (s : RS) (id n : Nat) (r : RS × List Out) (h : EInv s)
    (hr : releaseExport s id n = some r) : EInv r.1 := by
  unfold releaseExport at hr
  split at hr
  · cases hr
  · rename_i e he
    split at hr
    · rename_i hn
      simp only [Option.some.injEq] at hr
      subst hr
      apply EInv_congr _ _ (dropRef_core _ _)
      refine ⟨?_, h.2⟩
      intro x ex hx
      simp only [setExp] at hx
      by_cases hxi : x = id
      · simp [hxi] at hx
      · simp only [hxi, ↓reduceIte] at hx
        have := h.1 x ex hx
        simp only [bump, hxi, ↓reduceIte]; exact this
    · split at hr
      · cases hr
      · rename_i hn1 hn2
        simp only [Option.some.injEq] at hr
        subst hr
        refine ⟨?_, h.2⟩
        intro x ex hx
        simp only [setExp] at hx
        by_cases hxi : x = id
        · subst hxi
          simp only [↓reduceIte, Option.some.injEq] at hx
          subst hx
          have := h.1 x e he
          simp only [bump, ↓reduceIte]
          omega
        · simp only [hxi, ↓reduceIte] at hx
          have := h.1 x ex hx
          simp only [bump, hxi, ↓reduceIte]; exact this

/-- what `releaseExport` does to the count, stated on its own: exactly `n` references are given back, the
    entry disappears exactly when that was all of them, and giving back more than are held is refused -/
theorem releaseExport_spec (s : RS) (id n : Nat) (e : Exp) (he : s.exports id = some e) :
    (n > e.wireRefs → releaseExport s id n = none) ∧
    (n = e.wireRefs → ∃ r, releaseExport s id n = some r ∧ r.1.exports id = none) ∧
    (n < e.wireRefs → ∃ r, releaseExport s id n = some r ∧ r.1.exports id = some { e with wireRefs := e.wireRefs - n }) := by
  refine ⟨?_, ?_, ?_⟩
  · intro h
    unfold releaseExport; rw [he]
    simp only
    rw [if_neg (by omega), if_pos h]
  · intro h
    unfold releaseExport; rw [he]
    simp only
    rw [if_pos h]
    refine ⟨_, rfl, ?_⟩
    have := dropRef_core { s with exports := setExp s.exports id none, exportID := s.exportID.remove id, released := bump s.released id n } e.cap
    simp only [core, Prod.mk.injEq] at this
    rw [this.1]; simp [setExp]
  · intro h
    unfold releaseExport; rw [he]
    simp only
    rw [if_neg (by omega), if_neg (by omega)]
    exact ⟨_, rfl, by simp [setExp]⟩

theorem fillCaps_EInv (s : RS) (cs : List CapV) (h : EInv s) : EInv (fillCaps s cs).1 := by
  unfold fillCaps
  apply foldl_inv (fun (acc : RS × List String × List (Nat × Nat)) => EInv acc.1)
  · exact h
  · intro acc c hacc
    exact sendCap_EInv acc.1 c hacc

theorem destroy_EInv (s : RS) (id : Nat) (a : Ans) (h : EInv s) : EInv (destroy s id a).1 := by
  have h1 : EInv (dropRefs { s with answers := del s.answers id } a.resultCaps).1 :=
    EInv_congr _ _ (by rw [dropRefs_core]; rfl) h
  unfold destroy
  simp only
  split
  · apply foldl_inv (fun (acc : RS × List Out × Bool) => EInv acc.1)
    · exact h1
    · intro acc e hacc
      split
      · rename_i s' o' hre
        exact releaseExport_EInv acc.1 e.1 e.2 (s', o') hacc hre
      · exact hacc
  · exact h1

theorem shutdown_EInv (s : RS) (b : Bool) (h : EInv s) : EInv (shutdown true s b).1 := by
  unfold shutdown
  split
  · exact h
  · refine ⟨?_, ?_⟩
    · intro id e he; simp at he
    · simp only [Bool.not_true, Bool.false_and, Bool.or_false]
      -- `panicked` is untouched by the releases
      have hp : ∀ (t : RS) (cs : List CapV), (dropRefs t cs).1.panicked = t.panicked := by
        intro t cs; have := dropRefs_core t cs; simp only [core, Prod.mk.injEq] at this; exact this.2.2.2
      have hp1 : ∀ (t : RS) (c : CapV), (dropRef t c).1.panicked = t.panicked := by
        intro t c; have := dropRef_core t c; simp only [core, Prod.mk.injEq] at this; exact this.2.2.2
      split <;> simp only [hp, hp1] <;> exact h.2

/-! ## the recursive part -/

theorem recursive_EInv (fuel : Nat) :
    (∀ s q res, EInv s → EInv (appReturn true fuel s q res).1) ∧
    (∀ s q k m tag a, EInv s → EInv (deliver true fuel s q k m tag a).1) ∧
    (∀ s q m a c, EInv s → EInv (callCap true fuel s q m a c).1) := by
  induction fuel with
  | zero =>
    refine ⟨?_, ?_, ?_⟩
    · intro s q res h; unfold appReturn; exact h
    · intro s q k m tag a h; unfold deliver; exact h
    · intro s q m a c h
      cases c <;> unfold callCap <;> first | exact h | (unfold deliver; exact h)
  | succ fuel ih =>
    obtain ⟨ihR, ihD, ihC⟩ := ih
    have hR : ∀ s q res, EInv s → EInv (appReturn true (fuel + 1) s q res).1 := by
      intro s q res h
      unfold appReturn
      simp only
      split
      · exact h
      · rename_i a ha
        have h1 : EInv (dropRefs s (a.paramImps.map CapV.imp)).1 := EInv_congr _ _ (dropRefs_core _ _) h
        split
        · exact h
        apply foldl_inv (fun (acc : RS × List Out) => EInv acc.1)
        · -- the Return itself, then destroy-or-store
          cases res with
          | none =>
            simp only
            split
            · exact destroy_EInv _ q _ (EInv_congr _ _ rfl h1)
            · exact EInv_congr _ _ rfl h1
          | some caps =>
            simp only
            have h2 := fillCaps_EInv _ caps h1
            split
            · exact destroy_EInv _ q _ (EInv_congr _ _ rfl h2)
            · exact EInv_congr _ _ rfl h2
        · intro acc p hacc
          split
          · exact hacc
          · rename_i pa hpa
            exact ihC acc.1 p.q p.m pa _ hacc
    have hD : ∀ s q k m tag a, EInv s → EInv (deliver true (fuel + 1) s q k m tag a).1 := by
      intro s q k m tag a h
      unfold deliver
      simp only
      split
      · split
        · exact ihR _ q none (EInv_congr _ _ rfl h)
        · exact EInv_congr _ _ rfl h
      · exact ihR _ q _ (EInv_congr _ _ rfl h)
      · exact ihR _ q _ (EInv_congr _ _ rfl h)
      · exact ihR _ q _ (EInv_congr _ _ rfl h)
      · exact ihR _ q _ (EInv_congr _ _ (addRef_core _ _) h)
      · exact ihR _ q _ (EInv_congr _ _ (addRef_core _ _) h)
      · exact ihR _ q _ (EInv_congr _ _ rfl h)
      · exact ihR _ q _ (EInv_congr _ _ rfl h)
    refine ⟨hR, hD, ?_⟩
    intro s q m a c h
    cases c with
    | loc k => unfold callCap; exact hD s q k m q a h
    | null => unfold callCap; exact ihR _ q none (EInv_congr _ _ rfl h)
    | imp i => unfold callCap; exact ihR _ q none (EInv_congr _ _ rfl h)
    | err => unfold callCap; exact ihR _ q none (EInv_congr _ _ rfl h)

/-! ## one event -/

theorem recvParams_core (s : RS) (ds : List Desc) : core (recvParams s ds).1 = core s := by
  unfold recvParams
  apply foldl_inv (fun (acc : RS × List Nat × Bool) => core acc.1 = core s)
  · rfl
  · intro acc d hacc
    obtain ⟨s1, imps, ok⟩ := acc
    simp only at hacc ⊢
    split
    · exact hacc
    · split
      · exact hacc
      · exact hacc
      · split <;> exact hacc
      · exact hacc

theorem abortCall_EInv (s : RS) (q : Nat) (imps : List Nat) (h : EInv s) : EInv (abortCall true s q imps).1 := by
  unfold abortCall
  simp only
  apply shutdown_EInv
  exact EInv_congr _ _ (dropRefs_core s _) h

theorem step_EInv (s : RS) (e : Ev) (h : EInv s) : EInv (step true s e).1 := by
  obtain ⟨hR, hD, hC⟩ := recursive_EInv (fuelOf s)
  unfold step
  split
  · exact h
  · cases e with
    | bootstrap q =>
      simp only
      split
      · exact shutdown_EInv s true h
      · split
        · exact EInv_congr _ _ rfl h
        · have h1 : EInv (addRef { s with accepted := bump s.accepted q } (.loc 0)) := EInv_congr _ _ (addRef_core _ _) h
          have h2 := fillCaps_EInv _ [.loc 0] h1
          exact EInv_congr _ _ rfl h2
    | call q tgt m caps =>
      simp only
      split
      · exact shutdown_EInv s true h
      · have hp : EInv (recvParams s caps).1 := EInv_congr _ _ (recvParams_core s caps) h
        generalize recvParams s caps = rp at hp
        obtain ⟨s1, imps, ok⟩ := rp
        simp only at hp
        cases ok with
        | false =>
          simp only [Bool.not_true, Bool.false_eq_true, ↓reduceIte]
          exact EInv_congr _ _ (dropRefs_core _ _) hp
        | true =>
          simp only
          cases tgt with
          | exp id =>
            simp only
            split
            · exact abortCall_EInv s1 q imps hp
            · exact hC _ q m _ _ (EInv_congr _ _ rfl hp)
          | ans tq path =>
            simp only
            split
            · exact abortCall_EInv s1 q imps hp
            · split
              · exact abortCall_EInv s1 q imps hp
              · split
                · split
                  · exact hR _ q none (EInv_congr _ _ rfl hp)
                  · exact hC _ q m _ _ (EInv_congr _ _ rfl hp)
                · exact EInv_congr _ _ rfl hp
          | unknown =>
            simp only [Bool.not_true, Bool.false_eq_true, ↓reduceIte]
            exact EInv_congr _ _ (dropRefs_core _ _) hp
    | finish q rel =>
      simp only
      split
      · exact shutdown_EInv s true h
      · split
        · exact shutdown_EInv s true h
        · split
          · split
            · exact hR _ q none (EInv_congr _ _ rfl h)
            · split
              · exact hR _ q none (EInv_congr _ _ rfl h)
              · exact EInv_congr _ _ rfl h
          · split
            · exact destroy_EInv s q _ h
            · exact shutdown_EInv _ true (destroy_EInv s q _ h)
    | release id n =>
      simp only
      split
      · rename_i r hr; exact releaseExport_EInv s id n r h hr
      · exact shutdown_EInv s true h
    | appRet q kind =>
      simp only
      split
      · exact h
      · split
        · exact h
        · split
          · exact hR _ q _ h
          · exact hR _ q _ h
          · exact hR _ q _ (EInv_congr _ _ rfl h)
          · exact hR _ q _ (EInv_congr _ _ (addRef_core _ _) h)
          · exact hR _ q _ (EInv_congr _ _ (addRef_core _ _) h)
          · exact hR _ q _ (EInv_congr _ _ rfl h)
    | close => exact shutdown_EInv s true h

theorem cancelHeld_EInv (n : Nat) (s : RS) (acc : List Out) (ks : List Nat) (h : EInv s) :
    EInv (cancelHeld true n s acc ks).1 := by
  induction n generalizing s acc ks with
  | zero => unfold cancelHeld; exact h
  | succ n ih =>
    cases ks with
    | nil => unfold cancelHeld; exact h
    | cons k ks =>
      unfold cancelHeld
      simp only
      apply ih
      apply foldl_inv (fun (st : RS × List Out) => EInv st.1)
      · exact h
      · intro st q hst
        exact (recursive_EInv (fuelOf st.1)).1 st.1 q none hst

theorem stepTop_EInv (s : RS) (e : Ev) (h : EInv s) : EInv (stepTop true s e).1 := by
  unfold stepTop
  simp only
  split
  · exact step_EInv s e h
  · exact cancelHeld_EInv _ _ _ _ (step_EInv s e h)

end Capnp.Lemmas.Rpc
