import Capnp.Spec.Encoding
/-!
# Spec: schema-less value trees and the documented structural equality

`Val` is what a pointer denotes; `decodeVal` builds it with the spec decoder of `Spec.Encoding`;
`eq` transcribes the doc comment of `capnp.Equal`.
-/
namespace Capnp.Spec.Value
open Capnp.Spec.Encoding

inductive Val
  | null
  | cap (idx : Nat)
  | struct (data : List Nat) (ptrs : List Val)                  -- data bytes, pointer fields
  | list (ek : Nat) (n : Nat) (prim : List Nat) (elems : List Val)
      -- ek 0 void; 1 bit (`prim` = the n bits as 0/1); 2..5 primitive (`prim` = n·size bytes);
      -- 6 pointers (`elems`); 7 struct list (`elems` are `struct`s)
deriving Repr, Inhabited

def bytes (m : Segs) (seg b n : Nat) : List Nat := (List.range n).map (fun k => byteAt m seg (b + k))

/-- the value denoted by the pointer at word `w` of segment `seg`; `none` = not a valid encoding
    (or deeper than `fuel`) -/
def decodeVal : Nat → Segs → Nat → Nat → Option Val
  | 0, _, _, _ => none
  | fuel + 1, m, seg, w =>
    match decode1 m seg w with
    | none => none
    | some .null => some .null
    | some (.cap i) => some (.cap i)
    | some (.struct sg s dw pc) =>
      ((List.range pc).mapM (fun i => decodeVal fuel m sg (s + dw + i))).map
        (fun ps => .struct (bytes m sg (8 * s) (8 * dw)) ps)
    | some (.list sg s ek n dw pc) =>
      if ek = 7 then
        ((List.range n).mapM (fun i =>
          let e := s + i * (dw + pc)
          ((List.range pc).mapM (fun j => decodeVal fuel m sg (e + dw + j))).map
            (fun ps => Val.struct (bytes m sg (8 * e) (8 * dw)) ps))).map (fun es => .list 7 n [] es)
      else if ek = 6 then
        ((List.range n).mapM (fun i => decodeVal fuel m sg (s + i))).map (fun es => .list 6 n [] es)
      else if ek = 1 then
        some (.list 1 n ((List.range n).map (fun i => (byteAt m sg (8 * s + i / 8)) / 2 ^ (i % 8) % 2)) [])
      else some (.list ek n (bytes m sg (8 * s) (n * elemBytes ek)) [])

def decodeRoot (m : Segs) : Option Val := decodeVal 64 m 0 0

/-! ## the documented equality -/

/-- data sections are equal when they agree on the common prefix and the longer one's tail is zero -/
def dataEq : List Nat → List Nat → Bool
  | [], ys => ys.all (· == 0)
  | xs, [] => xs.all (· == 0)
  | x :: xs, y :: ys => x == y && dataEq xs ys

/-- element `i` of a non-composite, non-bit list viewed as a struct holding that value as sole field -/
def elemAsStruct (ek : Nat) (prim : List Nat) (elems : List Val) (i : Nat) : Val :=
  if ek = 6 then .struct [] [elems.getD i .null]
  else if ek = 7 then elems.getD i .null
  else .struct ((prim.drop (i * elemBytes ek)).take (elemBytes ek)) []

mutual
/-- `Equal` as documented: structs field by field, missing trailing fields = zero / null; lists by
    length and element-wise with primitive ↔ struct-list upgrade; capabilities by identity (table index
    within one message); null only to null; everything else unequal. -/
def eq : Nat → Val → Val → Bool
  | 0, _, _ => false
  | _ + 1, .null, .null => true
  | _ + 1, .cap i, .cap j => i == j
  | f + 1, .struct d1 p1, .struct d2 p2 => dataEq d1 d2 && eqPtrs f p1 p2
  | f + 1, .list k1 n1 pr1 e1, .list k2 n2 pr2 e2 =>
    if n1 ≠ n2 then false
    else if k1 = 1 ∨ k2 = 1 then k1 = 1 && k2 = 1 && pr1 == pr2          -- bit lists: only to bit lists, bit by bit
    else if k1 ≠ 7 ∧ k2 ≠ 7 then
      k1 == k2 && (if k1 = 6 then eqAll f e1 e2 else pr1 == pr2)          -- same primitive kind
    else eqElems f n1 (fun i => elemAsStruct k1 pr1 e1 i) (fun i => elemAsStruct k2 pr2 e2 i)
  | _ + 1, _, _ => false

/-- pointer sections: common prefix equal, the longer one's tail all null -/
def eqPtrs : Nat → List Val → List Val → Bool
  | _, [], ys => ys.all (fun v => match v with | .null => true | _ => false)
  | _, xs, [] => xs.all (fun v => match v with | .null => true | _ => false)
  | f, x :: xs, y :: ys => eq f x y && eqPtrs f xs ys

def eqAll : Nat → List Val → List Val → Bool
  | _, [], [] => true
  | f, x :: xs, y :: ys => eq f x y && eqAll f xs ys
  | _, _, _ => false

def eqElems : Nat → Nat → (Nat → Val) → (Nat → Val) → Bool
  | _, 0, _, _ => true
  | f, n + 1, a, b => eqElems f n a b && eq f (a n) (b n)
end

mutual
/-- rename capability indices (the second message's capability table may hold the same clients in
    another order: identity is by client, not by index) -/
def mapCap (g : Nat → Nat) : Val → Val
  | .null => .null
  | .cap i => .cap (g i)
  | .struct d ps => .struct d (mapCapAll g ps)
  | .list k n pr es => .list k n pr (mapCapAll g es)
def mapCapAll (g : Nat → Nat) : List Val → List Val
  | [] => []
  | x :: xs => mapCap g x :: mapCapAll g xs
end

end Capnp.Spec.Value
