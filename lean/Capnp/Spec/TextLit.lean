/-!
# Spec: string literals of the Cap'n Proto text format

A literal is `"` body `"` where the body is a sequence of *items*: a printable ASCII byte
(0x20 … 0x7e) other than `"` and `\`, or an escape `\a \b \f \n \r \t \v \' \" \\ \xHH`
(two hex digits).  `unquote` is the reference parser; it rejects anything else.
-/
namespace Capnp.Spec.TextLit

def hexVal (c : Nat) : Option Nat :=
  if 48 ≤ c ∧ c ≤ 57 then some (c - 48)
  else if 97 ≤ c ∧ c ≤ 102 then some (c - 87)
  else if 65 ≤ c ∧ c ≤ 70 then some (c - 55)
  else none

/-- plain bytes allowed inside a literal -/
def plain (c : Nat) : Bool := 32 ≤ c && c ≤ 126 && c != 34 && c != 92

/-- the byte denoted by a one-letter escape -/
def esc (e : Nat) : Option Nat :=
  if e = 97 then some 7 else if e = 98 then some 8 else if e = 102 then some 12 else if e = 110 then some 10
  else if e = 114 then some 13 else if e = 116 then some 9 else if e = 118 then some 11
  else if e = 39 then some 39 else if e = 34 then some 34 else if e = 92 then some 92 else none

/-- one item of the body (anything but the closing quote): the byte it denotes and the remaining input -/
def item (l : List Nat) : Option (Nat × List Nat) :=
  match l with
  | [] => none
  | c :: rest =>
    if c = 92 then
      match rest with
      | [] => none
      | e :: rest' =>
        if e = 120 then
          match rest' with
          | h :: l :: r =>
            match hexVal h, hexVal l with
            | some a, some b => some (16 * a + b, r)
            | _, _ => none
          | _ => none
        else (esc e).map (fun b => (b, rest'))
    else if c = 34 then none
    else if plain c then some (c, rest) else none

/-- parse items up to the closing quote, after which nothing may follow; every item consumes input, so
    `l.length + 1` steps always suffice (`unquoteBody`) -/
def unquoteFuel : Nat → List Nat → Option (List Nat)
  | 0, _ => none
  | f + 1, l =>
    if l = [34] then some []
    else match item l with
      | none => none
      | some (b, rest) => (unquoteFuel f rest).map (fun t => b :: t)

def unquoteBody (l : List Nat) : Option (List Nat) := unquoteFuel (l.length + 1) l

/-- the bytes denoted by a literal, `none` if it is not well formed -/
def unquote : List Nat → Option (List Nat)
  | 34 :: body => unquoteBody body
  | _ => none

end Capnp.Spec.TextLit
