/-!
# Spec: the Cap'n Proto packing grammar as a strict decoder

Written from <https://capnproto.org/encoding.html#packing>, independently of
`internal/packed/packed.go`.  A packed stream is a sequence of *tagged words*:

* a tag byte; bit `i` set means byte `i` of the word is the next input byte, clear means 0;
* tag `0x00` is followed by a count byte `n`: `n` further all-zero words;
* tag `0xff` is followed by a count byte `n`: `n` further words copied verbatim (8·n bytes).

The decoder is *strict*: input that ends inside a tagged word, before a count byte, or
inside a literal run is rejected (`none`), never completed with invented bytes.
-/
namespace Capnp.Spec.Packing

/-- the eight tag bits, least significant first -/
def bitsOfTag (t : UInt8) : List Bool := (List.range 8).map (fun i => t.toNat.testBit i)

/-- decode one word given the tag bits; returns the word and the remaining input -/
def unpackWord : List Bool → List UInt8 → Option (List UInt8 × List UInt8)
  | [], s => some ([], s)
  | false :: bs, s => (unpackWord bs s).map (fun p => (0 :: p.1, p.2))
  | true :: _, [] => none
  | true :: bs, x :: s => (unpackWord bs s).map (fun p => (x :: p.1, p.2))

theorem unpackWord_length (bs : List Bool) (s : List UInt8) (w r : List UInt8)
    (h : unpackWord bs s = some (w, r)) : r.length ≤ s.length ∧ w.length = bs.length := by
  induction bs generalizing s w r with
  | nil => simp [unpackWord] at h; obtain ⟨h1, h2⟩ := h; subst h1; subst h2; simp
  | cons b bs ih =>
    cases b with
    | false =>
      simp only [unpackWord, Option.map_eq_some_iff] at h
      obtain ⟨⟨w', r'⟩, h1, h2⟩ := h
      simp only [Prod.mk.injEq] at h2
      obtain ⟨h2, h3⟩ := h2; subst h2; subst h3
      have := ih s w' r' h1
      simp; omega
    | true =>
      cases s with
      | nil => simp [unpackWord] at h
      | cons x s =>
        simp only [unpackWord, Option.map_eq_some_iff] at h
        obtain ⟨⟨w', r'⟩, h1, h2⟩ := h
        simp only [Prod.mk.injEq] at h2
        obtain ⟨h2, h3⟩ := h2; subst h2; subst h3
        have := ih s w' r' h1
        simp; omega

def zeros (n : Nat) : List UInt8 := List.replicate n 0

/-- The strict decoder, with explicit fuel (every tagged word consumes at least its tag byte,
so `s.length` fuel always suffices; see `unpackStrict`). -/
def unpackFuel : Nat → List UInt8 → Option (List UInt8)
  | _, [] => some []
  | 0, _ :: _ => none
  | fuel + 1, tag :: s =>
    match unpackWord (bitsOfTag tag) s with
    | none => none
    | some (w, s') =>
      if tag = 0 then
        match s' with
        | [] => none
        | n :: s'' => (unpackFuel fuel s'').map (fun r => w ++ zeros (8 * n.toNat) ++ r)
      else if tag = 255 then
        match s' with
        | [] => none
        | n :: s'' =>
          if s''.length < 8 * n.toNat then none
          else (unpackFuel fuel (s''.drop (8 * n.toNat))).map (fun r => w ++ s''.take (8 * n.toNat) ++ r)
      else (unpackFuel fuel s').map (fun r => w ++ r)

/-- The strict decoder of the packing spec. -/
def unpackStrict (s : List UInt8) : Option (List UInt8) := unpackFuel s.length s

end Capnp.Spec.Packing
