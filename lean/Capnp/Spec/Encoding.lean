/-!
# Spec: the Cap'n Proto encoding as a decoder over word indices

Written from <https://capnproto.org/encoding.html> (pointers, lists, inter-segment pointers,
capabilities), independently of the library and of `Capnp.Gen`: unbounded `Nat`/`Int`, word
indices, bit fields by `/` and `%`.  `decodeTree` is the reference meaning of a message's bytes.
-/
namespace Capnp.Spec.Encoding

abbrev Segs := Array ByteArray

def segBytes (m : Segs) (seg : Nat) : Nat := (m.getD seg ByteArray.empty).size

def byteAt (m : Segs) (seg i : Nat) : Nat := ((m.getD seg ByteArray.empty).get! i).toNat

/-- the 64-bit little-endian word at word index `w` of segment `seg`, if it lies inside the segment -/
def getWord (m : Segs) (seg w : Nat) : Option Nat :=
  if seg < m.size ∧ 8 * w + 8 ≤ segBytes m seg then
    some ((List.range 8).foldr (fun k acc => byteAt m seg (8 * w + k) + 256 * acc) 0)
  else none

/-- pointer fields -/
def kindA (p : Nat) : Nat := p % 4                      -- 0 struct, 1 list, 2 far, 3 other
def fieldB (p : Nat) : Nat := (p / 4) % 2 ^ 30          -- offset (signed), or element count in a tag
def offsetB (p : Nat) : Int := if fieldB p ≥ 2 ^ 29 then (fieldB p : Int) - 2 ^ 30 else fieldB p
def structDW (p : Nat) : Nat := (p / 2 ^ 32) % 2 ^ 16
def structPC (p : Nat) : Nat := (p / 2 ^ 48) % 2 ^ 16
def listEK (p : Nat) : Nat := (p / 2 ^ 32) % 8
def listN (p : Nat) : Nat := (p / 2 ^ 35) % 2 ^ 29
def farDouble (p : Nat) : Bool := (p / 4) % 2 = 1
def farOff (p : Nat) : Nat := (p / 8) % 2 ^ 29
def farSeg (p : Nat) : Nat := (p / 2 ^ 32) % 2 ^ 32
def capIndex (p : Nat) : Nat := (p / 2 ^ 32) % 2 ^ 32

/-- one decoded pointer -/
inductive Node
  | null
  | cap (idx : Nat)
  | struct (seg : Nat) (start : Nat) (dw pc : Nat)                       -- word index of the data section
  | list (seg : Nat) (start : Nat) (ek n : Nat) (dw pc : Nat)            -- byte content starts at word `start`
                                                                          -- (past the tag for ek = 7)
deriving Repr, BEq, DecidableEq, Inhabited

def elemBytes : Nat → Nat
  | 2 => 1 | 3 => 2 | 4 => 4 | 5 => 8 | 6 => 8 | _ => 0

/-- decode the struct/list pointer word `p` whose target starts at word `start` of segment `seg` -/
def decodeObj (m : Segs) (seg : Nat) (start : Int) (p : Nat) : Option Node :=
  if start < 0 ∨ ¬ seg < m.size then none else
  let s := start.toNat
  if kindA p = 0 then
    if 8 * (s + structDW p + structPC p) ≤ segBytes m seg then some (.struct seg s (structDW p) (structPC p)) else none
  else if kindA p = 1 then
    let ek := listEK p
    let n := listN p
    if ek = 7 then
      -- n = words of content; tag word first
      if 8 * (s + 1 + n) ≤ segBytes m seg then
        match getWord m seg s with
        | none => none
        | some tag =>
          if kindA tag ≠ 0 then none else
          let cnt := fieldB tag
          if cnt ≥ 2 ^ 29 then none else
          if 8 * (s + 1 + cnt * (structDW tag + structPC tag)) ≤ segBytes m seg then
            some (.list seg (s + 1) 7 cnt (structDW tag) (structPC tag))
          else none
      else none
    else if ek = 1 then
      if 8 * s + (n + 7) / 8 ≤ segBytes m seg then some (.list seg s 1 n 0 0) else none
    else
      if 8 * s + n * elemBytes ek ≤ segBytes m seg then some (.list seg s ek n 0 0) else none
  else none

/-- decode the pointer stored at word `w` of segment `seg` (following far pointers) -/
def decode1 (m : Segs) (seg w : Nat) : Option Node :=
  match getWord m seg w with
  | none => none
  | some p =>
    if p = 0 then some .null else
    if kindA p = 3 then (if fieldB p = 0 then some (.cap (capIndex p)) else none) else
    if kindA p = 2 then
      let pseg := farSeg p
      let pw := farOff p
      if farDouble p then
        match getWord m pseg pw, getWord m pseg (pw + 1) with
        | some far, some tag =>
          if kindA far ≠ 2 ∨ farDouble far then none else
          if (kindA tag ≠ 0 ∧ kindA tag ≠ 1) ∨ fieldB tag ≠ 0 then none else
          if ¬ farSeg far < m.size then none else
          -- corner the encoding document leaves open: an all-zero tag is a zero-sized struct at the far target;
          -- when the far target is word 0 as well, nothing distinguishes it from null (readers treat it as null)
          if tag = 0 ∧ farOff far = 0 then some .null else
          decodeObj m (farSeg far) (farOff far) tag
        | _, _ => none
      else
        match getWord m pseg pw with
        | none => none
        | some q =>
          if q = 0 then some .null else
          if kindA q = 3 then (if fieldB q = 0 then some (.cap (capIndex q)) else none) else
          if kindA q = 2 then none else
          decodeObj m pseg ((pw : Int) + 1 + offsetB q) q
    else decodeObj m seg ((w : Int) + 1 + offsetB p) p

/-- schema-less value trees (what the accessors expose) rendered canonically -/
def hex2 (n : Nat) : String :=
  let d := fun (k : Nat) => if k < 10 then Char.ofNat (48 + k) else Char.ofNat (87 + k)
  String.ofList [d (n / 16 % 16), d (n % 16)]

def bytesHex (m : Segs) (seg : Nat) (b n : Nat) : String :=
  String.join ((List.range n).map (fun k => hex2 (byteAt m seg (b + k))))

/-- rendering shows at most `cap` elements / fields of any one object (both sides of the comparison do) -/
def cap : Nat := 64

/-- render the children `f 0 … f (n-1)` left to right, threading the node budget -/
def renderSeq (n : Nat) (f : Nat → Nat → String × Nat) (b : Nat) : String × Nat :=
  (List.range n).foldl (fun (acc : String × Nat) i => let r := f i acc.2; (acc.1 ++ r.1, r.2)) ("", b)

/-- the value tree denoted by the pointer at `(seg, w)`, as a canonical string; `fuel` bounds depth, and at most
    `b` pointers are rendered (depth first, left to right): the rest print as `~` (hostile messages can describe
    trees of astronomical size in a few words) -/
def renderPtrB : Nat → Segs → Nat → Nat → Nat → String × Nat
  | _, _, _, _, 0 => ("~", 0)
  | 0, m, seg, w, b + 1 => ((match decode1 m seg w with | some .null => "N" | _ => "E"), b)   -- depth budget exhausted
  | fuel + 1, m, seg, w, b + 1 =>
    match decode1 m seg w with
    | none => ("E", b)
    | some .null => ("N", b)
    | some (.cap i) => ("C" ++ toString i, b)
    | some (.struct sg s dw pc) =>
      let r := renderSeq (min pc cap) (fun i b => renderPtrB fuel m sg (s + dw + i) b) b
      ("S{" ++ bytesHex m sg (8 * s) (8 * min dw cap) ++ "|" ++ r.1 ++ "}", r.2)
    | some (.list sg s ek n dw pc) =>
      let body : String × Nat :=
        if ek = 7 then
          renderSeq (min n cap) (fun i b =>
            let e := s + i * (dw + pc)
            -- a struct-list element spends one more level of the reader's depth budget
            let r := renderSeq (min pc cap) (fun j b => renderPtrB (fuel - 1) m sg (e + dw + j) b) b
            ("S{" ++ bytesHex m sg (8 * e) (8 * min dw cap) ++ "|" ++ r.1 ++ "}", r.2)) b
        else if ek = 6 then renderSeq (min n cap) (fun i b => renderPtrB fuel m sg (s + i) b) b
        else if ek = 1 then (String.join ((List.range (min n cap)).map (fun i =>
            if (byteAt m sg (8 * s + i / 8)) / 2 ^ (i % 8) % 2 = 1 then "1" else "0")), b)
        else (bytesHex m sg (8 * s) (min n cap * elemBytes ek), b)
      -- list upgrade rules, on the first element: a struct list read as a list of pointers / of 64-bit
      -- values shows each element's first pointer / first data word (0 if it has none); a primitive list
      -- read as a struct list shows structs whose sole field is the element
      let up : String × Nat :=
        if n = 0 then ("", body.2) else
        if ek = 7 then
          -- (an element without pointers has no first pointer: an error, which costs one unit of the budget like any other pointer shown)
          let r := if pc = 0 then (if body.2 = 0 then ("~", 0) else ("E", body.2 - 1)) else renderPtrB fuel m sg (s + dw) body.2
          ("^" ++ r.1 ++ "," ++ (if dw = 0 then "0" else bytesHex m sg (8 * s) 8), r.2)
        else if 2 ≤ ek ∧ ek ≤ 5 then
          ("^S{" ++ bytesHex m sg (8 * s) (elemBytes ek) ++ "|}" ++ (if ek = 5 then bytesHex m sg (8 * s) 8 else "0"), body.2)
        else ("", body.2)
      ("L" ++ toString ek ++ "," ++ toString n ++ "[" ++ body.1 ++ "]" ++ up.1, up.2)

def renderPtr (fuel : Nat) (m : Segs) (seg w : Nat) : String := (renderPtrB fuel m seg w 3000).1

/-- the byte regions `(segment, lo, hi)` of all objects reachable from the pointer at `(seg, w)`:
    struct bodies, list bodies with their tag word, far-pointer landing pads; `none` if a pointer does not decode -/
def regions : Nat → Segs → Nat → Nat → Option (List (Nat × Nat × Nat))
  | 0, _, _, _ => none
  | fuel + 1, m, seg, w =>
    match getWord m seg w with
    | none => none
    | some p =>
      let pads : List (Nat × Nat × Nat) :=
        if p ≠ 0 ∧ kindA p = 2 then [(farSeg p, 8 * farOff p, 8 * farOff p + (if farDouble p then 16 else 8))] else []
      match decode1 m seg w with
      | none => none
      | some .null => some pads
      | some (.cap _) => some pads
      | some (.struct sg s dw pc) =>
        ((List.range pc).mapM (fun i => regions fuel m sg (s + dw + i))).map
          (fun rs => pads ++ (if dw + pc = 0 then [] else [(sg, 8 * s, 8 * (s + dw + pc))]) ++ rs.flatten)
      | some (.list sg s ek n dw pc) =>
        if ek = 7 then
          ((List.range n).mapM (fun i => (List.range pc).mapM (fun j => regions fuel m sg (s + i * (dw + pc) + dw + j)))).map
            (fun rs => pads ++ [(sg, 8 * (s - 1), 8 * (s + n * (dw + pc)))] ++ (rs.map List.flatten).flatten)
        else if ek = 6 then
          ((List.range n).mapM (fun i => regions fuel m sg (s + i))).map
            (fun rs => pads ++ (if n = 0 then [] else [(sg, 8 * s, 8 * (s + n))]) ++ rs.flatten)
        else
          let bytes := if ek = 1 then (n + 7) / 8 else n * elemBytes ek
          some (pads ++ (if bytes = 0 then [] else [(sg, 8 * s, 8 * s + (bytes + 7) / 8 * 8)]))

def disjoint (rs : List (Nat × Nat × Nat)) : Bool :=
  let rec go : List (Nat × Nat × Nat) → Bool
    | [] => true
    | r :: rest => rest.all (fun q => r.1 ≠ q.1 || r.2.2 ≤ q.2.1 || q.2.2 ≤ r.2.1) && go rest
  go rs

/-- a message is valid when every pointer reachable from the root resolves inside its target segment, every
    segment is a whole number of words, the root pointer is not part of any object, and distinct objects
    (and landing pads) occupy disjoint storage -/
def validMessage (m : Segs) : Bool :=
  (List.range m.size).all (fun i => segBytes m i % 8 = 0) &&
  match regions 64 m 0 0 with
  | none => false
  | some rs => disjoint ((0, 0, 8) :: rs) && rs.all (fun r => r.2.2 ≤ segBytes m r.1)

def decodeTree (m : Segs) : String := renderPtr 64 m 0 0

end Capnp.Spec.Encoding
