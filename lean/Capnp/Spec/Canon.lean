import Capnp.Spec.Value
/-!
# Spec: canonical form

From the "Canonicalization" section of <https://capnproto.org/encoding.html>: one segment, no
segment table; objects in pre-order (an object's body, then the targets of its pointers in order);
every struct truncated (trailing zero data words and trailing null pointers dropped); a struct list's
element size is the maximum of its elements' truncated sizes; padding is zero; capabilities are not
representable.  `canon` maps a value tree to the canonical bytes.
-/
namespace Capnp.Spec.Canon
open Capnp.Spec.Value

/-- drop trailing zero words (8 bytes) of a data section given as bytes; the result is whole words -/
def truncData (d : List Nat) : List Nat :=
  let words := (List.range ((d.length + 7) / 8)).map (fun w => (d.drop (8 * w)).take 8)
  let words := words.map (fun w => w ++ List.replicate (8 - w.length) 0)
  let kept := (words.reverse.dropWhile (fun w => w.all (· == 0))).reverse
  kept.flatten

def isNullV : Val → Bool
  | .null => true
  | _ => false

/-- drop trailing null pointers -/
def truncPtrs (ps : List Val) : List Val := (ps.reverse.dropWhile isNullV).reverse

def le64 (n : Nat) : List Nat := (List.range 8).map (fun k => n / 256 ^ k % 256)

def padTo (n : Nat) (d : List Nat) : List Nat := d ++ List.replicate (n - d.length) 0

def pad8 (d : List Nat) : List Nat := padTo ((d.length + 7) / 8 * 8) d

/-- 30-bit two's complement of a word offset, shifted into pointer position -/
def offBits (off : Int) : Nat := ((off % 1073741824).toNat) * 4

def setWord (out : List Nat) (w : Nat) (v : Nat) : List Nat :=
  out.take (8 * w) ++ le64 v ++ out.drop (8 * w + 8)

/-- pack n bits (0/1) into bytes, unused bits zero -/
def packBits (bits : List Nat) : List Nat :=
  (List.range ((bits.length + 7) / 8)).map (fun b =>
    (List.range 8).foldl (fun acc k => acc + (bits.getD (8 * b + k) 0 % 2) * 2 ^ k) 0)

mutual
/-- encode `v`, append its body (and everything below it, pre-order) to `out`, and store the pointer to it
    at word `pw`; `none` when `v` contains a capability (or the fuel runs out) -/
def canonPtr : Nat → Val → List Nat → Nat → Option (List Nat)
  | 0, _, _, _ => none
  | _ + 1, .null, out, _ => some out
  | _ + 1, .cap _, _, _ => none
  | f + 1, .struct d ps, out, pw =>
    let d' := truncData d
    let ps' := truncPtrs ps
    let dw := d'.length / 8
    let pc := ps'.length
    if dw = 0 ∧ pc = 0 then some (setWord out pw 0xfffffffc)       -- zero-sized struct: offset -1
    else
      let start := out.length / 8
      let out := out ++ d' ++ List.replicate (8 * pc) 0
      let out := setWord out pw (offBits ((start : Int) - pw - 1) + dw * 2 ^ 32 + pc * 2 ^ 48)
      canonPtrs f ps' out (start + dw)
  | f + 1, .list k n pr es, out, pw =>
    let start := out.length / 8
    if k = 7 then
      -- element size: maximum over the elements' truncated sizes
      let sizes := es.map (fun e => match e with
        | .struct d ps => ((truncData d).length / 8, (truncPtrs ps).length)
        | _ => (0, 0))
      let dw := sizes.foldl (fun a s => max a s.1) 0
      let pc := sizes.foldl (fun a s => max a s.2) 0
      let tag := n * 4 + dw * 2 ^ 32 + pc * 2 ^ 48
      let body := es.flatMap (fun e => match e with
        | .struct d _ => padTo (8 * dw) ((truncData d).take (8 * dw)) ++ List.replicate (8 * pc) 0
        | _ => List.replicate (8 * (dw + pc)) 0)
      let out := out ++ le64 tag ++ body
      let out := setWord out pw (1 + offBits ((start : Int) - pw - 1) + 7 * 2 ^ 32 + (n * (dw + pc)) * 2 ^ 35)
      canonElems f es out (start + 1) dw pc
    else if k = 6 then
      let out := out ++ List.replicate (8 * n) 0
      let out := setWord out pw (1 + offBits ((start : Int) - pw - 1) + 6 * 2 ^ 32 + n * 2 ^ 35)
      canonPtrs f es out start
    else
      let content := if k = 1 then packBits pr else pr
      let out := out ++ pad8 content
      some (setWord out pw (1 + offBits ((start : Int) - pw - 1) + k * 2 ^ 32 + n * 2 ^ 35))

/-- the pointers `ps` live at consecutive words starting at `pw` -/
def canonPtrs : Nat → List Val → List Nat → Nat → Option (List Nat)
  | _, [], out, _ => some out
  | f, p :: ps, out, pw =>
    match canonPtr f p out pw with
    | none => none
    | some out => canonPtrs f ps out (pw + 1)

/-- the elements of a struct list: element `i` sits at word `ew`, pointers after `dw` data words -/
def canonElems : Nat → List Val → List Nat → Nat → Nat → Nat → Option (List Nat)
  | _, [], out, _, _, _ => some out
  | f, e :: es, out, ew, dw, pc =>
    match e with
    | .struct _ ps =>
      match canonPtrs f (truncPtrs ps) out (ew + dw) with
      | none => none
      | some out => canonElems f es out (ew + dw + pc) dw pc
    | _ => canonElems f es out (ew + dw + pc) dw pc
end

/-- the canonical form of a struct value (the root pointer is word 0) -/
def canon (v : Val) : Option (List Nat) :=
  match v with
  | .null => some (List.replicate 8 0)
  | .struct _ _ => canonPtr 200 v (List.replicate 8 0) 0
  | _ => none

end Capnp.Spec.Canon
