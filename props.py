"""Per-property configuration of ./check."""

COMMON_TRUSTED = [
    "statements in lean/Capnp/Props and the Spec layer (read them)",
    "hand-written Model layer is tied to the code only by the correspondence stream reported here",
    "Go harness (generators, canonicaliser), verif-tagged hooks, Go toolchain",
]

PROPS = {
    "GEN": {  # not a property: the translator-validation stream on its own (used while developing)
        "modules": ["Capnp.Gen.Core"], "gen": True, "rule": "every go2lean target x boundary/random argument tuples", "trusted": [],
        "shards": {"quick": 1, "thorough": 8},
    },
    "C13": {
        "modules": ["Capnp.Props.C13"],
        "gen": False,
        "rule": "payloads built from zero runs / dense runs / sparse words with run lengths around 254..257 and 510; "
                "packed inputs = valid, truncated at a random byte, byte-mutated, raw (tags biased to 00/ff); reader "
                "chunkings from {1,2,3,5,7,8,9,17,4096} and random. Non-trivial: payload >= 2 words / packed input >= 3 bytes; "
                "distinct by hash of the op line.",
        "trusted": COMMON_TRUSTED,
        "assumptions": ["bufio.Reader and io.ReadFull behave as documented (modelled as the Buffered() oracle)"],
        "shards": {"quick": 1, "thorough": 8},
    },
}
