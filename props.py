"""Per-property configuration of ./check."""

COMMON_TRUSTED = [
    "statements in lean/Capnp/Props and the Spec layer (read them)",
    "hand-written Model layer is tied to the code only by the correspondence stream reported here",
    "Go harness (generators, canonicaliser), verif-tagged hooks, Go toolchain",
]

PROPS = {
    "GEN": {  # not a property: the translator-validation stream on its own (used while developing)
        "modules": ["Capnp.Gen.Core"], "gen": True, "rule": "every go2lean target x boundary/random argument tuples", "trusted": [],
        "shards": {"quick": 1, "thorough": 8},
    },
    "C01": {
        "modules": ["Capnp.Props.C01"],
        "gen": True,
        "rule": "messages = spec-valid trees laid out by an independent reference encoder over 1-3 segments with near/far/double-far "
                "edges (40%), the same with 1-3 words overwritten by boundary-valued pointer words / field tweaks / truncated segments (40%), "
                "raw hostile pointer words (20%); limits T from {8..2^40}, D from {1..5,63,64,65}; every message is traversed through the public "
                "accessors (Root, Struct.Ptr/UintN/Bit/HasPtr, List.Struct, PointerList/BitList/UIntNList.At, Text/Data) in a fixed canonical order "
                "and the rendered trace + remaining traversal budget is compared with the model's. Non-trivial: >= 2 words of segment data; distinct by hash.",
        "trusted": COMMON_TRUSTED + ["go2lean translation rules (validated by the GEN stream included in this run)"],
        "assumptions": ["segments handed to the reader have cap == len (the harness allocates them so) and are shorter than 4 GiB"],
        "shards": {"quick": 4, "thorough": 16},
        "no_panic": ["read "],
    },
    "C02": {
        "modules": ["Capnp.Props.C02"],
        "gen": True,
        "rule": "cyclic / self-referential / maximal-count messages x T in {8..2^40} x D in {1..6,62..66} (all 1..66 in thorough), plus the "
                "valid/mutated/raw message stream of C01: canonical traversal through the public accessors, remaining traversal budget "
                "compared exactly with the model after every walk; concurrent stream: k in {2..16} goroutines x n derefs on one shared "
                "message, oracle granted + remaining <= T. Non-trivial: >= 2 words; distinct by hash.",
        "trusted": COMMON_TRUSTED + ["go2lean translation rules", "sync/atomic Load/CompareAndSwap are atomic (Go memory model)"],
        "assumptions": ["real stack growth is bounded through the proved depth bound, not measured"],
        "shards": {"quick": 4, "thorough": 16},
        "no_panic": ["read "],
    },
    "C03": {
        "modules": ["Capnp.Props.C03"],
        "gen": True,
        "rule": "value trees (all 8 list kinds, zero-sized structs, caps, nested lists, text/data) laid out by the independent reference "
                "encoder over 1-4 segments with near/far/double-far chosen per edge and random padding; the complete tree read through the "
                "public accessors is compared (S) with the tree the Lean spec decoder (Spec.Encoding, written from the encoding document) "
                "derives from the same bytes, and with the harness's shadow of what was encoded; every third case is mutated so that both "
                "sides must also agree on rejection. Non-trivial: op line > 60 chars; distinct by hash.",
        "trusted": COMMON_TRUSTED + ["go2lean translation rules", "Spec.Encoding transcribes capnproto.org/encoding.html"],
        "assumptions": ["double-far landing pads whose tag word is all zero are read as the spec corner described in DESIGN.md 12"],
        "shards": {"quick": 4, "thorough": 16},
        "no_panic": ["read "],
    },
    "C13": {
        "modules": ["Capnp.Props.C13"],
        "gen": False,
        "rule": "payloads built from zero runs / dense runs / sparse words with run lengths around 254..257 and 510; "
                "packed inputs = valid, truncated at a random byte, byte-mutated, raw (tags biased to 00/ff); reader "
                "chunkings from {1,2,3,5,7,8,9,17,4096} and random. Non-trivial: payload >= 2 words / packed input >= 3 bytes; "
                "distinct by hash of the op line.",
        "trusted": COMMON_TRUSTED,
        "assumptions": ["bufio.Reader and io.ReadFull behave as documented (modelled as the Buffered() oracle)"],
        "shards": {"quick": 1, "thorough": 8},
    },
    "C17": {
        "modules": ["Capnp.Props.C17", "Capnp.Props.C17C"],
        "gen": False,
        "rule": "pairs of spec-valid messages: the same value tree in two random layouts; the tree vs its re-encoding in another schema "
                "version (structs padded/truncated by zero words and null pointers, primitive/pointer/void lists upgraded to struct lists), "
                "both argument orders; the tree vs a minimal perturbation (one data bit, one bit of a bit list, bit<->void list, null<->empty "
                "struct, pointer nulled, capability index, non-zero trailing word), both orders and against the padded version; unrelated trees. "
                "capnp.Equal's answer is compared (S) with Spec.Value.eq of the two trees obtained by the Lean spec decoder. Capability "
                "tables of both messages hold the same 8 clients. Non-trivial: all; distinct by hash.",
        "trusted": COMMON_TRUSTED + ["Spec.Value.eq transcribes the doc comment of capnp.Equal (bit lists equal only bit lists; primitive lists of different widths are unequal)"],
        "assumptions": [],
        "shards": {"quick": 4, "thorough": 16},
        "no_panic": ["read "],
    },
    "C18": {
        "modules": ["Capnp.Props.C18"],
        "gen": False,
        "rule": "capability-free struct trees (all list kinds, nested lists, zero-sized structs; 1 in 12 keeps a capability to exercise the "
                "rejection) encoded in random layouts; Canonicalize's bytes are compared (S) with Spec.Canon.canon of the spec-decoded tree; the "
                "driver also checks that the canonical bytes decode to an equal value; the harness checks that canonicalising the canonical form "
                "is the identity, and that another layout, another schema version (padding / list upgrade) and dirty bit-list padding give "
                "identical bytes. Directed: structs and list elements with > 8192 data words, and with pointer sections of 32767..65535 "
                "slots (one non-null pointer near the front). Non-trivial: all; distinct by hash.",
        "trusted": COMMON_TRUSTED + ["Spec.Canon transcribes the canonicalisation section of the encoding document"],
        "assumptions": [],
        "shards": {"quick": 4, "thorough": 16},
        "no_panic": ["read "],
    },
    "C14": {
        "modules": ["Capnp.Props.C14"],
        "gen": True,
        "rule": "messages of 1-5 segments of 0-8 words; Marshal and Encoder.Encode vs the model's framing; streams of 1-4 frames written by "
                "an independent framer and read back through Decoder (with and without ReuseBuffer, reader chunkings from {1,2,3,5,7,8,9,17,4096} "
                "and random, MaxMessageSize from {0,8,...,2^20}) whole and cut at a random byte or around a frame boundary; the same through the "
                "packed framing; Unmarshal of damaged/truncated frames; hostile headers (segment counts 0..2^32-1, sizes up to 2^32-1 words) with an "
                "allocation oracle (TotalAlloc delta of one Decode <= MaxMessageSize + 16 KiB). Non-trivial: all; distinct by hash.",
        "trusted": COMMON_TRUSTED + ["go2lean translation rules (streamHeaderSize, Size.times)", "io.ReadFull / bufio semantics as modelled"],
        "assumptions": ["the code's own segment-count constant is used: it accepts 513 segments (maxSeg <= 512), recorded, not raised"],
        "shards": {"quick": 4, "thorough": 16},
        "no_panic": ["frame "],
    },
    "C04": {
        "modules": ["Capnp.Props.C05"],
        "gen": True,
        "rule": "value trees (all list kinds, nested lists, zero-sized structs, capabilities) built through the public builder API "
                "(NewRootStruct/NewStruct/SetPtr/SetUintN/New*List/Set/SetStruct/NewInterface) in 14 arena configurations (SingleSegment "
                "and MultiSegment with initial capacities 0..4096; a custom exact-size arena with 0/8/16/64 bytes of slack so that near, far "
                "and double-far pointers all occur), bottom-up or top-down, optionally writing and then overwriting temporary values; the "
                "tree read back live, after Marshal/Unmarshal, MarshalPacked/UnmarshalPacked and Encoder/Decoder (packed and not, random "
                "reader chunkings, with and without buffer reuse) must equal the written tree. Non-trivial: all; distinct by hash.",
        "trusted": COMMON_TRUSTED + ["go2lean translation rules (pointer constructors)"],
        "assumptions": [],
        "shards": {"quick": 4, "thorough": 16},
        "no_panic": ["build "],
    },
    "C05": {
        "modules": ["Capnp.Props.C05", "Capnp.Props.C05A"],
        "gen": True,
        "rule": "the same builder scripts as C04; the segments the library produced are judged by the Lean spec alone: Spec.Encoding.decodeTree "
                "(independent decoder) must reconstruct exactly the written tree, and Spec.Encoding.validMessage must hold (whole-word segments, "
                "every pointer resolves inside its target segment, landing pads well formed, root word / objects / landing pads pairwise disjoint).",
        "trusted": COMMON_TRUSTED + ["go2lean translation rules (pointer constructors)", "Spec.Encoding transcribes capnproto.org/encoding.html"],
        "assumptions": ["'initially zeroed storage' is observed through the written tree (unset fields read 0/null), not separately"],
        "shards": {"quick": 4, "thorough": 16},
        "no_panic": ["build "],
    },
    "C16": {
        "modules": ["Capnp.Props.C05", "Capnp.Props.C16"],
        "gen": True,
        "rule": "a tree built in a source message (any arena) is assigned into a destination message (any arena) by SetRoot, Struct.SetPtr, "
                "PointerList.Set, List.SetStruct or Struct.CopyFrom into a struct of 0..3 data words and 0..3 pointers that holds old content, "
                "or by CopyFrom inside the same message; the destination must read as the source truncated / zero-extended to the destination's "
                "shape; then every data byte reachable from the source is overwritten in place and the copy must not change, and vice versa; "
                "capabilities are compared by client identity and the destination's capability table must grow by one entry per copied capability. "
                "M ops `build copydata` / `build copygrow`: copyStruct's data path on real memory (sub-word and whole-word sections, old "
                "content, the object behind; copygrow: while the deep copy of a 0..70000-byte blob moves the destination's single-segment "
                "arena) against Model.CopyStruct.copyInto.",
        "trusted": COMMON_TRUSTED,
        "assumptions": ["reference counts of copied clients are covered by C10, not here"],
        "shards": {"quick": 4, "thorough": 16},
        "no_panic": ["build "],
    },
    "C20": {
        "modules": ["Capnp.Props.C20"],
        "gen": True,
        "rule": "strquote: every single byte alone and between plain bytes, sample and random strings (all 65536 byte pairs in thorough) vs the "
                "model over the regenerated needsEscape; text rendering: for the 50 struct types of the aircraftlib test schema, values drawn "
                "from the schema (every numeric width at its boundaries, enums beyond the known enumerants, unions incl. unknown discriminants, "
                "groups, defaults, text/data with quotes, backslashes, control and non-ASCII bytes, all list kinds, nested lists, struct lists of "
                "older/newer element shapes) are encoded by the reference encoder and text.Marshal's output is compared (S) with an independent "
                "renderer written from the text format; encoder history: the same value rendered 2000x on one Encoder, and a schema-heavy value "
                "3000x (200000x thorough), must give identical output every time. Non-trivial: expected text > 10 bytes; distinct by hash.",
        "trusted": COMMON_TRUSTED + ["go2lean translation rules (needsEscape)", "the harness's reference renderer of the text format; float formatting by strconv on both sides"],
        "assumptions": ["pointer fields with non-null schema defaults are never left null by the generator (their default rendering is not modelled)"],
        "shards": {"quick": 4, "thorough": 16},
        "no_panic": ["text "],
    },
    "C10": {
        "modules": ["Capnp.Props.C10"],
        "gen": False,
        "rule": "sequential API scripts of 2-15 operations (AddRef/Release/call/WeakRef upgrade on handles of a promised client and of its "
                "target, Fulfill with a client or nil) run on real Clients with instrumented ClientHooks, Shutdown counters and call results "
                "compared with the model after every operation (M); the interleaving of the proved-impossible window (Fulfill parked between its "
                "two critical sections while the promised client's handle is released) replayed on the implementation through the verif "
                "scheduling hook (S); stress: 2-16 goroutines x 20-400 random operations on shared capabilities, oracle: one Shutdown per hook, "
                "no use after Shutdown, no panic (S). Non-trivial: all; distinct by hash.",
        "trusted": COMMON_TRUSTED + ["the critical sections of capability.go are the model's atomic actions (sampled, not proved)", "sync.Mutex / channel semantics"],
        "assumptions": ["WeakClient.AddRef writes wc.h without synchronisation: a data race outside the atomic-section model (DESIGN.md 6 C10)"],
        "shards": {"quick": 2, "thorough": 16},
        "no_panic": ["cap "],
    },
    "C11": {
        "modules": ["Capnp.Props.C11", "Capnp.Props.C11J"],
        "gen": False,
        "rule": "sequential scripts of 2-11 operations on a real Promise with an instrumented PipelineCaller and result capabilities "
                "(Client() for two paths incl. repeats, pipelined calls directly and through the pipelined client, Fulfill, Reject, "
                "ReleaseClients), every operation under a 2 s deadline, deliveries to caller / result compared with the model after each op (M); "
                "Join of a promise that handed out 0-3 pipelined clients onto an answer with / without clients, then fulfilment of the parent (S); "
                "stress: 2-8 goroutines x 5-100 calls / client requests racing one Fulfill, oracle: delivered = issued, nothing hangs (S); sequences of "
                "4-19 NewPromise / Client / Join / Fulfill / ReleaseClients operations over up to five promises (chains of any shape, joins onto resolved "
                "promises, repeated releases): the client each Client() returns and the validity of every client handed out so far compared with "
                "Model.JoinRefs after every operation (M); Join while a call is in flight, release orders over a joined chain (S).",
        "trusted": COMMON_TRUSTED + ["the critical sections of answer.go are the model's atomic actions (sampled, not proved)", "joined chains are modelled sequentially (Model.JoinRefs, `promise joinseq`); concurrency inside Join (in-flight calls, pending parents) is covered by directed oracles only"],
        "assumptions": [],
        "shards": {"quick": 2, "thorough": 16},
        "no_panic": ["promise "],
    },
    "C06": {
        "modules": ["Capnp.Props.C06", "Capnp.Props.C06Q", "Capnp.Props.C06E"],
        "gen": False,
        "confirm": True,
        "rule": "scripts of 4-17 peer messages / application returns on a real rpc.Conn over an in-memory transport whose peer is the script "
                "(Bootstrap, Calls on exports and on promised answers ready or not, with transforms and capability descriptors, Finish with / without "
                "releaseResultCaps, Release, id reuse, unknown targets, Close): after every operation the messages sent, calls delivered, cancellations, "
                "shutdowns of local capabilities are compared with the model's (M); mixed scripts in both directions (local Bootstrap / calls / pipelined "
                "calls / handle release / cancel, peer Returns with capabilities, Disembargo) judged by oracles computed from the wire log: a Return only "
                "for an outstanding call, never two; question ids not reused before their Finish; Release counts; per-capability delivery order = send "
                "order; every local call resolves once; everything released once; wind-down terminates (S); outbound scripts of 3-20 local operations "
                "(Bootstrap, calls on handles resolved or not, pipelined calls on calls returned or not, handles taken from results, releases of "
                "handles and results, cancellation, Close) and peer Returns (existing / cancelled / unknown questions, struct / capability / exception, "
                "senderHosted / senderPromise / null / unknown descriptors): messages sent, resolutions and the import table compared with "
                "Model.RpcQ after every operation (M); embargo schedules of 3-14 steps (pipelined calls, the Return naming the caller's own capability, "
                "direct calls, the peer forwarding the pipelined calls and echoing the Disembargo, in every enabled interleaving): what the local "
                "capability receives at each step compared with Model.Embargo (M).",
        "trusted": COMMON_TRUSTED + ["each message is handled atomically by the single receive goroutine (true of rpc.go); the model's step is that handling run to quiescence",
                                     "outbound half (Model.RpcQ): one event = one local API call or one Return run to quiescence; descriptors naming the Conn's own exports (loop-back, embargo, Disembargo) are outside it and covered by the oracle stream only",
                                     "local capabilities behave as the harness's (methods 0-5)"],
        "assumptions": ["no transport faults (C09)"],
        "shards": {"quick": 4, "thorough": 16},
        "no_panic": ["rpc ", "rpcq ", "embargo ", "rpcgen "],
    },
    "C07": {
        "modules": ["Capnp.Props.C07", "Capnp.Props.C07Q", "Capnp.Props.C07G"],
        "gen": False,
        "confirm": True,
        "rule": "mixed rpc scripts heavy in capability traffic (capabilities in params and results in both directions, the same capability sent "
                "repeatedly, partial and full Release, Finish with releaseResultCaps, handles taken from results and released, Close at any point), "
                "oracles: Release(id, n) carries exactly the number of descriptors received for id since the last Release; no delivery to a local "
                "capability after its shutdown; after Close and release of the harness's handles every local capability was shut down exactly once; "
                "no goroutine left (S); outbound scripts as in C06 compared with Model.RpcQ after every operation, import table (id=wireRefs) "
                "and Release messages included (M); schedules of descriptors arriving, handles released and one delayed Shutdown at a time over one "
                "import id: table entry and Releases after every step compared with Model.ImportGen (M).",
        "trusted": COMMON_TRUSTED + ["import-side counting is modelled sequentially (Model.RpcQ) and, for one import id, with delayed Shutdowns (Model.ImportGen; the harness delays one Shutdown at a time by parking a call of the client)"],
        "assumptions": [],
        "shards": {"quick": 4, "thorough": 16},
        "no_panic": ["rpc ", "rpcq ", "embargo ", "rpcgen "],
    },
    "C08": {
        "modules": ["Capnp.Props.C08", "Capnp.Props.C08R"],
        "gen": False,
        "confirm": True,
        "rule": "mixed rpc scripts with hostile messages: unknown union members (message, target, transform op, return, disembargo context), "
                "missing pointers, sendResultsTo.yourself, takeFromOtherQuestion, reused / unknown / self-referencing ids, descriptors naming "
                "non-existent exports, Abort, null root, and valid messages with one word overwritten by a boundary value; oracles: the process "
                "survives, no operation blocks, the wind-down (Close, releases) terminates, plus all C06/C07 oracles (S).",
        "trusted": COMMON_TRUSTED + ["raw corruptions exercise the decoder glue; only the table logic is modelled"],
        "assumptions": [],
        "shards": {"quick": 4, "thorough": 16},
        "no_panic": ["rpc ", "rpcq ", "embargo ", "rpcgen "],
    },
    "C09": {
        "modules": ["Capnp.Props.C09", "Capnp.Gen.Locks"],
        "gen": False,
        "locks": True,
        "confirm": True,
        "rule": "mixed rpc scripts with transport faults injected at the n-th NewMessage / send / the next RecvMessage, caller cancellations and "
                "Close (also repeated) at any point: oracles: no operation blocks, the sender lock is free at quiescence (read from the Conn via the "
                "verif hook), Close returns, the wind-down terminates, no goroutine is left, the transport is closed exactly once with every message "
                "released, no message is sent twice or after its release (S); the stream transport's write side: every placement of one or two failing "
                "Writes (short write / failure before the first byte) over a few frames, basic and packed, and random plans: results of each send and "
                "the shape of what reached the stream (whole / torn frames) compared with the model (M), bytes after a torn frame are a violation.",
        "trusted": COMMON_TRUSTED + ["lockflow (the skeleton extractor: names it recognises, contracts taken from the doc comments; rpc.go, answer.go, question.go, import.go, export.go)",
                                     "the lock primitives tryLockSender / lockSender / unlockSender and sync.Mutex",
                                     "'bounded time' is observed as deadlines of the harness, not proved"],
        "assumptions": ["goroutine-level interleavings between critical sections are sampled by the stream, not enumerated"],
        "shards": {"quick": 4, "thorough": 16},
        "no_panic": ["rpc ", "rpcq ", "embargo ", "rpcgen "],
    },
    "C15": {
        "modules": ["Capnp.Props.C15"],
        "gen": False,
        "rule": "generated CodeGeneratorRequests (one struct with 1-6 fields of every kind: bool, (u)int8-64, float32/64, enum, text, data, struct, "
                "list, anyPointer, void; every slot offset of 1-4 data words and of data sections of 64 KiB and more; random and boundary defaults; "
                "with and without a union, discriminant at any 16-bit unit) are fed to the capnpc-go binary built from the current source, as the "
                "plugin protocol does; from the emitted Go every accessor's Struct primitives are extracted with their literal offsets, XOR masks, "
                "negations, discriminant checks / stores, and NewT's ObjectSize, and compared with what the model derives from the schema (M); the "
                "generator is run twice in separate processes and the outputs compared byte for byte; a rotating subset of outputs is compiled.",
        "trusted": COMMON_TRUSTED + ["the regular expressions that read the generated Go (harness/gen15.go)",
                                     "Struct.UintN / SetUintN / Bit / SetBit semantics (C01, C03, C04)",
                                     "groups, interfaces, generics, constants and annotations are not generated by the stream"],
        "assumptions": ["'compiles for any schema' and byte-identical output are checked on the generated schemas only"],
        "shards": {"quick": 4, "thorough": 16},
        "no_panic": [],
    },
    "C19": {
        "modules": ["Capnp.Props.C19"],
        "gen": False,
        "rule": "synthetic schemas registered at run time (1-3 data words, 1-6 scalar fields of every kind at any offset, random / boundary "
                "defaults, with and without a union) with Go struct types built by reflection: pogs.Insert of random values into a zeroed struct, "
                "the resulting data section and what pogs.Extract reads back (Which and every value) compared with the model; pogs.Extract on "
                "random struct bytes compared with the model (M). Aircraftlib types (union Z with scalar, text, data, list, nested struct, enum and "
                "group members; Defaults with []byte text; PlaneBase through three levels of anonymous embedding): round trip modulo nil/empty, "
                "every generated accessor against the Go value, the same bytes whatever the inactive Go fields hold, leftovers in inactive slots "
                "not read (S).",
        "trusted": COMMON_TRUSTED + ["reflect.StructOf types stand for hand-written mapped structs", "pointer-typed fields, lists and nested structs are covered by the value stream only",
                                     "Go struct field resolution (tags, embedding, Which) is reflect logic: sampled on the harness's types"],
        "assumptions": ["NaN payloads are excluded (float32 <-> float64 conversions in reflect do not preserve them)"],
        "shards": {"quick": 4, "thorough": 16},
        "no_panic": ["pogs19 "],
    },
    "C12": {
        "modules": ["Capnp.Props.C12"],
        "gen": False,
        "confirm": True,
        "rule": "sequential scripts of 4-15 operations on a real server.Server (MaxConcurrentCalls 1-3, AnswerQueueSize 1-3) with an "
                "instrumented method implementation driven by ack / return / fail commands: calls, acknowledgements, returns, caller "
                "cancellations, pipelined calls on the answers (queued, blocked on a full queue, after the return), Shutdown; after every "
                "operation the state of every call, pipelined call, delivery log, start order and shutdown counter is compared with the "
                "model's settled state (M; an '!' marker from the harness's own oracles makes it a replayable violation); "
                "stress: 2-8 concurrent callers x 5-60 sequential calls with random ack/return timing, cancellations and a racing Shutdown, "
                "oracles: cap, one unacknowledged start at a time, per-caller order, every answer resolves with the right value, nothing "
                "starts after Shutdown returned, user shutdown ran exactly once (S).",
        "trusted": COMMON_TRUSTED + ["the critical sections of server.go / answer.go are the model's atomic actions (sampled, not proved)",
                                     "sync.Mutex / channel / context semantics", "returnEmbargoer (pipelining on pipelined answers) is not modelled"],
        "assumptions": ["calls made concurrently by different goroutines have no defined order: the order statement is about a call made "
                        "after an earlier call's Send returned"],
        "shards": {"quick": 4, "thorough": 16},
        "no_panic": ["server "],
    },
}
