#!/bin/bash
# mutall.sh [pattern]: run every seeded mutation (seeded/<pattern>*) against the check(s) named in its meta.json
# (detected_by, else its own property); prints one CAUGHT/MISSED line per mutation.  Uses /repo: run nothing else meanwhile.
cd /verif
for d in /verif/seeded/${1:-C}*/; do
  d=${d%/}; b=$(basename $d)
  [ -f $d/patch.diff ] || continue
  props=$(python3 - "$d" "$b" <<'P'
import json,re,sys
m=json.load(open(sys.argv[1]+'/meta.json')); db=m.get('detected_by') or ''
if not isinstance(db,str): db=' '.join(map(str,db))
ps=re.findall(r'check (C\d\d)',db) or re.findall(r'\bC\d\d\b',db) or [sys.argv[2][:3]]
print(' '.join(dict.fromkeys(ps[:1])))
P
)
  tools/mutest.sh $d $props 2>&1 | cut -c1-140
done
git -C /repo status --short
