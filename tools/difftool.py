import sys
d=sys.argv[1]
ops=open(d+'/ops.txt').read().split('\n'); impl=open(d+'/impl.txt').read().split('\n'); model=open(d+'/model.txt').read().split('\n')
diffs=[(len(ops[i]),i) for i in range(len(ops)) if ops[i] and impl[i]!=(model[i] if i<len(model) else None)]
print(len(diffs),'diffs of',len([o for o in ops if o]))
for _,i in sorted(diffs)[:int(sys.argv[2]) if len(sys.argv)>2 else 5]:
    print(ops[i][:400]); print('  impl :',impl[i][:400]); print('  model:',model[i][:400] if i<len(model) else None)
