#!/bin/bash
# mutest.sh <property> <mutation-dir> [more properties...]: apply the mutation to /repo, run the checks, undo it.
M=$1; shift
git -C /repo apply $M/patch.diff || { echo "APPLY-FAILED $M"; exit 2; }
for P in "$@"; do
  out=$(cd /verif && ./check $P --tier quick 2>/dev/null | grep -E "^VIOLATION" | cut -c1-160)
  if [ -z "$out" ]; then echo "MISSED $P $(basename $M)"; else echo "CAUGHT $P $(basename $M): $out"; fi
done
git -C /repo checkout -- .
rm -f /verif/build/harness   # it was built from the mutated tree
