#!/bin/bash
# ingest.sh <prefix e.g. C01c> [pkgdir]: copy /tmp/mut/<prefix>-k into seeded/<Cnn>-<next>, confirm each in a scratch worktree,
# run the property's quick check against it, record the outcome in its meta.json
P=$1; PKG=${2:-.}; ID=${P:0:3}
for k in 1 2 3; do
  src=/tmp/mut/$P-$k; [ -f $src/patch.diff ] || { echo "no $src"; continue; }
  n=$(( $(ls -d /verif/seeded/$ID-* 2>/dev/null | wc -l) + 1 ))
  dst=/verif/seeded/$ID-$n; mkdir -p $dst
  cp $src/patch.diff $src/meta.json $dst/; cp $src/demo*.go $dst/ 2>/dev/null; cp $src/*.go $dst/ 2>/dev/null
  # which package does the demo go in? header comment or the patch's directory
  pkg=$PKG
  demo=$(ls $dst/demo*_test.go 2>/dev/null | head -1)
  for cand in server rpc internal/packed internal/strquote internal/nodemap internal/schema encoding/text pogs capnpc-go; do
    if grep -q "\./$cand" "$demo" 2>/dev/null; then pkg=$cand; break; fi
  done
  conf=$(/verif/seeded/confirm.sh $dst $pkg 2>&1 | tail -1)
  res=$(/verif/tools/mutest.sh $dst $ID 2>&1 | tail -1 | cut -c1-200)
  python3 - "$dst" "$conf" "$res" "$P-$k" <<'PY'
import json,sys
d,conf,res,src=sys.argv[1:5]
m=json.load(open(d+'/meta.json'))
try: m['confirmed']=json.loads(conf)
except Exception: m['confirmed']=conf
m['round']=3; m['source']=src
m['first_result']=res
json.dump(m,open(d+'/meta.json','w'),indent=1)
PY
  echo "$ID-$n ($P-$k): $conf :: $res"
done
