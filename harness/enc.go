package main

import (
	"encoding/binary"

	"verifharness/lib"
)

// Independent reference encoder, written from https://capnproto.org/encoding.html
// (it shares no code with the library): value trees and their layout over
// segments with a pointer kind chosen per edge.

const (
	vNull = iota
	vStruct
	vList
	vCap
)

// Val is a schema-less value tree.
type Val struct {
	Kind   int
	Data   []byte // struct: data section, whole words
	Ptrs   []*Val // struct: pointer section
	EK     int    // list: element kind 0 void,1 bit,2..5 = 1,2,4,8 bytes,6 pointer,7 composite
	N      int    // list: element count
	Prim   []byte // list kinds 1..5: content bytes (bit lists: ceil(N/8))
	Elems  []*Val // list kind 6: pointers; kind 7: structs of uniform shape (DS words, PC ptrs)
	DS     int    // composite: data words per element
	PC     int    // composite: pointers per element
	Cap    uint32
	InList bool // element of a struct list: its shape is fixed by the list
}

type layout struct {
	segs  [][]byte
	r     *lib.Rng
	nseg  int
	farP  int // probability (in 8ths) to place a child in another segment
	dblP  int // probability (in 8ths) that an inter-segment pointer is double-far
	slack bool
	dirty bool // fill list padding bytes (not part of any value) with garbage
}

func (l *layout) alloc(seg, n int) int {
	for len(l.segs) <= seg {
		l.segs = append(l.segs, nil)
	}
	off := len(l.segs[seg])
	l.segs[seg] = append(l.segs[seg], make([]byte, n)...)
	return off
}

func (l *layout) put(seg, off int, w uint64) {
	binary.LittleEndian.PutUint64(l.segs[seg][off:], w)
}

func (l *layout) pickSeg(cur int) int {
	if l.nseg > 1 && l.r.Intn(8) < l.farP {
		return l.r.Intn(l.nseg)
	}
	return cur
}

var elemBytes = []int{0, 0, 1, 2, 4, 8, 8, 0}

// objWords returns the body size in bytes and the pointer word with offset 0.
func (v *Val) shape() (bytes int, raw uint64) {
	switch v.Kind {
	case vStruct:
		dw, pc := len(v.Data)/8, len(v.Ptrs)
		return len(v.Data) + 8*pc, uint64(dw)<<32 | uint64(pc)<<48
	case vList:
		switch v.EK {
		case 1:
			return (v.N + 7) / 8, 1 | uint64(1)<<32 | uint64(v.N)<<35
		case 7:
			words := v.N * (v.DS + v.PC)
			return 8 + 8*words, 1 | uint64(7)<<32 | uint64(words)<<35
		default:
			return v.N * elemBytes[v.EK], 1 | uint64(v.EK)<<32 | uint64(v.N)<<35
		}
	}
	return 0, 0
}

func pad8(n int) int { return (n + 7) &^ 7 }

// writeStructBody writes data and pointer sections at (seg,off).
func (l *layout) writeStructBody(seg, off int, data []byte, ptrs []*Val) {
	copy(l.segs[seg][off:], data)
	for i, p := range ptrs {
		l.writePtr(seg, off+len(data)+8*i, p)
	}
}

// writePtr encodes v and stores a pointer to it at (pseg,poff).
func (l *layout) writePtr(pseg, poff int, v *Val) {
	if v == nil || v.Kind == vNull {
		return
	}
	if v.Kind == vCap {
		l.put(pseg, poff, 3|uint64(v.Cap)<<32)
		return
	}
	nbytes, raw := v.shape()
	if v.Kind == vStruct && nbytes == 0 {
		l.put(pseg, poff, 0xfffffffc) // zero-sized struct: offset -1
		return
	}
	oseg := l.pickSeg(pseg)
	if l.slack && l.r.Chance(1, 4) {
		l.alloc(oseg, 8*l.r.Intn(3)) // unrelated padding between objects
	}
	ooff := l.alloc(oseg, pad8(nbytes))
	// body
	switch v.Kind {
	case vStruct:
		l.writeStructBody(oseg, ooff, v.Data, v.Ptrs)
	case vList:
		switch v.EK {
		case 6:
			for i, e := range v.Elems {
				l.writePtr(oseg, ooff+8*i, e)
			}
		case 7:
			l.put(oseg, ooff, uint64(uint32(v.N)<<2)|uint64(v.DS)<<32|uint64(v.PC)<<48)
			sz := 8 * (v.DS + v.PC)
			for i, e := range v.Elems {
				l.writeStructBody(oseg, ooff+8+i*sz, e.Data, e.Ptrs)
			}
		default:
			copy(l.segs[oseg][ooff:], v.Prim)
			if l.dirty {
				for k := ooff + nbytes; k < ooff+pad8(nbytes); k++ {
					l.segs[oseg][k] = byte(1 + l.r.Intn(255))
				}
			}
		}
	}
	// pointer
	if oseg == pseg {
		off := int32((ooff - poff - 8) / 8)
		l.put(pseg, poff, raw|uint64(uint32(off)<<2))
		return
	}
	if l.r.Intn(8) < l.dblP {
		// double-far: 2-word pad in any segment: far(oseg, ooff) + tag(raw with offset 0)
		padSeg := l.r.Intn(l.nseg)
		padOff := l.alloc(padSeg, 16)
		l.put(padSeg, padOff, 2|uint64(ooff/8)<<3|uint64(oseg)<<32)
		l.put(padSeg, padOff+8, raw)
		l.put(pseg, poff, 6|uint64(padOff/8)<<3|uint64(padSeg)<<32)
		return
	}
	// far: 1-word pad in the object's segment holding a near pointer
	padOff := l.alloc(oseg, 8)
	off := int32((ooff - padOff - 8) / 8)
	l.put(oseg, padOff, raw|uint64(uint32(off)<<2))
	l.put(pseg, poff, 2|uint64(padOff/8)<<3|uint64(oseg)<<32)
}

// DirtyPadding lets Encode fill list padding with garbage in a third of the layouts.
var DirtyPadding = true

// Encode lays the tree out; the root pointer is word 0 of segment 0.
func Encode(r *lib.Rng, root *Val, nseg, farP, dblP int, slack bool) [][]byte {
	l := &layout{r: r, nseg: nseg, farP: farP, dblP: dblP, slack: slack, dirty: DirtyPadding && r.Chance(1, 3)}
	l.alloc(0, 8)
	for i := 1; i < nseg; i++ {
		l.alloc(i, 0)
	}
	l.writePtr(0, 0, root)
	return l.segs
}

// GenVal draws a random value tree of bounded size.
func GenVal(r *lib.Rng, depth int, budget *int) *Val {
	if *budget <= 0 || depth <= 0 {
		return &Val{Kind: vNull}
	}
	*budget--
	switch r.Intn(10) {
	case 0:
		return &Val{Kind: vNull}
	case 1:
		return &Val{Kind: vCap, Cap: uint32(r.Pick(0, 1, 2, 7, 1<<31, 0xffffffff))}
	case 2, 3, 4, 5:
		return genStruct(r, depth, budget, r.Intn(4), r.Intn(4))
	default:
		return genList(r, depth, budget)
	}
}

func genData(r *lib.Rng, n int) []byte {
	b := make([]byte, n)
	switch r.Intn(4) {
	case 0: // zeros
	case 1:
		for i := range b {
			b[i] = byte(r.U64())
		}
	default:
		for i := range b {
			if r.Chance(1, 3) {
				b[i] = byte(r.Pick(1, 0xff, 0x80, r.Intn(256)))
			}
		}
	}
	return b
}

func genStruct(r *lib.Rng, depth int, budget *int, dw, pc int) *Val {
	v := &Val{Kind: vStruct, Data: genData(r, 8*dw)}
	for i := 0; i < pc; i++ {
		v.Ptrs = append(v.Ptrs, GenVal(r, depth-1, budget))
	}
	return v
}

func genList(r *lib.Rng, depth int, budget *int) *Val {
	ek := r.Intn(8)
	n := r.Pick(0, 1, 2, 3, 5, 8, 9, 17)
	v := &Val{Kind: vList, EK: ek, N: n}
	switch ek {
	case 0:
	case 1:
		v.Prim = genData(r, (n+7)/8)
	case 6:
		if n > 5 {
			v.N = 5
		}
		for i := 0; i < v.N; i++ {
			v.Elems = append(v.Elems, GenVal(r, depth-1, budget))
		}
	case 7:
		if n > 4 {
			v.N = 4
		}
		v.DS, v.PC = r.Intn(3), r.Intn(3)
		for i := 0; i < v.N; i++ {
			e := genStruct(r, depth, budget, v.DS, v.PC)
			e.InList = true
			v.Elems = append(v.Elems, e)
		}
	default:
		v.Prim = genData(r, n*elemBytes[ek])
		if ek == 2 && r.Bool() && n > 0 { // text: NUL terminated
			v.Prim[n-1] = 0
		}
	}
	return v
}
