package main

import (
	"context"
	"errors"
	"fmt"
	"runtime"
	"sort"
	"strconv"
	"strings"
	"sync"
	"sync/atomic"
	"time"

	capnp "capnproto.org/go/capnp/v3"
	"capnproto.org/go/capnp/v3/rpc"
	"capnproto.org/go/capnp/v3/server"
	rpccp "capnproto.org/go/capnp/v3/std/capnp/rpc"
	"verifharness/lib"
)

// ---- C06-C09: one rpc.Conn talking to a scripted peer over an in-memory transport ----
//
// "rpc script <op,op,...>".  After every op the harness waits for quiescence and prints the events that
// happened since the previous op: messages the Conn sent (in wire order), calls delivered to local
// capabilities (in order), resolutions of local calls, Shutdowns of local capabilities, end of the Conn.
//
// peer ops (messages sent to the Conn):
//   pB<q>                         Bootstrap
//   pC<q>:<tgt>:<m>[:<caps>]      Call; tgt = e<export id> | a<answer id>[.<field>]; m = method; caps = params cap table
//   pR<a>:ok[:<caps>] | pR<a>:exc Return for the Conn's question a (results struct: tag in data, ptr 0 = cap 0)
//   pF<q>:<0|1>                   Finish (releaseResultCaps)
//   pL<id>:<n>                    Release
//   pDs<id>:a<q>[.<f>]            Disembargo, senderLoopback      pDr<id>:e<x>   Disembargo, receiverLoopback
//   pU                            an Unimplemented message        pJ             a Join (not implemented by the Conn)
//   pH<kind>                      hostile / malformed messages (see hostileMessage)
// caps: '+'-separated descriptors: s<id> senderHosted, m<id> senderPromise, r<id> receiverHosted, n none, x<k> unknown kind
// local ops:
//   lB            Conn.Bootstrap -> handle          lC<h>:<m>[:k<cap>|:h<h2>]  call on a handle (optionally passing a cap)
//   lP<c>:<f>:<m> pipelined call on local call c    lH<c>:<f>  take the capability in the result of c as a new handle
//   lR<h>         release a handle                  lX<c>      cancel local call c       lZ   Close
//   lY<c>         release the results of finished local call c
// application ops:
//   aR<k>:ok|exc|cap|same    the k-th held incoming call returns (a struct / an error / a new cap / cap 0 again)
// transport faults:
//   fN<n> / fS<n> / fV    the n-th NewMessage / send from now fails; the next RecvMessage fails
//
// methods of the local capabilities: 0 echo, 1 hold (returns on aR), 2 newcap (result ptr 0 = a new local cap),
// 3 fail, 4 samecap (result ptr 0 = local cap 0), 5 giveback (result ptr 0 = the capability in params ptr 0)

const rpcIface = 0xabcdef0123456789

// AnswerQueueSize of the harness's local capabilities (scripts starting with "q<n>," change it)
var rpcQueueSize = 64

type rpcEnv struct {
	mu       sync.Mutex
	events   []string // since the last flush
	wire     []string // all messages sent by the Conn, canonical
	caps     []*appCap
	held     []*heldCall
	t        *scriptTransport
	conn     *rpc.Conn
	handles  []*capnp.Client
	lcalls   []*localCall
	done     int32
	nDeliv   int
	returned []int         // question ids the script has sent a Return for
	stall    chan struct{} // closed by fG: stalled PlaceArgs and held releases proceed
	rawOrder bool          // report the messages of a step in send order
}

func (e *rpcEnv) ev(s string) {
	e.mu.Lock()
	e.events = append(e.events, s)
	e.mu.Unlock()
}

type heldCall struct {
	cmd chan string
}

type localCall struct {
	id       int
	amu      sync.Mutex
	ans      *capnp.Answer
	rel      capnp.ReleaseFunc
	cancel   context.CancelFunc
	res      atomic.Value // string
	result   capnp.Struct
	released bool // lY: the application released the results
}

// appCap is a local capability: a server.Server whose methods log their delivery.
type appCap struct {
	id         int
	env        *rpcEnv
	srv        *server.Server
	client     *capnp.Client // the harness's own reference
	shutdowns  int32
	onShutdown func() // a proxy: its Shutdown gives up a capability imported over the same Conn
}

func (a *appCap) Shutdown() {
	if a.onShutdown != nil {
		a.onShutdown()
	}
	n := atomic.AddInt32(&a.shutdowns, 1)
	if n > 1 {
		a.env.ev("!double-shutdown k" + strconv.Itoa(a.id))
	} else {
		a.env.ev("sd k" + strconv.Itoa(a.id))
	}
}

func (e *rpcEnv) newCap() *appCap {
	e.mu.Lock()
	a := &appCap{id: len(e.caps), env: e}
	e.caps = append(e.caps, a)
	e.mu.Unlock()
	var methods []server.Method
	for m := 0; m <= 8; m++ {
		m := m
		methods = append(methods, server.Method{
			Method: capnp.Method{InterfaceID: rpcIface, MethodID: uint16(m)},
			Impl:   func(ctx context.Context, call *server.Call) error { return a.impl(ctx, call, m) },
		})
	}
	a.srv = server.New(methods, a, a, &server.Policy{MaxConcurrentCalls: 64, AnswerQueueSize: rpcQueueSize})
	a.client = capnp.NewClient(a.srv)
	return a
}

func (a *appCap) impl(ctx context.Context, call *server.Call, m int) error {
	tag := uint64(0)
	if call.Args().IsValid() && call.Args().Size().DataSize >= 8 {
		tag = call.Args().Uint64(0)
	}
	e := a.env
	if atomic.LoadInt32(&a.shutdowns) > 0 {
		e.ev(fmt.Sprintf("!deliver-after-shutdown k%d", a.id))
	}
	e.mu.Lock()
	e.nDeliv++
	e.events = append(e.events, fmt.Sprintf("@k%d.m%d.t%d", a.id, m, tag))
	var h *heldCall
	if m == 1 {
		h = &heldCall{cmd: make(chan string, 1)}
		e.held = append(e.held, h)
	}
	e.mu.Unlock()
	call.Ack()
	finish := func(kind string) error {
		switch kind {
		case "exc":
			return errors.New("appfail")
		}
		nptr := uint16(2)
		if kind == "big" {
			nptr = 301
		}
		res, err := call.AllocResults(capnp.ObjectSize{DataSize: 8, PointerCount: nptr})
		if err != nil {
			return err
		}
		res.SetUint64(0, tag)
		setCap := func(i int, c *capnp.Client) {
			in := capnp.NewInterface(res.Segment(), res.Message().AddCap(c))
			res.SetPtr(uint16(i), in.ToPtr())
		}
		switch kind {
		case "cap":
			setCap(0, e.newCap().client) // the result owns the harness's reference
		case "same":
			e.mu.Lock()
			c := e.caps[0].client.AddRef()
			e.mu.Unlock()
			setCap(0, c)
		case "giveback":
			if p, err := call.Args().Ptr(0); err == nil && p.Interface().Client() != nil {
				setCap(0, p.Interface().Client().AddRef())
			}
		case "big":
			// pointer 300 = a new capability (table entry 0); pointer 44 = 300 & 0xff = capability 0 (table entry 1)
			setCap(300, e.newCap().client)
			e.mu.Lock()
			c := e.caps[0].client.AddRef()
			e.mu.Unlock()
			setCap(44, c)
		case "twice":
			c := e.newCap().client
			setCap(0, c)
			setCap(1, c.AddRef())
		}
		return nil
	}
	switch m {
	case 0:
		return finish("ok")
	case 1:
		select {
		case k := <-h.cmd:
			return finish(k)
		case <-ctx.Done():
			e.ev(fmt.Sprintf("cancelled t%d", tag))
			return ctx.Err()
		}
	case 2:
		return finish("cap")
	case 3:
		return finish("exc")
	case 4:
		return finish("same")
	case 5:
		return finish("giveback")
	case 6:
		return finish("big")
	case 7:
		return finish("twice")
	case 8:
		// holds like method 1, but answers a cancellation with a brand-new capability
		e.mu.Lock()
		h = &heldCall{cmd: make(chan string, 1)}
		e.held = append(e.held, h)
		e.mu.Unlock()
		select {
		case k := <-h.cmd:
			return finish(k)
		case <-ctx.Done():
			e.ev(fmt.Sprintf("cancelled t%d", tag))
			return finish("cap")
		}
	}
	return errors.New("unknown method")
}

// scriptTransport is the in-memory rpc.Transport; the script is the peer.
type scriptTransport struct {
	env        *rpcEnv
	in         chan []byte
	closed     chan struct{}
	closeOnce  sync.Once
	closes     int32
	mu         sync.Mutex
	failNew    int // fail the NewMessage whose countdown reaches 1
	failSend   int
	failRecv   bool
	holdNext   bool
	holdSend   bool // the next send blocks (inside the sender lock) until fG
	failClose  bool // Close reports an error (after closing)
	hold       chan struct{}
	live       int32 // messages created and not yet released
	recvLive   int32
	sentAfterC int32
}

var errInjected = errors.New("injected transport fault")

func (t *scriptTransport) NewMessage(ctx context.Context) (rpccp.Message, func() error, capnp.ReleaseFunc, error) {
	t.mu.Lock()
	if t.failNew > 0 {
		t.failNew--
		if t.failNew == 0 {
			t.mu.Unlock()
			return rpccp.Message{}, nil, nil, errInjected
		}
	}
	t.mu.Unlock()
	select {
	case <-t.closed:
		t.env.ev("!newmessage-after-close")
	default:
	}
	msg, seg, err := capnp.NewMessage(capnp.MultiSegment(nil))
	if err != nil {
		return rpccp.Message{}, nil, nil, err
	}
	rmsg, err := rpccp.NewRootMessage(seg)
	if err != nil {
		return rpccp.Message{}, nil, nil, err
	}
	atomic.AddInt32(&t.live, 1)
	sent, released := false, false
	send := func() error {
		if sent {
			t.env.ev("!send-twice")
		}
		sent = true
		if released {
			t.env.ev("!send-after-release")
		}
		if msg.CapTable != nil && rmsg.Which() != rpccp.Message_Which_unimplemented {
			// (an Unimplemented echo copies the offending message, interface pointers included; harmless)
			t.env.ev("!captable-not-nil-at-send")
		}
		t.mu.Lock()
		var hs chan struct{}
		if t.holdSend {
			t.holdSend = false
			if t.hold == nil {
				t.hold = make(chan struct{})
			}
			hs = t.hold
		}
		t.mu.Unlock()
		if hs != nil {
			select {
			case <-hs:
			case <-time.After(10 * time.Second):
			}
		}
		t.mu.Lock()
		if t.failSend > 0 {
			t.failSend--
			if t.failSend == 0 {
				t.mu.Unlock()
				return errInjected
			}
		}
		t.mu.Unlock()
		if err := ctx.Err(); err != nil {
			return err
		}
		s := canonMessage(rmsg)
		t.env.mu.Lock()
		t.env.wire = append(t.env.wire, s)
		t.env.events = append(t.env.events, ">"+s)
		t.env.mu.Unlock()
		if rmsg.Which() == rpccp.Message_Which_return {
			// the Conn gives parameter capabilities back with explicit Release messages: a Return that also claims to
			// release them would give every reference back twice
			if r, err := rmsg.Return(); err == nil && r.ReleaseParamCaps() {
				t.env.ev("!Return-claims-releaseParamCaps-" + strconv.Itoa(int(r.AnswerId())))
			}
		}
		return nil
	}
	release := func() {
		if released {
			t.env.ev("!release-twice")
			return
		}
		released = true
		atomic.AddInt32(&t.live, -1)
		msg.Reset(nil)
	}
	return rmsg, send, release, nil
}

func (t *scriptTransport) RecvMessage(ctx context.Context) (rpccp.Message, capnp.ReleaseFunc, error) {
	t.mu.Lock()
	if t.failRecv {
		t.failRecv = false
		t.mu.Unlock()
		return rpccp.Message{}, nil, errInjected
	}
	t.mu.Unlock()
	select {
	case b := <-t.in:
		if b == nil {
			return rpccp.Message{}, nil, errInjected
		}
		msg, err := capnp.Unmarshal(b)
		if err != nil {
			return rpccp.Message{}, nil, err
		}
		rmsg, err := rpccp.ReadRootMessage(msg)
		if err != nil {
			return rpccp.Message{}, nil, err
		}
		atomic.AddInt32(&t.recvLive, 1)
		var once sync.Once
		var hold chan struct{}
		t.mu.Lock()
		if t.holdNext {
			t.holdNext = false
			if t.hold == nil {
				t.hold = make(chan struct{})
			}
			hold = t.hold
		}
		t.mu.Unlock()
		return rmsg, func() {
			if hold != nil {
				select {
				case <-hold:
				case <-time.After(10 * time.Second):
				}
			}
			once.Do(func() { atomic.AddInt32(&t.recvLive, -1) })
		}, nil
	case <-ctx.Done():
		return rpccp.Message{}, nil, ctx.Err()
	case <-t.closed:
		return rpccp.Message{}, nil, errors.New("transport closed")
	}
}

func (t *scriptTransport) unhold() {
	t.mu.Lock()
	if t.hold != nil {
		close(t.hold)
		t.hold = nil
	}
	t.holdNext = false
	t.holdSend = false
	t.mu.Unlock()
}

func (t *scriptTransport) Close() error {
	if atomic.AddInt32(&t.closes, 1) > 1 {
		t.env.ev("!transport-closed-twice")
	}
	if n := atomic.LoadInt32(&t.live); n != 0 {
		t.env.ev("!transport-closed-with-" + strconv.Itoa(int(n)) + "-unreleased-messages")
	}
	t.closeOnce.Do(func() { close(t.closed) })
	t.mu.Lock()
	fail := t.failClose
	t.mu.Unlock()
	if fail {
		return errors.New("scripted close failure")
	}
	return nil
}

func canonCaps(p rpccp.Payload) string {
	if !p.IsValid() || !p.HasCapTable() {
		return ""
	}
	l, err := p.CapTable()
	if err != nil {
		return "?"
	}
	var out []string
	for i := 0; i < l.Len(); i++ {
		d := l.At(i)
		switch d.Which() {
		case rpccp.CapDescriptor_Which_none:
			out = append(out, "n")
		case rpccp.CapDescriptor_Which_senderHosted:
			out = append(out, "s"+strconv.Itoa(int(d.SenderHosted())))
		case rpccp.CapDescriptor_Which_senderPromise:
			out = append(out, "m"+strconv.Itoa(int(d.SenderPromise())))
		case rpccp.CapDescriptor_Which_receiverHosted:
			out = append(out, "r"+strconv.Itoa(int(d.ReceiverHosted())))
		default:
			out = append(out, "x")
		}
	}
	return strings.Join(out, "+")
}

func canonTarget(t rpccp.MessageTarget) string {
	switch t.Which() {
	case rpccp.MessageTarget_Which_importedCap:
		return "e" + strconv.Itoa(int(t.ImportedCap()))
	case rpccp.MessageTarget_Which_promisedAnswer:
		pa, err := t.PromisedAnswer()
		if err != nil {
			return "a?"
		}
		s := "a" + strconv.Itoa(int(pa.QuestionId()))
		ops, _ := pa.Transform()
		for i := 0; i < ops.Len(); i++ {
			if ops.At(i).Which() == rpccp.PromisedAnswer_Op_Which_getPointerField {
				s += "." + strconv.Itoa(int(ops.At(i).GetPointerField()))
			}
		}
		return s
	}
	return "?"
}

func payloadTag(p rpccp.Payload) string {
	c, err := p.Content()
	if err != nil || !c.IsValid() {
		return "-"
	}
	if c.Struct().Size().DataSize >= 8 {
		return "t" + strconv.FormatUint(c.Struct().Uint64(0), 10)
	}
	if c.Interface().IsValid() {
		return "iface"
	}
	return "-"
}

func canonMessage(m rpccp.Message) string {
	switch m.Which() {
	case rpccp.Message_Which_bootstrap:
		b, _ := m.Bootstrap()
		return fmt.Sprintf("Boot(%d)", b.QuestionId())
	case rpccp.Message_Which_call:
		c, _ := m.Call()
		t, _ := c.Target()
		p, _ := c.Params()
		return fmt.Sprintf("Call(%d,%s,m%d,%s,%s)", c.QuestionId(), canonTarget(t), c.MethodId(), payloadTag(p), canonCaps(p))
	case rpccp.Message_Which_return:
		r, _ := m.Return()
		switch r.Which() {
		case rpccp.Return_Which_results:
			p, _ := r.Results()
			return fmt.Sprintf("Ret(%d,res,%s,%s)", r.AnswerId(), payloadTag(p), canonCaps(p))
		case rpccp.Return_Which_exception:
			return fmt.Sprintf("Ret(%d,exc)", r.AnswerId())
		}
		return fmt.Sprintf("Ret(%d,%v)", r.AnswerId(), r.Which())
	case rpccp.Message_Which_finish:
		f, _ := m.Finish()
		return fmt.Sprintf("Fin(%d,%v)", f.QuestionId(), f.ReleaseResultCaps())
	case rpccp.Message_Which_release:
		r, _ := m.Release()
		return fmt.Sprintf("Rel(%d,%d)", r.Id(), r.ReferenceCount())
	case rpccp.Message_Which_disembargo:
		d, _ := m.Disembargo()
		t, _ := d.Target()
		switch d.Context().Which() {
		case rpccp.Disembargo_context_Which_senderLoopback:
			return fmt.Sprintf("Dis(sl%d,%s)", d.Context().SenderLoopback(), canonTarget(t))
		case rpccp.Disembargo_context_Which_receiverLoopback:
			return fmt.Sprintf("Dis(rl%d,%s)", d.Context().ReceiverLoopback(), canonTarget(t))
		}
		return "Dis(?)"
	case rpccp.Message_Which_unimplemented:
		u, _ := m.Unimplemented()
		return fmt.Sprintf("Unimpl(%d)", int(u.Which()))
	case rpccp.Message_Which_abort:
		return "Abort"
	}
	return fmt.Sprintf("Msg(%d)", int(m.Which()))
}

// ---- building the peer's messages ----

func newPeerMsg() (*capnp.Message, rpccp.Message) {
	msg, seg, _ := capnp.NewMessage(capnp.SingleSegment(nil))
	m, _ := rpccp.NewRootMessage(seg)
	return msg, m
}

func fillCaps(p rpccp.Payload, spec string) {
	if spec == "" {
		return
	}
	ds := strings.Split(spec, "+")
	l, _ := p.NewCapTable(int32(len(ds)))
	for i, d := range ds {
		n, _ := strconv.Atoi(d[1:])
		switch d[0] {
		case 's':
			l.At(i).SetSenderHosted(uint32(n))
		case 'm':
			l.At(i).SetSenderPromise(uint32(n))
		case 'r':
			l.At(i).SetReceiverHosted(uint32(n))
		case 'n':
			l.At(i).SetNone()
		case 'x':
			// a union member this implementation does not know
			l.At(i).Struct.SetUint16(0, uint16(40+n))
		}
	}
}

func fillPayload(p rpccp.Payload, tag uint64, caps string) {
	st, _ := capnp.NewStruct(p.Segment(), capnp.ObjectSize{DataSize: 8, PointerCount: 2})
	st.SetUint64(0, tag)
	if caps != "" {
		st.SetPtr(0, capnp.NewInterface(p.Segment(), 0).ToPtr())
	}
	p.SetContent(st.ToPtr())
	fillCaps(p, caps)
}

func fillTarget(t rpccp.MessageTarget, spec string) {
	if spec == "" {
		return
	}
	switch spec[0] {
	case 'e':
		n, _ := strconv.Atoi(spec[1:])
		t.SetImportedCap(uint32(n))
	case 'a':
		parts := strings.Split(spec[1:], ".")
		q, _ := strconv.Atoi(parts[0])
		pa, _ := t.NewPromisedAnswer()
		pa.SetQuestionId(uint32(q))
		ops, _ := pa.NewTransform(int32(len(parts) - 1))
		for i, f := range parts[1:] {
			if f == "n" { // a noop op: the transform is the same without it
				ops.At(i).SetNoop()
				continue
			}
			n, _ := strconv.Atoi(f)
			ops.At(i).SetGetPointerField(uint16(n))
		}
	}
}

func (e *rpcEnv) peerSend(msg *capnp.Message) {
	b, err := msg.Marshal()
	if err != nil {
		e.ev("!harness-marshal " + err.Error())
		return
	}
	select {
	case e.t.in <- b:
	case <-e.t.closed:
	case <-time.After(2 * time.Second):
		e.ev("recv-stalled")
	}
}

// resolve replaces symbolic references by what the Conn has put on the wire so far:
//
//	Q<k> the k-th outstanding question id of the Conn (oldest first), X<k> the k-th export id it has named
func (e *rpcEnv) resolve(op string) string {
	if !strings.ContainsAny(op, "QX") {
		return op
	}
	e.mu.Lock()
	defer e.mu.Unlock()
	var outstanding, exports []int
	seenExp := map[int]bool{}
	for _, w := range e.wire {
		var a, b int
		switch {
		case strings.HasPrefix(w, "Boot("):
			fmt.Sscanf(w, "Boot(%d)", &a)
			outstanding = append(outstanding, a)
		case strings.HasPrefix(w, "Call("):
			fmt.Sscanf(w, "Call(%d,", &a)
			outstanding = append(outstanding, a)
		}
		_ = b
		if i := strings.LastIndex(w, ","); i >= 0 && (strings.HasPrefix(w, "Ret(") || strings.HasPrefix(w, "Call(")) {
			for _, d := range strings.Split(strings.TrimSuffix(w[i+1:], ")"), "+") {
				if len(d) > 1 && d[0] == 's' {
					if n, err := strconv.Atoi(d[1:]); err == nil && !seenExp[n] {
						seenExp[n] = true
						exports = append(exports, n)
					}
				}
			}
		}
	}
	for _, r := range e.returned {
		for i, q := range outstanding {
			if q == r {
				outstanding = append(outstanding[:i], outstanding[i+1:]...)
				break
			}
		}
	}
	re := func(prefix byte, vals []int) {
		for {
			i := strings.IndexByte(op, prefix)
			if i < 0 {
				return
			}
			j := i + 1
			for j < len(op) && op[j] >= '0' && op[j] <= '9' {
				j++
			}
			k, _ := strconv.Atoi(op[i+1 : j])
			v := 77 // nothing to refer to: an id that does not exist
			if len(vals) > 0 {
				v = vals[k%len(vals)]
			}
			op = op[:i] + strconv.Itoa(v) + op[j:]
		}
	}
	re('Q', outstanding)
	re('X', exports)
	return op
}

func (e *rpcEnv) peerOp(op string) string {
	op = e.resolve(op)
	if len(op) > 2 && op[1] == 'R' {
		f := strings.Split(op[2:], ":")
		if n, err := strconv.Atoi(f[0]); err == nil {
			e.mu.Lock()
			e.returned = append(e.returned, n)
			e.mu.Unlock()
		}
	}
	if strings.HasPrefix(op, "pHcorrupt:") {
		return e.peerCorrupt(op)
	}
	msg, res := peerBuild(op)
	if msg == nil {
		return res
	}
	e.peerSend(msg)
	return "-"
}

func peerBuild(op string) (*capnp.Message, string) {
	f := strings.Split(op[2:], ":")
	atoi := func(s string) int { n, _ := strconv.Atoi(s); return n }
	msg, m := newPeerMsg()
	switch op[1] {
	case 'B':
		b, _ := m.NewBootstrap()
		b.SetQuestionId(uint32(atoi(f[0])))
	case 'C':
		if len(f) < 3 {
			return nil, "bad-op"
		}
		c, _ := m.NewCall()
		c.SetQuestionId(uint32(atoi(f[0])))
		c.SetInterfaceId(rpcIface)
		c.SetMethodId(uint16(atoi(f[2])))
		t, _ := c.NewTarget()
		fillTarget(t, f[1])
		p, _ := c.NewParams()
		caps := ""
		if len(f) > 3 {
			caps = f[3]
		}
		fillPayload(p, uint64(atoi(f[0])), caps)
	case 'R':
		if len(f) < 2 {
			return nil, "bad-op"
		}
		r, _ := m.NewReturn()
		r.SetAnswerId(uint32(atoi(f[0])))
		if f[1] == "exc" {
			ex, _ := r.NewException()
			ex.SetReason("peerfail")
		} else if f[1] == "boot" {
			// what a Bootstrap is answered with: the content is the capability itself
			p, _ := r.NewResults()
			p.SetContent(capnp.NewInterface(p.Segment(), 0).ToPtr())
			if len(f) > 2 {
				fillCaps(p, f[2])
			}
		} else {
			p, _ := r.NewResults()
			caps := ""
			if len(f) > 2 {
				caps = f[2]
			}
			fillPayload(p, uint64(atoi(f[0]))+100, caps)
		}
	case 'F':
		if len(f) < 2 {
			return nil, "bad-op"
		}
		fin, _ := m.NewFinish()
		fin.SetQuestionId(uint32(atoi(f[0])))
		fin.SetReleaseResultCaps(f[1] == "1")
	case 'L':
		if len(f) < 2 {
			return nil, "bad-op"
		}
		r, _ := m.NewRelease()
		r.SetId(uint32(atoi(f[0])))
		r.SetReferenceCount(uint32(atoi(f[1])))
	case 'D':
		if len(f) < 2 || len(f[0]) < 2 {
			return nil, "bad-op"
		}
		d, _ := m.NewDisembargo()
		t, _ := d.NewTarget()
		fillTarget(t, f[1])
		if f[0][0] == 's' {
			d.Context().SetSenderLoopback(uint32(atoi(f[0][1:])))
		} else {
			d.Context().SetReceiverLoopback(uint32(atoi(f[0][1:])))
		}
	case 'U':
		u, _ := m.NewUnimplemented()
		u.NewBootstrap()
	case 'J':
		m.NewJoin()
	case 'H':
		hostileMessage(m, f)
	default:
		return nil, "bad-op"
	}
	return msg, "-"
}

// peerCorrupt: "pHcorrupt:<word>:<value>:<op with / for :>": a well-formed message with one word overwritten
func (e *rpcEnv) peerCorrupt(op string) string {
	f := strings.SplitN(op, ":", 4)
	if len(f) != 4 {
		return "bad-op"
	}
	w, _ := strconv.Atoi(f[1])
	v, _ := strconv.Atoi(f[2])
	msg, res := peerBuild(strings.ReplaceAll(f[3], "/", ":"))
	if msg == nil {
		return res
	}
	b, err := msg.Marshal()
	if err != nil {
		return "bad-op"
	}
	words := (len(b) - 8) / 8
	if words <= 0 {
		return "bad-op"
	}
	off := 8 + 8*(w%words)
	hw := hostileWords[v%len(hostileWords)]
	for i := 0; i < 8; i++ {
		b[off+i] = byte(hw >> (8 * i))
	}
	select {
	case e.t.in <- b:
	case <-e.t.closed:
	case <-time.After(2 * time.Second):
		e.ev("recv-stalled")
	}
	return "-"
}

// boundary values for a pointer / data word
var hostileWords = []uint64{
	0, 1, 2, 3, 0xffffffffffffffff, 0x7fffffff00000000, 0xfffffffc, 0x7ffffffc, 0x00010001fffffffc, 0x0000000100000000,
	0xffff000000000000, 0x0000ffff00000000, 0x00000001fffffffd, 0x00000007fffffffd, 0xfffffff800000002, 0x00000000fffffffe,
	0x0000000000000006, 0xffffffff00000003, 0x0001000000000004, 0x8000000000000000,
}

// hostileMessage builds messages a conforming peer would never send.
func hostileMessage(m rpccp.Message, f []string) {
	atoi := func(s string) int { n, _ := strconv.Atoi(s); return n }
	arg := func(i int) int {
		if i < len(f) {
			return atoi(f[i])
		}
		return 0
	}
	switch f[0] {
	case "which": // unknown top-level union member
		m.NewBootstrap()
		m.Struct.SetUint16(0, uint16(100+arg(1)))
	case "calltgt": // Call whose target union member is unknown
		c, _ := m.NewCall()
		c.SetQuestionId(uint32(arg(1)))
		t, _ := c.NewTarget()
		t.Struct.SetUint16(4, 9)
		p, _ := c.NewParams()
		fillPayload(p, 1, "")
	case "callnoparams": // Call without params / target pointers
		c, _ := m.NewCall()
		c.SetQuestionId(uint32(arg(1)))
	case "callyourself": // sendResultsTo = yourself
		c, _ := m.NewCall()
		c.SetQuestionId(uint32(arg(1)))
		c.SetInterfaceId(rpcIface)
		t, _ := c.NewTarget()
		t.SetImportedCap(0)
		p, _ := c.NewParams()
		fillPayload(p, 1, "")
		c.SendResultsTo().SetYourself()
	case "callop": // promisedAnswer transform with an unknown op
		c, _ := m.NewCall()
		c.SetQuestionId(uint32(arg(1)))
		c.SetInterfaceId(rpcIface)
		t, _ := c.NewTarget()
		pa, _ := t.NewPromisedAnswer()
		pa.SetQuestionId(uint32(arg(2)))
		ops, _ := pa.NewTransform(1)
		ops.At(0).Struct.SetUint16(0, 7)
		p, _ := c.NewParams()
		fillPayload(p, 1, "")
	case "retwhich": // Return with an unknown union member
		r, _ := m.NewReturn()
		r.SetAnswerId(uint32(arg(1)))
		r.Struct.SetUint16(6, 17)
	case "rettake": // Return.takeFromOtherQuestion (not implemented)
		r, _ := m.NewReturn()
		r.SetAnswerId(uint32(arg(1)))
		r.SetTakeFromOtherQuestion(uint32(arg(2)))
	case "disprovide": // Disembargo with context = provide
		d, _ := m.NewDisembargo()
		t, _ := d.NewTarget()
		t.SetImportedCap(0)
		d.Context().SetProvide(uint32(arg(1)))
	case "nullptr": // the union says call / return / finish / …, the member's pointer is null
		m.NewBootstrap()
		m.Struct.SetPtr(0, capnp.Ptr{})
		m.Struct.SetUint16(0, uint16(arg(1)))
	case "abort":
		a, _ := m.NewAbort()
		a.SetReason("peer abort")
	case "empty": // a message whose root pointer is null
		m.Struct.Message().SetRoot(capnp.Ptr{})
	}
}

// ---- the script ----

func classifyRPCErr(err error) string {
	if err == nil {
		return "ok"
	}
	s := err.Error()
	switch {
	case strings.Contains(s, "peerfail"):
		return "exc"
	case strings.Contains(s, "appfail"):
		return "appexc"
	case strings.Contains(s, "context canceled"):
		return "canceled"
	case strings.Contains(s, "connection closed") || strings.Contains(s, "closed import"):
		return "disconnected"
	case strings.Contains(s, "injected"):
		return "fault"
	case strings.Contains(s, "called on null") || strings.Contains(s, "null client"):
		return "null"
	}
	return "err"
}

func (lc *localCall) setAns(a *capnp.Answer, r capnp.ReleaseFunc) {
	lc.amu.Lock()
	lc.ans, lc.rel = a, r
	lc.amu.Unlock()
}

func (lc *localCall) getAns() *capnp.Answer {
	lc.amu.Lock()
	defer lc.amu.Unlock()
	return lc.ans
}

func (lc *localCall) getRel() capnp.ReleaseFunc {
	lc.amu.Lock()
	defer lc.amu.Unlock()
	return lc.rel
}

// takeRel: the release function, once; afterwards the call counts as released (no pipelining on it, no handles from it)
func (lc *localCall) takeRel() capnp.ReleaseFunc {
	lc.amu.Lock()
	defer lc.amu.Unlock()
	r := lc.rel
	lc.rel, lc.ans, lc.released = nil, nil, true
	return r
}

func (lc *localCall) isReleased() bool {
	lc.amu.Lock()
	defer lc.amu.Unlock()
	return lc.released
}

// stallChan: the channel stalled operations wait on (created on demand); nil when the op does not stall
func (e *rpcEnv) stallChan(want bool) chan struct{} {
	if !want {
		return nil
	}
	e.mu.Lock()
	defer e.mu.Unlock()
	if e.stall == nil {
		e.stall = make(chan struct{})
	}
	return e.stall
}

func (e *rpcEnv) unstall() {
	e.mu.Lock()
	if e.stall != nil {
		close(e.stall)
		e.stall = nil
	}
	e.mu.Unlock()
}

func (e *rpcEnv) watch(lc *localCall) {
	go func() {
		st, err := lc.getAns().Struct()
		r := classifyRPCErr(err)
		if err == nil {
			lc.result = st
			if st.IsValid() && st.Size().DataSize >= 8 {
				r = "ok.t" + strconv.FormatUint(st.Uint64(0), 10)
			}
		}
		if old, _ := lc.res.Load().(string); old != "" {
			e.ev("!resolved-twice c" + strconv.Itoa(lc.id))
		}
		lc.res.Store(r)
		e.ev("=c" + strconv.Itoa(lc.id) + "~" + r)
	}()
}

func (e *rpcEnv) localOp(op string) string {
	f := strings.Split(op[2:], ":")
	atoi := func(s string) int { n, _ := strconv.Atoi(s); return n }
	deadline := func(fn func()) bool {
		ch := make(chan struct{})
		go func() { fn(); close(ch) }()
		select {
		case <-ch:
			return true
		case <-time.After(3 * time.Second):
			return false
		}
	}
	switch op[1] {
	case 'B':
		var c *capnp.Client
		if !deadline(func() { c = e.conn.Bootstrap(context.Background()) }) {
			return "blocked"
		}
		e.handles = append(e.handles, c)
		return "h" + strconv.Itoa(len(e.handles)-1)
	case 'C', 'A', 'S':
		// C: call; A: the same, not waiting for SendCall to return; S: asynchronous, and PlaceArgs stalls until fG
		if len(f) < 2 || atoi(f[0]) >= len(e.handles) || e.handles[atoi(f[0])] == nil {
			return "skip"
		}
		h := e.handles[atoi(f[0])]
		async := op[1] != 'C'
		stall := e.stallChan(op[1] == 'S')
		var pass *capnp.Client
		steal, placed := false, false
		if len(f) > 2 && len(f[2]) > 1 {
			n := atoi(f[2][1:])
			switch f[2][0] {
			case 'k':
				e.mu.Lock()
				if n < len(e.caps) {
					pass = e.caps[n].client
				}
				e.mu.Unlock()
			case 'h':
				if n < len(e.handles) {
					pass = e.handles[n]
				}
			case 'K':
				// a new proxy capability that owns handle n and releases it in its Shutdown; the call's parameters get
				// the only reference to the proxy
				if n < len(e.handles) && e.handles[n] != nil && n != atoi(f[0]) {
					owned := e.handles[n]
					e.handles[n] = nil
					a := e.newCap()
					a.onShutdown = func() { owned.Release() }
					pass = a.client
					steal = true
				}
			}
			if pass == nil || !pass.IsValid() {
				return "skip" // (a capability whose only reference went away with a result cannot be passed any more)
			}
		}
		id := len(e.lcalls)
		ctx, cancel := context.WithCancel(context.Background())
		lc := &localCall{id: id, cancel: cancel}
		e.lcalls = append(e.lcalls, lc)
		run := func() {
			ans, rel := h.SendCall(ctx, capnp.Send{
				Method:   capnp.Method{InterfaceID: rpcIface, MethodID: uint16(atoi(f[1]))},
				ArgsSize: capnp.ObjectSize{DataSize: 8, PointerCount: 2},
				PlaceArgs: func(s capnp.Struct) error {
					if stall != nil {
						select {
						case <-stall:
						case <-time.After(10 * time.Second):
						}
					}
					s.SetUint64(0, uint64(id)+1000)
					if pass != nil {
						ref := pass
						if !steal {
							ref = pass.AddRef()
						}
						placed = true
						in := capnp.NewInterface(s.Segment(), s.Message().AddCap(ref))
						return s.SetPtr(0, in.ToPtr())
					}
					return nil
				},
			})
			if steal && !placed {
				pass.Release() // the call was refused before its parameters were built
			}
			lc.setAns(ans, rel)
			e.watch(lc)
		}
		if async {
			go run()
			return "c" + strconv.Itoa(id)
		}
		if !deadline(run) {
			return "blocked"
		}
		return "c" + strconv.Itoa(id)
	case 'P', 'Q':
		// P: pipelined call; Q: asynchronous, PlaceArgs stalls until fG
		if len(f) < 3 || atoi(f[0]) >= len(e.lcalls) || e.lcalls[atoi(f[0])].getAns() == nil {
			return "skip"
		}
		base := e.lcalls[atoi(f[0])]
		stall := e.stallChan(op[1] == 'Q')
		id := len(e.lcalls)
		ctx, cancel := context.WithCancel(context.Background())
		lc := &localCall{id: id, cancel: cancel}
		e.lcalls = append(e.lcalls, lc)
		run := func() {
			ans, rel := base.getAns().PipelineSend(ctx, []capnp.PipelineOp{{Field: uint16(atoi(f[1]))}}, capnp.Send{
				Method:   capnp.Method{InterfaceID: rpcIface, MethodID: uint16(atoi(f[2]))},
				ArgsSize: capnp.ObjectSize{DataSize: 8, PointerCount: 2},
				PlaceArgs: func(s capnp.Struct) error {
					if stall != nil {
						select {
						case <-stall:
						case <-time.After(10 * time.Second):
						}
					}
					s.SetUint64(0, uint64(id)+1000)
					return nil
				},
			})
			lc.setAns(ans, rel)
			e.watch(lc)
		}
		if stall != nil {
			go run()
			return "c" + strconv.Itoa(id)
		}
		if !deadline(run) {
			return "blocked"
		}
		return "c" + strconv.Itoa(id)
	case 'H':
		if len(f) < 2 || atoi(f[0]) >= len(e.lcalls) {
			return "skip"
		}
		lc := e.lcalls[atoi(f[0])]
		if r, _ := lc.res.Load().(string); !strings.HasPrefix(r, "ok") || !lc.result.IsValid() || lc.isReleased() {
			return "skip"
		}
		p, err := lc.result.Ptr(uint16(atoi(f[1])))
		if err != nil || !p.Interface().IsValid() {
			return "skip"
		}
		hc := p.Interface().Client().AddRef()
		if hc == nil {
			hc = new(capnp.Client) // a null capability: the handle exists (a nil entry would mean "released" here)
		}
		e.handles = append(e.handles, hc)
		return "h" + strconv.Itoa(len(e.handles)-1)
	case 'R', 'r':
		n := atoi(f[0])
		if n >= len(e.handles) || e.handles[n] == nil {
			return "skip"
		}
		h := e.handles[n]
		e.handles[n] = nil
		if op[1] == 'r' {
			go h.Release() // may have to wait for a call in flight
			return "-"
		}
		if !deadline(func() { h.Release() }) {
			return "blocked"
		}
		return "-"
	case 'X':
		n := atoi(f[0])
		if n >= len(e.lcalls) {
			return "skip"
		}
		e.lcalls[n].cancel()
		return "-"
	case 'Y':
		// the application is done with the results of a finished local call
		n := atoi(f[0])
		if n >= len(e.lcalls) {
			return "skip"
		}
		lc := e.lcalls[n]
		if r, _ := lc.res.Load().(string); r == "" || lc.isReleased() {
			return "skip"
		}
		rel := lc.takeRel()
		if rel == nil {
			return "skip"
		}
		if !deadline(func() { rel() }) {
			return "blocked"
		}
		return "-"
	case 'Z':
		var err error
		if !deadline(func() { err = e.conn.Close() }) {
			return "blocked"
		}
		// whatever Close returned, the connection is finished now
		select {
		case <-e.conn.Done():
		case <-time.After(time.Second):
			e.ev("!Done-not-closed-after-Close")
		}
		if err != nil {
			return "err"
		}
		return "-"
	}
	return "bad-op"
}

// tables: the Conn's own tables (verif hook): T[exports id=wireRefs|imports id=wireRefs|answer ids|L<sender lock held>]
func (e *rpcEnv) tables() string {
	s := rpc.VerifSnapshot(e.conn)
	var ex, im, an []string
	var ids []int
	for id := range s.Exports {
		ids = append(ids, int(id))
	}
	sort.Ints(ids)
	for _, id := range ids {
		ex = append(ex, fmt.Sprintf("e%d=%d", id, s.Exports[uint32(id)]))
	}
	ids = ids[:0]
	for id := range s.Imports {
		ids = append(ids, int(id))
	}
	sort.Ints(ids)
	for _, id := range ids {
		im = append(im, fmt.Sprintf("i%d=%d", id, s.Imports[uint32(id)]))
	}
	for _, id := range s.Answers {
		an = append(an, "a"+strconv.Itoa(int(id)))
	}
	l := "L0"
	if s.SenderLocked {
		l = "L1"
	}
	return "T[" + strings.Join(ex, ",") + "|" + strings.Join(im, ",") + "|" + strings.Join(an, ",") + "|" + l + "]"
}

func (e *rpcEnv) flush() string {
	e.mu.Lock()
	evs := e.events
	e.events = nil
	e.mu.Unlock()
	var wire, deliv, rest []string
	for _, s := range evs {
		switch s[0] {
		case '>':
			wire = append(wire, s)
		case '@':
			deliv = append(deliv, s)
		default:
			rest = append(rest, s)
		}
	}
	// a Return for a call cancelled by the connection's own shutdown races the abort: it may or may not get out
	aborting := false
	for _, w := range wire {
		if w == ">Abort" {
			aborting = true
		}
	}
	if aborting {
		kept := wire[:0]
		for _, w := range wire {
			if !(strings.HasPrefix(w, ">Ret(") && strings.HasSuffix(w, ",exc)")) {
				kept = append(kept, w)
			}
		}
		wire = kept
	}
	if !e.rawOrder {
		sort.Strings(wire)
	}
	sort.Strings(rest)
	return strings.Join(append(append(append(wire, deliv...), rest...), e.tables()), " ")
}

func (e *rpcEnv) settle() string {
	need := settleWindow()
	count := func() int {
		e.mu.Lock()
		defer e.mu.Unlock()
		return len(e.events)
	}
	last, same := count(), 0
	for i := 0; i < 8000 && same < need; i++ {
		time.Sleep(250 * time.Microsecond)
		if n := count(); n == last {
			same++
		} else {
			same, last = 0, n
		}
	}
	return e.flush()
}

// rpcRawOrder: the next script reports the messages of a step in the order they were sent (for the oracles) instead of
// sorted (the canonical form compared with the model)
var rpcRawOrder bool

func execRPCScript(script string, bootstrap bool) string {
	rpcQueueSize = 64
	if strings.HasPrefix(script, "q") {
		if i := strings.Index(script, ","); i > 0 {
			if n, err := strconv.Atoi(script[1:i]); err == nil && n > 0 {
				rpcQueueSize = n
				script = script[i+1:]
			}
		}
	}
	e := &rpcEnv{rawOrder: rpcRawOrder}
	e.t = &scriptTransport{env: e, in: make(chan []byte), closed: make(chan struct{})}
	before := runtime.NumGoroutine()
	var opts rpc.Options
	if bootstrap {
		opts.BootstrapClient = e.newCap().client
	}
	opts.ErrorReporter = nil
	opts.AbortTimeout = 50 * time.Millisecond
	e.conn = rpc.NewConn(e.t, &opts)
	go func() {
		<-e.conn.Done()
		e.ev("#done")
	}()
	var out []string
	closed := false
	for _, op := range strings.Split(script, ",") {
		if len(op) < 2 {
			out = append(out, op+":bad-op:")
			continue
		}
		res := "-"
		if op[0] == 'p' {
			op = e.resolve(op) // the trace shows the ids actually used
		}
		switch op[0] {
		case 'p':
			res = e.peerOp(op)
		case 'l':
			res = e.localOp(op)
			if op[1] == 'Z' {
				closed = true
			}
		case 'a':
			f := strings.Split(op[2:], ":")
			k, _ := strconv.Atoi(f[0])
			e.mu.Lock()
			var h *heldCall
			if k < len(e.held) {
				h = e.held[k]
			}
			e.mu.Unlock()
			if h == nil || len(f) < 2 {
				res = "skip"
				break
			}
			select {
			case h.cmd <- f[1]:
			default:
				res = "skip"
			}
		case 'f':
			n, _ := strconv.Atoi(op[2:])
			e.t.mu.Lock()
			switch op[1] {
			case 'N':
				e.t.failNew = n
			case 'S':
				e.t.failSend = n
			case 'V':
				e.t.failRecv = true
			case 'H':
				e.t.holdNext = true // the release of the next received message waits for fG
			case 'W':
				e.t.holdSend = true // the next send waits for fG
			case 'C':
				e.t.failClose = true // the transport's Close will report an error
			}
			e.t.mu.Unlock()
			if op[1] == 'G' {
				e.unstall()
				e.t.unhold()
			}
			if op[1] == 'V' {
				// wake the receive loop so that it runs into the fault
				select {
				case e.t.in <- nil:
				case <-time.After(time.Second):
				}
			}
		default:
			res = "bad-op"
		}
		out = append(out, op+":"+res+":"+e.settle())
		if res == "blocked" {
			break
		}
	}
	// wind down: everything must terminate and every local capability must be released exactly once
	tail := ""
	fin := make(chan struct{})
	go func() {
		e.unstall()
		e.t.unhold()
		for _, lc := range e.lcalls {
			lc.cancel()
		}
		e.mu.Lock()
		held := e.held
		e.mu.Unlock()
		for _, h := range held {
			select {
			case h.cmd <- "exc":
			default:
			}
		}
		if !closed {
			e.conn.Close()
			select {
			case <-e.conn.Done():
			case <-time.After(time.Second):
				e.ev("!Done-not-closed-after-Close")
			}
		}
		for i, h := range e.handles {
			if h != nil {
				h.Release()
				e.handles[i] = nil
			}
		}
		for _, lc := range e.lcalls {
			if rel := lc.getRel(); rel != nil {
				rel()
			}
		}
		close(fin)
	}()
	select {
	case <-fin:
	case <-time.After(5 * time.Second):
		tail = " !wind-down-blocked"
	}
	rest := e.settle()
	// the harness's own references
	e.mu.Lock()
	caps := append([]*appCap(nil), e.caps...)
	e.mu.Unlock()
	for _, a := range caps {
		a.client.Release()
	}
	e.settle()
	for _, lc := range e.lcalls {
		if r, _ := lc.res.Load().(string); r == "" {
			tail += fmt.Sprintf(" !local-call-c%d-never-resolved", lc.id)
		}
	}
	for _, a := range caps {
		if n := atomic.LoadInt32(&a.shutdowns); n != 1 {
			tail += fmt.Sprintf(" !k%d-shutdown-%d-times", a.id, n)
		}
	}
	for i := 0; i < 400 && runtime.NumGoroutine() > before+1; i++ {
		time.Sleep(time.Millisecond)
	}
	if n := runtime.NumGoroutine(); n > before+1 {
		tail += fmt.Sprintf(" !goroutines-leaked-%d", n-before-1)
	}
	if n := atomic.LoadInt32(&e.t.closes); n != 1 {
		tail += fmt.Sprintf(" !transport-closed-%d-times", n)
	}
	_ = rest
	out = append(out, "end::"+strings.TrimSpace(filterEnd(rest)+tail))
	return strings.Join(out, ";")
}

// filterEnd keeps from the wind-down only what an oracle can judge: markers.
func filterEnd(s string) string {
	var keep []string
	for _, w := range strings.Fields(s) {
		if strings.HasPrefix(w, "!") {
			keep = append(keep, w)
		}
	}
	return strings.Join(keep, " ")
}

func execRPC(f []string) string {
	switch f[0] {
	case "script":
		if len(f) != 3 {
			return "bad-op"
		}
		return execRPCScript(f[2], f[1] == "1")
	case "check":
		if len(f) != 3 {
			return "bad-op"
		}
		return execRPCCheck(f[1] == "1", f[2])
	case "stream":
		if len(f) != 4 {
			return "bad-op"
		}
		n, _ := strconv.Atoi(f[2])
		plan := f[3]
		if plan == "-" {
			plan = ""
		}
		return execRPCStream(f[1] == "1", n, plan, false)
	case "streampre":
		// as "stream", but every message is created before the first one is sent: a message created while the stream
		// was healthy must not be written once it is broken
		if len(f) != 4 {
			return "bad-op"
		}
		n, _ := strconv.Atoi(f[2])
		plan := f[3]
		if plan == "-" {
			plan = ""
		}
		return execRPCStream(f[1] == "1", n, plan, true)
	}
	return "bad-op"
}

// ---- generators ----

// outboundScript: the local side drives the Conn (Bootstrap, calls on handles, pipelined calls, handles taken from
// results, releases of handles and results, cancellation, Close) and the peer answers with Returns carrying
// senderHosted / senderPromise / null / unknown descriptors.  Only ops inside Model.RpcQ's domain (M stream):
// no incoming calls, no descriptors naming the Conn's own exports.
func outboundScript(r *lib.Rng, n int) string {
	var ops []string
	handles, lcalls := 0, 0
	add := func(s string) { ops = append(ops, s) }
	add("lB")
	handles++
	for i := 1; i < n; i++ {
		switch t := r.Intn(100); {
		case t < 8:
			add("lB")
			handles++
		case t < 32:
			add("lC" + strconv.Itoa(r.Intn(handles)) + ":" + strconv.Itoa(r.Pick(0, 0, 2, 3)))
			lcalls++
		case t < 42:
			if lcalls > 0 {
				add("lP" + strconv.Itoa(r.Intn(lcalls)) + ":" + strconv.Itoa(r.Pick(0, 0, 0, 1)) + ":" + strconv.Itoa(r.Pick(0, 2)))
				lcalls++
			}
		case t < 50:
			if lcalls > 0 {
				add("lH" + strconv.Itoa(r.Intn(lcalls)) + ":" + strconv.Itoa(r.Pick(0, 0, 0, 1)))
				handles++ // (possibly skipped: then later ops on the missing handle are skipped on both sides)
			}
		case t < 60:
			add("lR" + strconv.Itoa(r.Intn(handles)))
		case t < 65:
			if lcalls > 0 {
				add("lX" + strconv.Itoa(r.Intn(lcalls)))
			}
		case t < 73:
			if lcalls > 0 {
				add("lY" + strconv.Itoa(r.Intn(lcalls)))
			}
		case t < 98:
			tgt := "Q" + strconv.Itoa(r.Pick(0, 0, 0, 1, 2))
			if r.Intn(12) == 0 {
				tgt = strconv.Itoa(r.Intn(5)) // maybe a question that does not exist (the connection aborts), or a cancelled one
			}
			kind := r.PickS("boot:s1", "boot:s1", "boot:s2", "boot:m3", "boot:n", "boot:x1", "ok", "ok", "ok:s1", "ok:s2", "ok:s1+s1", "ok:s2+s1",
				"ok:n", "ok:x1", "ok:s1+n+m3", "ok:m3", "exc", "exc")
			add("pR" + tgt + ":" + kind)
		default:
			add("lZ")
		}
	}
	return strings.Join(ops, ",")
}

// inboundScript: the peer drives the Conn (Bootstrap, Calls on exports and promised answers, Finish, Release,
// application returns).  Only ops inside the Lean model's domain (M stream).
func inboundScript(r *lib.Rng, n int) string {
	var ops []string
	nextQ := 0
	var live []int    // answer ids in use (not finished)
	var heldCalls int // method-1 calls sent so far
	exports := 1
	ops = append(ops, "pB0")
	live = append(live, 0)
	nextQ = 1
	if r.Intn(6) == 0 {
		// directed: noop ops in the transform, on a returned and on an unreturned answer
		ops = append(ops, "pC1:e0:"+strconv.Itoa(r.Pick(1, 2)), "pC2:a1.n.0:0", "pC3:a1."+r.PickS("0.n", "n.n.0", "n.0.n")+":0")
		live = append(live, 1, 2, 3)
		nextQ = 4
		if ops[1] == "pC1:e0:1" {
			heldCalls = 1
			if r.Intn(2) == 0 {
				ops = append(ops, "aR0:cap")
				exports++
			}
		} else {
			exports++
		}
	} else if r.Intn(4) == 0 {
		// directed: calls pipelined on an unreturned answer through pointer fields beyond 255, then the big result
		ops = append(ops, "pC1:a0:1", "pC2:a1."+strconv.Itoa(r.Pick(300, 300, 44, 0))+":0", "pC3:a1."+strconv.Itoa(r.Pick(300, 44))+":"+strconv.Itoa(r.Pick(0, 1)))
		live = append(live, 1, 2, 3)
		nextQ = 4
		heldCalls = 1
		if r.Intn(2) == 0 {
			ops = append(ops, "aR0:"+r.PickS("big", "big", "twice", "cap"))
			exports += 2
		}
	}
	pickLive := func() int {
		if len(live) == 0 || r.Intn(8) == 0 {
			return r.Intn(nextQ + 1)
		}
		return live[r.Intn(len(live))]
	}
	for i := 0; i < n; i++ {
		switch t := r.Intn(20); {
		case t < 2:
			q := nextQ
			if r.Intn(6) == 0 && len(live) > 0 {
				q = live[r.Intn(len(live))] // id reuse: protocol violation
			} else {
				nextQ++
			}
			ops = append(ops, "pB"+strconv.Itoa(q))
			live = append(live, q)
		case t < 10:
			q := nextQ
			nextQ++
			if r.Intn(12) == 0 && len(live) > 0 {
				q = live[r.Intn(len(live))]
			}
			m := r.Pick(0, 0, 1, 1, 1, 2, 3, 4, 6, 7)
			tgt := ""
			if r.Intn(3) == 0 {
				tgt = "e" + strconv.Itoa(r.Intn(exports+1))
			} else {
				tgt = "a" + strconv.Itoa(pickLive())
				if r.Intn(3) > 0 {
					if r.Intn(5) == 0 {
						tgt += ".n" // a noop op: the transform is the same without it
					}
					tgt += "." + strconv.Itoa(r.Pick(0, 0, 0, 1, 1, 300, 300, 44))
					if r.Intn(8) == 0 {
						tgt += ".n"
					}
				} else if r.Intn(8) == 0 {
					tgt += ".n"
				}
			}
			op := "pC" + strconv.Itoa(q) + ":" + tgt + ":" + strconv.Itoa(m)
			if r.Intn(5) == 0 {
				op += ":" + r.PickS("s3", "s3+s4", "n", "m5", "r0", "r9", "x1", "s3+r0")
			}
			ops = append(ops, op)
			live = append(live, q)
			if m == 1 {
				heldCalls++
			}
			if m == 2 || m == 4 || m == 6 || m == 7 {
				exports++
			}
		case t < 13:
			if heldCalls == 0 {
				continue
			}
			ops = append(ops, "aR"+strconv.Itoa(r.Intn(heldCalls))+":"+r.PickS("ok", "exc", "cap", "same", "big", "big", "twice"))
			exports++
		case t < 17:
			q := pickLive()
			ops = append(ops, "pF"+strconv.Itoa(q)+":"+strconv.Itoa(r.Intn(2)))
			for j, x := range live {
				if x == q {
					live = append(live[:j], live[j+1:]...)
					break
				}
			}
		case t < 19:
			ops = append(ops, "pL"+strconv.Itoa(r.Intn(exports+1))+":"+strconv.Itoa(r.Pick(1, 1, 1, 2, 3)))
		default:
			if r.Intn(4) == 0 {
				ops = append(ops, "lZ")
			}
		}
	}
	return strings.Join(ops, ",")
}

func genC06(rec *lib.Rec, r *lib.Rng, thorough bool) {
	n := 300
	if thorough {
		n = 8000
	}
	n /= Shards
	for i := 0; i < n; i++ {
		rec.Op("M", "rpc script "+strconv.Itoa(r.Pick(1, 1, 1, 0))+" "+inboundScript(r, 3+r.Intn(14)), true)
	}
	for i := 0; i < n; i++ {
		rec.Op("M", "rpcq script "+outboundScript(r, 3+r.Intn(18)), true)
	}
	for i := 0; i < n/3; i++ {
		rec.Op("M", "embargo sched "+embargoSchedule(r, 3+r.Intn(12)), true)
	}
	genRPCCheck(rec, r, n/2, false, false)
}

// ---- oracles over a whole script (S stream): "rpc check <boot> <script>" ----

func rpcOracles(trace string) []string {
	var bad []string
	note := func(s string) {
		for _, b := range bad {
			if b == s {
				return
			}
		}
		bad = append(bad, s)
	}
	outstandingAns := map[int]int{} // answer id -> calls the script sent and the Conn has not answered
	inUseQ := map[int]bool{}        // question ids of the Conn between its Boot/Call and its Finish
	impRefs := map[int]int{}        // import id -> descriptors the script sent since the last Release
	uncertain := map[int]bool{}
	embargoed := map[int]bool{}   // embargoes the Conn announced (Disembargo senderLoopback) and the script has not lifted yet
	relQ := map[int]bool{}        // questions whose Finish (releaseResultCaps) went out before their Return: the peer drops those caps itself
	sentOrder := map[string]int{} // tag -> position at which it was sent (script calls and local calls)
	lastDeliv := map[string]int{} // cap -> position of the last tag delivered to it
	pos := 0
	aborted := false
	closedByScript := false
	connDone := false // the Conn's shutdown has completed
	// export references computed from the wire: descriptors sent minus references the script gave back
	expRefs := map[int]int{}
	retRefs := map[int]map[int]int{} // answer id -> export id -> references its Return carried
	finRel := map[int]bool{}         // answer ids finished with releaseResultCaps before their Return
	finished := map[int]bool{}
	cancels := strings.Contains(trace, "lX") || strings.Contains(trace, "lZ")
	stalls := strings.Contains(trace, "fH") || strings.Contains(trace, "fW") || strings.Contains(trace, "lS") || strings.Contains(trace, "lQ")
	// hostile and fault ops make the counts uncertain: the table comparison is only made on clean histories
	// a message the transport refused may have been a Release: the counts of later ones then cover it
	sendFaults := false
	for _, k := range []string{"fN", "fS", "fV"} {
		sendFaults = sendFaults || strings.Contains(trace, ";"+k) || strings.HasPrefix(trace, k)
	}
	// (a held send or a held release of a received message — fW / fH … fG — is not a fault: while it lasts the wire log
	// lags behind the tables, so the comparison waits for fG)
	dirty := strings.Contains(trace, "pH") || sendFaults ||
		strings.Contains(trace, "pU") || strings.Contains(trace, "pJ") || strings.Contains(trace, "pD")
	holding := false // between fW / fH / lS / lQ and fG
	dirtySoFar := false
	corruptSeen := false                                // a pHcorrupt op has been executed
	peerFinished := map[string]bool{}                   // answer ids the peer has sent a Finish for since it last used them
	recvTotal, relTotal := map[int]int{}, map[int]int{} // descriptors received / references given back per import id, over the whole history
	lastImports := ""
	for _, step := range strings.Split(trace, ";") {
		f := strings.SplitN(step, ":", 2)
		if len(f) < 2 {
			continue
		}
		i := strings.LastIndex(step, ":")
		op, res, evs := f[0], "", step[i+1:]
		rest := step[len(op)+1 : i]
		if j := strings.LastIndex(rest, ":"); j >= 0 {
			res = rest[j+1:]
			op = op + ":" + rest[:j]
		} else {
			res = rest
		}
		if strings.HasPrefix(op, "pDr") {
			var id int
			fmt.Sscanf(op, "pDr%d", &id)
			delete(embargoed, id)
		}
		if strings.HasPrefix(op, "pHcorrupt") {
			corruptSeen = true
		}
		// (the counts are exact up to the first hostile / fault / unimplemented op of the history)
		for _, k := range []string{"pH", "pU", "pJ", "pD", "fN", "fS", "fV"} {
			if strings.HasPrefix(op, k) {
				dirtySoFar = true
			}
		}
		if strings.HasPrefix(op, "fW") || strings.HasPrefix(op, "fH") || strings.HasPrefix(op, "lS") || strings.HasPrefix(op, "lQ") {
			holding = true
		}
		if strings.HasPrefix(op, "fG") {
			holding = false
		}
		if res == "blocked" && !(len(embargoed) > 0 && !connDone && (strings.HasPrefix(op, "lC") || strings.HasPrefix(op, "lP"))) {
			// (a call on an embargoed capability waits, inside SendCall, for the peer's Disembargo: that is the protocol;
			// once the connection has shut down every embargo is lifted and nothing may wait any more)
			note("!blocked:" + op)
		}
		if strings.Contains(evs, "#done") {
			connDone = true
		}
		pos++
		// what the script sent
		if strings.HasPrefix(op, "pB") || strings.HasPrefix(op, "pC") {
			g := strings.Split(op[2:], ":")
			if q, err := strconv.Atoi(g[0]); err == nil && !aborted {
				outstandingAns[q]++
				// (the embargo choreographies reflect a local call under its own tag: the first position counts — except
				// for an id the peer uses again after its Finish, which names a new call)
				if _, ok := sentOrder["t"+g[0]]; !ok || peerFinished[g[0]] {
					sentOrder["t"+g[0]] = pos
				}
				delete(peerFinished, g[0])
			}
			if len(g) > 3 {
				for _, d := range strings.Split(g[3], "+") {
					if len(d) > 1 && (d[0] == 's' || d[0] == 'm') {
						n, _ := strconv.Atoi(d[1:])
						impRefs[n]++
						recvTotal[n]++
					}
				}
			}
		}
		if strings.HasPrefix(op, "lZ") {
			closedByScript = true
		}
		if (strings.HasPrefix(op, "pB") || strings.HasPrefix(op, "pC")) && !aborted {
			g := strings.Split(op[2:], ":")
			if q, err := strconv.Atoi(g[0]); err == nil {
				delete(finRel, q)
				delete(finished, q)
				delete(retRefs, q)
			}
		}
		if strings.HasPrefix(op, "pF") {
			peerFinished[strings.Split(op[2:], ":")[0]] = true
		}
		if strings.HasPrefix(op, "pF") && !aborted {
			g := strings.Split(op[2:], ":")
			if q, err := strconv.Atoi(g[0]); err == nil && len(g) > 1 && !finished[q] {
				finished[q] = true
				if g[1] == "1" {
					if rr, ok := retRefs[q]; ok {
						for id, n := range rr {
							expRefs[id] -= n
						}
					} else {
						finRel[q] = true
					}
				}
			}
		}
		if strings.HasPrefix(op, "pL") && !aborted {
			g := strings.Split(op[2:], ":")
			id, err1 := strconv.Atoi(g[0])
			if len(g) > 1 && err1 == nil {
				n, _ := strconv.Atoi(g[1])
				if n <= expRefs[id] {
					expRefs[id] -= n
				}
			}
		}
		if strings.HasPrefix(op, "pHcall") {
			g := strings.Split(op, ":")
			if len(g) > 1 {
				if q, err := strconv.Atoi(g[1]); err == nil {
					outstandingAns[q]++
				}
			}
		}
		if strings.HasPrefix(op, "pHnullptr:") {
			outstandingAns[0]++ // a null Bootstrap / Call is the default value: question id 0
		}
		if strings.HasPrefix(op, "pHcorrupt:") {
			g := strings.SplitN(op, ":", 4)
			if len(g) == 4 && (strings.HasPrefix(g[3], "pC") || strings.HasPrefix(g[3], "pB")) {
				var q int
				fmt.Sscanf(g[3][2:], "%d", &q)
				outstandingAns[q]++
			}
			// descriptors of a corrupted message may or may not have been read: no count to compare with
			if len(g) == 4 {
				for _, d := range strings.FieldsFunc(g[3], func(c rune) bool { return c == '/' || c == '+' }) {
					if len(d) > 1 && (d[0] == 's' || d[0] == 'm') {
						if n, err := strconv.Atoi(d[1:]); err == nil {
							uncertain[n] = true
						}
					}
				}
			}
		}
		if strings.HasPrefix(op, "pR") {
			g := strings.Split(op[2:], ":")
			qid, _ := strconv.Atoi(g[0])
			if len(g) > 2 && !relQ[qid] {
				for _, d := range strings.Split(g[2], "+") {
					if len(d) > 1 && (d[0] == 's' || d[0] == 'm') {
						n, _ := strconv.Atoi(d[1:])
						impRefs[n]++
						recvTotal[n]++
					}
				}
			}
		}
		if strings.HasPrefix(op, "lC") || strings.HasPrefix(op, "lP") || strings.HasPrefix(op, "lA") || strings.HasPrefix(op, "lS") || strings.HasPrefix(op, "lQ") {
			if strings.HasPrefix(res, "c") {
				n, _ := strconv.Atoi(res[1:])
				sentOrder["t"+strconv.Itoa(n+1000)] = pos
			}
		}
		for _, ev := range strings.Fields(evs) {
			switch {
			case strings.HasPrefix(ev, "T["):
				parts := strings.Split(strings.TrimSuffix(ev[2:], "]"), "|")
				if len(parts) != 4 {
					break
				}
				lastImports = parts[1]
				if parts[3] == "L1" && !stalls {
					note("!sender-lock-held-at-quiescence")
				}
				if !aborted && !closedByScript {
					for _, kv := range strings.Split(parts[1], ",") {
						var id, n int
						if _, err := fmt.Sscanf(kv, "i%d=%d", &id, &n); err == nil && !uncertain[id] && !dirtySoFar && !stalls && n != impRefs[id] {
							note(fmt.Sprintf("!import-%d-wirerefs-%d-want-%d", id, n, impRefs[id]))
						}
					}
					if !dirtySoFar && !holding {
						got := map[int]int{}
						for _, kv := range strings.Split(parts[0], ",") {
							var id, n int
							if _, err := fmt.Sscanf(kv, "e%d=%d", &id, &n); err == nil {
								got[id] = n
							}
						}
						for id, n := range expRefs {
							if n > 0 && got[id] != n {
								note(fmt.Sprintf("!export-%d-wirerefs-%d-want-%d", id, got[id], n))
							}
						}
						for id, n := range got {
							if expRefs[id] != n {
								note(fmt.Sprintf("!export-%d-wirerefs-%d-want-%d", id, n, expRefs[id]))
							}
						}
					}
				}
			case strings.HasPrefix(ev, "!"):
				note(ev)
			case strings.HasPrefix(ev, "=c") && strings.HasSuffix(ev, "~disconnected"):
				// a call fails as "disconnected" only on a connection that is going down
				if !aborted && !connDone && !closedByScript && !sendFaults && !strings.Contains(evs, "#done") {
					note("!call-disconnected-on-live-connection:" + ev)
				}
			case ev == ">Abort":
				aborted = true
			case strings.HasPrefix(ev, ">Ret(") || strings.HasPrefix(ev, ">Call("):
				if i := strings.LastIndex(ev, ","); i >= 0 {
					var a int
					isRet := strings.HasPrefix(ev, ">Ret(")
					if isRet {
						fmt.Sscanf(ev, ">Ret(%d,", &a)
					}
					for _, d := range strings.Split(strings.TrimSuffix(ev[i+1:], ")"), "+") {
						if len(d) > 1 && d[0] == 's' {
							if id, err := strconv.Atoi(d[1:]); err == nil {
								if isRet && finRel[a] {
									continue // released as soon as it was sent
								}
								expRefs[id]++
								if isRet {
									if retRefs[a] == nil {
										retRefs[a] = map[int]int{}
									}
									retRefs[a][id]++
								}
							}
						}
					}
				}
				if !strings.HasPrefix(ev, ">Ret(") {
					var q int
					fmt.Sscanf(ev, ">Call(%d,", &q)
					relQ[q] = false
					// a call addressed to promisedAnswer(t) goes out before the Finish of question t
					var tq int
					// (not judged when the application cancels calls: cancelling a call while a call pipelined on it is still being
					// built sends the Finish first, and the pipelined call then fails at the peer — the application asked for that)
					if _, err := fmt.Sscanf(ev[strings.Index(ev, ",")+1:], "a%d", &tq); err == nil && !inUseQ[tq] && !cancels {
						note(fmt.Sprintf("!call-targets-question-%d-after-its-finish", tq))
					}
					if inUseQ[q] {
						note(fmt.Sprintf("!question-id-%d-reused-before-finish", q))
					}
					inUseQ[q] = true
					break
				}
				var a int
				fmt.Sscanf(ev, ">Ret(%d,", &a)
				if outstandingAns[a] == 0 && !corruptSeen {
					// (a message with flipped bits may have become a call with any id and any tag: after one, answers and
					// deliveries can no longer be attributed)
					note(fmt.Sprintf("!return-without-call-%d", a))
				} else {
					outstandingAns[a]--
				}
			case strings.HasPrefix(ev, ">Boot("):
				var q int
				fmt.Sscanf(ev, ">Boot(%d)", &q)
				relQ[q] = false
				if inUseQ[q] {
					note(fmt.Sprintf("!question-id-%d-reused-before-finish", q))
				}
				inUseQ[q] = true
			case strings.HasPrefix(ev, ">Dis(sl"):
				var id int
				fmt.Sscanf(ev, ">Dis(sl%d,", &id)
				embargoed[id] = true
				var tq int
				if _, err := fmt.Sscanf(ev[strings.Index(ev, ",")+1:], "a%d", &tq); err == nil && !inUseQ[tq] && !cancels {
					note(fmt.Sprintf("!disembargo-targets-question-%d-after-its-finish", tq))
				}
			case strings.HasPrefix(ev, ">Fin("):
				var q int
				fmt.Sscanf(ev, ">Fin(%d,", &q)
				relQ[q] = strings.HasSuffix(ev, ",true)")
				if !inUseQ[q] {
					note(fmt.Sprintf("!finish-for-unused-question-%d", q))
				}
				delete(inUseQ, q)
			case strings.HasPrefix(ev, ">Rel("):
				var id, n int
				fmt.Sscanf(ev, ">Rel(%d,%d)", &id, &n)
				// (with a held send / release in the history the wire order of a Release and of the descriptors around it is not
				// the order in which the Conn decided them: the totals are compared at the end instead)
				if n != impRefs[id] && !uncertain[id] && !sendFaults && !stalls {
					note(fmt.Sprintf("!release-%d-count-%d-want-%d", id, n, impRefs[id]))
				}
				impRefs[id] = 0
				relTotal[id] += n
			case strings.HasPrefix(ev, "@"):
				g := strings.Split(ev[1:], ".")
				if len(g) == 3 {
					if p, ok := sentOrder[g[2]]; ok {
						if p < lastDeliv[g[0]] && !corruptSeen {
							note("!delivery-out-of-order-" + g[0] + "-" + g[2])
						}
						lastDeliv[g[0]] = p
					}
				}
			}
		}
	}
	// over the whole history: every reference received for an import that is no longer in the table was given back
	if !dirty && !aborted && !closedByScript && !connDone {
		have := map[int]bool{}
		for _, kv := range strings.Split(lastImports, ",") {
			var id, n int
			if _, err := fmt.Sscanf(kv, "i%d=%d", &id, &n); err == nil {
				have[id] = true
			}
		}
		for id, n := range recvTotal {
			if !have[id] && !uncertain[id] && relTotal[id] != n {
				note(fmt.Sprintf("!import-%d-released-%d-of-%d", id, relTotal[id], n))
			}
		}
	}
	return bad
}

func execRPCCheck(boot bool, script string) string {
	// (sorted, a Finish that leaves late and the next Call re-using its id would read as "re-used before Finish")
	rpcRawOrder = true
	trace := execRPCScript(script, boot)
	rpcRawOrder = false
	bad := rpcOracles(trace)
	// a noop op in a promisedAnswer transform means nothing: the same script without them has the same outcome (judged on
	// scripts made of peer messages and application returns only: nothing in them depends on timing)
	if strings.Contains(script, ".n") && noopComparable(script) {
		plain := strings.ReplaceAll(script, ".n", "")
		differs := func() bool {
			a := execRPCScript(script, boot)
			b := execRPCScript(plain, boot)
			return strings.ReplaceAll(a, ".n", "") != b
		}
		if differs() && differs() {
			bad = append(bad, "!noop-op-changes-the-outcome")
		}
	}
	if len(bad) == 0 {
		return "ok"
	}
	sort.Strings(bad)
	return strings.Join(bad, " ")
}

func noopComparable(script string) bool {
	for _, op := range strings.Split(script, ",") {
		if !(strings.HasPrefix(op, "pB") || strings.HasPrefix(op, "pC") || strings.HasPrefix(op, "pF") || strings.HasPrefix(op, "pL") ||
			strings.HasPrefix(op, "pD") || strings.HasPrefix(op, "aR")) {
			return false
		}
	}
	return true
}

// mixedScript: both directions, capabilities, pipelining, releases; hostile / fault ops according to the profile
func mixedScript(r *lib.Rng, n int, hostile, faults bool) string {
	var ops []string
	nextQ, handles, lcalls, held := 0, 0, 0, 0
	add := func(s string) { ops = append(ops, s) }
	caps := func() string {
		if r.Intn(3) > 0 {
			return ""
		}
		return ":" + r.PickS("s1", "s1", "s2", "s1+s2", "s1+s1", "m3", "n", "rX0", "s2+rX0", "x1")
	}
	for i := 0; i < n; i++ {
		switch t := r.Intn(40); {
		case t < 3:
			add("pB" + strconv.Itoa(nextQ))
			nextQ++
		case t < 10:
			tgt := "eX" + strconv.Itoa(r.Intn(3))
			if r.Intn(2) == 0 && nextQ > 0 {
				tgt = "a" + strconv.Itoa(r.Intn(nextQ))
				if r.Intn(3) > 0 {
					if r.Intn(6) == 0 {
						tgt += ".n" // a noop op before …
					}
					tgt += "." + strconv.Itoa(r.Pick(0, 0, 0, 1, 300, 44))
					if r.Intn(8) == 0 {
						tgt += ".n" // … or after the field
					}
				} else if r.Intn(8) == 0 {
					tgt += ".n"
				}
			}
			m := r.Pick(0, 0, 1, 1, 2, 3, 4, 5, 6, 7, 8)
			if m == 1 || m == 8 {
				held++
			}
			add("pC" + strconv.Itoa(nextQ) + ":" + tgt + ":" + strconv.Itoa(m) + caps())
			nextQ++
		case t < 13:
			if held > 0 {
				add("aR" + strconv.Itoa(r.Intn(held)) + ":" + r.PickS("ok", "exc", "cap", "same", "big", "twice"))
			}
		case t < 17:
			if nextQ > 0 {
				add("pF" + strconv.Itoa(r.Intn(nextQ)) + ":" + strconv.Itoa(r.Intn(2)))
			}
		case t < 19:
			add("pLX" + strconv.Itoa(r.Intn(3)) + ":" + strconv.Itoa(r.Pick(1, 1, 2)))
		case t < 21:
			add("lB")
			handles++
		case t < 24:
			tgt := "Q" + strconv.Itoa(r.Intn(2))
			if hostile && r.Intn(4) == 0 {
				tgt = strconv.Itoa(r.Intn(4)) // maybe a question that does not exist, or was answered already
			}
			add("pR" + tgt + ":" + r.PickS("boot:s1", "boot:s1", "boot:s2", "ok", "ok:s1", "ok:s2", "ok:rX0", "exc", "boot:rX0"))
		case t < 29:
			if handles > 0 {
				op := "lC" + strconv.Itoa(r.Intn(handles)) + ":" + strconv.Itoa(r.Pick(0, 0, 2, 3))
				if r.Intn(4) == 0 {
					op += ":" + r.PickS("k0", "k1", "h0", "h1")
				}
				add(op)
				lcalls++
			}
		case t < 32:
			if lcalls > 0 {
				add("lP" + strconv.Itoa(r.Intn(lcalls)) + ":0:" + strconv.Itoa(r.Pick(0, 0, 2)))
				lcalls++
			}
		case t < 34:
			if lcalls > 0 {
				add("lH" + strconv.Itoa(r.Intn(lcalls)) + ":0")
				handles++
			}
		case t < 36:
			if handles > 0 {
				add("lR" + strconv.Itoa(r.Intn(handles)))
			}
		case t < 37:
			if lcalls > 0 {
				add(r.PickS("lX", "lY", "lY") + strconv.Itoa(r.Intn(lcalls)))
			}
		case t < 38:
			add(r.PickS("pDs0:aQ0.0", "pDr0:e0", "pDr0:eX0", "pDr1:eX0", "pDs1:a0", "pU", "pJ"))
		case t < 39:
			if hostile {
				add(r.PickS("pHwhich:1", "pHcalltgt:"+strconv.Itoa(nextQ), "pHcallnoparams:"+strconv.Itoa(nextQ), "pHcallyourself:"+strconv.Itoa(nextQ),
					"pHcallop:"+strconv.Itoa(nextQ)+":0", "pHretwhich:Q0", "pHnullptr:"+strconv.Itoa(r.Intn(14)), "pHnullptr:"+strconv.Itoa(r.Pick(2, 3, 4, 5, 8, 13)), "pHrettake:Q0:1", "pHdisprovide:1", "pHabort", "pHempty",
					"pHcorrupt:"+strconv.Itoa(r.Intn(40))+":"+strconv.Itoa(r.Intn(20))+":pC"+strconv.Itoa(nextQ)+"/eX0/0/s1+s2",
					"pHcorrupt:"+strconv.Itoa(r.Intn(40))+":"+strconv.Itoa(r.Intn(20))+":pRQ0/ok/s1",
					"pHcorrupt:"+strconv.Itoa(r.Intn(30))+":"+strconv.Itoa(r.Intn(20))+":pC"+strconv.Itoa(nextQ)+"/a0.0/2",
					"pHcorrupt:"+strconv.Itoa(r.Intn(20))+":"+strconv.Itoa(r.Intn(20))+":pDs0/a0.0",
					// messages the Conn answers by echoing them back as Unimplemented, with a damaged pointer inside
					"pHcorrupt:"+strconv.Itoa(r.Intn(6))+":"+strconv.Itoa(r.Intn(20))+":pHwhich/1",
					"pHcorrupt:"+strconv.Itoa(r.Intn(6))+":"+strconv.Itoa(r.Intn(20))+":pJ",
					"pHcorrupt:"+strconv.Itoa(r.Intn(16))+":"+strconv.Itoa(r.Intn(20))+":pHcallyourself/"+strconv.Itoa(nextQ),
					"pHcorrupt:"+strconv.Itoa(r.Intn(10))+":"+strconv.Itoa(r.Intn(20))+":pHdisprovide/1",
					"pHcorrupt:"+strconv.Itoa(r.Intn(8))+":"+strconv.Itoa(r.Intn(20))+":pHrettake/Q0/1"))
				nextQ++
			} else if faults {
				add(r.PickS("fN1", "fN2", "fS1", "fS2", "fV", "fN1", "fS1", "fC"))
			}
		default:
			if r.Intn(3) == 0 {
				add("lZ")
			} else if faults {
				add(r.PickS("fN1", "fS1", "fN3", "fS3"))
			}
		}
	}
	if len(ops) == 0 {
		ops = append(ops, "pB0")
	}
	return strings.Join(ops, ",")
}

// directed prefixes: situations the random part rarely builds on its own
var rpcDirected = []string{
	"pB0,pC1:e0:8,lZ",    // Close while a call is running that answers its cancellation with a new capability
	"pB0,pC1:e0:7,pF1:1", // the same capability twice in one Return, then Finish releasing the result caps
	"pB0,pC1:e0:1,pC2:a1.0:7,aR0:twice,pF1:1,pF2:1",  // … through a pipelined call
	"pB0,pC1:e0:6,pC2:a1.300:2,pF1:1,pLX1:1",         // big result, pipelined through field 300
	"pB0,pC1:e0:8,pC2:a1.0:0,pF1:0",                  // Finish cancels a call that answers with a capability; a call was pipelined on it
	"lB,pRQ0:boot:s1,lC0:2,pRQ0:ok:s1,lH0:0,lR0,lR1", // the same import received twice, both handles released
	"lB,lC0:0,lX0,pRQ1:ok:s2,lB",                     // Return for a cancelled question, then id reuse
	"pB0,pC1:e0:4,pC2:e0:4,pF1:1,pF2:1,pL0:1",        // several references on one export given back in steps
	// embargo: a local capability comes back as receiverHosted while a call was pipelined on that result; a direct call on
	// the resolved capability waits behind the Disembargo loop-back (the peer reflects the pipelined call as question 1001)
	"1lB,pRQ0:boot:s1,lC0:5:k0,lP0:0:0,pRQ0:ok:r0,lH0:0,lA1:0,pC1001:e0:0,pDr0:e0,pF1001:0",
	"1lB,pRQ0:boot:s1,lC0:5:k0,lQ0:0:0,pRQ0:ok:r0,fG,lH0:0,lA1:0,pC1001:e0:0,pDr0:e0", // the Return arrives while the pipelined call is being built
	"1lB,pRQ0:boot:s1,lC0:5:k0,lP0:0:0,pRQ0:ok:r0,lH0:0,lA1:0,pF777:0",                // the peer breaks the protocol instead of looping back
	"1lB,pRQ0:boot:s1,lC0:5:k0,lP0:0:0,pRQ0:ok:r0,lH0:0,lA1:0,fN1,lZ,lC1:0",           // Close (abort message cannot be created) while embargoed; a call afterwards
	"1lB,pRQ0:boot:s1,lC0:5:k0,lP0:0:0,pRQ0:ok:r0,lH0:0,lA1:0,fS1,lZ,lC1:0",           // … the abort message cannot be sent
	"1lB,pRQ0:boot:s1,pR0:ok,lB",                                                // a Return for a question slot that is in range but empty
	"1lB,lB,pRQ1:boot:s1,pR1:ok:s2,lC0:0",                                       // … while other questions are outstanding
	"1lB,pRQ0:boot:s1,lC0:5:k0,lP0:0:0,pRQ0:ok:r0,lY0,pDr0:e0,lC0:0",            // the embargoed result is released before the Disembargo comes back
	"1lB,pRQ0:boot:s1,lC0:5:k0,lP0:0:0,pRQ0:ok:r0,lH0:0,lY0,lR1,pDr0:e0,lC0:0",  // … all of its references are
	"1lB,pRQ0:boot:s1,lC0:5:k0,lP0:0:0,pRQ0:ok:r0,lH0:0,lY0,pDr0:e0,lC1:0,lR1",  // … or one survives and is used afterwards
	"1pB0,lB,lC0:0,pRQ0:boot:rX0,lR0,lZ",                                        // an embargoed bootstrap capability is released, then Close lifts the embargo
	"1pB0,pF0:0,fW,pC1:eX0:2,pF1:1,fG,pB2",                                      // the Finish (releasing the result caps) is handled while the Return is still being written
	"1pB0,pF0:0,fW,pC1:eX0:2,pF1:0,fG,pLX1:1,pB2",                               // … without releaseResultCaps, then an explicit Release
	"1lB,pRQ0:boot:s1,lB,pRQ0:boot:s2,lC1:0:K0,pRQ0:ok,pLX0:1,pB5",              // the last reference to an exported proxy goes with a Release; its Shutdown releases an import of the same Conn
	"1lB,pRQ0:boot:s1,lB,pRQ0:boot:s2,lC1:0:K0,pRQ0:ok,pLX0:1,lC1:0,pRQ0:ok,lZ", // … the Conn is still usable afterwards
	"1fN1,pB0,pF0:0,pB1",                                                         // the Return of a Bootstrap cannot be created (placeholder answer), then its Finish
	"1pB0,fN1,pC1:e0:0,pF1:1,pB2",                                                // … of a Call
	"1pB0,fN1,pC1:e0:2,pF1:0,pC2:a1.0:0,pB3",                                     // … a call pipelined on the placeholder
	"1lB,pRQ0:boot:s1,lC0:0,lQ0:0:0,pRQ0:ok:s2,fG,pRQ0:ok",                       // the Return arrives while a call made through Answer.PipelineSend is being built (no pipelined client exists): the call leaves before the Finish
	"1lB,pRQ0:boot:s1,lC0:0,lQ0:0:0,lQ0:1:0,pRQ0:exc,fG",                         // … two of them, the base call fails
	"1pB0,pC1:e0:2,pDs0:a1.0",                                                    // a senderLoopback Disembargo aimed at a result capability that is a local export: refused, and nothing leaks
	"1pB0,pC1:e0:7,pDs0:a1.1,lZ",                                                 // … the second pointer to the same capability
	"1pB0,pC1:e0:1,pC2:a1.n.0:0,pC3:a1.0.n:0,aR0:cap",                            // noop ops in a promisedAnswer transform (held answer)
	"1pB0,pC1:e0:2,pC2:a1.n.0:0,pC3:a1.n.n.0.n:0,pDs0:a1.n.0",                    // … on a returned answer
	"1pB0,pF0:0,pC1:e0:8,fW,pF1:1,pL1:1,fG,pB2",                                  // D33: a Release for the export the Return is about to advertise arrives while the Return is being written (Finish with releaseResultCaps came first): the Conn aborts from the handler's goroutine
	"1pB0,pF0:0,pC1:e0:8,fW,pF1:1,pL1:1,fG,lZ",                                   // … and Close afterwards returns
	"0lB,pRQ0:boot:s1,lC0:0,fW,lr0,pRQ0:ok:s1,fG,lH0:0,lC1:0,pRQ0:ok,lR1,lY0",    // a descriptor for an import arrives while its Release is still being written
	"0lB,pRQ0:boot:s1,lC0:0,fW,lr0,pRQ0:ok:s1+s1,fG,lH0:0,lY0,lC1:0,pRQ0:ok,lR1", // … two of them; the results are released first
	"1fC,pB0,lZ",                             // the transport's Close fails: Close returns, Done is closed
	"1fC,pB0,fV,lZ",                          // … after the Conn shut itself down on a receive error
	"1fC,lB,pHabort,lZ,lZ",                   // … or on the peer's Abort
	"1pHcorrupt:2:7:pHwhich/1,pB0,lB",        // an unknown message whose pointer is out of bounds: the echo cannot be built; the next Bootstrap is answered
	"1pHcorrupt:2:12:pHwhich/1,pB0,pC1:e0:0", // … a far pointer into a segment that does not exist
	"1pB0,pHcorrupt:2:7:pJ,pC1:e0:0,lB",
	"0lB,pRQ0:boot:s1,lS0:0,lr0,lB,pRQ0:boot:s1,lR1,lB,pRQ0:boot:s1,fG,lC2:0,pRQ0:ok,pRQ0:ok,lR2", // the Shutdown of a client of an earlier entry runs after the entry was dropped and created again
	"1lB,fH,pRQ0:boot:s1,lB,fG,pRQ0:boot:s1",                                                      // a new question while the Return's Finish is still to be sent
	"1lB,lB,pRQ0:boot:s1,lS0:0,lr0,pRQ0:boot:s1,fG,lR1",                                           // a reference to an import arrives while its last handle is being released
	"1lB,lB,pRQ0:boot:s1,lS0:0,lr0,pRQ0:boot:s1,lR1,fG",                                           // … and the newer client goes away first
	"1lB,pRQ0:boot:s1,lC0:0,fN1,lX0,pRQ0:ok,lC0:0,lC0:0",                                          // the Finish of a cancelled call cannot be sent; its Return arrives; new calls
	"1lB,pRQ0:boot:s1,lC0:0,fW,lX0,pRQ0:ok,fG,lC0:0,lZ",                                           // the Return of a cancelled call arrives while its Finish is still being written
	"1lB,pRQ0:boot:s1,lC0:0,fW,lA0:0,lX0,pRQ0:ok,fG,lZ",                                           // … or while another call holds the sender lock
}

func genRPCCheck(rec *lib.Rec, r *lib.Rng, n int, hostile, faults bool) {
	// every directed scenario once on its own (a random continuation may contain hostile or fault ops, which switch the
	// table comparisons off), spread over the shards
	for k, d := range rpcDirected {
		if k%Shards != Shard {
			continue
		}
		boot := "1"
		if strings.HasPrefix(d, "0") {
			boot = "0"
		}
		rec.Op("S", "rpc check "+boot+" "+strings.TrimPrefix(strings.TrimPrefix(d, "1"), "0"), true)
	}
	for i := 0; i < n; i++ {
		s := mixedScript(r, 4+r.Intn(20), hostile, faults)
		boot := r.Pick(1, 1, 0)
		if i%4 == 0 {
			d := rpcDirected[(i/4*Shards+Shard)%len(rpcDirected)] // every directed scenario, in turn across the shards
			boot = 1
			if strings.HasPrefix(d, "lB") {
				boot = r.Intn(2)
			}
			if strings.HasPrefix(d, "0") {
				boot = 0
			}
			d = strings.TrimPrefix(strings.TrimPrefix(d, "1"), "0")
			s = d + "," + s
		}
		rec.Op("S", "rpc check "+strconv.Itoa(boot)+" "+s, true)
	}
}

func genC07(rec *lib.Rec, r *lib.Rng, thorough bool) {
	n := 400
	if thorough {
		n = 12000
	}
	genRPCCheck(rec, r, n/Shards/2, false, false)
	for i := 0; i < n/Shards/2; i++ {
		rec.Op("M", "rpc script 1 "+inboundScript(r, 6+r.Intn(14)), true)
	}
	for i := 0; i < n/Shards/2; i++ {
		rec.Op("M", "rpcq script "+outboundScript(r, 4+r.Intn(18)), true)
	}
	for i := 0; i < n/Shards/4; i++ {
		rec.Op("M", "rpcgen sched "+importGenSchedule(r, 3+r.Intn(12)), true)
	}
}

func genC08(rec *lib.Rec, r *lib.Rng, thorough bool) {
	n := 400
	if thorough {
		n = 12000
	}
	genRPCCheck(rec, r, n/Shards, true, false)
}

// base scenarios for the fault enumeration: every position x every fault kind
var rpcFaultBases = []string{
	"lB,pRQ0:boot:s1,lC0:0,pRQ0:ok,lR0,lZ",
	"lB,lC0:0,lX0,pRQ1:ok,pRQ0:boot:s1,lZ",
	"lB,lC0:2,lP0:0:0,pRQ0:boot:s1,pRQ0:ok:s2,pRQ0:ok,lZ",
	"pB0,pC1:e0:0,pF1:0,pF0:1,lZ",
	"pB0,pC1:e0:1,pC2:a1.0:0,aR0:cap,pF1:0,pF2:1,lZ",
	"pB0,pC1:e0:1,pF1:0,lZ",
	"pB0,pC1:e0:2:s1,pL0:1,pF1:1,lZ",
	"lB,pRQ0:boot:s1,lC0:0:k0,pRQ0:ok:rX0,lH0:0,lR1,lR0,lZ",
	"pB0,pJ,pU,pC1:e0:3,lZ,lZ",
}

func genC09(rec *lib.Rec, r *lib.Rng, thorough bool) {
	n := 400
	if thorough {
		n = 12000
	}
	genRPCCheck(rec, r, n/Shards, false, true)
	k := 0
	for _, base := range rpcFaultBases {
		ops := strings.Split(base, ",")
		for pos := 0; pos < len(ops); pos++ {
			for _, f := range []string{"fN1", "fS1", "fN2", "fS2", "fV", "lZ", "fN1,fS1", "fC,fV", "fC"} {
				k++
				if k%Shards != Shard || (!thorough && f == "fS2") {
					continue
				}
				s := append(append(append([]string{}, ops[:pos]...), f), ops[pos:]...)
				rec.Op("S", "rpc check 1 "+strings.Join(s, ","), true)
			}
		}
	}
	// the stream transport's write side: every placement of one or two failing Writes over a few frames, then random plans
	if Shard == 0 {
		for _, packed := range []string{"0", "1"} {
			for i := 0; i < 8; i++ {
				for _, k := range []string{"p", "z", "c"} {
					plan := strings.Repeat("f", i) + k
					rec.Op("M", "rpc stream "+packed+" 5 "+plan, true)
					rec.Op("M", "rpc streampre "+packed+" 5 "+plan, true)
					for j := 0; j < 4; j++ {
						rec.Op("M", "rpc stream "+packed+" 5 "+plan+strings.Repeat("f", j)+r.PickS("p", "z"), true)
					}
				}
			}
		}
	}
	for i := 0; i < n/Shards; i++ {
		plan := make([]byte, 2+r.Intn(14))
		for j := range plan {
			plan[j] = "fffffffpzc"[r.Intn(10)]
		}
		rec.Op("M", fmt.Sprintf("rpc %s %d %d %s", r.PickS("stream", "stream", "streampre"), r.Intn(2), 2+r.Intn(6), plan), true)
	}
}

// ---- stream transport, write side: "rpc stream <packed 0|1> <frames> <write outcomes>" ----
//
// <frames> messages are sent through rpc.NewStreamTransport over a scripted writer.  The writer's k-th Write returns
// according to the k-th letter of <write outcomes>: f = everything, p = a proper non-empty part + error,
// z = nothing + error; beyond the end of the string every Write succeeds.  Output: the result of each send and
// what reached the stream: w = a whole frame, t = a torn one; "!" when bytes follow a torn frame.

type faultyRWC struct {
	plan    string
	k       int
	chunks  [][]byte // what reached the stream, one chunk per Write
	writes  []int    // index of the send each chunk belongs to
	cur     int
	blockCh chan struct{}

	dmu      sync.Mutex
	deadline time.Time     // SetWriteDeadline
	stuck    chan struct{} // closed when a 'c' Write has taken its few bytes and waits for its deadline
	retry    bool          // the next Write is the grace-period retry of a 'c' Write: it times out with nothing written
}

// timeoutErr is what a net.Conn returns when its write deadline passes
type timeoutErr struct{}

func (timeoutErr) Error() string { return "i/o timeout" }
func (timeoutErr) Timeout() bool { return true }

// SetWriteDeadline makes the transport take its deadline-based path (as with a net.Conn)
func (f *faultyRWC) SetWriteDeadline(t time.Time) error {
	f.dmu.Lock()
	f.deadline = t
	f.dmu.Unlock()
	return nil
}

// waitDeadline blocks until a write deadline has been set and has passed
func (f *faultyRWC) waitDeadline() {
	for i := 0; i < 100000; i++ {
		f.dmu.Lock()
		d := f.deadline
		f.dmu.Unlock()
		if !d.IsZero() && !time.Now().Before(d) {
			return
		}
		time.Sleep(200 * time.Microsecond)
	}
}

func (f *faultyRWC) Read(p []byte) (int, error) { <-f.blockCh; return 0, errors.New("closed") }
func (f *faultyRWC) Close() error {
	select {
	case <-f.blockCh:
	default:
		close(f.blockCh)
	}
	return nil
}
func (f *faultyRWC) Write(p []byte) (int, error) {
	if f.retry {
		// the rest of a buffer whose first bytes went out before the send was cancelled: the peer takes no more
		f.retry = false
		f.waitDeadline()
		return 0, timeoutErr{}
	}
	o := byte('f')
	if f.k < len(f.plan) {
		o = f.plan[f.k]
	}
	f.k++
	n := len(p)
	var err error
	switch o {
	case 'p':
		n = len(p) / 2
		if n == 0 {
			n = 1
		}
		if n >= len(p) {
			n = 0
		}
		err = errInjected
	case 'z':
		n = 0
		err = errInjected
	case 'c':
		// the peer takes three bytes and stalls; the send is cancelled (the harness does that when `stuck` closes), the
		// write deadline fires
		n = 3
		if n >= len(p) {
			n = len(p) - 1
		}
		if n <= 0 {
			n = 0
			err = errInjected
			break
		}
		f.chunks = append(f.chunks, append([]byte(nil), p[:n]...))
		f.writes = append(f.writes, f.cur)
		if f.stuck != nil {
			close(f.stuck)
		}
		f.waitDeadline()
		f.retry = true
		return n, timeoutErr{}
	}
	if n > 0 {
		f.chunks = append(f.chunks, append([]byte(nil), p[:n]...))
		f.writes = append(f.writes, f.cur)
	}
	return n, err
}

func execRPCStream(packed bool, frames int, plan string, pre bool) string {
	rwc := &faultyRWC{plan: plan, blockCh: make(chan struct{})}
	var tr rpc.Transport
	if packed {
		tr = rpc.NewPackedStreamTransport(rwc)
	} else {
		tr = rpc.NewStreamTransport(rwc)
	}
	if st, ok := tr.(interface{ SetPartialWriteTimeout(time.Duration) }); ok {
		st.SetPartialWriteTimeout(30 * time.Millisecond)
	}
	// like Conn: a receive is in progress, and is abandoned (context cancelled) before the transport is closed
	rctx, rcancel := context.WithCancel(context.Background())
	recvDone := make(chan struct{})
	go func() { tr.RecvMessage(rctx); close(recvDone) }()
	var res []string
	var full [][]byte
	type created struct {
		send    func() error
		release capnp.ReleaseFunc
	}
	var early []created
	var stucks []chan struct{}
	create := func(i int) (created, bool) {
		// the send's context is cancelled as soon as a Write of it is stuck after a few bytes (plan outcome 'c')
		ctx, cancel := context.WithCancel(context.Background())
		stuck := make(chan struct{})
		go func() {
			select {
			case <-stuck:
				cancel()
			case <-rwc.blockCh:
			}
		}()
		stucks = append(stucks, stuck)
		msg, send, release, err := tr.NewMessage(ctx)
		if err != nil {
			full = append(full, nil)
			return created{}, false
		}
		b, _ := msg.NewBootstrap()
		b.SetQuestionId(uint32(1000 + i))
		var want []byte
		if packed {
			want, _ = msg.Message().MarshalPacked()
		} else {
			want, _ = msg.Message().Marshal()
		}
		full = append(full, want)
		return created{send, release}, true
	}
	if pre {
		for i := 0; i < frames; i++ {
			c, ok := create(i)
			if !ok {
				return "!NewMessage-refused-on-a-healthy-stream"
			}
			early = append(early, c)
		}
	}
	for i := 0; i < frames; i++ {
		rwc.cur = i
		if pre {
			rwc.stuck = stucks[i]
		}
		var c created
		if pre {
			c = early[i]
		} else {
			var ok bool
			if c, ok = create(i); !ok {
				res = append(res, "n") // NewMessage refused: the stream is marked broken
				continue
			}
			rwc.stuck = stucks[len(stucks)-1]
		}
		if err := c.send(); err != nil {
			res = append(res, "e")
		} else {
			res = append(res, "o")
		}
		c.release()
	}
	rcancel()
	closeBad := ""
	select {
	case <-recvDone:
	case <-time.After(3 * time.Second):
		closeBad = " !receive-not-cancelled"
	}
	closed := make(chan struct{})
	go func() { tr.Close(); close(closed) }()
	select {
	case <-closed:
	case <-time.After(3 * time.Second):
		closeBad += " !close-blocked"
		rwc.Close()
	}
	// classify what reached the stream, frame by frame
	got := make([][]byte, frames)
	for i, c := range rwc.chunks {
		got[rwc.writes[i]] = append(got[rwc.writes[i]], c...)
	}
	var shape []string
	torn := false
	bad := ""
	for i := 0; i < frames; i++ {
		if len(got[i]) == 0 {
			continue
		}
		if torn {
			bad = "!bytes-after-torn-frame"
		}
		switch {
		case string(got[i]) == string(full[i]):
			shape = append(shape, "w")
		case len(got[i]) < len(full[i]) && string(got[i]) == string(full[i][:len(got[i])]):
			shape = append(shape, "t")
			torn = true
		default:
			shape = append(shape, "?")
			bad = "!unexpected-bytes"
		}
	}
	out := strings.Join(res, "") + " " + strings.Join(shape, "")
	if bad != "" {
		out += " " + bad
	}
	return out + closeBad
}
