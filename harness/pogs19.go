package main

import (
	"encoding/hex"
	"fmt"
	"math"
	"reflect"
	"strconv"
	"strings"
	"sync/atomic"

	capnp "capnproto.org/go/capnp/v3"
	"capnproto.org/go/capnp/v3/pogs"
	"capnproto.org/go/capnp/v3/schemas"
	"verifharness/lib"
)

// ---- C19: pogs on synthetic schemas (registered at run time) with Go struct types built by reflection ----
//
// "pogs19 ins <dw> <ptrs> <discOff> <fields> <which|-> <v0,v1,…>"   Insert a Go value (field values as unsigned bit patterns)
//      into a zeroed struct; output: the data section (hex), then what Extract reads back: which and the values
// "pogs19 ext <dw> <ptrs> <discOff> <fields> <hex>"                 Extract from a struct with this data section
// fields as in gen15 (scalar kinds and void only).

var pogs19Seq uint64

func g19GoType(kind string) reflect.Type {
	switch kind {
	case "bool":
		return reflect.TypeOf(false)
	case "u8":
		return reflect.TypeOf(uint8(0))
	case "u16", "enum":
		return reflect.TypeOf(uint16(0))
	case "u32":
		return reflect.TypeOf(uint32(0))
	case "u64":
		return reflect.TypeOf(uint64(0))
	case "i8":
		return reflect.TypeOf(int8(0))
	case "i16":
		return reflect.TypeOf(int16(0))
	case "i32":
		return reflect.TypeOf(int32(0))
	case "i64":
		return reflect.TypeOf(int64(0))
	case "f32":
		return reflect.TypeOf(float32(0))
	case "f64":
		return reflect.TypeOf(float64(0))
	case "void":
		return reflect.TypeOf(struct{}{})
	}
	return nil
}

func g19Set(v reflect.Value, kind string, bits uint64) {
	switch kind {
	case "bool":
		v.SetBool(bits == 1)
	case "u8", "u16", "u32", "u64", "enum":
		v.SetUint(bits)
	case "i8":
		v.SetInt(int64(int8(bits)))
	case "i16":
		v.SetInt(int64(int16(bits)))
	case "i32":
		v.SetInt(int64(int32(bits)))
	case "i64":
		v.SetInt(int64(bits))
	case "f32":
		v.SetFloat(float64(math.Float32frombits(uint32(bits))))
	case "f64":
		v.SetFloat(math.Float64frombits(bits))
	}
}

func g19Get(v reflect.Value, kind string) uint64 {
	switch kind {
	case "bool":
		if v.Bool() {
			return 1
		}
		return 0
	case "u8", "u16", "u32", "u64", "enum":
		return v.Uint()
	case "i8":
		return uint64(uint8(v.Int()))
	case "i16":
		return uint64(uint16(v.Int()))
	case "i32":
		return uint64(uint32(v.Int()))
	case "i64":
		return uint64(v.Int())
	case "f32":
		return uint64(math.Float32bits(float32(v.Float())))
	case "f64":
		return math.Float64bits(v.Float())
	}
	return 0
}

func execPogs19(f []string) string {
	if len(f) < 3 {
		return "bad-op"
	}
	mode := f[0]
	if mode == "air" {
		if len(f) != 3 {
			return "bad-op"
		}
		seed, _ := strconv.ParseUint(f[2], 10, 64)
		return execPogsAir(f[1], seed)
	}
	dw, ptrs, discOff, fields, ok := parseG15(f[1:5])
	if !ok {
		return "bad-op"
	}
	union := false
	var sf []reflect.StructField
	for j, fl := range fields {
		t := g19GoType(fl.kind)
		if t == nil {
			return "bad-op"
		}
		if fl.disc >= 0 {
			union = true
		}
		if fl.kind == "void" {
			continue // a void member has no Go field; Which alone selects it
		}
		sf = append(sf, reflect.StructField{Name: "F" + strconv.Itoa(j), Type: t})
	}
	if union {
		sf = append(sf, reflect.StructField{Name: "Which", Type: reflect.TypeOf(uint16(0))})
	}
	gt := reflect.StructOf(sf)
	shift := atomic.AddUint64(&pogs19Seq, 1) + uint64(Shard)<<32
	req, err := g15RequestIDs(dw, ptrs, discOff, fields, shift)
	if err != nil {
		return "bad-op"
	}
	ids := []uint64{gen15File + shift*16, gen15T + shift*16, gen15Aux + shift*16, gen15Enum + shift*16}
	if err := schemas.DefaultRegistry.Register(&schemas.Schema{Bytes: req, Nodes: ids}); err != nil {
		return "harness-error:" + err.Error()
	}
	_, seg, _ := capnp.NewMessage(capnp.SingleSegment(nil))
	st, err := capnp.NewRootStruct(seg, capnp.ObjectSize{DataSize: capnp.Size(dw * 8), PointerCount: uint16(ptrs)})
	if err != nil {
		return "harness-error"
	}
	data := func() []byte {
		b := make([]byte, dw*8)
		for i := range b {
			b[i] = st.Uint8(capnp.DataOffset(i))
		}
		return b
	}
	out := ""
	switch mode {
	case "ins":
		if len(f) != 7 {
			return "bad-op"
		}
		val := reflect.New(gt)
		vals := strings.Split(f[6], ",")
		for j, fl := range fields {
			if j < len(vals) && fl.kind != "void" {
				bits, _ := strconv.ParseUint(vals[j], 10, 64)
				g19Set(val.Elem().FieldByName("F"+strconv.Itoa(j)), fl.kind, bits)
			}
		}
		if union && f[5] != "-" {
			w, _ := strconv.ParseUint(f[5], 10, 16)
			val.Elem().FieldByName("Which").SetUint(w)
		}
		if err := pogs.Insert(ids[1], st, val.Interface()); err != nil {
			return "insert-error"
		}
		out = hex.EncodeToString(data()) + " "
	case "ext":
		if len(f) != 6 {
			return "bad-op"
		}
		b, err := hex.DecodeString(f[5])
		if err != nil || len(b) != dw*8 {
			return "bad-op"
		}
		for i, x := range b {
			st.SetUint8(capnp.DataOffset(i), x)
		}
	default:
		return "bad-op"
	}
	back := reflect.New(gt)
	if err := pogs.Extract(back.Interface(), ids[1], st); err != nil {
		return out + "extract-error"
	}
	var vs []string
	for j, fl := range fields {
		if fl.kind == "void" {
			vs = append(vs, "0")
			continue
		}
		vs = append(vs, strconv.FormatUint(g19Get(back.Elem().FieldByName("F"+strconv.Itoa(j)), fl.kind), 10))
	}
	w := "-"
	if union {
		w = strconv.FormatUint(back.Elem().FieldByName("Which").Uint(), 10)
	}
	return out + "which=" + w + " vals=" + strings.Join(vs, ",")
}

// scalar fields of a synthetic struct: kinds, offsets inside dw words, defaults, union membership, values
func g19Struct(r *lib.Rng) (dw, discOff int, fs, vals []string, which string) {
	widths := map[string]int{"u8": 1, "i8": 1, "u16": 2, "i16": 2, "enum": 2, "u32": 4, "i32": 4, "f32": 4, "u64": 8, "i64": 8, "f64": 8}
	kinds := []string{"bool", "u8", "i8", "u16", "i16", "enum", "u32", "i32", "f32", "u64", "i64", "f64", "void"}
	dw = 1 + r.Intn(3)
	useUnion := r.Intn(2) == 0
	if useUnion {
		discOff = r.Intn(dw * 4)
	}
	nf := 1 + r.Intn(6)
	nextDisc := 0
	var used [][3]int // byte ranges of the integer-shaped fields so far, and whether each is a float
	for j := 0; j < nf; j++ {
		k := kinds[r.Intn(len(kinds))]
		off := 0
		mask, v := uint64(0), uint64(0)
		switch {
		case k == "bool":
			off = r.Intn(dw * 64)
			if useUnion && off/16 == discOff {
				off = (off + 16) % (dw * 64)
			}
			mask, v = uint64(r.Intn(2)), uint64(r.Intn(2))
			bclash := false
			for _, u := range used {
				if u[2] == 1 && u[0] <= off/8 && off/8 < u[1] {
					bclash = true
				}
			}
			if bclash {
				continue
			}
			used = append(used, [3]int{off / 8, off/8 + 1, 0})
		case widths[k] > 0:
			w := widths[k]
			off = r.Intn(dw * 8 / w)
			if useUnion && off*w/2 <= discOff && discOff < (off*w+w+1)/2 {
				continue // would overlap the discriminant: not a layout the compiler produces
			}
			// a float must not share bytes with another field: what it then reads can be a NaN (see below)
			lo, hi := off*w, off*w+w
			clash := false
			for _, u := range used {
				if lo < u[1] && u[0] < hi && (u[2] == 1 || k == "f32" || k == "f64") {
					clash = true
				}
			}
			if clash {
				continue
			}
			isF := 0
			if k == "f32" || k == "f64" {
				isF = 1
			}
			used = append(used, [3]int{lo, hi, isF})
			if r.Intn(2) == 0 {
				mask = r.U64()
			}
			v = r.U64()
			if r.Intn(4) == 0 {
				v = uint64(r.Pick(0, 1, 0x7f, 0x80, 0xff, 0x7fff, 0x8000, 0xffff))
			}
			if w < 8 {
				mask &= 1<<(8*uint(w)) - 1
				v &= 1<<(8*uint(w)) - 1
			}
			if k == "enum" {
				mask &= 1
			}
			if k == "f32" {
				// no NaNs: their payload does not survive float32 <-> float64 conversions in reflect
				if v>>23&0xff == 0xff {
					v &^= 1 << 23
				}
				if mask>>23&0xff == 0xff {
					mask &^= 1 << 23
				}
			}
			if k == "f64" {
				if v>>52&0x7ff == 0x7ff {
					v &^= 1 << 52
				}
				if mask>>52&0x7ff == 0x7ff {
					mask &^= 1 << 52
				}
			}
		}
		disc := "-"
		if useUnion && r.Intn(2) == 0 {
			disc = strconv.Itoa(nextDisc)
			nextDisc++
		}
		fs = append(fs, fmt.Sprintf("%s:%d:%d:%s", k, off, mask, disc))
		vals = append(vals, strconv.FormatUint(v, 10))
	}
	which = "-"
	if nextDisc > 0 {
		which = strconv.Itoa(r.Intn(nextDisc + 1)) // sometimes a value no member has
	}
	return
}

// ---- pogs on the aircraftlib types: pointer kinds, groups, defaults, embedding ("pogs19 air <case> <seed>") ----

type airZGroup struct {
	First  uint64
	Second uint64
}

type airPlaneBase struct {
	Name     string
	Homes    []uint16
	Rating   int64
	CanFly   bool
	Capacity int64
	MaxSpeed float64
}

type airZ struct {
	Which uint16

	F64 float64
	I32 int32
	U64 uint64
	U8  uint8

	Bool bool
	Text string
	Blob []byte

	U8vec   []uint8
	I64vec  []int64
	Boolvec []bool
	Textvec []string
	Datavec [][]byte

	Zvec      []*airZ
	Planebase *airPlaneBase
	Airport   uint16
	Grp       *airZGroup
}

// three levels of anonymous embedding over PlaneBase
type airL3 struct {
	Rating int64
	CanFly bool
}
type airL2 struct {
	airL3
	Capacity int64
}
type airL1 struct {
	airL2
	MaxSpeed float64
}
type airEmbedded struct {
	airL1
	Name  string
	Homes []uint16
}

type airDefaults struct {
	Text  []byte
	Data  []byte
	Float float32
	Int   int32
	Uint  uint32
}

var airMembers = []uint16{2, 5, 8, 11, 12, 13, 14, 24, 17, 39, 41, 40, 25, 32, 33, 42}

func genAirZ(r *lib.Rng, depth int) *airZ {
	z := &airZ{Which: airMembers[r.Intn(len(airMembers))]}
	str := func() string { return []string{"", "a", "héllo", "x\x00y", strings.Repeat("q", 40)}[r.Intn(5)] }
	switch z.Which {
	case 2:
		z.F64 = []float64{0, 1.5, -2, math.Inf(1), 1e300}[r.Intn(5)]
	case 5:
		z.I32 = int32(r.U64())
	case 8:
		z.U64 = r.U64()
	case 11:
		z.U8 = uint8(r.U64())
	case 12:
		z.Bool = r.Bool()
	case 13:
		z.Text = str()
	case 14:
		z.Blob = r.Bytes(r.Intn(20))
	case 24:
		z.U8vec = r.Bytes(r.Intn(20))
	case 17:
		for i := r.Intn(5); i > 0; i-- {
			z.I64vec = append(z.I64vec, int64(r.U64()))
		}
	case 39:
		for i := r.Intn(70); i > 0; i-- {
			z.Boolvec = append(z.Boolvec, r.Bool())
		}
	case 41:
		for i := r.Intn(4); i > 0; i-- {
			z.Textvec = append(z.Textvec, str())
		}
	case 40:
		for i := r.Intn(4); i > 0; i-- {
			z.Datavec = append(z.Datavec, r.Bytes(r.Intn(9)))
		}
	case 25:
		if depth < 2 {
			for i := r.Intn(3); i > 0; i-- {
				z.Zvec = append(z.Zvec, genAirZ(r, depth+1))
			}
		}
	case 32:
		z.Planebase = &airPlaneBase{Name: str(), Rating: int64(r.U64()), CanFly: r.Bool(), Capacity: int64(r.Intn(1000)), MaxSpeed: float64(r.Intn(1000)) / 4}
		for i := r.Intn(4); i > 0; i-- {
			z.Planebase.Homes = append(z.Planebase.Homes, uint16(r.Intn(6)))
		}
	case 33:
		z.Airport = uint16(r.Intn(6))
	case 42:
		z.Grp = &airZGroup{First: r.U64(), Second: r.U64()}
	}
	return z
}

// normalise the documented nil / empty equivalences
func normZ(z *airZ) {
	if len(z.Blob) == 0 {
		z.Blob = nil
	}
	if len(z.U8vec) == 0 {
		z.U8vec = nil
	}
	if len(z.I64vec) == 0 {
		z.I64vec = nil
	}
	if len(z.Boolvec) == 0 {
		z.Boolvec = nil
	}
	if len(z.Textvec) == 0 {
		z.Textvec = nil
	}
	if len(z.Datavec) == 0 {
		z.Datavec = nil
	}
	for i := range z.Datavec {
		if len(z.Datavec[i]) == 0 {
			z.Datavec[i] = nil
		}
	}
	if len(z.Zvec) == 0 {
		z.Zvec = nil
	}
	for _, c := range z.Zvec {
		normZ(c)
	}
	if z.Planebase != nil && len(z.Planebase.Homes) == 0 {
		z.Planebase.Homes = nil
	}
}

func execPogsAir(kind string, seed uint64) string {
	r := lib.NewRng(seed)
	var bad []string
	note := func(s string) { bad = append(bad, s) }
	switch kind {
	case "z":
		z := genAirZ(r, 0)
		msg, seg, _ := capnp.NewMessage(capnp.SingleSegment(nil))
		root, _ := verifxNewRootZ(seg)
		if err := pogs.Insert(verifxZTypeID, root.Struct, z); err != nil {
			return "insert-error:" + err.Error()
		}
		// generated accessors agree with the Go value
		if uint16(root.Which()) != z.Which {
			note("!which")
		}
		switch z.Which {
		case 2:
			if root.F64() != z.F64 {
				note("!f64")
			}
		case 5:
			if root.I32() != z.I32 {
				note("!i32")
			}
		case 8:
			if root.U64() != z.U64 {
				note("!u64")
			}
		case 11:
			if root.U8() != z.U8 {
				note("!u8")
			}
		case 12:
			if root.Bool() != z.Bool {
				note("!bool")
			}
		case 13:
			if s, _ := root.Text(); s != z.Text {
				note("!text")
			}
		case 14:
			if b, _ := root.Blob(); string(b) != string(z.Blob) {
				note("!blob")
			}
		case 24:
			l, _ := root.U8vec()
			if l.Len() != len(z.U8vec) {
				note("!u8vec-len")
			} else {
				for i := range z.U8vec {
					if l.At(i) != z.U8vec[i] {
						note("!u8vec")
						break
					}
				}
			}
		case 39:
			l, _ := root.Boolvec()
			if l.Len() != len(z.Boolvec) {
				note("!boolvec-len")
			} else {
				for i := range z.Boolvec {
					if l.At(i) != z.Boolvec[i] {
						note("!boolvec")
						break
					}
				}
			}
		case 32:
			pb, _ := root.Planebase()
			if n, _ := pb.Name(); n != z.Planebase.Name || pb.Rating() != z.Planebase.Rating || pb.CanFly() != z.Planebase.CanFly ||
				pb.Capacity() != z.Planebase.Capacity || pb.MaxSpeed() != z.Planebase.MaxSpeed {
				note("!planebase")
			}
		case 42:
			if root.Grp().First() != z.Grp.First || root.Grp().Second() != z.Grp.Second {
				note("!grp")
			}
		}
		// fields outside the active member are neither written …
		dirty := *z
		if z.Which != 8 {
			dirty.U64 = 0xdeadbeefcafef00d
		}
		if z.Which != 13 {
			dirty.Text = "inactive"
		}
		if z.Which != 42 {
			dirty.Grp = &airZGroup{First: 0xdeadbeef, Second: 7}
		}
		if z.Which != 32 {
			dirty.Planebase = &airPlaneBase{Name: "inactive", Rating: 9}
		}
		if z.Which != 24 {
			dirty.U8vec = []byte{1, 2, 3}
		}
		msg2, seg2, _ := capnp.NewMessage(capnp.SingleSegment(nil))
		root2, _ := verifxNewRootZ(seg2)
		if err := pogs.Insert(verifxZTypeID, root2.Struct, &dirty); err != nil {
			return "insert-error:" + err.Error()
		}
		b1, _ := msg.Marshal()
		b2, _ := msg2.Marshal()
		if string(b1) != string(b2) {
			note("!inactive-field-written")
		}
		// … nor read: a message whose inactive slots hold leftovers (built by other means)
		if z.Which != 42 && z.Which != 8 && z.Which != 2 && z.Which != 5 && z.Which != 11 && z.Which != 12 && z.Which != 33 {
			// the group's words overlap other scalar members; pointer members leave them free
			root.Struct.SetUint64(8, 0xdeadbeef)
			var back2 airZ
			if err := pogs.Extract(&back2, verifxZTypeID, root.Struct); err == nil {
				if back2.Grp != nil {
					note("!inactive-group-read")
				}
				if back2.U64 != 0 || back2.F64 != 0 {
					note("!inactive-scalar-read")
				}
			}
		}
		// round trip (last: normalising the nil / empty equivalences touches the value's shared children)
		var back airZ
		if err := pogs.Extract(&back, verifxZTypeID, root.Struct); err != nil {
			return "extract-error:" + err.Error()
		}
		want := *z
		normZ(&want)
		normZ(&back)
		if !reflect.DeepEqual(&want, &back) {
			note("!round-trip")
		}
	case "defaults":
		d := airDefaults{Float: float32(r.Intn(100)) / 8, Int: int32(r.U64()), Uint: uint32(r.U64())}
		switch r.Intn(3) {
		case 1:
			d.Text = []byte{}
		case 2:
			d.Text = []byte("txt")
		}
		switch r.Intn(3) {
		case 1:
			d.Data = []byte{}
		case 2:
			d.Data = r.Bytes(1 + r.Intn(5))
		}
		_, seg, _ := capnp.NewMessage(capnp.SingleSegment(nil))
		root, _ := verifxNewRootDefaults(seg)
		if err := pogs.Insert(verifxDefaultsTypeID, root.Struct, &d); err != nil {
			return "insert-error:" + err.Error()
		}
		if s, _ := root.Text(); s != string(d.Text) {
			note("!text-accessor=" + s)
		}
		if b, _ := root.Data(); string(b) != string(d.Data) {
			note("!data-accessor")
		}
		if root.Float() != d.Float || root.Int() != d.Int || root.Uint() != d.Uint {
			note("!scalar-accessor")
		}
		var back airDefaults
		if err := pogs.Extract(&back, verifxDefaultsTypeID, root.Struct); err != nil {
			return "extract-error:" + err.Error()
		}
		if string(back.Text) != string(d.Text) || string(back.Data) != string(d.Data) || back.Float != d.Float || back.Int != d.Int || back.Uint != d.Uint {
			note("!round-trip")
		}
		// a message built by other means: untouched fields read as the schema defaults, through both paths
		_, seg3, _ := capnp.NewMessage(capnp.SingleSegment(nil))
		fresh, _ := verifxNewRootDefaults(seg3)
		var back3 airDefaults
		if err := pogs.Extract(&back3, verifxDefaultsTypeID, fresh.Struct); err == nil {
			t, _ := fresh.Text()
			dd, _ := fresh.Data()
			if string(back3.Text) != t || string(back3.Data) != string(dd) || back3.Float != fresh.Float() || back3.Int != fresh.Int() || back3.Uint != fresh.Uint() {
				note("!defaults-disagree")
			}
		}
	case "embed":
		e := airEmbedded{Name: "n" + strconv.Itoa(r.Intn(9))}
		e.Rating = int64(r.U64())
		e.CanFly = r.Bool()
		e.Capacity = int64(r.Intn(1000))
		e.MaxSpeed = float64(r.Intn(1000)) / 4
		for i := r.Intn(3); i > 0; i-- {
			e.Homes = append(e.Homes, uint16(r.Intn(6)))
		}
		_, seg, _ := capnp.NewMessage(capnp.SingleSegment(nil))
		root, _ := verifxNewRootPlaneBase(seg)
		if err := pogs.Insert(verifxPlaneBaseTypeID, root.Struct, &e); err != nil {
			return "insert-error:" + err.Error()
		}
		if n, _ := root.Name(); n != e.Name || root.Rating() != e.Rating || root.CanFly() != e.CanFly || root.Capacity() != e.Capacity || root.MaxSpeed() != e.MaxSpeed {
			note(fmt.Sprintf("!embedded-accessor rating=%d want %d capacity=%d want %d", root.Rating(), e.Rating, root.Capacity(), e.Capacity))
		}
		var back airEmbedded
		if err := pogs.Extract(&back, verifxPlaneBaseTypeID, root.Struct); err != nil {
			return "extract-error:" + err.Error()
		}
		if len(back.Homes) == 0 {
			back.Homes = nil
		}
		if !reflect.DeepEqual(e, back) {
			note("!round-trip")
		}
	case "embed2":
		// the same schema field offered at two depths: the least nested Go field wins; a name clash deeper down must not
		// disturb it (and is itself ignored)
		type shallow struct{ Rating int64 }
		type left struct {
			A int64 `capnp:"rating"`
		}
		type right struct {
			B int64 `capnp:"rating"`
		}
		type deep struct {
			left
			right
		}
		type outer struct {
			shallow
			deep
			Name string
		}
		type outerRev struct {
			deep
			shallow
			Name string
		}
		for variant := 0; variant < 2; variant++ {
			_, seg, _ := capnp.NewMessage(capnp.SingleSegment(nil))
			root, _ := verifxNewRootPlaneBase(seg)
			want := int64(r.U64())
			var err error
			if variant == 0 {
				err = pogs.Insert(verifxPlaneBaseTypeID, root.Struct, &outer{shallow: shallow{want}, deep: deep{left{4}, right{5}}, Name: "e"})
			} else {
				err = pogs.Insert(verifxPlaneBaseTypeID, root.Struct, &outerRev{shallow: shallow{want}, deep: deep{left{4}, right{5}}, Name: "e"})
			}
			if err != nil {
				return "insert-error:" + err.Error()
			}
			if root.Rating() != want {
				note(fmt.Sprintf("!least-nested-field-not-inserted-v%d", variant))
			}
			root.SetRating(want + 1)
			var o outer
			var orv outerRev
			if variant == 0 {
				err = pogs.Extract(&o, verifxPlaneBaseTypeID, root.Struct)
				if err == nil && (o.shallow.Rating != want+1 || o.deep.left.A != 0 || o.deep.right.B != 0) {
					note("!least-nested-field-not-extracted-v0")
				}
			} else {
				err = pogs.Extract(&orv, verifxPlaneBaseTypeID, root.Struct)
				if err == nil && (orv.shallow.Rating != want+1 || orv.deep.left.A != 0 || orv.deep.right.B != 0) {
					note("!least-nested-field-not-extracted-v1")
				}
			}
			if err != nil {
				return "extract-error:" + err.Error()
			}
		}
	case "big":
		// one Insert / Extract that visits very many structs: the schema lookups must not run out of anything
		n := 20000 + int(seed%3)*25000
		z := &airZ{Which: 25}
		for i := 0; i < n; i++ {
			z.Zvec = append(z.Zvec, &airZ{Which: 8, U64: uint64(i)})
		}
		_, seg, _ := capnp.NewMessage(capnp.MultiSegment(nil))
		root, _ := verifxNewRootZ(seg)
		if err := pogs.Insert(verifxZTypeID, root.Struct, z); err != nil {
			return "!insert-of-" + strconv.Itoa(n) + "-structs-failed:" + strings.ReplaceAll(err.Error(), " ", "_")
		}
		var back airZ
		if err := pogs.Extract(&back, verifxZTypeID, root.Struct); err != nil {
			return "!extract-of-" + strconv.Itoa(n) + "-structs-failed:" + strings.ReplaceAll(err.Error(), " ", "_")
		}
		if len(back.Zvec) != n || back.Zvec[n-1].U64 != uint64(n-1) {
			note("!round-trip")
		}
	default:
		return "bad-op"
	}
	if len(bad) == 0 {
		return "ok"
	}
	return strings.Join(bad, " ")
}

func genC19(rec *lib.Rec, r *lib.Rng, thorough bool) {
	n := 600
	if thorough {
		n = 20000
	}
	n /= Shards
	for i := 0; i < n; i++ {
		dw, discOff, fs, vals, which := g19Struct(r)
		if len(fs) == 0 {
			continue
		}
		rec.Op("M", fmt.Sprintf("pogs19 ins %d 0 %d %s %s %s", dw, discOff, strings.Join(fs, ","), which, strings.Join(vals, ",")), true)
		if i%2 == 0 {
			raw := r.Bytes(dw * 8)
			// no NaNs (see above): make the exponent of every float field, after the default is XORed in, not all ones
			for _, f := range fs {
				p := strings.Split(f, ":")
				off, _ := strconv.Atoi(p[1])
				mask, _ := strconv.ParseUint(p[2], 10, 64)
				switch p[0] {
				case "f32":
					// bit 23 (lowest exponent bit) of value = stored ^ mask must be 0
					b := off*4 + 2
					raw[b] = raw[b]&^0x80 | byte(mask>>16)&0x80
				case "f64":
					b := off*8 + 6
					raw[b] = raw[b]&^0x10 | byte(mask>>48)&0x10
				}
			}
			rec.Op("M", fmt.Sprintf("pogs19 ext %d 0 %d %s %s", dw, discOff, strings.Join(fs, ","), hex.EncodeToString(raw)), true)
		}
		rec.Op("S", "pogs19 air "+r.PickS("z", "z", "z", "defaults", "embed", "embed2")+" "+strconv.Itoa(r.Intn(1<<30)), true)
		if i == 0 {
			rec.Op("S", "pogs19 air big "+strconv.Itoa(Shard), true)
		}
	}
}
