package main

import (
	"encoding/binary"
	"strconv"
	"strings"

	"verifharness/lib"
)

var ptrFieldVals = []uint64{0, 1, 2, 3, 0xfffffffc, 0x7ffffffc, 0x80000000, 0x3ffffffc, 4, 8, 0xfffffff8}

// hostileWord builds a pointer-like word with boundary values in its fields.
func hostileWord(r *lib.Rng) uint64 {
	switch r.Intn(8) {
	case 0: // struct pointer
		return uint64(uint32(int32(r.Pick(-1, 0, 1, 2, -2, 1<<28, -(1<<29), 1<<29-1, r.Intn(16)-4))<<2)) |
			uint64(r.Pick(0, 1, 2, 0xffff, r.Intn(4)))<<32 | uint64(r.Pick(0, 1, 2, 0xffff, r.Intn(4)))<<48
	case 1, 2: // list pointer
		return 1 | uint64(uint32(int32(r.Pick(-1, 0, 1, 2, -2, 1<<28, -(1<<29), r.Intn(16)-4))<<2)) |
			uint64(r.Intn(8))<<32 | uint64(r.Pick(0, 1, 2, 3, 8, 9, 64, 1<<29-1, 1<<28, 1<<22, 1<<22+1, r.Intn(40)))<<35
	case 3: // far
		return 2 | uint64(r.Pick(0, 1, 2, 3, 1<<29-1, r.Intn(8)))<<3 | uint64(r.Pick(0, 1, 2, 3, 0xffffffff, r.Intn(3)))<<32
	case 4: // double far
		return 6 | uint64(r.Pick(0, 1, 2, 3, 1<<29-1, r.Intn(8)))<<3 | uint64(r.Pick(0, 1, 2, 3, 0xffffffff, r.Intn(3)))<<32
	case 5: // other
		return 3 | uint64(r.Pick(0, 0, 1, 4))<<2 | uint64(r.Pick(0, 1, 0xffffffff))<<32
	case 6: // composite tag: struct pointer whose offset is the element count
		return uint64(uint32(int32(r.Pick(0, 1, 2, 3, -1, -5, 1<<28, 1<<29-1, r.Intn(6)))<<2)) |
			uint64(r.Pick(0, 0, 1, 2, 0xffff))<<32 | uint64(r.Pick(0, 0, 1, 2, 0xffff))<<48
	default:
		return r.U64()
	}
}

// mutate overwrites words of a valid message with hostile ones / flips fields.
func mutate(r *lib.Rng, segs [][]byte) {
	for k := 1 + r.Intn(3); k > 0; k-- {
		s := r.Intn(len(segs))
		if len(segs[s]) < 8 {
			continue
		}
		off := 8 * r.Intn(len(segs[s])/8)
		w := binary.LittleEndian.Uint64(segs[s][off:])
		switch r.Intn(5) {
		case 0:
			w = hostileWord(r)
		case 1:
			w ^= 1 << uint(r.Intn(64))
		case 2: // offset field +-1
			w = w&^0xfffffffc | uint64(uint32(int32(uint32(w))>>2+int32(r.Pick(-1, 1, 2, -2)))<<2)
		case 3: // count/size field +-
			w += uint64(r.Pick(1, 8)) << uint(r.Pick(32, 35, 48))
		case 4:
			w = 0
		}
		binary.LittleEndian.PutUint64(segs[s][off:], w)
	}
	if r.Chance(1, 6) { // truncate a segment
		s := r.Intn(len(segs))
		if n := len(segs[s]); n >= 8 {
			segs[s] = segs[s][:8*r.Intn(n/8)]
		}
	}
}

func rawMessage(r *lib.Rng) [][]byte {
	n := 1 + r.Intn(3)
	segs := make([][]byte, n)
	for i := range segs {
		w := r.Intn(7)
		if i == 0 && r.Chance(9, 10) {
			w++
		}
		b := make([]byte, 8*w)
		for k := 0; k < w; k++ {
			binary.LittleEndian.PutUint64(b[8*k:], hostileWord(r))
		}
		segs[i] = b
	}
	return segs
}

// genMessage returns segments and the stream kind.
func genMessage(r *lib.Rng) ([][]byte, string) {
	switch r.Intn(10) {
	case 0, 1, 2, 3:
		b := 4 + r.Intn(30)
		nseg := 1 + r.Intn(3)
		return Encode(r, GenVal(r, 5, &b), nseg, r.Intn(6), r.Intn(6), r.Bool()), "valid"
	case 4, 5, 6, 7:
		b := 4 + r.Intn(20)
		nseg := 1 + r.Intn(3)
		segs := Encode(r, GenVal(r, 4, &b), nseg, r.Intn(6), r.Intn(6), r.Bool())
		mutate(r, segs)
		return segs, "mutated"
	default:
		return rawMessage(r), "raw"
	}
}

func genLimits(r *lib.Rng) (uint64, uint64) {
	T := uint64(r.Pick(8, 16, 24, 64, 256, 4096, 1<<20, 64<<20, 1<<32, 1<<40))
	D := uint64(r.Pick(1, 2, 3, 4, 5, 63, 64, 65))
	return T, D
}

// directedC01 sits on the side conditions of the C01 lemmas (DESIGN 2.5): counts and offsets at the
// edges of their fields, objects ending exactly at / one word past the segment end, large indices.
func directedC01(rec *lib.Rec, r *lib.Rng) {
	w := func(x uint64) string {
		var b [8]byte
		binary.LittleEndian.PutUint64(b[:], x)
		return lib.Hex(b[:])
	}
	Ts := []string{"8", "64", "4096", "4294967288", "4294967296", "1099511627776"}
	for _, T := range Ts {
		for _, D := range []string{"1", "2", "64"} {
			// composite list, n words, tag with count c and element size (ds,pc)
			for _, c := range []int32{-1, -5, -(1 << 29), 0, 1, 2, 3, 1<<29 - 1} {
				for _, sz := range [][2]uint64{{0, 0}, {1, 0}, {0, 1}, {1, 1}, {0xffff, 0xffff}} {
					for _, words := range []uint64{0, 1, 2, 3} {
						root := uint64(1) | 7<<32 | words<<35
						tag := uint64(uint32(c)<<2) | sz[0]<<32 | sz[1]<<48
						rec.Op("M", "read walk "+T+" "+D+" "+w(root)+w(tag)+"+z"+strconv.Itoa(int(8*words)), true)
						rec.Count("directed-composite")
					}
				}
			}
			// bit / byte lists whose last element sits at large offsets
			for _, n := range []uint64{1<<22 - 1, 1 << 22, 1<<22 + 1, 1<<22 + 9, 1 << 23} {
				root := uint64(1) | 1<<32 | n<<35
				rec.Op("M", "read walk "+T+" "+D+" "+w(root)+"+z"+strconv.Itoa(int((n+7)/8+8)), true)
				root = uint64(1) | 2<<32 | (n/8)<<35
				rec.Op("M", "read walk "+T+" "+D+" "+w(root)+"+z"+strconv.Itoa(int(n/8+8)), true)
				rec.Count("directed-large")
			}
			// struct of maximal size ending exactly at / past the end of the segment
			for _, slack := range []int{-8, 0, 8} {
				root := uint64(0xffff)<<32 | uint64(0xffff)<<48
				rec.Op("M", "read walk "+T+" "+D+" "+w(root)+"+z"+strconv.Itoa(2*0xffff*8+slack), true)
				rec.Count("directed-maxstruct")
			}
		}
	}
}

// partialPadMessages: the root is a far pointer whose landing pad is the last, incomplete word of a segment whose
// length is not a multiple of 8 (single far), or whose second landing-pad word is (double far)
func partialPadMessages(r *lib.Rng) []string {
	w := func(x uint64) string {
		var b [8]byte
		binary.LittleEndian.PutUint64(b[:], x)
		return lib.Hex(b[:])
	}
	var out []string
	for k := uint64(0); k <= 2; k++ {
		for tail := 1; tail <= 7; tail += 2 {
			tb := lib.Hex(r.Bytes(tail))
			pre := ""
			if k > 0 {
				pre = "z" + strconv.Itoa(int(8*k)) + "+"
			}
			out = append(out, w(k<<3|2|1<<32)+","+pre+tb)                                       // single far, pad = the partial word
			out = append(out, w(k<<3|4|2|1<<32)+","+pre+w(uint64(r.Intn(4))<<3|2|1<<32)+"+"+tb) // double far, tag word partial
		}
	}
	return out
}

func genC01(rec *lib.Rec, r *lib.Rng, thorough bool) {
	genTranslatorStream(rec, r, map[bool]int{false: 400, true: 20000}[thorough], nil)
	if Shard == 0 {
		directedC01(rec, r)
		for _, m := range partialPadMessages(r) {
			rec.Op("M", "read walk 4096 64 "+m, true)
			rec.Op("S", "read tree "+m, true)
		}
	}
	n := 6000
	if thorough {
		n = 400000
	}
	n /= Shards
	for i := 0; i < n; i++ {
		segs, kind := genMessage(r)
		rec.Count(kind)
		T, D := genLimits(r)
		total := 0
		for _, s := range segs {
			total += len(s)
		}
		rec.Op("M", "read walk "+strconv.FormatUint(T, 10)+" "+strconv.FormatUint(D, 10)+" "+segsStr(segs), total >= 16)
		// the recursive consumers on the same hostile message (budget capped so that a copy stays small)
		if T > 1<<20 {
			T = 1 << 20
		}
		if i%3 == 0 {
			lim := strconv.FormatUint(T, 10) + " " + strconv.FormatUint(D, 10) + " "
			rec.Op("S", "read nopanic equal "+lim+segsStr(segs), total >= 16)
			rec.Op("S", "read nopanic canon "+lim+segsStr(segs), total >= 16)
			rec.Op("S", "read nopanic copy "+lim+segsStr(segs), total >= 16)
			rec.Op("S", "read nopanic text "+lim+segsStr(segs), total >= 16)
			rec.Op("S", "read nopanic extract "+lim+segsStr(segs), total >= 16)
		}
		if i%6 == 1 {
			// a well-formed struct (or struct list) whose every 16-bit lane holds a small number: enum values and union
			// discriminants at, just below and just above the number of members of whatever type it is rendered as
			dw, pc := 1+r.Intn(8), r.Intn(5)
			mk := func() *Val {
				s := &Val{Kind: vStruct, Data: make([]byte, 8*dw)}
				for k := 0; k+2 <= len(s.Data); k += 2 {
					binary.LittleEndian.PutUint16(s.Data[k:], uint16(r.Pick(0, 1, 2, 3, 4, 5, 6, 7, 8, 9, r.Intn(64), 0xffff)))
				}
				for k := 0; k < pc; k++ {
					b := 2
					var ch *Val
					switch r.Intn(4) {
					case 0:
						ch = &Val{Kind: vNull}
					case 1:
						n := 1 + r.Intn(6)
						pr := make([]byte, 2*n)
						for q := 0; q < n; q++ {
							pr[2*q] = byte(r.Intn(12))
						}
						ch = &Val{Kind: vList, EK: 3, N: n, Prim: pr}
					default:
						ch = GenVal(r, 2, &b)
					}
					s.Ptrs = append(s.Ptrs, ch)
				}
				return s
			}
			sg := Encode(r, mk(), 1+r.Intn(2), 0, 0, false)
			rec.Op("S", "read nopanic text 1048576 64 "+segsStr(sg), true)
			rec.Op("S", "read nopanic extract 1048576 64 "+segsStr(sg), true)
			rec.Count("small-lanes")
		}
		if i%5 == 0 { // a Message / Decoder reused for a second message: nothing of the first may show through
			segsB, _ := genMessage(r)
			whole := true
			for _, s := range append(append([][]byte{}, segs...), segsB...) {
				whole = whole && len(s)%8 == 0
			}
			if whole && len(segs) > 0 && len(segsB) > 0 {
				rec.Op("S", "read reuse "+r.PickS("reset", "reset", "dec", "pdec")+" "+segsStr(segs)+" "+segsStr(segsB), true)
				rec.Count("reuse")
			}
		}
		if i%7 == 0 { // framing entry points on arbitrary bytes
			var raw []byte
			switch r.Intn(3) {
			case 0:
				raw = frame(segs)
				if r.Bool() && len(raw) > 0 {
					raw = raw[:r.Intn(len(raw))]
				}
			case 1:
				raw = frame(segs)
				for k := 0; k < 3 && len(raw) > 0; k++ {
					raw[r.Intn(min(len(raw), 16))] = byte(r.Pick(0, 1, 0xff, 0x7f, 0x3f, 0xfe, r.Intn(256)))
				}
			default:
				raw = r.Bytes(r.Intn(48))
			}
			rec.Op("S", "read nopanic unmarshal "+lib.Hex(raw), len(raw) >= 8)
			rec.Count("framing")
		}
	}
	if Shard == 0 {
		// hostile stream headers: segment counts at the edges of every field width
		for _, n := range []uint32{0, 1, 510, 511, 512, 513, 0xfffe, 0xffff, 0x3ffffffd, 0x3ffffffe, 0x3fffffff, 0x40000000, 0x7fffffff, 0x80000000, 0xfffffffe, 0xffffffff} {
			for _, tail := range []int{0, 4, 8, 12, 16, 40} {
				b := make([]byte, 4+tail)
				binary.LittleEndian.PutUint32(b, n)
				for k := 4; k+4 <= len(b); k += 4 {
					binary.LittleEndian.PutUint32(b[k:], uint32(r.Pick(0, 1, 2, 0xffffffff, 0x1fffffff, 0x20000000)))
				}
				rec.Op("S", "read nopanic unmarshal "+lib.Hex(b), true)
			}
		}
	}
}

// frame is the stream framing of the segments, written from the encoding document.
func frame(segs [][]byte) []byte {
	var b []byte
	var w [4]byte
	binary.LittleEndian.PutUint32(w[:], uint32(len(segs)-1))
	b = append(b, w[:]...)
	for _, s := range segs {
		binary.LittleEndian.PutUint32(w[:], uint32(len(s)/8))
		b = append(b, w[:]...)
	}
	if len(segs)%2 == 0 {
		b = append(b, 0, 0, 0, 0)
	}
	for _, s := range segs {
		b = append(b, s...)
	}
	return b
}

func min(a, b int) int {
	if a < b {
		return a
	}
	return b
}

// cyclicMessages: pointer graphs with cycles and sharing, for the depth / traversal limits.
func cyclicMessages() []string {
	w := func(xs ...uint64) string {
		b := make([]byte, 8*len(xs))
		for i, x := range xs {
			binary.LittleEndian.PutUint64(b[8*i:], x)
		}
		return lib.Hex(b)
	}
	sp := func(off int32, dw, pc uint64) uint64 { return uint64(uint32(off)<<2) | dw<<32 | pc<<48 }
	lp := func(off int32, ek, n uint64) uint64 { return 1 | uint64(uint32(off)<<2) | ek<<32 | n<<35 }
	return []string{
		w(sp(0, 0, 1), sp(-1, 0, 1)),                            // struct whose pointer 0 is itself
		w(sp(0, 0, 2), sp(-1, 0, 2), sp(-2, 0, 2)),              // both pointers back to the struct: 2^d paths
		w(lp(0, 6, 1), lp(-1, 6, 1)),                            // pointer list containing itself
		w(lp(0, 6, 2), lp(-1, 6, 2), lp(-2, 6, 2)),              // pointer list, two self references
		w(lp(0, 7, 2), sp(1, 0, 2), lp(-2, 7, 2), lp(-3, 7, 2)), // composite list, elements point to the list
		w(lp(0, 7, 1), sp(1, 0, 1), lp(-2, 7, 1)),               // composite list of one element pointing to the list
		w(sp(0, 1, 1), 0x1122334455667788, lp(-3, 6, 1)),        // struct -> pointer list that is the root slot
		w(lp(0, 7, 0), sp(4, 0, 0)),                             // 4 zero-sized composite elements
		w(lp(0, 0, 1<<29-1)),                                    // void list of maximal length
		w(lp(0, 7, 0), sp(1<<29-1, 0, 0)),                       // zero-sized composite elements, maximal count
	}
}

func genC02(rec *lib.Rec, r *lib.Rng, thorough bool) {
	if Shard == 0 {
		for _, m := range cyclicMessages() {
			for _, T := range []string{"8", "16", "64", "800", "4096", "65536", "67108864", "4294967296", "1099511627776"} {
				for D := 1; D <= 66; D++ {
					if D > 6 && D < 62 && !thorough {
						continue
					}
					rec.Op("M", "read walk "+T+" "+strconv.Itoa(D)+" "+m, true)
					rec.Count("cyclic")
				}
			}
		}
	}
	if Shard == 0 {
		for D := 1; D <= 66; D++ {
			for _, T := range []string{"64", "4096", "1048576"} {
				rec.Op("S", "read copycycle "+T+" "+strconv.Itoa(D), true)
			}
		}
		// races at budget exhaustion: the budget admits exactly one or two of the concurrent dereferences
		cyc := "00000000010001002a00000000000000f8ffffff01000100"
		for rep := 0; rep < map[bool]int{false: 300, true: 5000}[thorough]; rep++ {
			rec.Op("S", "read conc "+strconv.Itoa(r.Pick(32, 48, 40, 64))+" "+strconv.Itoa(r.Pick(8, 16, 32))+" "+strconv.Itoa(r.Pick(1, 2, 50))+" "+cyc, true)
			rec.Count("concurrent-exhaustion")
		}
		for rep := 0; rep < map[bool]int{false: 6, true: 60}[thorough]; rep++ {
			rec.Op("S", "read concx "+strconv.Itoa(r.Pick(2, 4, 8, 16))+" "+strconv.Itoa(3000+rep)+" "+cyc, true)
			rec.Count("concurrent-exhaustion-rounds")
		}
	}
	n := 3000
	if thorough {
		n = 200000
	}
	n /= Shards
	for i := 0; i < n; i++ {
		segs, kind := genMessage(r)
		rec.Count(kind)
		T, D := genLimits(r)
		total := 0
		for _, s := range segs {
			total += len(s)
		}
		rec.Op("M", "read walk "+strconv.FormatUint(T, 10)+" "+strconv.FormatUint(D, 10)+" "+segsStr(segs), total >= 16)
		if i%10 == 0 {
			b := 6
			segs := Encode(r, genStruct(r, 2, &b, 1, 2), 1, 0, 0, false)
			rec.Op("S", "read conc "+strconv.Itoa(r.Pick(64, 100, 1000, 4096, 100000))+" "+strconv.Itoa(r.Pick(2, 4, 8, 16))+" "+
				strconv.Itoa(r.Pick(10, 100, 1000))+" "+segsStr(segs), true)
			rec.Count("concurrent")
		}
	}
}

// renderVal is the expected canonical tree of a generated value (the harness-side shadow).
func renderVal(sb *strings.Builder, v *Val) {
	if v == nil || v.Kind == vNull {
		sb.WriteString("N")
		return
	}
	switch v.Kind {
	case vCap:
		sb.WriteString("C" + strconv.FormatUint(uint64(v.Cap), 10))
	case vStruct:
		renderStructVal(sb, v.Data, v.Ptrs)
	case vList:
		sb.WriteString("L" + strconv.Itoa(v.EK) + "," + strconv.Itoa(v.N) + "[")
		switch v.EK {
		case 7:
			for _, e := range v.Elems {
				renderStructVal(sb, e.Data, e.Ptrs)
			}
		case 6:
			for _, e := range v.Elems {
				renderVal(sb, e)
			}
		case 1:
			for i := 0; i < v.N; i++ {
				sb.WriteString(b01(v.Prim[i/8]>>(uint(i)%8)&1 == 1))
			}
		case 0:
		default:
			for _, b := range v.Prim {
				sb.WriteByte(hexdigits[b>>4])
				sb.WriteByte(hexdigits[b&15])
			}
		}
		sb.WriteString("]")
		if v.N > 0 && v.EK == 7 {
			sb.WriteString("^")
			if v.PC == 0 {
				sb.WriteString("E")
			} else {
				renderVal(sb, v.Elems[0].Ptrs[0])
			}
			sb.WriteString(",")
			if v.DS == 0 {
				sb.WriteString("0")
			} else {
				for _, b := range v.Elems[0].Data[:8] {
					sb.WriteByte(hexdigits[b>>4])
					sb.WriteByte(hexdigits[b&15])
				}
			}
		} else if v.N > 0 && v.EK >= 2 && v.EK <= 5 {
			w := elemBytes[v.EK]
			sb.WriteString("^S{")
			for _, b := range v.Prim[:w] {
				sb.WriteByte(hexdigits[b>>4])
				sb.WriteByte(hexdigits[b&15])
			}
			sb.WriteString("|}")
			if v.EK == 5 {
				for _, b := range v.Prim[:8] {
					sb.WriteByte(hexdigits[b>>4])
					sb.WriteByte(hexdigits[b&15])
				}
			} else {
				sb.WriteString("0")
			}
		}
	}
}

func renderStructVal(sb *strings.Builder, data []byte, ptrs []*Val) {
	sb.WriteString("S{")
	for _, b := range data {
		sb.WriteByte(hexdigits[b>>4])
		sb.WriteByte(hexdigits[b&15])
	}
	sb.WriteString("|")
	for _, p := range ptrs {
		renderVal(sb, p)
	}
	sb.WriteString("}")
}

func genC03(rec *lib.Rec, r *lib.Rng, thorough bool) {
	genTranslatorStream(rec, r, map[bool]int{false: 200, true: 5000}[thorough], nil)
	n := 3000
	if thorough {
		n = 150000
	}
	n /= Shards
	bad := 0
	if Shard == 0 {
		for _, m := range partialPadMessages(r) {
			rec.Op("S", "read tree "+m, true)
		}
	}
	for i := 0; i < n; i++ {
		if i%6 == 0 { // a Message / Decoder reused for a second message: the values read are the second message's
			b1, b2 := 3+r.Intn(10), 3+r.Intn(10)
			a := Encode(r, GenVal(r, 4, &b1), 1+r.Intn(3), r.Intn(8), r.Intn(8), r.Bool())
			bmsg := Encode(r, GenVal(r, 4, &b2), 1+r.Intn(2), r.Intn(8), r.Intn(8), r.Bool())
			rec.Op("S", "read reuse "+r.PickS("reset", "reset", "dec", "pdec")+" "+segsStr(a)+" "+segsStr(bmsg), true)
			rec.Count("reuse")
		}
		if i%4 == 0 { // default-aware accessors: only a null pointer means "the default"
			b3 := 3 + r.Intn(12)
			v := genStruct(r, 3, &b3, r.Intn(3), 1+r.Intn(4))
			if r.Intn(3) == 0 && len(v.Ptrs) > 0 { // a present, zero-sized struct / an empty list
				v.Ptrs[r.Intn(len(v.Ptrs))] = []*Val{{Kind: vStruct}, {Kind: vList, EK: 2}, {Kind: vList, EK: 0, N: 3}, {Kind: vNull}}[r.Intn(4)]
			}
			rec.Op("S", "read defaults "+segsStr(Encode(r, v, 1+r.Intn(3), r.Intn(8), r.Intn(8), r.Bool())), true)
			rec.Count("defaults")
		}
		b := 4 + r.Intn(40)
		nseg := 1 + r.Intn(4)
		v := GenVal(r, 6, &b)
		segs := Encode(r, v, nseg, r.Intn(8), r.Intn(8), r.Bool())
		line := "read tree " + segsStr(segs)
		// S: the accessors' tree vs the spec decoder's tree
		got := rec.Op("S", line, len(line) > 60)
		// harness-side shadow: what was encoded is what is read (zero-sized structs read back as empty structs)
		var sb strings.Builder
		renderVal(&sb, v)
		if got != sb.String() {
			bad++
			rec.Op("S", "read shadow "+sb.String()+" "+segsStr(segs), true)
		}
		if i%3 == 0 { // invalid encodings: both sides must agree on rejection too
			mutate(r, segs)
			rec.Op("S", "read tree "+segsStr(segs), true)
			rec.Count("mutated")
		}
		rec.Count("valid")
	}
}
