package main

import (
	"bytes"
	"capnproto.org/go/capnp/v3/encoding/text"
	"capnproto.org/go/capnp/v3/pogs"
	"errors"
	"runtime"
	"strconv"
	"strings"
	"sync"
	"sync/atomic"

	capnp "capnproto.org/go/capnp/v3"
	"verifharness/lib"
)

// exact returns a copy of b with cap == len, so that the Go runtime's slice
// checks fault exactly where the model's do.
func exact(b []byte) []byte {
	c := make([]byte, len(b))
	copy(c, b)
	return c[:len(b):len(b)]
}

func parseSegs(s string) ([][]byte, bool) {
	var segs [][]byte
	for _, h := range strings.Split(s, ",") {
		// a segment is a '+'-joined list of parts: hex bytes or z<N> (N zero bytes)
		var b []byte
		for _, part := range strings.Split(h, "+") {
			if strings.HasPrefix(part, "z") {
				n, err := strconv.Atoi(part[1:])
				if err != nil || n < 0 || n > 1<<26 {
					return nil, false
				}
				b = append(b, make([]byte, n)...)
				continue
			}
			pb, err := lib.UnHex(part)
			if err != nil {
				return nil, false
			}
			b = append(b, pb...)
		}
		segs = append(segs, exact(b))
	}
	return segs, true
}

func segsStr(segs [][]byte) string {
	var parts []string
	for _, s := range segs {
		parts = append(parts, lib.Hex(s))
	}
	return strings.Join(parts, ",")
}

type walker struct {
	sb    strings.Builder
	nodes int
}

func b01(b bool) string {
	if b {
		return "1"
	}
	return "0"
}

const hexdigits = "0123456789abcdef"

func (w *walker) ptr(p capnp.Ptr) {
	if w.nodes == 0 {
		w.sb.WriteString("F")
		return
	}
	w.nodes--
	switch {
	case !p.IsValid():
		w.sb.WriteString("N")
	case p.Struct().IsValid():
		w.strct(p.Struct())
	case p.List().IsValid():
		w.list(p.List())
	default:
		w.sb.WriteString("C" + strconv.FormatUint(uint64(p.Interface().Capability()), 10))
	}
}

func (w *walker) strct(s capnp.Struct) {
	sz := s.Size()
	ds, pc := int64(sz.DataSize), int64(sz.PointerCount)
	w.sb.WriteString("S" + strconv.FormatInt(ds, 10) + "," + strconv.FormatInt(pc, 10) + "{")
	nb := ds
	if nb > 24 {
		nb = 24
	}
	for k := int64(0); k < nb; k++ {
		v := s.Uint8(capnp.DataOffset(k))
		w.sb.WriteByte(hexdigits[v>>4])
		w.sb.WriteByte(hexdigits[v&15])
	}
	o2 := int64(0)
	if ds >= 2 {
		o2 = ds - 2
	}
	w.sb.WriteString("|" + strconv.FormatUint(s.Uint64(0), 10) + "," + strconv.FormatUint(uint64(s.Uint32(4)), 10) + "," +
		strconv.FormatUint(uint64(s.Uint16(capnp.DataOffset(o2))), 10) + "," + strconv.FormatUint(s.Uint64(capnp.DataOffset(ds)), 10) + "|")
	lb := int64(0)
	if ds > 0 {
		lb = ds*8 - 1
	}
	w.sb.WriteString(b01(s.Bit(0)) + b01(s.Bit(capnp.BitOffset(lb))) + b01(s.Bit(capnp.BitOffset(ds*8))) + "|")
	lp := int64(0)
	if pc > 0 {
		lp = pc - 1
	}
	w.sb.WriteString(b01(s.HasPtr(uint16(lp))) + b01(s.HasPtr(uint16(pc))))
	np := pc
	if np > 6 {
		np = 6
	}
	for i := int64(0); i < np; i++ {
		p, err := s.Ptr(uint16(i))
		if err != nil {
			w.sb.WriteString("E")
			continue
		}
		w.ptr(p)
	}
	w.sb.WriteString("}")
}

func idxs(n int) []int {
	var is []int
	for i := 0; i < n && i < 4; i++ {
		is = append(is, i)
	}
	if n > 4 {
		is = append(is, n-1)
	}
	return is
}

func (w *walker) list(l capnp.List) {
	flags, ds, pc := capnp.VerifListInfo(l)
	n := l.Len()
	w.sb.WriteString("L" + strconv.Itoa(flags) + "," + strconv.Itoa(n) + "," + strconv.FormatUint(uint64(ds), 10) + "," + strconv.Itoa(int(pc)) + "[")
	is := idxs(n)
	switch {
	case flags == 2:
		for _, i := range is {
			w.sb.WriteString(b01(capnp.BitList{List: l}.At(i)))
		}
	case flags == 1 || pc > 0:
		for _, i := range is {
			if pc >= 1 {
				p, err := capnp.PointerList{List: l}.At(i)
				if err != nil {
					w.sb.WriteString("E")
				} else {
					w.ptr(p)
				}
			}
			if flags == 1 {
				w.sb.WriteString("u" + strconv.FormatUint(capnp.UInt64List{List: l}.At(i), 10))
			}
			st := l.Struct(i)
			if !st.IsValid() {
				w.sb.WriteString("Z")
			} else if w.nodes == 0 {
				w.sb.WriteString("F")
			} else {
				w.nodes--
				w.strct(st)
			}
		}
	default:
		for _, i := range is {
			switch ds {
			case 0:
				w.sb.WriteString("v")
			case 1:
				w.sb.WriteString(strconv.FormatUint(uint64(capnp.UInt8List{List: l}.At(i)), 10) + ";")
			case 2:
				w.sb.WriteString(strconv.FormatUint(uint64(capnp.UInt16List{List: l}.At(i)), 10) + ";")
			case 4:
				w.sb.WriteString(strconv.FormatUint(uint64(capnp.UInt32List{List: l}.At(i)), 10) + ";")
			case 8:
				w.sb.WriteString(strconv.FormatUint(capnp.UInt64List{List: l}.At(i), 10) + ";")
			default:
				w.sb.WriteString("?;")
			}
		}
		if len(is) > 0 {
			st := l.Struct(is[0])
			if !st.IsValid() {
				w.sb.WriteString("Z")
			} else if w.nodes == 0 {
				w.sb.WriteString("F")
			} else {
				w.nodes--
				w.strct(st)
			}
		}
	}
	w.sb.WriteString("]")
	if tb := l.ToPtr().TextBytes(); tb == nil {
		w.sb.WriteString("t-")
	} else {
		k := len(tb)
		if k > 16 {
			k = 16
		}
		w.sb.WriteString("t")
		for _, v := range tb[:k] {
			w.sb.WriteByte(hexdigits[v>>4])
			w.sb.WriteByte(hexdigits[v&15])
		}
		w.sb.WriteString(":" + strconv.Itoa(len(tb)))
	}
	if d := l.ToPtr().Data(); d == nil {
		w.sb.WriteString("d-")
	} else {
		w.sb.WriteString("d" + strconv.Itoa(len(d)))
	}
}

// execConc: "read conc <T> <k> <n> <segs>": k goroutines dereference the root's pointer 0
// n times each on one shared message; the bytes granted plus the remaining budget must not exceed T.
// execConcRounds: "read concx <k> <rounds> <segs>": k goroutines, released together round after round, each
// dereference the root's pointer 0 once while the budget (reset before every round) admits exactly one of them:
// the budget check and its debit must be one atomic step.
func execConcRounds(t []string) string {
	k, _ := strconv.Atoi(t[1])
	rounds, _ := strconv.Atoi(t[2])
	segs, ok := parseSegs(t[3])
	if !ok {
		return "bad-op"
	}
	msg := &capnp.Message{Arena: capnp.MultiSegment(segs), TraverseLimit: 1 << 30}
	root, err := msg.Root()
	if err != nil || !root.Struct().IsValid() {
		return "ok"
	}
	rs := root.Struct()
	p0, err := rs.Ptr(0)
	if err != nil || !p0.Struct().IsValid() {
		return "ok"
	}
	cost := uint64(p0.Struct().Size().DataSize) + 8*uint64(p0.Struct().Size().PointerCount)
	if cost == 0 {
		return "ok"
	}
	var round, done int64
	granted := make([]uint64, k)
	for g := 0; g < k; g++ {
		go func(g int) {
			for r := int64(1); r <= int64(rounds); r++ {
				for atomic.LoadInt64(&round) < r {
					runtime.Gosched()
				}
				if p, err := rs.Ptr(0); err == nil && p.Struct().IsValid() {
					atomic.AddUint64(&granted[g], cost)
				}
				atomic.AddInt64(&done, 1)
			}
		}(g)
	}
	bad := ""
	for r := int64(1); r <= int64(rounds); r++ {
		limit := cost + uint64(r)%cost // admits one dereference, not two
		msg.ResetReadLimit(limit)
		for g := range granted {
			atomic.StoreUint64(&granted[g], 0)
		}
		atomic.StoreInt64(&round, r)
		for atomic.LoadInt64(&done) < r*int64(k) {
			runtime.Gosched()
		}
		total := uint64(0)
		for g := range granted {
			total += atomic.LoadUint64(&granted[g])
		}
		if rl := msg.VerifReadLimit(); bad == "" && (total+rl > limit || rl > limit) {
			bad = "over round=" + strconv.FormatInt(r, 10) + " granted=" + strconv.FormatUint(total, 10) + " rl=" + strconv.FormatUint(rl, 10) + " limit=" + strconv.FormatUint(limit, 10)
		}
	}
	if bad != "" {
		return bad
	}
	return "ok"
}

func execConc(t []string) string {
	if len(t) == 4 && t[0] == "concx" {
		return execConcRounds(t)
	}
	if len(t) != 5 {
		return "bad-op"
	}
	T, _ := strconv.ParseUint(t[1], 10, 64)
	k, _ := strconv.Atoi(t[2])
	n, _ := strconv.Atoi(t[3])
	segs, ok := parseSegs(t[4])
	if !ok {
		return "bad-op"
	}
	msg := &capnp.Message{Arena: capnp.MultiSegment(segs), TraverseLimit: T}
	root, err := msg.Root()
	if err != nil || !root.Struct().IsValid() {
		return "ok"
	}
	rs := root.Struct()
	base := uint64(rs.Size().DataSize) + 8*uint64(rs.Size().PointerCount)
	granted := make([]uint64, k)
	var wg sync.WaitGroup
	start := make(chan struct{})
	for g := 0; g < k; g++ {
		wg.Add(1)
		go func(g int) {
			defer wg.Done()
			<-start
			for i := 0; i < n; i++ {
				p, err := rs.Ptr(uint16(i % 2))
				if err == nil && p.Struct().IsValid() {
					sz := p.Struct().Size()
					granted[g] += uint64(sz.DataSize) + 8*uint64(sz.PointerCount)
				} else if err == nil && p.List().IsValid() {
					_, ds, pc := capnp.VerifListInfo(p.List())
					e := uint64(ds) + 8*uint64(pc)
					if e == 0 {
						e = 8
					}
					granted[g] += e * uint64(p.List().Len())
				}
			}
		}(g)
	}
	close(start)
	wg.Wait()
	total := base
	for _, x := range granted {
		total += x
	}
	if total+msg.VerifReadLimit() > T || msg.VerifReadLimit() > T {
		return "over granted=" + strconv.FormatUint(total, 10) + " rl=" + strconv.FormatUint(msg.VerifReadLimit(), 10)
	}
	return "ok"
}

// tree renders the complete value tree through the public accessors, in the
// canonical form of Spec.Encoding.renderPtr.
// treeBudget: at most this many pointers are rendered per tree (depth first, left to right), the rest print as "~":
// a few hostile words can describe a tree of astronomical size (the spec renderer has the same budget)
var treeBudget = 3000

func tree(sb *strings.Builder, p capnp.Ptr, err error) {
	if treeBudget == 0 {
		sb.WriteString("~")
		return
	}
	treeBudget--
	if err != nil {
		sb.WriteString("E")
		return
	}
	switch {
	case !p.IsValid():
		sb.WriteString("N")
	case p.Struct().IsValid():
		treeStruct(sb, p.Struct())
	case p.List().IsValid():
		l := p.List()
		flags, ds, pc := capnp.VerifListInfo(l)
		n := l.Len()
		ek := 0
		switch {
		case flags == 1:
			ek = 7
		case flags == 2:
			ek = 1
		case pc == 1 && ds == 0:
			ek = 6
		case ds == 1:
			ek = 2
		case ds == 2:
			ek = 3
		case ds == 4:
			ek = 4
		case ds == 8:
			ek = 5
		}
		sb.WriteString("L" + strconv.Itoa(ek) + "," + strconv.Itoa(n) + "[")
		nAll := n
		if n > treeCap {
			n = treeCap // both sides render at most treeCap elements / fields
		}
		hexLE := func(v uint64, w int) {
			for k := 0; k < w; k++ {
				b := byte(v >> (8 * uint(k)))
				sb.WriteByte(hexdigits[b>>4])
				sb.WriteByte(hexdigits[b&15])
			}
		}
		for i := 0; i < n; i++ {
			switch ek {
			case 7:
				treeStruct(sb, l.Struct(i))
			case 6:
				q, err := capnp.PointerList{List: l}.At(i)
				tree(sb, q, err)
			case 1:
				sb.WriteString(b01(capnp.BitList{List: l}.At(i)))
			case 2:
				hexLE(uint64(capnp.UInt8List{List: l}.At(i)), 1)
			case 3:
				hexLE(uint64(capnp.UInt16List{List: l}.At(i)), 2)
			case 4:
				hexLE(uint64(capnp.UInt32List{List: l}.At(i)), 4)
			case 5:
				hexLE(capnp.UInt64List{List: l}.At(i), 8)
			}
		}
		sb.WriteString("]")
		// the byte-oriented views of a byte list must agree with its elements: Data() is the bytes, Text() / TextBytes()
		// the bytes without the final NUL when there is one (interior NULs belong to the text), else empty
		if ek == 2 && flags == 0 && nAll <= 4096 {
			bl := capnp.UInt8List{List: l}
			el := make([]byte, nAll)
			for i := range el {
				el[i] = bl.At(i)
			}
			wantText := []byte{}
			if nAll > 0 && el[nAll-1] == 0 {
				wantText = el[:nAll-1]
			}
			if !bytes.Equal(p.Data(), el) {
				sb.WriteString("!data-view")
			}
			if p.Text() != string(wantText) || !bytes.Equal(p.TextBytes(), wantText) {
				sb.WriteString("!text-view")
			}
		}
		// upgrade rules on the first element (see Spec.Encoding.renderPtr)
		_ = nAll
		if n > 0 && ek == 7 {
			sb.WriteString("^")
			q, err := capnp.PointerList{List: l}.At(0)
			tree(sb, q, err)
			sb.WriteString(",")
			if ds == 0 {
				sb.WriteString(strconv.FormatUint(capnp.UInt64List{List: l}.At(0), 10))
			} else {
				hexLE(capnp.UInt64List{List: l}.At(0), 8)
			}
		} else if n > 0 && ek >= 2 && ek <= 5 {
			sb.WriteString("^")
			st := l.Struct(0)
			treeStruct(sb, st)
			if ek == 5 {
				hexLE(st.Uint64(0), 8)
			} else {
				sb.WriteString(strconv.FormatUint(st.Uint64(0), 10)) // wider than the element: default
			}
		}
	default:
		if treeCapByClient {
			sb.WriteString("C" + clientID(p.Interface().Message(), uint32(p.Interface().Capability())))
		} else {
			sb.WriteString("C" + strconv.FormatUint(uint64(p.Interface().Capability()), 10))
		}
	}
}

const treeCap = 64

func treeStruct(sb *strings.Builder, s capnp.Struct) {
	sz := s.Size()
	sb.WriteString("S{")
	if sz.DataSize > 8*treeCap {
		sz.DataSize = 8 * treeCap
	}
	if sz.PointerCount > treeCap {
		sz.PointerCount = treeCap
	}
	for k := 0; k < int(sz.DataSize); k++ {
		v := s.Uint8(capnp.DataOffset(k))
		sb.WriteByte(hexdigits[v>>4])
		sb.WriteByte(hexdigits[v&15])
	}
	sb.WriteString("|")
	for i := 0; i < int(sz.PointerCount); i++ {
		q, err := s.Ptr(uint16(i))
		tree(sb, q, err)
	}
	sb.WriteString("}")
}

func execTree(t []string) string {
	segs, ok := parseSegs(t[1])
	if !ok {
		return "bad-op"
	}
	msg := &capnp.Message{Arena: capnp.MultiSegment(segs), TraverseLimit: 1 << 40, DepthLimit: 64}
	root, err := msg.Root()
	var sb strings.Builder
	treeBudget = 3000
	tree(&sb, root, err)
	return sb.String()
}

// execReuse: "read reuse <how> <segsA> <segsB>": message A is read completely, then the same Message / Decoder is
// reused for message B (how = reset: Message.Reset; dec / pdec: one Decoder with ReuseBuffer over a plain / packed
// stream).  The result is the tree of B: nothing of A may show through.
func execReuse(t []string) string {
	a, ok1 := parseSegs(t[2])
	b, ok2 := parseSegs(t[3])
	if !ok1 || !ok2 {
		return "bad-op"
	}
	render := func(msg *capnp.Message) string {
		msg.TraverseLimit = 1 << 40
		msg.DepthLimit = 64
		msg.ResetReadLimit(1 << 40)
		root, err := msg.Root()
		var sb strings.Builder
		treeBudget = 3000
		tree(&sb, root, err)
		return sb.String()
	}
	switch t[1] {
	case "reset":
		msg := &capnp.Message{Arena: capnp.MultiSegment(a)}
		render(msg)
		msg.Reset(capnp.MultiSegment(b))
		return render(msg)
	case "dec", "pdec":
		ma := &capnp.Message{Arena: capnp.MultiSegment(a)}
		mb := &capnp.Message{Arena: capnp.MultiSegment(b)}
		var buf bytes.Buffer
		var enc *capnp.Encoder
		if t[1] == "pdec" {
			enc = capnp.NewPackedEncoder(&buf)
		} else {
			enc = capnp.NewEncoder(&buf)
		}
		if enc.Encode(ma) != nil || enc.Encode(mb) != nil {
			return execTree([]string{"tree", t[3]})
		}
		var dec *capnp.Decoder
		if t[1] == "pdec" {
			dec = capnp.NewPackedDecoder(&buf)
		} else {
			dec = capnp.NewDecoder(&buf)
		}
		dec.ReuseBuffer()
		m1, err := dec.Decode()
		if err != nil {
			return execTree([]string{"tree", t[3]})
		}
		render(m1)
		m2, err := dec.Decode()
		if err != nil {
			return execTree([]string{"tree", t[3]})
		}
		return render(m2)
	}
	return "bad-op"
}

var sharedOnce sync.Once
var shared []*capnp.Client

func sharedClients() []*capnp.Client {
	sharedOnce.Do(func() {
		for i := 0; i < 8; i++ {
			shared = append(shared, capnp.ErrorClient(errors.New("cap "+strconv.Itoa(i))))
		}
	})
	return shared
}

// execNoPanic runs one of the recursive consumers on a hostile message; the only thing compared is
// that it returns (value or error): "read nopanic <what> <T> <D> <segs>" / "read nopanic unmarshal <hex>".
func execNoPanic(t []string) string {
	if t[0] == "unmarshal" {
		b, err := lib.UnHex(t[1])
		if err != nil {
			return "bad-op"
		}
		b = exact(b)
		if m, err := capnp.Unmarshal(b); err == nil {
			m.TraverseLimit = 1 << 16
			if r, err := m.Root(); err == nil {
				w := &walker{nodes: 100}
				w.ptr(r)
			}
		}
		if m, err := capnp.UnmarshalPacked(b); err == nil {
			m.TraverseLimit = 1 << 16
			if r, err := m.Root(); err == nil {
				w := &walker{nodes: 100}
				w.ptr(r)
			}
		}
		d := capnp.NewDecoder(bytes.NewReader(b))
		d.MaxMessageSize = 1 << 20
		for i := 0; i < 4; i++ {
			if _, err := d.Decode(); err != nil {
				break
			}
		}
		pd := capnp.NewPackedDecoder(bytes.NewReader(b))
		pd.MaxMessageSize = 1 << 20
		for i := 0; i < 4; i++ {
			if _, err := pd.Decode(); err != nil {
				break
			}
		}
		return "done"
	}
	if len(t) != 4 {
		return "bad-op"
	}
	T, _ := strconv.ParseUint(t[1], 10, 64)
	D, _ := strconv.ParseUint(t[2], 10, 64)
	segs, ok := parseSegs(t[3])
	if !ok {
		return "bad-op"
	}
	msg := &capnp.Message{Arena: capnp.MultiSegment(segs), TraverseLimit: T, DepthLimit: uint(D)}
	root, err := msg.Root()
	if err != nil {
		return "done"
	}
	switch t[0] {
	case "equal":
		capnp.Equal(root, root)
		segs2, _ := parseSegs(t[3])
		msg2 := &capnp.Message{Arena: capnp.MultiSegment(segs2), TraverseLimit: T, DepthLimit: uint(D)}
		if r2, err := msg2.Root(); err == nil {
			capnp.Equal(root, r2)
		}
	case "canon":
		if root.Struct().IsValid() {
			capnp.Canonicalize(root.Struct())
		}
	case "text":
		// the root rendered as text under every struct type of the schema (what a generated String() does)
		if root.Struct().IsValid() {
			loadSchema()
			for _, id := range structIDs {
				msg.ResetReadLimit(T)
				text.Marshal(id, root.Struct())
			}
		}
		if root.List().IsValid() {
			loadSchema()
			for _, id := range structIDs {
				msg.ResetReadLimit(T)
				text.MarshalList(id, root.List())
			}
		}
	case "extract":
		if root.Struct().IsValid() {
			var z airZ
			pogs.Extract(&z, verifxZTypeID, root.Struct())
			msg.ResetReadLimit(T)
			var pb airPlaneBase
			pogs.Extract(&pb, verifxPlaneBaseTypeID, root.Struct())
			msg.ResetReadLimit(T)
			var d airDefaults
			pogs.Extract(&d, verifxDefaultsTypeID, root.Struct())
		}
	case "copy":
		_, seg, err := capnp.NewMessage(capnp.SingleSegment(nil))
		if err == nil {
			seg.Message().SetRoot(root)
		}
		_, seg2, err := capnp.NewMessage(capnp.MultiSegment(nil))
		if err == nil {
			seg2.Message().SetRoot(root)
		}
	default:
		return "bad-op"
	}
	return "done"
}

// execCopyCycle: "read copycycle <T> <D>": deep copy of the one-pointer cyclic struct; the copy may
// follow at most D pointers, so it allocates at most D+1 two-word structs (Props.C02.path_bounds).
func execCopyCycle(t []string) string {
	T, _ := strconv.ParseUint(t[1], 10, 64)
	D, _ := strconv.ParseUint(t[2], 10, 64)
	seg := make([]byte, 24)
	// word 0: struct ptr off 0, data 1 word, 1 pointer ; word 1: data; word 2: pointer back to the struct (off -2)
	copy(seg, []byte{0, 0, 0, 0, 1, 0, 1, 0})
	seg[8] = 0x2a
	copy(seg[16:], []byte{0xf8, 0xff, 0xff, 0xff, 1, 0, 1, 0})
	msg := &capnp.Message{Arena: capnp.SingleSegment(exact(seg)), TraverseLimit: T, DepthLimit: uint(D)}
	root, err := msg.Root()
	if err != nil {
		return "ok"
	}
	_, dseg, err := capnp.NewMessage(capnp.SingleSegment(nil))
	if err != nil {
		return "ok"
	}
	dseg.Message().SetRoot(root)
	n := len(dseg.Data())
	if uint64(n) > 8+16*(D+2) {
		return "over " + strconv.Itoa(n)
	}
	return "ok"
}

// execCanon: "read canon <segs>": Canonicalize(root struct); also checks that canonicalising the
// canonical form gives the same bytes.
func execCanon(t []string) string {
	segs, ok := parseSegs(t[1])
	if !ok {
		return "bad-op"
	}
	msg := &capnp.Message{Arena: capnp.MultiSegment(segs), TraverseLimit: 1 << 40}
	root, err := msg.Root()
	if err != nil {
		return "invalid"
	}
	b, err := capnp.Canonicalize(root.Struct())
	if err != nil {
		return "err"
	}
	m2 := &capnp.Message{Arena: capnp.SingleSegment(exact(b)), TraverseLimit: 1 << 40}
	r2, err := m2.Root()
	if err != nil {
		return "canonical-form-unreadable"
	}
	b2, err := capnp.Canonicalize(r2.Struct())
	if err != nil || !bytes.Equal(b, b2) {
		return "not-idempotent " + lib.Hex(b) + " " + lib.Hex(b2)
	}
	return "ok " + lib.Hex(b)
}

// execEqual: "read equal <segsA> <segsB>": capnp.Equal on the two roots.
func execEqual(t []string) string {
	sa, ok1 := parseSegs(t[1])
	sb, ok2 := parseSegs(t[2])
	if !ok1 || !ok2 {
		return "bad-op"
	}
	ma := &capnp.Message{Arena: capnp.MultiSegment(sa), TraverseLimit: 1 << 40}
	mb := &capnp.Message{Arena: capnp.MultiSegment(sb), TraverseLimit: 1 << 40}
	// both capability tables hold the same eight clients: index i of either message is client i
	shift, _ := strconv.Atoi(t[3])
	cl := sharedClients()
	for i := range cl {
		ma.AddCap(cl[i].AddRef())
		mb.AddCap(cl[(i+shift)%8].AddRef()) // same clients, other order: identity is by client
	}
	ra, err := ma.Root()
	if err != nil {
		return "invalid"
	}
	rb, err := mb.Root()
	if err != nil {
		return "invalid"
	}
	eq, err := capnp.Equal(ra, rb)
	if err != nil {
		return "invalid"
	}
	if eq {
		return "true"
	}
	return "false"
}

// execDefaults: "read defaults <segs>": for every pointer field of the root struct, its kind (N null, S struct, L list,
// C capability) and whether StructDefault / ListDefault hand out the field's own value (o) or the schema default (d).
// Only a pointer that is not of the asked kind — null in particular — means "the default"; a present empty struct or
// list is the field's own value.
func execDefaults(segsHex string) string {
	segs, ok := parseSegs(segsHex)
	if !ok {
		return "bad-op"
	}
	defOnce.Do(func() {
		m, seg, _ := capnp.NewMessage(capnp.SingleSegment(nil))
		st, _ := capnp.NewRootStruct(seg, capnp.ObjectSize{DataSize: 8, PointerCount: 1})
		st.SetUint64(0, 42)
		st.SetText(0, "def")
		defStruct, _ = m.Marshal()
		m2, seg2, _ := capnp.NewMessage(capnp.SingleSegment(nil))
		l, _ := capnp.NewUInt16List(seg2, 3)
		l.Set(0, 7)
		m2.SetRoot(l.ToPtr())
		defList, _ = m2.Marshal()
	})
	msg := &capnp.Message{Arena: capnp.MultiSegment(segs), TraverseLimit: 1 << 40}
	root, err := msg.Root()
	if err != nil || !root.Struct().IsValid() {
		return "invalid"
	}
	rs := root.Struct()
	var out []string
	for i := 0; i < int(rs.Size().PointerCount) && i < 8; i++ {
		p, err := rs.Ptr(uint16(i))
		if err != nil {
			return "invalid"
		}
		k := "C"
		switch {
		case !p.IsValid():
			k = "N"
		case p.Struct().IsValid():
			k = "S"
		case p.List().IsValid():
			k = "L"
		}
		sd, err1 := p.StructDefault(defStruct)
		ld, err2 := p.ListDefault(defList)
		if err1 != nil || err2 != nil {
			return "invalid"
		}
		s, l := "o", "o"
		if sd.Message() != msg {
			s = "d"
			if sd.Uint64(0) != 42 {
				s = "!wrong-default"
			}
		}
		if ld.Message() != msg {
			l = "d"
			if ld.Len() != 3 {
				l = "!wrong-default"
			}
		}
		out = append(out, k+":"+s+":"+l)
	}
	return strings.Join(out, ",")
}

// execEqualCap: "read equalcap <segs> <ntab> <nilmask> <m>": the root holds two structs, each holding one capability
// pointer; the table has ntab entries, null where the mask has a bit set, else client (k mod m) of the shared clients.
// Output: Equal's verdict on the two capability pointers (Model.EqualCap.eqSameMsg).
func execEqualCap(t []string) string {
	segs, ok := parseSegs(t[1])
	if !ok {
		return "bad-op"
	}
	ntab, _ := strconv.Atoi(t[2])
	mask, _ := strconv.Atoi(t[3])
	m, _ := strconv.Atoi(t[4])
	if m < 1 || m > 8 || ntab > 16 {
		return "bad-op"
	}
	msg := &capnp.Message{Arena: capnp.MultiSegment(segs), TraverseLimit: 1 << 40}
	for k := 0; k < ntab; k++ {
		if mask>>uint(k)&1 == 1 {
			msg.AddCap(nil)
		} else {
			msg.AddCap(sharedClients()[k%m].AddRef())
		}
	}
	root, err := msg.Root()
	if err != nil || !root.Struct().IsValid() {
		return "invalid"
	}
	var ps [2]capnp.Ptr
	for k := range ps {
		b, err := root.Struct().Ptr(uint16(k))
		if err != nil || !b.Struct().IsValid() {
			return "invalid"
		}
		ps[k], err = b.Struct().Ptr(0)
		if err != nil || !ps[k].Interface().IsValid() {
			return "invalid"
		}
	}
	eq, err := capnp.Equal(ps[0], ps[1])
	if err != nil {
		return "invalid"
	}
	return strconv.FormatBool(eq)
}

// execEqualCopy: "read equalcopy <segs> <mode>": a value equals its deep copy, in both argument orders, whatever the
// destination held before and also when the destination is a larger (zero-extended) struct.  Mode 0: SetRoot into a new
// message; 1: CopyFrom into a dirty larger struct; 2: SetStruct into a dirty larger composite-list element; 3: the
// root is a list and each element, viewed as a struct, is copied into a dirty larger struct.
func execEqualCopy(segsHex, modeStr string) string {
	segs, ok := parseSegs(segsHex)
	if !ok {
		return "bad-op"
	}
	mode, _ := strconv.Atoi(modeStr)
	m := &capnp.Message{Arena: capnp.MultiSegment(segs), TraverseLimit: 1 << 40}
	for _, c := range sharedClients() {
		m.AddCap(c.AddRef())
	}
	root, err := m.Root()
	if err != nil {
		return "invalid"
	}
	dst, dseg, err := capnp.NewMessage(capnp.MultiSegment(nil))
	if err != nil {
		return "builderr"
	}
	both := func(a, b capnp.Ptr, where string) string {
		m.ResetReadLimit(1 << 40)
		dst.ResetReadLimit(1 << 40)
		e1, err1 := capnp.Equal(a, b)
		e2, err2 := capnp.Equal(b, a)
		if err1 != nil || err2 != nil {
			return "invalid"
		}
		if !e1 || !e2 {
			return "false " + where
		}
		return ""
	}
	dirty := func(sz capnp.ObjectSize, inList bool) (capnp.Struct, error) {
		var st capnp.Struct
		if inList {
			cl, err := capnp.NewCompositeList(dseg, sz, 2)
			if err != nil {
				return st, err
			}
			if err := dst.SetRoot(cl.ToPtr()); err != nil {
				return st, err
			}
			st = cl.Struct(1)
		} else {
			var err error
			st, err = capnp.NewStruct(dseg, sz)
			if err != nil {
				return st, err
			}
		}
		for k := 0; k < int(sz.DataSize); k++ {
			st.SetUint8(capnp.DataOffset(k), 0xbb)
		}
		for i := 0; i < int(sz.PointerCount); i++ {
			old, _ := capnp.NewStruct(dseg, capnp.ObjectSize{DataSize: 8})
			old.SetUint64(0, 0x0123456789abcdef)
			st.SetPtr(uint16(i), old.ToPtr())
		}
		return st, nil
	}
	grow := func(sz capnp.ObjectSize) capnp.ObjectSize {
		words := (int(sz.DataSize) + 7) / 8
		return capnp.ObjectSize{DataSize: capnp.Size(8 * (words + 1)), PointerCount: sz.PointerCount + 1}
	}
	switch {
	case mode == 0 || (mode != 3 && !root.Struct().IsValid()) || (mode == 3 && !root.List().IsValid()):
		if err := dst.SetRoot(root); err != nil {
			return "copyerr"
		}
		r2, err := dst.Root()
		if err != nil {
			return "copyerr"
		}
		if s := both(root, r2, "setroot"); s != "" {
			return s
		}
	case mode == 1 || mode == 2:
		src := root.Struct()
		if src.Size().DataSize > 8*1000 || src.Size().PointerCount > 1000 {
			return "true"
		}
		st, err := dirty(grow(src.Size()), mode == 2)
		if err != nil {
			return "builderr"
		}
		if mode == 2 {
			r, _ := dst.Root()
			err = r.List().SetStruct(1, src)
		} else {
			err = st.CopyFrom(src)
		}
		if err != nil {
			return "copyerr"
		}
		if s := both(root, st.ToPtr(), "copyfrom"); s != "" {
			return s
		}
	default:
		l := root.List()
		for i := 0; i < l.Len() && i < 6; i++ {
			e := l.Struct(i)
			if !e.IsValid() || e.Size().DataSize > 8*1000 || e.Size().PointerCount > 1000 {
				continue
			}
			st, err := dirty(grow(e.Size()), false)
			if err != nil {
				return "builderr"
			}
			if err := st.CopyFrom(e); err != nil {
				return "copyerr"
			}
			if s := both(e.ToPtr(), st.ToPtr(), "element "+strconv.Itoa(i)); s != "" {
				return s
			}
		}
	}
	return "true"
}

var defOnce sync.Once
var defStruct, defList []byte

// execEqualIn: Equal on two pointers of ONE message (pointer fields 0 and 1 of the root struct).
// "read equalin <segs>": the capability table holds the eight shared clients; the result is Equal's verdict, which must
// be the same in both argument orders (else "asym").  "read equalsym <segs> <n> <nilmask>": a table of n entries, nil
// where the mask has a bit set (capability indices may also lie outside the table): only symmetry and reflexivity
// are judged ("ok").
func execEqualIn(segsHex string, ncaps, nilmask int, verdict bool) string {
	segs, ok := parseSegs(segsHex)
	if !ok {
		return "bad-op"
	}
	m := &capnp.Message{Arena: capnp.MultiSegment(segs), TraverseLimit: 1 << 40}
	cl := sharedClients()
	for i := 0; i < ncaps; i++ {
		if nilmask>>uint(i)&1 == 1 {
			m.AddCap(nil)
		} else {
			m.AddCap(cl[i%8].AddRef())
		}
	}
	root, err := m.Root()
	if err != nil || !root.Struct().IsValid() {
		return "invalid"
	}
	p0, err0 := root.Struct().Ptr(0)
	p1, err1 := root.Struct().Ptr(1)
	if err0 != nil || err1 != nil {
		return "invalid"
	}
	e01, errA := capnp.Equal(p0, p1)
	e10, errB := capnp.Equal(p1, p0)
	if (errA != nil) != (errB != nil) || e01 != e10 {
		return "asym " + strconv.FormatBool(e01) + " " + strconv.FormatBool(e10)
	}
	if errA != nil {
		return "invalid"
	}
	for _, p := range []capnp.Ptr{p0, p1} {
		if eq, err := capnp.Equal(p, p); err == nil && !eq {
			return "not-reflexive"
		}
	}
	if !verdict {
		return "ok"
	}
	return strconv.FormatBool(e01)
}

// execRead: "read walk <T> <D> <segs>"
func execRead(t []string) string {
	if len(t) > 0 && (t[0] == "conc" || t[0] == "concx") {
		return execConc(t)
	}
	if len(t) >= 3 && t[0] == "nopanic" {
		return execNoPanic(t[1:])
	}
	if len(t) == 3 && t[0] == "copycycle" {
		return execCopyCycle(t)
	}
	if len(t) == 2 && t[0] == "canon" {
		return execCanon(t)
	}
	if len(t) == 3 && t[0] == "shadow" {
		return execTree([]string{"tree", t[2]})
	}
	if len(t) == 2 && t[0] == "tree" {
		return execTree(t)
	}
	if len(t) == 4 && t[0] == "reuse" {
		return execReuse(t)
	}
	if len(t) == 4 && t[0] == "equal" {
		return execEqual(t)
	}
	if len(t) == 5 && t[0] == "equalcap" {
		return execEqualCap(t)
	}
	if len(t) == 3 && t[0] == "equalcopy" {
		return execEqualCopy(t[1], t[2])
	}
	if len(t) == 2 && t[0] == "defaults" {
		return execDefaults(t[1])
	}
	if len(t) == 2 && t[0] == "equalin" {
		return execEqualIn(t[1], 8, 0, true)
	}
	if len(t) == 4 && t[0] == "equalsym" {
		n, _ := strconv.Atoi(t[2])
		mask, _ := strconv.Atoi(t[3])
		return execEqualIn(t[1], n, mask, false)
	}
	if len(t) != 4 || t[0] != "walk" {
		return "bad-op"
	}
	T, _ := strconv.ParseUint(t[1], 10, 64)
	D, _ := strconv.ParseUint(t[2], 10, 64)
	segs, ok := parseSegs(t[3])
	if !ok {
		return "bad-op"
	}
	msg := &capnp.Message{Arena: capnp.MultiSegment(segs), TraverseLimit: T, DepthLimit: uint(D)}
	root, err := msg.Root()
	if err != nil {
		return "E rl=" + strconv.FormatUint(msg.VerifReadLimit(), 10)
	}
	w := &walker{nodes: 300}
	w.ptr(root)
	return w.sb.String() + " rl=" + strconv.FormatUint(msg.VerifReadLimit(), 10)
}
