package main

import (
	"bytes"
	"fmt"
	"math"
	"os"
	"os/exec"
	"path/filepath"
	"regexp"
	"strconv"
	"strings"

	capnp "capnproto.org/go/capnp/v3"
	"capnproto.org/go/capnp/v3/std/capnp/schema"
	"verifharness/lib"
)

// ---- C15: the generator (capnpc-go, run as the plugin binary it is) on generated schemas ----
//
// "gen15 <dataWords> <ptrs> <discOffset> <field,field,…>"   field = <kind>:<slot offset>:<default bit pattern>:<disc|->
// One struct T with fields f0, f1, … is put in a CodeGeneratorRequest; the generator's output is parsed and, for every
// accessor of T, the Struct primitives it calls are listed with their literal arguments: offsets, XOR masks, negations,
// discriminant checks and stores, and the object size in NewT.  The model prints what the schema demands.

const gen15File uint64 = 0xf00dfeedf00dfeed
const gen15T uint64 = 0xa1a1a1a1a1a1a101
const gen15Aux uint64 = 0xa1a1a1a1a1a1a102
const gen15Enum uint64 = 0xa1a1a1a1a1a1a103
const gen15Iface uint64 = 0xa1a1a1a1a1a1a104

type g15field struct {
	kind   string
	offset uint32
	mask   uint64
	disc   int // -1: not a union member
}

func parseG15(f []string) (dw, ptrs, discOff int, fields []g15field, ok bool) {
	if len(f) != 4 {
		return
	}
	dw, _ = strconv.Atoi(f[0])
	ptrs, _ = strconv.Atoi(f[1])
	discOff, _ = strconv.Atoi(f[2])
	for _, s := range strings.Split(f[3], ",") {
		p := strings.Split(s, ":")
		if len(p) != 4 {
			return
		}
		off, _ := strconv.Atoi(p[1])
		mask, _ := strconv.ParseUint(p[2], 10, 64)
		d := -1
		if p[3] != "-" {
			d, _ = strconv.Atoi(p[3])
		}
		fields = append(fields, g15field{p[0], uint32(off), mask, d})
	}
	ok = true
	return
}

func g15Request(dw, ptrs, discOff int, fields []g15field) ([]byte, error) {
	return g15RequestIDs(dw, ptrs, discOff, fields, 0)
}

// g15RequestIDs: the same schema with node ids shifted by idShift (the schema registry refuses duplicates)
func g15RequestIDs(dw, ptrs, discOff int, fields []g15field, idShift uint64) ([]byte, error) {
	gen15File, gen15T, gen15Aux, gen15Enum, gen15Iface := gen15File+idShift*16, gen15T+idShift*16, gen15Aux+idShift*16, gen15Enum+idShift*16, gen15Iface+idShift*16
	msg, seg, err := capnp.NewMessage(capnp.SingleSegment(nil))
	if err != nil {
		return nil, err
	}
	req, _ := schema.NewRootCodeGeneratorRequest(seg)
	nodes, _ := req.NewNodes(5)
	const fileName = "demo.capnp"
	file := nodes.At(0)
	file.SetId(gen15File)
	file.SetDisplayName(fileName)
	file.SetFile()
	anns, _ := file.NewAnnotations(2)
	for i, a := range []struct {
		id  uint64
		val string
	}{{0xbea97f1023792be0, "demo"}, {0xe130b601260e44b5, "example.com/demo"}} {
		anns.At(i).SetId(a.id)
		v, _ := anns.At(i).NewValue()
		v.SetText(a.val)
	}
	nested, _ := file.NewNestedNodes(4)
	names := []string{"T", "Aux", "E", "I"}
	ids := []uint64{gen15T, gen15Aux, gen15Enum, gen15Iface}
	for i := range names {
		nested.At(i).SetName(names[i])
		nested.At(i).SetId(ids[i])
		n := nodes.At(i + 1)
		n.SetId(ids[i])
		n.SetDisplayName(fileName + ":" + names[i])
		n.SetDisplayNamePrefixLength(uint32(len(fileName) + 1))
		n.SetScopeId(gen15File)
	}
	// Aux: an empty struct; E: an enum with two enumerants; I: an interface without methods
	nodes.At(4).SetInterface()
	nodes.At(2).SetStructNode()
	nodes.At(3).SetEnum()
	en, _ := nodes.At(3).Enum().NewEnumerants(2)
	en.At(0).SetName("a")
	en.At(1).SetName("b")
	en.At(1).SetCodeOrder(1)
	// T
	tn := nodes.At(1)
	tn.SetStructNode()
	sn := tn.StructNode()
	sn.SetDataWordCount(uint16(dw))
	sn.SetPointerCount(uint16(ptrs))
	nd := 0
	for _, f := range fields {
		if f.disc >= 0 {
			nd++
		}
	}
	sn.SetDiscriminantCount(uint16(nd))
	sn.SetDiscriminantOffset(uint32(discOff))
	fl, _ := sn.NewFields(int32(len(fields)))
	for j, f := range fields {
		sf := fl.At(j)
		sf.SetName("f" + strconv.Itoa(j))
		sf.SetCodeOrder(uint16(j))
		sf.SetSlot()
		if f.disc >= 0 {
			sf.SetDiscriminantValue(uint16(f.disc))
		} else {
			sf.SetDiscriminantValue(0xffff)
		}
		sf.Ordinal().SetExplicit(uint16(j))
		sf.Slot().SetOffset(f.offset)
		ty, _ := sf.Slot().NewType()
		dv, _ := sf.Slot().NewDefaultValue()
		switch f.kind {
		case "void":
			ty.SetVoid()
			dv.SetVoid()
		case "bool":
			ty.SetBool()
			dv.SetBool(f.mask == 1)
		case "u8":
			ty.SetUint8()
			dv.SetUint8(uint8(f.mask))
		case "u16":
			ty.SetUint16()
			dv.SetUint16(uint16(f.mask))
		case "u32":
			ty.SetUint32()
			dv.SetUint32(uint32(f.mask))
		case "u64":
			ty.SetUint64()
			dv.SetUint64(f.mask)
		case "i8":
			ty.SetInt8()
			dv.SetInt8(int8(f.mask))
		case "i16":
			ty.SetInt16()
			dv.SetInt16(int16(f.mask))
		case "i32":
			ty.SetInt32()
			dv.SetInt32(int32(f.mask))
		case "i64":
			ty.SetInt64()
			dv.SetInt64(int64(f.mask))
		case "f32":
			ty.SetFloat32()
			dv.SetFloat32(math.Float32frombits(uint32(f.mask)))
		case "f64":
			ty.SetFloat64()
			dv.SetFloat64(math.Float64frombits(f.mask))
		case "enum":
			ty.SetEnum()
			ty.Enum().SetTypeId(gen15Enum)
			dv.SetEnum(uint16(f.mask))
		case "text":
			ty.SetText()
			if f.mask != 0 {
				dv.SetText("d" + strconv.FormatUint(f.mask, 10))
			} else {
				dv.SetText("")
			}
		case "data":
			ty.SetData()
			if f.mask != 0 {
				dv.SetData([]byte("d" + strconv.FormatUint(f.mask, 10)))
			} else {
				dv.SetData(nil)
			}
		case "iface":
			ty.SetInterface()
			ty.Interface().SetTypeId(gen15Iface)
			dv.SetInterface()
		case "struct":
			ty.SetStructType()
			ty.StructType().SetTypeId(gen15Aux)
			dv.SetStructValue(capnp.Ptr{})
		case "list":
			ty.SetList()
			et, _ := ty.List().NewElementType()
			et.SetUint8()
			dv.SetList(capnp.Ptr{})
		case "any":
			ty.SetAnyPointer()
			ty.AnyPointer().SetUnconstrained()
			dv.SetAnyPointer(capnp.Ptr{})
		default:
			return nil, fmt.Errorf("unknown kind %q", f.kind)
		}
		sf.Slot().SetHadExplicitDefault(f.mask != 0)
	}
	rfs, _ := req.NewRequestedFiles(1)
	rfs.At(0).SetId(gen15File)
	rfs.At(0).SetFilename(fileName)
	return msg.Marshal()
}

func runGenerator(req []byte, dir string) ([]byte, string) {
	exe := os.Getenv("VERIF_CAPNPC_GO")
	if exe == "" {
		exe = "/verif/build/capnpc-go"
	}
	cmd := exec.Command(exe)
	cmd.Dir = dir
	cmd.Stdin = bytes.NewReader(req)
	var stderr bytes.Buffer
	cmd.Stderr = &stderr
	if err := cmd.Run(); err != nil {
		return nil, "generator-failed:" + strings.ReplaceAll(strings.TrimSpace(stderr.String()), "\n", " | ")
	}
	out, err := os.ReadFile(filepath.Join(dir, "demo.capnp.go"))
	if err != nil {
		return nil, "no-output"
	}
	return out, ""
}

var (
	reFunc    = regexp.MustCompile(`(?ms)^func \(s T\) (\w+)\(.*?\n}\n`)
	reNew     = regexp.MustCompile(`capnp\.NewStruct\(s, capnp\.ObjectSize\{DataSize: (\d+), PointerCount: (\d+)\}\)`)
	reCheck   = regexp.MustCompile(`if s\.Struct\.Uint16\((\d+)\) != (\d+) \{\s*(panic|return false)`)
	reCall    = regexp.MustCompile(`(!?)s\.Struct\.(\w+)\((\d+)(?:, ([^\n]*))?\)`)
	reXorGet  = regexp.MustCompile(`s\.Struct\.Uint\d+\(\d+\) \^ (0x[0-9a-fA-F]+|\d+)`)
	reXorSet  = regexp.MustCompile(`\^\s*(0x[0-9a-fA-F]+|\d+)\)?$`)
	reDefault = regexp.MustCompile(`p\.(Text|Data)Default\((.*)\)\)?, err`)
	reHexByte = regexp.MustCompile(`0x[0-9a-f]+`)
	reTypeID  = regexp.MustCompile(`const T_TypeID = (0x[0-9a-f]+)`)
)

func parseLit(s string) uint64 {
	v, _ := strconv.ParseUint(s, 0, 64)
	return v
}

// g15Facts lists, per accessor of T, the Struct primitives it uses
func g15Facts(src string, nfields int) string {
	var out []string
	if m := reNew.FindStringSubmatch(src); m != nil {
		out = append(out, "size="+m[1]+"/"+m[2])
	} else {
		out = append(out, "size=?")
	}
	if m := reTypeID.FindStringSubmatch(src); m != nil {
		out = append(out, fmt.Sprintf("id=%x", parseLit(m[1])))
	}
	funcs := map[string]string{}
	for _, m := range reFunc.FindAllStringSubmatch(src, -1) {
		funcs[m[1]] = m[0]
	}
	for i := 0; i < nfields; i++ {
		for _, pre := range []string{"F", "SetF", "HasF", "NewF"} {
			name := pre + strconv.Itoa(i)
			body, ok := funcs[name]
			if !ok {
				continue
			}
			var facts []string
			rest := body
			if m := reCheck.FindStringSubmatch(rest); m != nil {
				facts = append(facts, "tag"+m[1]+"="+m[2])
				rest = strings.Replace(rest, m[0], "", 1)
			}
			for _, line := range strings.Split(rest, "\n") {
				if strings.Contains(line, "v = []byte{}") {
					facts = append(facts, "nilempty")
				}
				if m := reDefault.FindStringSubmatch(line); m != nil {
					if m[1] == "Text" {
						s, _ := strconv.Unquote(m[2])
						facts = append(facts, "TextDefault="+s)
					} else {
						var bs []byte
						for _, x := range reHexByte.FindAllString(m[2], -1) {
							bs = append(bs, byte(parseLit(x)))
						}
						facts = append(facts, "DataDefault="+string(bs))
					}
				}
				for _, c := range reCall.FindAllStringSubmatch(line, -1) {
					neg, meth, a0, a1 := c[1], c[2], c[3], c[4]
					switch {
					case meth == "Segment":
						continue
					case meth == "SetUint16" && regexp.MustCompile(`^\d+$`).MatchString(a1):
						// a store of a literal: the discriminant
						facts = append(facts, "settag"+a0+"="+a1)
					case strings.HasPrefix(meth, "SetUint"):
						f := "S" + meth[7:] + "@" + a0
						if x := reXorSet.FindStringSubmatch(strings.TrimSpace(a1)); x != nil {
							f += "^" + strconv.FormatUint(parseLit(x[1]), 10)
						}
						facts = append(facts, f)
					case strings.HasPrefix(meth, "Uint"):
						f := "G" + meth[4:] + "@" + a0
						if x := reXorGet.FindStringSubmatch(line); x != nil {
							f += "^" + strconv.FormatUint(parseLit(x[1]), 10)
						}
						facts = append(facts, f)
					case meth == "Bit":
						facts = append(facts, "GB@"+a0+map[string]string{"!": "!", "": ""}[neg])
					case meth == "SetBit":
						f := "SB@" + a0
						if strings.HasPrefix(strings.TrimSpace(a1), "!") {
							f += "!"
						}
						facts = append(facts, f)
					default:
						facts = append(facts, meth+"@"+a0)
					}
				}
			}
			out = append(out, name+":"+strings.Join(facts, "+"))
		}
	}
	return strings.Join(out, ";")
}

var gen15Count int

// execTextSlot: "gen15 textslot <value hex|-> <default hex|-> <0|1>": SetText (0) or SetNewText (1) on a fresh struct, then
// whether the slot is set and what TextDefault reads (the primitives the generated Text accessors are made of).
func execTextSlot(f []string) string {
	unhex := func(s string) ([]byte, bool) {
		if s == "-" {
			return nil, true
		}
		b, err := lib.UnHex(s)
		return b, err == nil
	}
	v, ok1 := unhex(f[1])
	d, ok2 := unhex(f[2])
	if !ok1 || !ok2 {
		return "bad-op"
	}
	_, seg, err := capnp.NewMessage(capnp.SingleSegment(nil))
	if err != nil {
		return "harness-error"
	}
	st, err := capnp.NewRootStruct(seg, capnp.ObjectSize{PointerCount: 1})
	if err != nil {
		return "harness-error"
	}
	if f[3] == "1" {
		err = st.SetNewText(0, string(v))
	} else {
		err = st.SetText(0, string(v))
	}
	if err != nil {
		return "set-error"
	}
	p, err := st.Ptr(0)
	if err != nil {
		return "get-error"
	}
	got := p.TextDefault(string(d))
	if gb := p.TextBytesDefault(string(d)); string(gb) != got {
		return "!text-and-bytes-differ"
	}
	return "has=" + strconv.FormatBool(st.HasPtr(0)) + " get=" + lib.Hex([]byte(got))
}

func execGen15(f []string) string {
	if len(f) == 4 && f[0] == "textslot" {
		return execTextSlot(f)
	}
	dw, ptrs, discOff, fields, ok := parseG15(f)
	if !ok {
		return "bad-op"
	}
	req, err := g15Request(dw, ptrs, discOff, fields)
	if err != nil {
		return "bad-op"
	}
	dir, err := os.MkdirTemp("", "gen15-")
	if err != nil {
		return "harness-error"
	}
	defer os.RemoveAll(dir)
	a, e1 := runGenerator(req, dir)
	if e1 != "" {
		return e1
	}
	os.Remove(filepath.Join(dir, "demo.capnp.go"))
	b, e2 := runGenerator(req, dir) // a second process: Go randomises map iteration per process
	if e2 != "" {
		return e2
	}
	res := g15Facts(string(a), len(fields))
	if !bytes.Equal(a, b) {
		res += ";!output-differs-between-runs"
	}
	// the emitted code compiles (a rotating subset: a build costs a second)
	gen15Count++
	if gen15Count%48 == 1 {
		if msg := g15Compile(dir, a); msg != "" {
			res += ";!does-not-compile:" + msg
		}
	}
	return res
}

func g15Compile(dir string, src []byte) string {
	mod := filepath.Join(dir, "m")
	os.MkdirAll(filepath.Join(mod, "demo"), 0o755)
	os.WriteFile(filepath.Join(mod, "demo", "demo.capnp.go"), src, 0o644)
	repo := os.Getenv("VERIF_REPO")
	if repo == "" {
		repo = "/repo"
	}
	os.WriteFile(filepath.Join(mod, "go.mod"), []byte("module example.com\n\ngo 1.16\n\nrequire capnproto.org/go/capnp/v3 v3.0.0\n\nreplace capnproto.org/go/capnp/v3 => "+repo+"\n"), 0o644)
	if b, err := os.ReadFile(filepath.Join(repo, "go.sum")); err == nil {
		os.WriteFile(filepath.Join(mod, "go.sum"), b, 0o644)
	}
	cmd := exec.Command("go", "build", "./demo/")
	cmd.Dir = mod
	cmd.Env = append(os.Environ(), "GOFLAGS=-mod=mod -p=2", "GOPROXY=off", "GOSUMDB=off", "GOTOOLCHAIN=local")
	out, err := cmd.CombinedOutput()
	if err != nil {
		s := strings.ReplaceAll(strings.TrimSpace(string(out)), "\n", " | ")
		if len(s) > 300 {
			s = s[:300]
		}
		return s
	}
	return ""
}

// genC15: structs with every field kind at every offset of a few words, with and without defaults, in and out of a union
func genC15(rec *lib.Rec, r *lib.Rng, thorough bool) {
	n := 120
	if thorough {
		n = 3000
	}
	n /= Shards
	widths := map[string]int{"u8": 1, "i8": 1, "u16": 2, "i16": 2, "enum": 2, "u32": 4, "i32": 4, "f32": 4, "u64": 8, "i64": 8, "f64": 8}
	kinds := []string{"bool", "u8", "i8", "u16", "i16", "enum", "u32", "i32", "f32", "u64", "i64", "f64", "text", "data", "struct", "list", "any", "void", "iface", "text", "data"}
	for i := 0; i < n; i++ {
		dw := 1 + r.Intn(4)
		if r.Intn(12) == 0 {
			dw = r.Pick(8191, 8192, 8193, 12000, 65535) // data sections of 64 KiB and more
		}
		ptrs := r.Intn(4)
		useUnion := r.Intn(2) == 0
		discOff := 0
		if useUnion {
			discOff = r.Intn(dw * 4)
		}
		nf := 1 + r.Intn(6)
		var fs []string
		nextDisc := 0
		for j := 0; j < nf; j++ {
			k := kinds[r.Intn(len(kinds))]
			off := 0
			mask := uint64(0)
			switch {
			case k == "bool":
				off = r.Intn(dw * 64)
				mask = uint64(r.Intn(2))
			case widths[k] > 0:
				w := widths[k]
				off = r.Intn(dw * 8 / w)
				if useUnion && w == 2 && off == discOff {
					off = (off + 1) % (dw * 4)
				}
				if r.Intn(2) == 0 {
					mask = r.U64()
					if r.Intn(3) == 0 {
						mask = uint64(r.Pick(1, 2, 0x7f, 0x80, 0xff, 0x8000, 0xffff, 0x7fffffff, 0x80000000, 0xffffffff))
						if w == 8 && r.Intn(2) == 0 {
							mask = []uint64{1 << 63, 1<<63 - 1, ^uint64(1), ^uint64(0), 1 << 40, 1 << 32}[r.Intn(6)]
						}
					}
					if w < 8 {
						mask &= 1<<(8*uint(w)) - 1
					}
					if k == "enum" {
						mask &= 1
					}
				}
			case k == "void":
			default:
				if ptrs == 0 {
					ptrs = 1
				}
				off = r.Intn(ptrs)
				if (k == "text" || k == "data") && r.Intn(2) == 0 {
					mask = uint64(1 + r.Intn(999)) // a non-empty schema default
				}
			}
			disc := "-"
			if useUnion && r.Intn(2) == 0 {
				disc = strconv.Itoa(nextDisc)
				nextDisc++
			}
			if k == "void" && disc == "-" {
				k, off, mask = "u8", r.Intn(dw*8), 0
			}
			fs = append(fs, fmt.Sprintf("%s:%d:%d:%s", k, off, mask, disc))
		}
		rec.Op("S", fmt.Sprintf("gen15 %d %d %d %s", dw, ptrs, discOff, strings.Join(fs, ",")), true)
		// the primitives the Text accessors are made of (`Model.Layout.structSetText` …): values without NUL bytes
		for k := 0; k < 4; k++ {
			hx := func(n int) string {
				if n == 0 {
					return "-"
				}
				b := make([]byte, n)
				for q := range b {
					b[q] = byte(1 + r.Intn(255))
				}
				return lib.Hex(b)
			}
			rec.Op("M", "gen15 textslot "+hx(r.Pick(0, 0, 1, 2, r.Intn(20)))+" "+hx(r.Pick(0, 0, 1, 3, r.Intn(12)))+" "+strconv.Itoa(r.Intn(2)), true)
		}
	}
}
