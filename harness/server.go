package main

import (
	"context"
	"errors"
	"fmt"
	"os"
	"strconv"
	"strings"
	"sync"
	"sync/atomic"
	"time"

	capnp "capnproto.org/go/capnp/v3"
	"capnproto.org/go/capnp/v3/server"
	"verifharness/lib"
)

// ---- C12: server.Server driven by scripts and by concurrent callers ----

var srvMethod = capnp.Method{InterfaceID: 0xfeedbeef12345678, MethodID: 0}

var errImplFail = errors.New("implfail")

// pipeTarget is the capability found in a call's result; it logs the pipelined calls delivered to it.
type pipeTarget struct {
	mu   sync.Mutex
	log  []int
	hold chan struct{} // while non-nil and open, deliveries block here after being logged
}

func (t *pipeTarget) arrive(id int) {
	t.mu.Lock()
	t.log = append(t.log, id)
	h := t.hold
	t.mu.Unlock()
	if h != nil {
		<-h
	}
}

func (t *pipeTarget) setHold() {
	t.mu.Lock()
	rearm := t.hold == nil
	if !rearm {
		select {
		case <-t.hold: // opened earlier: hold again
			rearm = true
		default:
		}
	}
	if rearm {
		t.hold = make(chan struct{})
	}
	t.mu.Unlock()
}

func (t *pipeTarget) open() bool {
	t.mu.Lock()
	defer t.mu.Unlock()
	if t.hold == nil {
		return false
	}
	select {
	case <-t.hold:
		return false
	default:
		close(t.hold)
	}
	return true
}

func (t *pipeTarget) held() bool {
	t.mu.Lock()
	defer t.mu.Unlock()
	if t.hold == nil {
		return false
	}
	select {
	case <-t.hold:
		return false
	default:
		return true
	}
}

func (t *pipeTarget) Send(ctx context.Context, s capnp.Send) (*capnp.Answer, capnp.ReleaseFunc) {
	id := -1
	if s.PlaceArgs != nil {
		_, seg, _ := capnp.NewMessage(capnp.SingleSegment(nil))
		st, _ := capnp.NewRootStruct(seg, s.ArgsSize)
		if s.PlaceArgs(st) == nil {
			id = int(st.Uint64(0))
		}
	}
	t.arrive(id)
	return capnp.ErrorAnswer(s.Method, errMark), func() {}
}

func (t *pipeTarget) Recv(ctx context.Context, r capnp.Recv) capnp.PipelineCaller {
	id := -1
	if r.Args.IsValid() {
		id = int(r.Args.Uint64(0))
	}
	t.arrive(id)
	r.Reject(errMark)
	return nil
}
func (t *pipeTarget) Brand() capnp.Brand { return capnp.Brand{} }
func (t *pipeTarget) Shutdown()          {}

type shutRec struct{ n int32 }

func (s *shutRec) Shutdown() { atomic.AddInt32(&s.n, 1) }

// scall is the harness's view of one call made on the server.
type scall struct {
	id       int
	cancel   context.CancelFunc
	ctl      chan string // commands for the implementation: ack, ret, fail
	sendRet  int32       // Send returned to the caller
	started  int32
	returned int32
	acked    int32
	implCtx  atomic.Value // context.Context seen by the implementation
	answer   atomic.Value // string: "" pending, "D", "F", "JS", "JC", "?…"
	ans      *capnp.Answer
	target   *pipeTarget
	pipes    []*spipe
}

type spipe struct {
	id      int
	sendRet int32
	answer  atomic.Value
}

func classifyErr(err error) string {
	switch {
	case err == nil:
		return "D"
	case strings.Contains(err.Error(), "implfail"):
		return "F"
	case strings.Contains(err.Error(), "call after shutdown"):
		return "JS"
	case strings.Contains(err.Error(), "context canceled"):
		return "JC"
	case strings.Contains(err.Error(), "recHook"):
		return "V"
	}
	return "?" + err.Error()
}

func settleWindow() int {
	if os.Getenv("VERIF_SLOW") != "" {
		return 100
	}
	return 16
}

// execServerScript: "server script <M> <Q> <op,op,…>"
//
//	c      make a call (skipped while an earlier call is still blocked in start())
//	a<k>   implementation k acknowledges      r<k> / f<k>  implementation k returns a result / an error
//	x<k>   the caller of k cancels its context
//	p<k>   a pipelined call on k's answer (result pointer 0)
//	s      Shutdown
//
// After every op the harness waits for quiescence and prints the state of every call.
func execServerScript(M, Q int, script string) string {
	var mu sync.Mutex // guards anomalies, running, unacked
	var anomalies []string
	running, unacked := 0, 0
	anomaly := func(s string) {
		for _, a := range anomalies {
			if a == s {
				return
			}
		}
		anomalies = append(anomalies, s)
	}
	var calls []*scall
	var callsMu sync.Mutex
	getCall := func(id int) *scall {
		callsMu.Lock()
		defer callsMu.Unlock()
		if id < 0 || id >= len(calls) {
			return nil
		}
		return calls[id]
	}
	var shutCalled, shutReturned int32
	sr := &shutRec{}
	var startOrder []int
	impl := func(ctx context.Context, call *server.Call) error {
		id := int(call.Args().Uint64(0))
		c := getCall(id)
		if c == nil {
			mu.Lock()
			anomaly("!unknown-call")
			mu.Unlock()
			return errImplFail
		}
		mu.Lock()
		running++
		unacked++
		startOrder = append(startOrder, id)
		if running > M {
			anomaly("!cap")
		}
		if unacked > 1 {
			anomaly("!gate")
		}
		if atomic.LoadInt32(&shutReturned) > 0 {
			anomaly("!start-after-shutdown")
		}
		mu.Unlock()
		c.implCtx.Store(ctx)
		atomic.StoreInt32(&c.started, 1)
		ackedHere := false
		finish := func() {
			mu.Lock()
			running--
			if !ackedHere {
				unacked--
			}
			mu.Unlock()
			atomic.StoreInt32(&c.returned, 1)
		}
		for cmd := range c.ctl {
			switch cmd {
			case "ack":
				if !ackedHere {
					ackedHere = true
					mu.Lock()
					unacked--
					mu.Unlock()
					atomic.StoreInt32(&c.acked, 1)
					call.Ack()
				}
			case "ret":
				res, err := call.AllocResults(capnp.ObjectSize{DataSize: 8, PointerCount: 1})
				if err != nil {
					finish()
					return err
				}
				res.SetUint64(0, uint64(id)*7+1)
				in := capnp.NewInterface(res.Segment(), res.Message().AddCap(capnp.NewClient(c.target)))
				res.SetPtr(0, in.ToPtr())
				finish()
				return nil
			case "fail":
				finish()
				return errImplFail
			}
		}
		finish()
		return errImplFail
	}
	srv := server.New([]server.Method{{Method: srvMethod, Impl: impl}}, nil, sr, &server.Policy{MaxConcurrentCalls: M, AnswerQueueSize: Q})

	snapshot := func() string {
		var b strings.Builder
		callsMu.Lock()
		cs := append([]*scall(nil), calls...)
		callsMu.Unlock()
		for _, c := range cs {
			ans, _ := c.answer.Load().(string)
			st := ""
			started := atomic.LoadInt32(&c.started) == 1
			ret := atomic.LoadInt32(&c.returned) == 1
			sret := atomic.LoadInt32(&c.sendRet) == 1
			switch {
			case ans != "":
				st = ans
				if (ans == "D" || ans == "F") && !ret {
					st += "!answer-before-return"
				}
				if (ans == "JS" || ans == "JC") && started {
					st += "!rejected-but-started"
				}
			case !started && !sret:
				st = "w"
			case started && !sret:
				st = "u"
			case started && sret:
				st = "a" // until the answer is visible (the implementation may have returned: fulfill still draining)
			default:
				st = "!send-returned-without-delivery"
			}
			if started && ans == "" {
				if ctx, ok := c.implCtx.Load().(context.Context); ok && ctx.Err() != nil {
					st += "c"
				}
			}
			b.WriteString(st)
			c.target.mu.Lock()
			nlog := len(c.target.log)
			c.target.mu.Unlock()
			if len(c.pipes) > 0 || nlog > 0 {
				b.WriteString("[")
				for _, p := range c.pipes {
					pa, _ := p.answer.Load().(string)
					switch {
					case pa != "":
						b.WriteString(pa)
					case atomic.LoadInt32(&p.sendRet) == 1:
						b.WriteString("q")
					default:
						b.WriteString("b")
					}
				}
				c.target.mu.Lock()
				b.WriteString("|" + strings.Trim(strings.Join(strings.Fields(fmt.Sprint(c.target.log)), "."), "[]"))
				for i := 1; i < len(c.target.log); i++ {
					// every pipelined call of a script is made after the previous one was queued or delivered
					if c.target.log[i] < c.target.log[i-1] {
						b.WriteString("!pipeline-order")
						break
					}
				}
				c.target.mu.Unlock()
				b.WriteString("]")
			}
			b.WriteString(" ")
		}
		switch {
		case atomic.LoadInt32(&shutCalled) == 0:
			b.WriteString("S-")
		case atomic.LoadInt32(&shutReturned) == 0:
			b.WriteString("Sp" + strconv.Itoa(int(atomic.LoadInt32(&sr.n))))
		default:
			b.WriteString("Sd" + strconv.Itoa(int(atomic.LoadInt32(&sr.n))))
		}
		mu.Lock()
		for _, a := range anomalies {
			b.WriteString(" " + a)
		}
		b.WriteString(" o" + strings.Trim(strings.Join(strings.Fields(fmt.Sprint(startOrder)), "."), "[]"))
		mu.Unlock()
		return b.String()
	}
	settle := func() string {
		need := settleWindow()
		last := snapshot()
		same := 0
		for i := 0; i < 8000 && same < need; i++ {
			time.Sleep(250 * time.Microsecond)
			s := snapshot()
			if s == last {
				same++
			} else {
				same, last = 0, s
			}
		}
		return last
	}
	blockedInStart := func() bool {
		callsMu.Lock()
		defer callsMu.Unlock()
		for _, c := range calls {
			ans, _ := c.answer.Load().(string)
			if atomic.LoadInt32(&c.started) == 0 && ans == "" {
				return true
			}
		}
		return false
	}
	var out []string
	for _, op := range strings.Split(script, ",") {
		res := "-"
		arg := -1
		if len(op) > 1 {
			arg, _ = strconv.Atoi(op[1:])
		}
		switch op[0] {
		case 'c':
			if blockedInStart() {
				res = "skip"
				break
			}
			ctx, cancel := context.WithCancel(context.Background())
			callsMu.Lock()
			c := &scall{id: len(calls), cancel: cancel, ctl: make(chan string, 8), target: &pipeTarget{}}
			calls = append(calls, c)
			callsMu.Unlock()
			ready := make(chan struct{})
			go func() {
				ans, rel := srv.Send(ctx, capnp.Send{Method: srvMethod, ArgsSize: capnp.ObjectSize{DataSize: 8},
					PlaceArgs: func(s capnp.Struct) error { s.SetUint64(0, uint64(c.id)); return nil }})
				c.ans = ans
				close(ready)
				atomic.StoreInt32(&c.sendRet, 1)
				st, err := ans.Struct()
				r := classifyErr(err)
				if err == nil && st.Uint64(0) != uint64(c.id)*7+1 {
					r = "!wrong-result"
				}
				c.answer.Store(r)
				_ = rel
			}()
			go func() { <-ready }()
		case 'a', 'r', 'f':
			c := getCall(arg)
			if c == nil || atomic.LoadInt32(&c.started) == 0 || atomic.LoadInt32(&c.returned) == 1 {
				res = "skip"
				break
			}
			c.ctl <- map[byte]string{'a': "ack", 'r': "ret", 'f': "fail"}[op[0]]
		case 'x':
			c := getCall(arg)
			if c == nil {
				res = "skip"
				break
			}
			c.cancel()
		case 'p':
			c := getCall(arg)
			if c == nil || atomic.LoadInt32(&c.sendRet) == 0 {
				res = "skip"
				break
			}
			if ans, _ := c.answer.Load().(string); ans != "" && c.target.held() {
				res = "skip" // would be delivered straight into the held target
				break
			}
			blocked := false
			for _, p := range c.pipes {
				pa, _ := p.answer.Load().(string)
				if atomic.LoadInt32(&p.sendRet) == 0 && pa == "" {
					blocked = true
				}
			}
			if blocked {
				res = "skip"
				break
			}
			p := &spipe{id: len(c.pipes)}
			c.pipes = append(c.pipes, p)
			go func() {
				ans, rel := c.ans.PipelineSend(context.Background(), []capnp.PipelineOp{{Field: 0}},
					capnp.Send{Method: srvMethod, ArgsSize: capnp.ObjectSize{DataSize: 8},
						PlaceArgs: func(s capnp.Struct) error { s.SetUint64(0, uint64(p.id)); return nil }})
				atomic.StoreInt32(&p.sendRet, 1)
				_, err := ans.Struct()
				p.answer.Store(classifyErr(err))
				_ = rel
			}()
		case 'h':
			c := getCall(arg)
			if c == nil || atomic.LoadInt32(&c.started) == 0 || atomic.LoadInt32(&c.returned) == 1 || c.target.held() {
				res = "skip"
				break
			}
			c.target.setHold()
		case 't':
			c := getCall(arg)
			if c == nil || !c.target.open() {
				res = "skip"
			}
		case 's':
			if atomic.LoadInt32(&shutCalled) == 1 {
				res = "skip"
				break
			}
			atomic.StoreInt32(&shutCalled, 1)
			go func() {
				srv.Shutdown()
				atomic.StoreInt32(&shutReturned, 1)
			}()
		default:
			res = "bad-op"
		}
		out = append(out, op+":"+res+":"+settle())
	}
	// let every implementation finish so that no goroutine outlives the script
	callsMu.Lock()
	for _, c := range calls {
		c.target.open()
		close(c.ctl)
		c.cancel()
	}
	callsMu.Unlock()
	return strings.Join(out, ";")
}

// execServerStress: "server stress <M> <callers> <calls-per-caller> <seed> <shutdown 0|1>": concurrent callers, each making
// its calls one after the other; implementations acknowledge early, late or never and return after short random
// pauses.  Oracles: concurrency cap, one unacknowledged start at a time, per-caller order, every answer resolves
// exactly once, nothing starts after Shutdown returned, the user's shutdown runs exactly once.
func execServerStress(M, callers, per int, seed uint64, withShutdown bool) string {
	var mu sync.Mutex
	running, unacked := 0, 0
	var bad []string
	note := func(s string) {
		for _, b := range bad {
			if b == s {
				return
			}
		}
		bad = append(bad, s)
	}
	lastSeen := make([]int, callers)
	for i := range lastSeen {
		lastSeen[i] = -1
	}
	var shutReturned int32
	sr := &shutRec{}
	impl := func(ctx context.Context, call *server.Call) error {
		v := call.Args().Uint64(0)
		who, seq, mode, pause := int(v>>32), int(v>>8&0xffffff), int(v>>4&3), time.Duration(v&15)*20*time.Microsecond
		mu.Lock()
		running++
		unacked++
		if running > M {
			note("!cap")
		}
		if unacked > 1 {
			note("!gate")
		}
		if seq <= lastSeen[who] {
			note("!order")
		}
		lastSeen[who] = seq
		if atomic.LoadInt32(&shutReturned) > 0 {
			note("!start-after-shutdown")
		}
		mu.Unlock()
		acked := false
		ack := func() {
			if !acked {
				acked = true
				mu.Lock()
				unacked--
				mu.Unlock()
				call.Ack()
			}
		}
		if mode == 0 {
			ack()
		}
		select {
		case <-time.After(pause):
		case <-ctx.Done():
		}
		if mode == 1 {
			ack()
			time.Sleep(pause / 2)
		}
		mu.Lock()
		running--
		if !acked {
			unacked--
		}
		mu.Unlock()
		if mode == 3 {
			return errImplFail
		}
		res, err := call.AllocResults(capnp.ObjectSize{DataSize: 8})
		if err != nil {
			return err
		}
		res.SetUint64(0, v+1)
		return nil
	}
	srv := server.New([]server.Method{{Method: srvMethod, Impl: impl}}, nil, sr, &server.Policy{MaxConcurrentCalls: M})
	client := capnp.NewClient(srv)
	var wg sync.WaitGroup
	var unresolved int32
	for w := 0; w < callers; w++ {
		wg.Add(1)
		go func(w int) {
			defer wg.Done()
			r := lib.NewRng(seed*1000 + uint64(w))
			for i := 0; i < per; i++ {
				v := uint64(w)<<32 | uint64(i)<<8 | uint64(r.Intn(4))<<4 | uint64(r.Intn(16))
				ctx, cancel := context.WithCancel(context.Background())
				if r.Intn(8) == 0 {
					dl := time.Duration(r.Intn(100)) * time.Microsecond
					go func() { time.Sleep(dl); cancel() }()
				}
				ans, rel := client.SendCall(ctx, capnp.Send{Method: srvMethod, ArgsSize: capnp.ObjectSize{DataSize: 8},
					PlaceArgs: func(s capnp.Struct) error { s.SetUint64(0, v); return nil }})
				atomic.AddInt32(&unresolved, 1)
				go func() {
					st, err := ans.Struct()
					if err == nil && st.Uint64(0) != v+1 {
						mu.Lock()
						note("!wrong-result")
						mu.Unlock()
					}
					atomic.AddInt32(&unresolved, -1)
					rel()
					cancel()
				}()
			}
		}(w)
	}
	done := make(chan struct{})
	go func() { wg.Wait(); close(done) }()
	if withShutdown {
		time.Sleep(time.Duration(seed%7) * 100 * time.Microsecond)
		client.Release() // last reference: shuts the server down
		atomic.StoreInt32(&shutReturned, 1)
	}
	select {
	case <-done:
	case <-time.After(15 * time.Second):
		return "blocked"
	}
	for i := 0; i < 4000 && atomic.LoadInt32(&unresolved) != 0; i++ {
		time.Sleep(time.Millisecond)
	}
	mu.Lock()
	defer mu.Unlock()
	if atomic.LoadInt32(&unresolved) != 0 {
		note("!answer-never-resolved")
	}
	if running != 0 {
		note("!still-running")
	}
	if !withShutdown {
		client.Release()
	}
	if n := atomic.LoadInt32(&sr.n); n != 1 {
		note("!user-shutdown-ran-" + strconv.Itoa(int(n)) + "-times")
	}
	if len(bad) == 0 {
		return "ok"
	}
	return strings.Join(bad, " ")
}

// gateReturner is a Returner whose Return can be held open (the RPC layer's Return writes a message: it takes time)
type gateReturner struct {
	hold    chan struct{} // nil: Return completes at once
	entered chan struct{}
	done    chan struct{}
	err     error
	once    sync.Once
	returns int32
}

func newGateReturner(hold chan struct{}) *gateReturner {
	return &gateReturner{hold: hold, entered: make(chan struct{}), done: make(chan struct{})}
}

func (g *gateReturner) AllocResults(sz capnp.ObjectSize) (capnp.Struct, error) {
	_, seg, err := capnp.NewMessage(capnp.SingleSegment(nil))
	if err != nil {
		return capnp.Struct{}, err
	}
	return capnp.NewStruct(seg, sz)
}

func (g *gateReturner) Return(e error) {
	atomic.AddInt32(&g.returns, 1)
	g.once.Do(func() {
		g.err = e
		close(g.entered)
		if g.hold != nil {
			<-g.hold
		}
		close(g.done)
	})
}

// execServerFailWindow: "server failwindow <queued>": a call delivered through Server.Recv acknowledges, <queued>
// calls are pipelined on it, then it fails.  While the Return of the failed call (queued = 0) or of the first rejected
// queued call (queued > 0) is still in progress, one more call is pipelined on that answer.  Every pipelined call must
// complete exactly once, with the base call's error, in bounded time.
func execServerFailWindow(queued int) string {
	fail := make(chan struct{})
	srv := server.New([]server.Method{{
		Method: srvMethod,
		Impl: func(ctx context.Context, call *server.Call) error {
			call.Ack()
			<-fail
			return errImplFail
		},
	}}, nil, nil, nil)
	defer srv.Shutdown()
	other := capnp.Method{InterfaceID: 0xfeedbeef12345679, MethodID: 0}
	recv := func(m capnp.Method, ret capnp.Returner) capnp.Recv {
		_, seg, _ := capnp.NewMessage(capnp.SingleSegment(nil))
		args, _ := capnp.NewStruct(seg, capnp.ObjectSize{DataSize: 8})
		return capnp.Recv{Method: m, Args: args, ReleaseArgs: func() {}, Returner: ret}
	}
	wait := func(g *gateReturner, what string) string {
		select {
		case <-g.done:
		case <-time.After(3 * time.Second):
			return what + "-never-completes"
		}
		if n := atomic.LoadInt32(&g.returns); n != 1 {
			return what + "-returned-" + strconv.Itoa(int(n)) + "-times"
		}
		if g.err == nil || !strings.Contains(g.err.Error(), "implfail") {
			return what + "-error-is-not-the-base-call's"
		}
		return ""
	}
	hold := make(chan struct{})
	var baseRet, windowRet *gateReturner
	var qrets []*gateReturner
	var windowPC capnp.PipelineCaller
	if queued == 0 {
		baseRet = newGateReturner(hold)
	} else {
		baseRet = newGateReturner(nil)
	}
	pc := srv.Recv(context.Background(), recv(srvMethod, baseRet))
	if pc == nil {
		return "no-pipeline-caller"
	}
	windowPC = pc
	for i := 0; i < queued; i++ {
		var g *gateReturner
		if i == 0 {
			g = newGateReturner(hold)
		} else {
			g = newGateReturner(nil)
		}
		qrets = append(qrets, g)
		p1 := pc.PipelineRecv(context.Background(), nil, recv(other, g))
		if i == 0 {
			windowPC = p1
		}
	}
	close(fail)
	first := baseRet
	if queued > 0 {
		first = qrets[0]
	}
	select {
	case <-first.entered:
	case <-time.After(3 * time.Second):
		close(hold)
		return "failure-not-delivered"
	}
	res := ""
	if windowPC == nil {
		res = "queued-call-got-no-pipeline-caller"
	} else {
		windowRet = newGateReturner(nil)
		ctx, cancel := context.WithTimeout(context.Background(), 2*time.Second)
		windowPC.PipelineRecv(ctx, nil, recv(other, windowRet))
		res = wait(windowRet, "call-pipelined-during-the-failed-return")
		cancel()
	}
	close(hold)
	if r := wait(baseRet, "base-call"); res == "" && r != "" {
		res = r
	}
	for _, g := range qrets {
		if r := wait(g, "queued-call"); res == "" && r != "" {
			res = r
		}
	}
	if res == "" {
		return "ok"
	}
	return res
}

// execServerShutWait: "server shutwait <M> <waiters>": M acknowledged calls fill the server; <waiters> more callers arrive
// one after the other (the first waits for a free slot, the others wait behind it); then Shutdown.  Every call must
// complete exactly once in bounded time — the waiting ones refused —, and Shutdown must return.
func execServerShutWait(M, waiters int) string {
	srv := server.New([]server.Method{{
		Method: srvMethod,
		Impl: func(ctx context.Context, call *server.Call) error {
			call.Ack()
			<-ctx.Done()
			return nil
		},
	}}, nil, nil, &server.Policy{MaxConcurrentCalls: M})
	recv := func(ret capnp.Returner) capnp.Recv {
		_, seg, _ := capnp.NewMessage(capnp.SingleSegment(nil))
		args, _ := capnp.NewStruct(seg, capnp.ObjectSize{DataSize: 8})
		return capnp.Recv{Method: srvMethod, Args: args, ReleaseArgs: func() {}, Returner: ret}
	}
	var running, waiting []*gateReturner
	for i := 0; i < M; i++ {
		g := newGateReturner(nil)
		running = append(running, g)
		ok := make(chan struct{})
		go func() { srv.Recv(context.Background(), recv(g)); close(ok) }()
		select {
		case <-ok:
		case <-time.After(3 * time.Second):
			return "call-not-started"
		}
	}
	for i := 0; i < waiters; i++ {
		g := newGateReturner(nil)
		waiting = append(waiting, g)
		go srv.Recv(context.Background(), recv(g))
		time.Sleep(15 * time.Millisecond)
	}
	shut := make(chan struct{})
	go func() { srv.Shutdown(); close(shut) }()
	res := ""
	note := func(s string) {
		if res == "" {
			res = s
		}
	}
	check := func(gs []*gateReturner, what string, refused bool) {
		for i, g := range gs {
			select {
			case <-g.done:
			case <-time.After(3 * time.Second):
				note(what + "-" + strconv.Itoa(i) + "-never-completes")
				continue
			}
			if n := atomic.LoadInt32(&g.returns); n != 1 {
				note(what + "-returned-" + strconv.Itoa(int(n)) + "-times")
			}
			if refused && g.err == nil {
				note(what + "-ran-after-shutdown")
			}
		}
	}
	check(running, "running-call", false)
	check(waiting, "waiting-call", true)
	select {
	case <-shut:
	case <-time.After(3 * time.Second):
		note("shutdown-never-returns")
	}
	if res == "" {
		return "ok"
	}
	return res
}

func execServer(f []string) string {
	switch f[0] {
	case "shutwait":
		if len(f) != 3 {
			return "bad-op"
		}
		m, _ := strconv.Atoi(f[1])
		w, _ := strconv.Atoi(f[2])
		return execServerShutWait(m, w)
	case "failwindow":
		if len(f) != 2 {
			return "bad-op"
		}
		n, _ := strconv.Atoi(f[1])
		return execServerFailWindow(n)
	case "script":
		if len(f) != 4 {
			return "bad-op"
		}
		M, _ := strconv.Atoi(f[1])
		Q, _ := strconv.Atoi(f[2])
		return execServerScript(M, Q, f[3])
	case "stress":
		if len(f) != 6 {
			return "bad-op"
		}
		M, _ := strconv.Atoi(f[1])
		c, _ := strconv.Atoi(f[2])
		p, _ := strconv.Atoi(f[3])
		seed, _ := strconv.ParseUint(f[4], 10, 64)
		return execServerStress(M, c, p, seed, f[5] == "1")
	}
	return "bad-op"
}

func genC12(rec *lib.Rec, r *lib.Rng, thorough bool) {
	if Shard == 0 {
		for q := 0; q <= 3; q++ {
			rec.Op("S", "server failwindow "+strconv.Itoa(q), true)
			rec.Op("S", "server shutwait "+strconv.Itoa(1+r.Intn(3))+" "+strconv.Itoa(1+r.Intn(4)), true)
		}
	}
	n := 240
	if thorough {
		n = 6000
	}
	n /= Shards
	for i := 0; i < n; i++ {
		M := r.Pick(1, 1, 2, 3)
		Q := r.Pick(1, 2, 3)
		var ops []string
		made := 0
		pick := func() string {
			if made > 0 && r.Intn(3) > 0 {
				return strconv.Itoa(made - 1 - r.Intn(min(made, 2))) // mostly the newest calls
			}
			return strconv.Itoa(r.Intn(made + 1))
		}
		if i%3 == 0 {
			// directed prefix: fill the server with acknowledged calls, then one more that has to wait for a slot
			for j := 0; j < M; j++ {
				ops = append(ops, "c", "a"+strconv.Itoa(j))
				made++
				for r.Intn(3) == 0 {
					ops = append(ops, "p"+strconv.Itoa(j))
				}
			}
			if r.Intn(4) > 0 {
				ops = append(ops, "c")
				made++
			}
		}
		if i%3 == 1 {
			// directed prefix: a call returns while pipelined calls are queued on it and its result capability is slow
			// to accept the first of them; more pipelined calls arrive while the queue drains
			ops = append(ops, "c", "a0")
			made++
			for j := 0; j < 1+r.Intn(3); j++ {
				ops = append(ops, "p0")
			}
			ops = append(ops, "h0")
			if r.Intn(4) == 0 {
				ops = append(ops, "c")
				made++
			}
			ops = append(ops, "r0", "p0")
			if r.Intn(2) == 0 {
				ops = append(ops, "p0")
			}
		}
		k := 4 + r.Intn(12)
		for j := 0; j < k; j++ {
			t := r.Intn(24)
			switch {
			case made == 0 || t < 6:
				ops = append(ops, "c")
				made++
			case t < 9:
				ops = append(ops, "a"+pick())
			case t < 12:
				ops = append(ops, "r"+pick())
			case t < 13:
				ops = append(ops, "f"+pick())
			case t < 14:
				ops = append(ops, "x"+pick())
			case t < 18:
				ops = append(ops, "p"+pick())
			case t < 20:
				ops = append(ops, "h"+pick())
			case t < 22:
				ops = append(ops, "t"+pick())
			default:
				ops = append(ops, "s")
			}
		}
		rec.Op("M", "server script "+strconv.Itoa(M)+" "+strconv.Itoa(Q)+" "+strings.Join(ops, ","), true)
		if i%12 == 0 {
			rec.Op("S", fmt.Sprintf("server stress %d %d %d %d %d", r.Pick(1, 2, 3), r.Pick(2, 4, 8), r.Pick(5, 20, 60), r.Intn(1000000), r.Intn(2)), true)
			rec.Count("stress")
		}
	}
}
