package main

import (
	"capnproto.org/go/capnp/v3/verifx"
)

// aliases for the aircraftlib re-exports of the verif hook package
var (
	verifxNewRootZ         = verifx.NewRootZ
	verifxNewRootDefaults  = verifx.NewRootDefaults
	verifxNewRootPlaneBase = verifx.NewRootPlaneBase
)

const (
	verifxZTypeID         = verifx.ZTypeID
	verifxDefaultsTypeID  = verifx.DefaultsTypeID
	verifxPlaneBaseTypeID = verifx.PlaneBaseTypeID
)
