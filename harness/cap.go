package main

import (
	"context"
	"strconv"
	"strings"
	"sync"
	"sync/atomic"
	"time"

	capnp "capnproto.org/go/capnp/v3"
	"verifharness/lib"
)

// recHook is an instrumented ClientHook: it counts Shutdown calls and notices use after shutdown.
type recHook struct {
	shutdowns int32
	active    int32 // Send/Recv in progress
	useAfter  int32
	badShut   int32         // Shutdown while a call is in progress
	entered   int32         // calls that reached the hook
	gate      chan struct{} // when non-nil, a Send marked "blocking" waits here until the script ends the call
}

type blockingKey struct{}

func (h *recHook) Send(ctx context.Context, s capnp.Send) (*capnp.Answer, capnp.ReleaseFunc) {
	atomic.AddInt32(&h.active, 1)
	if atomic.LoadInt32(&h.shutdowns) > 0 {
		atomic.StoreInt32(&h.useAfter, 1)
	}
	atomic.AddInt32(&h.entered, 1)
	if h.gate != nil && ctx.Value(blockingKey{}) != nil {
		<-h.gate
	}
	atomic.AddInt32(&h.active, -1)
	return capnp.ErrorAnswer(s.Method, errMark), func() {}
}

func (h *recHook) Recv(ctx context.Context, r capnp.Recv) capnp.PipelineCaller {
	atomic.AddInt32(&h.active, 1)
	if atomic.LoadInt32(&h.shutdowns) > 0 {
		atomic.StoreInt32(&h.useAfter, 1)
	}
	atomic.AddInt32(&h.entered, 1)
	if h.gate != nil && ctx.Value(blockingKey{}) != nil {
		<-h.gate
	}
	atomic.AddInt32(&h.active, -1)
	r.Reject(errMark)
	return nil
}

// nopReturner is the Returner of calls made through RecvCall by the harness
type nopReturner struct{}

func (nopReturner) AllocResults(sz capnp.ObjectSize) (capnp.Struct, error) {
	_, seg, err := capnp.NewMessage(capnp.SingleSegment(nil))
	if err != nil {
		return capnp.Struct{}, err
	}
	return capnp.NewStruct(seg, sz)
}
func (nopReturner) Return(error) {}

func (h *recHook) Brand() capnp.Brand { return capnp.Brand{Value: h} }

func (h *recHook) Shutdown() {
	if atomic.LoadInt32(&h.active) > 0 {
		atomic.StoreInt32(&h.badShut, 1)
	}
	atomic.AddInt32(&h.shutdowns, 1)
}

type markErr struct{}

func (markErr) Error() string { return "recHook" }

var errMark = markErr{}

// callResult classifies what a call through c produced.
func callResult(c *capnp.Client) string {
	ans, rel := c.SendCall(context.Background(), capnp.Send{})
	defer rel()
	_, err := ans.Struct()
	switch {
	case err == nil:
		return "ok"
	case strings.Contains(err.Error(), "recHook"):
		return "hook"
	case strings.Contains(err.Error(), "null client"):
		return "null"
	case strings.Contains(err.Error(), "released client"):
		return "released"
	}
	return "err"
}

// execCapScript: "cap script <op,op,...>": a sequential script over the handles of a promised client p and
// of the capability t it may be fulfilled with.  After every op the Shutdown counters are reported.
func execCapScript(script string) string {
	ht, hp := &recHook{gate: make(chan struct{})}, &recHook{gate: make(chan struct{})}
	type flight struct {
		h    *recHook
		done chan struct{}
	}
	var inflight []flight
	var weak *capnp.WeakClient
	var staleT *capnp.Client   // the T handle released most recently
	var staleP *capnp.Client   // the P handle released most recently
	var parked []chan struct{} // Release / Fulfill calls that did not return yet
	// settle waits for background operations that can finish to finish
	settle := func() {
		time.Sleep(2 * time.Millisecond)
		for i := 0; i < len(parked); {
			select {
			case <-parked[i]:
				parked = append(parked[:i], parked[i+1:]...)
			default:
				i++
			}
		}
	}
	// bg runs f; if it does not return promptly it is remembered as parked
	bg := func(f func()) string {
		ch := make(chan struct{})
		go func() { f(); close(ch) }()
		select {
		case <-ch:
			return "-"
		case <-time.After(30 * time.Millisecond):
			parked = append(parked, ch)
			return "parked"
		}
	}
	nbegun := 0
	begin := func(c *capnp.Client, h *recHook) string {
		before := atomic.LoadInt32(&ht.entered) + atomic.LoadInt32(&hp.entered)
		fl := flight{done: make(chan struct{})}
		viaRecv := nbegun%2 == 1 // every other call in flight is an incoming call (RecvCall), as the RPC layer delivers them
		nbegun++
		go func() {
			ctx := context.WithValue(context.Background(), blockingKey{}, true)
			if viaRecv {
				c.RecvCall(ctx, capnp.Recv{ReleaseArgs: func() {}, Returner: nopReturner{}})
			} else {
				c.SendCall(ctx, capnp.Send{})
			}
			close(fl.done)
		}()
		for i := 0; i < 2000; i++ {
			if atomic.LoadInt32(&ht.entered)+atomic.LoadInt32(&hp.entered) > before {
				break
			}
			select {
			case <-fl.done: // error answer: the call never reached a hook
				return "nohook"
			default:
			}
			time.Sleep(50 * time.Microsecond)
		}
		fl.h = h
		inflight = append(inflight, fl)
		return "-"
	}
	ct := capnp.NewClient(ht)
	cp, prom := capnp.NewPromisedClient(hp)
	poolT := []*capnp.Client{ct}
	poolP := []*capnp.Client{cp}
	resolved, toNil, toErr := false, false, false // toErr: fulfilled with its own client: handles refer to an error client
	var out []string
	pop := func(pool *[]*capnp.Client) *capnp.Client {
		c := (*pool)[len(*pool)-1]
		*pool = (*pool)[:len(*pool)-1]
		return c
	}
	// after resolution a handle that is used moves to t's pool (its c.h now is t), or dies (nil)
	moved := func(c *capnp.Client) {
		if toNil {
			return
		}
		poolT = append(poolT, c)
	}
	for _, op := range strings.Split(script, ",") {
		res := "-"
		switch op {
		case "addT":
			if len(poolT) == 0 {
				res = "skip"
				break
			}
			poolT = append(poolT, poolT[len(poolT)-1].AddRef())
		case "addP":
			if len(poolP) == 0 {
				res = "skip"
				break
			}
			if !resolved || toErr {
				poolP = append(poolP, poolP[len(poolP)-1].AddRef())
				break
			}
			c := pop(&poolP)
			d := c.AddRef()
			if d == nil {
				res = "nil"
			} else {
				poolT = append(poolT, d)
			}
			moved(c)
		case "relT":
			if len(poolT) == 0 {
				res = "skip"
				break
			}
			c := pop(&poolT)
			staleT = c
			res = bg(c.Release)
		case "staleT":
			// a released handle is dead whatever other handles exist: not valid, calls through it are refused
			if staleT == nil {
				res = "skip"
				break
			}
			before := atomic.LoadInt32(&ht.entered) + atomic.LoadInt32(&hp.entered)
			res = callResult(staleT)
			if staleT.IsValid() {
				res += "!released-handle-still-valid"
			}
			if atomic.LoadInt32(&ht.entered)+atomic.LoadInt32(&hp.entered) != before {
				res += "!call-through-released-handle-delivered"
			}
		case "staleP":
			// … the same for a released handle of the promised client, whatever the promise resolved to (a capability,
			// null, an error): operations on it return, none is delivered
			if staleP == nil {
				res = "skip"
				break
			}
			before := atomic.LoadInt32(&ht.entered) + atomic.LoadInt32(&hp.entered)
			done := make(chan string, 1)
			sp := staleP
			go func() {
				r := callResult(sp)
				if sp.IsValid() {
					r += "!released-handle-still-valid"
				}
				done <- r
			}()
			select {
			case r := <-done:
				switch {
				case strings.Contains(r, "!"):
					res = r
				case r == "released" || r == "null":
					res = "dead"
				default:
					res = r + "!call-through-released-handle"
				}
			case <-time.After(2 * time.Second):
				res = "!operation-on-released-handle-blocked"
			}
			if atomic.LoadInt32(&ht.entered)+atomic.LoadInt32(&hp.entered) != before {
				res += "!call-through-released-handle-delivered"
			}
		case "relP":
			if len(poolP) == 0 {
				res = "skip"
				break
			}
			c := pop(&poolP)
			staleP = c
			res = bg(c.Release)
		case "beginT":
			if len(poolT) == 0 {
				res = "skip"
				break
			}
			res = begin(poolT[len(poolT)-1], ht)
		case "beginP":
			if len(poolP) == 0 || resolved { // (after resolution the call would go to t: use beginT)
				res = "skip"
				break
			}
			res = begin(poolP[len(poolP)-1], hp)
		case "end":
			if len(inflight) == 0 {
				res = "skip"
				break
			}
			fl := inflight[0]
			inflight = inflight[1:]
			fl.h.gate <- struct{}{}
			<-fl.done
		case "mkweakT":
			if len(poolT) == 0 {
				res = "skip"
				break
			}
			weak = poolT[len(poolT)-1].WeakRef()
		case "upT":
			if weak == nil {
				res = "skip"
				break
			}
			if c, ok := weak.AddRef(); ok && c != nil {
				poolT = append(poolT, c)
			} else {
				res = "gone"
			}
		case "callT":
			if len(poolT) == 0 {
				res = "skip"
				break
			}
			res = callResult(poolT[len(poolT)-1])
		case "callP":
			if len(poolP) == 0 {
				res = "skip"
				break
			}
			if !resolved || toErr {
				res = callResult(poolP[len(poolP)-1])
				break
			}
			c := pop(&poolP)
			res = callResult(c)
			moved(c)
		case "weakT":
			if len(poolT) == 0 {
				res = "skip"
				break
			}
			w := poolT[len(poolT)-1].WeakRef()
			if c, ok := w.AddRef(); ok && c != nil {
				poolT = append(poolT, c)
			} else {
				res = "gone"
			}
		case "fulfill":
			if resolved || len(poolT) == 0 {
				res = "skip"
				break
			}
			tc := poolT[len(poolT)-1]
			res = bg(func() { prom.Fulfill(tc) })
			resolved = true
		case "fulfillSelf":
			if resolved || len(poolP) == 0 {
				res = "skip"
				break
			}
			pc := poolP[len(poolP)-1]
			res = bg(func() { prom.Fulfill(pc) })
			resolved, toErr = true, true
		case "fulfillNil":
			if resolved {
				res = "skip"
				break
			}
			res = bg(func() { prom.Fulfill(nil) })
			resolved, toNil = true, true
		default:
			res = "bad-op"
		}
		settle()
		out = append(out, op+":"+res+":t"+strconv.Itoa(int(atomic.LoadInt32(&ht.shutdowns)))+"p"+strconv.Itoa(int(atomic.LoadInt32(&hp.shutdowns))))
	}
	// let everything finish: end the calls still in flight
	for _, fl := range inflight {
		fl.h.gate <- struct{}{}
		<-fl.done
	}
	for _, ch := range parked {
		select {
		case <-ch:
		case <-time.After(2 * time.Second):
			out = append(out, "never-returned")
		}
	}
	if ht.useAfter+hp.useAfter+ht.badShut+hp.badShut > 0 {
		out = append(out, "use-after-shutdown")
	}
	return strings.Join(out, ";")
}

// execCapWindow replays the interleaving of Props.C10.window_violation on the implementation: Fulfill is
// parked between marking the promise resolved and handing its references to the target, while the
// promised client's only handle is released.
func execCapWindow() string {
	ht, hp := &recHook{}, &recHook{}
	ct := capnp.NewClient(ht)
	cp, prom := capnp.NewPromisedClient(hp)
	var armed int32
	parked := make(chan struct{})
	resume := make(chan struct{})
	capnp.VerifSetYield(func(string) {
		if atomic.CompareAndSwapInt32(&armed, 1, 0) {
			close(parked)
			<-resume
		}
	})
	defer capnp.VerifSetYield(nil)
	done := make(chan struct{})
	go func() {
		atomic.StoreInt32(&armed, 1)
		prom.Fulfill(ct)
		close(done)
	}()
	select {
	case <-parked:
		// Fulfill sits in the window; release the promised client's handle now
		rel := make(chan struct{})
		go func() { cp.Release(); close(rel) }()
		select {
		case <-rel:
		case <-time.After(300 * time.Millisecond): // the repaired code makes the release wait for Fulfill's lock
		}
		early := atomic.LoadInt32(&ht.shutdowns)
		close(resume)
		<-done
		<-rel
		if early > 0 {
			return "violation: target shut down while a client still refers to it"
		}
	case <-done:
		// no scheduling point was reached inside Fulfill (the references were handed over under the lock)
		atomic.StoreInt32(&armed, 0)
		cp.Release()
	}
	if atomic.LoadInt32(&ht.shutdowns) != 0 {
		return "violation: target shut down with a live handle"
	}
	ct.Release()
	if atomic.LoadInt32(&ht.shutdowns) != 1 || atomic.LoadInt32(&hp.shutdowns) != 1 {
		return "violation: shutdown counts t=" + strconv.Itoa(int(ht.shutdowns)) + " p=" + strconv.Itoa(int(hp.shutdowns))
	}
	return "ok"
}

// execCapStress: "cap stress <seed> <goroutines> <ops>": real goroutines hammer a pool of handles of one promised
// client and its target; afterwards everything is released.  Oracle: each hook shut down exactly once, never
// used after shutdown, no panic.
func execCapStress(t []string) string {
	seed, _ := strconv.ParseUint(t[0], 10, 64)
	k, _ := strconv.Atoi(t[1])
	nops, _ := strconv.Atoi(t[2])
	ht, hp := &recHook{}, &recHook{}
	ct := capnp.NewClient(ht)
	cp, prom := capnp.NewPromisedClient(hp)
	var wg sync.WaitGroup
	var fulfilled int32
	panicked := int32(0)
	for g := 0; g < k; g++ {
		wg.Add(1)
		// every goroutine owns its own references (one on each side) and works only with those
		myT, myP := ct.AddRef(), cp.AddRef()
		go func(g int, myT, myP *capnp.Client) {
			defer wg.Done()
			defer func() {
				if recover() != nil {
					atomic.StoreInt32(&panicked, 1)
				}
			}()
			r := lib.NewRng(seed).Fork(uint64(g))
			own := []*capnp.Client{myT, myP}
			for i := 0; i < nops; i++ {
				c := own[r.Intn(len(own))]
				switch r.Intn(6) {
				case 0:
					if d := c.AddRef(); d != nil {
						own = append(own, d)
					}
				case 1:
					if len(own) > 2 {
						j := 2 + r.Intn(len(own)-2)
						own[j].Release()
						own = append(own[:j], own[j+1:]...)
					}
				case 2, 3:
					callResult(c)
				case 4:
					if w := c.WeakRef(); w != nil {
						if d, ok := w.AddRef(); ok && d != nil {
							own = append(own, d)
						}
					}
				case 5:
					if g == 0 && atomic.CompareAndSwapInt32(&fulfilled, 0, 1) {
						prom.Fulfill(myT)
					}
				}
			}
			for _, c := range own {
				c.Release()
			}
		}(g, myT, myP)
	}
	wg.Wait()
	if atomic.CompareAndSwapInt32(&fulfilled, 0, 1) {
		prom.Fulfill(ct)
	}
	ct.Release()
	cp.Release()
	switch {
	case panicked != 0:
		return "panic"
	case ht.shutdowns != 1 || hp.shutdowns != 1:
		return "shutdowns t=" + strconv.Itoa(int(ht.shutdowns)) + " p=" + strconv.Itoa(int(hp.shutdowns))
	case ht.useAfter+hp.useAfter != 0:
		return "use-after-shutdown"
	case ht.badShut+hp.badShut != 0:
		return "shutdown-during-call"
	}
	return "ok"
}

func execCap(t []string) string {
	switch {
	case len(t) == 2 && t[0] == "script":
		return execCapScript(t[1])
	case len(t) == 1 && t[0] == "window":
		return execCapWindow()
	case len(t) == 1 && t[0] == "chain":
		return execCapChain()
	case len(t) == 4 && t[0] == "stress":
		return execCapStress(t[1:])
	}
	return "bad-op"
}

var capOps = []string{"addT", "addP", "relT", "relP", "callT", "callP", "weakT", "fulfill", "fulfillNil", "fulfillSelf", "staleT", "staleP",
	"beginT", "beginP", "end", "end", "mkweakT", "upT"}

// execCapChain: a two-level promise chain, fulfilled inside-out with no operation on the middle client in
// between; the references of the outer promise must end up on the capability at the end of the chain.
func execCapChain() string {
	hb, h1, h2 := &recHook{}, &recHook{}, &recHook{}
	cb := capnp.NewClient(hb)
	c2, pr2 := capnp.NewPromisedClient(h2)
	c1, pr1 := capnp.NewPromisedClient(h1)
	pr2.Fulfill(cb)
	pr1.Fulfill(c2)
	c1.Release()
	c2.Release()
	if n := atomic.LoadInt32(&hb.shutdowns); n != 0 {
		return "violation: end of chain shut down " + strconv.Itoa(int(n)) + "x while a client still refers to it"
	}
	if callResult(cb) != "hook" {
		return "violation: call on the remaining client did not reach the capability"
	}
	cb.Release()
	if hb.shutdowns != 1 || h1.shutdowns != 1 || h2.shutdowns != 1 {
		return "violation: shutdown counts " + strconv.Itoa(int(hb.shutdowns)) + "," + strconv.Itoa(int(h1.shutdowns)) + "," + strconv.Itoa(int(h2.shutdowns))
	}
	return "ok"
}

func genC10(rec *lib.Rec, r *lib.Rng, thorough bool) {
	if Shard == 0 {
		rec.Op("S", "cap window", true)
		rec.Op("S", "cap chain", true)
		// directed scripts on the side conditions of the invariant: last reference released while calls are in
		// flight (one, two), weak upgrade in that window, Fulfill with calls in flight, release after Fulfill(nil)
		for _, sc := range []string{
			"mkweakT,beginT,relT,upT,end,relT",
			"mkweakT,beginT,beginT,relT,end,upT,end,upT",
			"beginT,beginT,relT,end,end",
			"beginP,beginP,relP,end,end,relT",
			"beginP,fulfill,end,relP,relT",
			"beginP,beginP,fulfill,end,relP,end,relT,relT",
			"addP,beginP,fulfillNil,relP,end,relP,relT",
			"beginP,relP,fulfill,end,relT",
			"addP,fulfill,relP,relP,mkweakT,relT,upT",
			"mkweakT,relT,upT,fulfill",
			"addP,fulfillSelf,callP,addP,relP,relP,relP,relT",
			"beginP,fulfillSelf,end,callP,relP,relT",
			"fulfillSelf,relP,relT",
			"fulfillNil,relP,staleP,relT",
			"addP,fulfillNil,relP,staleP,callP,relP,staleP",
			"addP,fulfill,relP,staleP,relP,staleP,relT",
			"addP,relP,staleP,fulfillSelf,relP,staleP",
		} {
			rec.Op("M", "cap script "+sc, true)
		}
	}
	n := 800
	if thorough {
		n = 60000
	}
	n /= Shards
	for i := 0; i < n; i++ {
		k := 2 + r.Intn(14)
		ops := make([]string, k)
		for j := range ops {
			ops[j] = capOps[r.Intn(len(capOps))]
			if r.Chance(1, 3) { // bias towards releasing, so that shutdowns happen
				ops[j] = r.PickS("relT", "relP")
			}
		}
		rec.Op("M", "cap script "+strings.Join(ops, ","), true)
		if i%25 == 0 {
			rec.Op("S", "cap stress "+strconv.Itoa(r.Intn(1000000))+" "+strconv.Itoa(r.Pick(2, 4, 8, 16))+" "+strconv.Itoa(r.Pick(20, 100, 400)), true)
			rec.Count("stress")
		}
	}
}
