module verifharness

go 1.16

require capnproto.org/go/capnp/v3 v3.0.0

replace capnproto.org/go/capnp/v3 => /repo
