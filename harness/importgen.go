package main

import (
	"strconv"
	"strings"

	"verifharness/lib"
)

// ---- C07, the generation race: "rpcgen sched <step,step,...>" ----
//
// One import id (1) on a real Conn, driven as Model.ImportGen:
//
//	r      a descriptor for the import arrives (a Bootstrap answered with senderHosted 1): a new handle
//	d<h>   handle h is released now
//	s<h>   a call on handle h is started and parks in PlaceArgs, then handle h is released asynchronously: the client's
//	       last Release (if this was its last handle) waits for the call, its Shutdown is delayed  (one at a time)
//	g      the parked call proceeds (and is answered): the delayed Shutdown runs
//
// Output per step: the import table entry (i1=<wire references>) after the step and the Release messages sent in it.
func execImportGen(sched string) string {
	var ops []string
	type span struct {
		step     string
		from, to int
	}
	var spans []span
	handles := 0
	for _, st := range strings.Split(sched, ",") {
		from := len(ops)
		switch {
		case st == "r":
			ops = append(ops, "lB", "pRQ0:boot:s1")
			handles++
		case strings.HasPrefix(st, "d"):
			ops = append(ops, "lr"+st[1:]) // (asynchronous: the last Release of a client waits for a call in flight)
		case strings.HasPrefix(st, "s"):
			ops = append(ops, "lS"+st[1:]+":0", "lr"+st[1:])
		case st == "g":
			ops = append(ops, "fG", "pRQ0:ok")
		default:
			return "bad-op"
		}
		spans = append(spans, span{st, from, len(ops)})
	}
	trace := execRPCScript(strings.Join(ops, ","), false)
	steps := strings.Split(trace, ";")
	var out []string
	for _, sp := range spans {
		var rels []string
		table := ""
		for k := sp.from; k < sp.to && k < len(steps); k++ {
			for _, tok := range strings.Fields(steps[k]) {
				if j := strings.Index(tok, ">Rel(1,"); j >= 0 {
					rels = append(rels, "Rel"+strings.TrimSuffix(tok[j+7:], ")"))
				}
				if j := strings.Index(tok, "T["); j >= 0 {
					p := strings.Split(tok[j:], "|")
					if len(p) > 1 {
						table = p[1]
					}
				}
			}
		}
		out = append(out, sp.step+":"+table+":"+strings.Join(rels, "+"))
	}
	if strings.Contains(trace, "!") || strings.Contains(trace, "blocked") || strings.Contains(trace, "#done") {
		out = append(out, "!trace:"+trace)
	}
	return strings.Join(out, ";")
}

// importGenSchedule: descriptors, releases, one delayed Shutdown at a time
func importGenSchedule(r *lib.Rng, n int) string {
	var st []string
	var live []int // handles not yet released
	handles := 0
	stalled := false
	for len(st) < n {
		switch t := r.Intn(10); {
		case t < 4 || len(live) == 0 && !stalled:
			st = append(st, "r")
			live = append(live, handles)
			handles++
		case t < 7 && len(live) > 0:
			i := r.Intn(len(live))
			st = append(st, "d"+strconv.Itoa(live[i]))
			live = append(live[:i], live[i+1:]...)
		case t < 9 && len(live) > 0 && !stalled:
			i := r.Intn(len(live))
			st = append(st, "s"+strconv.Itoa(live[i]))
			live = append(live[:i], live[i+1:]...)
			stalled = true
		case stalled:
			st = append(st, "g")
			stalled = false
		}
	}
	if stalled {
		st = append(st, "g")
	}
	for _, h := range live {
		st = append(st, "d"+strconv.Itoa(h))
	}
	return strings.Join(st, ",")
}
